#!/usr/bin/env python3
"""Driver for the /verif property checks (see DESIGN.md section 2).

  ./check.py run <ID> [--tier quick|thorough]     run one property's check
  ./check.py replay <ID> <replay.json>            re-run a saved failing case (no rapid)
  ./check.py setup                                build everything once (warms the Go build cache)
  ./check.py all [--tier ...]                     run every property (used while developing)

Exit codes of `run`: 0 property held on everything explored; 1 violation (a line
"VIOLATION property=<id> replay=<path>" is printed); 2 inconclusive (harness build failure
against a changed tree, time-out, killed worker, starved mandatory class).
Env: VERIF_SEED (int), VERIF_TIER, VERIF_REPO (override the tree under test; mutant runner only).
"""
import json, os, re, resource, shutil, subprocess, sys, time, glob, concurrent.futures

ROOT = os.path.dirname(os.path.abspath(__file__))
HARNESS = os.path.join(ROOT, "harness")
BUILD = os.path.join(ROOT, "build")
REPO = os.environ.get("VERIF_REPO", "/repo")
RAPID_SUM = [
    "pgregory.net/rapid v1.3.0 h1:vBvO0VSqti75J1jjYqpgPNBLKMd1+gxa9fYo7vk/Exc=",
    "pgregory.net/rapid v1.3.0/go.mod h1:dPlE4OBBxgXPqkP79flB6sJL1dx5azpI7HQ9MY9Z7uk=",
]
NCPU = os.cpu_count() or 4

sys.path.insert(0, ROOT)
from checks_config import PROPS  # noqa: E402


def goenv():
    e = dict(os.environ)
    e.update(GOFLAGS="-mod=mod", GOPROXY="off", GOSUMDB="off", GOTOOLCHAIN="local", CGO_ENABLED=e.get("CGO_ENABLED", "1"))
    return e


def log(*a):
    print(*a, flush=True)


def build_dir():
    # scratch trees get their own build dir so a mutant run cannot clobber the real one
    if REPO == "/repo":
        return BUILD
    return os.path.join(BUILD, "alt-" + re.sub(r"[^A-Za-z0-9]+", "_", REPO))


def write_modfile():
    bd = build_dir()
    os.makedirs(bd, exist_ok=True)
    src = open(os.path.join(REPO, "go.mod")).read()
    reqs = re.findall(r"^require\s*\((.*?)^\)", src, re.S | re.M)
    single = re.findall(r"^require\s+([^\s(]+\s+\S+.*)$", src, re.M)
    lines = []
    for blk in reqs:
        for ln in blk.strip().splitlines():
            ln = ln.strip()
            if ln and not ln.startswith("//"):
                lines.append(ln)
    lines += [s.strip() for s in single]
    mod = "module github.com/WICG/webpackage/go/verifh\n\ngo 1.23\n\nrequire (\n"
    mod += "\tgithub.com/WICG/webpackage v0.0.0\n\tpgregory.net/rapid v1.3.0\n"
    for ln in lines:
        mod += "\t" + ln + "\n"
    mod += ")\n\nreplace github.com/WICG/webpackage => %s\n" % REPO
    # replace directives of the repository itself (none today) are carried over
    for rp in re.findall(r"^replace\s+.*$", src, re.M):
        mod += rp + "\n"
    path = os.path.join(bd, "go.mod")
    old = open(path).read() if os.path.exists(path) else None
    if old != mod:
        open(path, "w").write(mod)
    gosum = open(os.path.join(REPO, "go.sum")).read().rstrip("\n") + "\n" + "\n".join(RAPID_SUM) + "\n"
    spath = os.path.join(bd, "go.sum")
    old = open(spath).read() if os.path.exists(spath) else None
    if old != gosum:
        open(spath, "w").write(gosum)
    return path


def build_test(pid, race=False, pkg=None):
    cfg = dict(PROPS[pid])
    if pkg:
        cfg["pkg"] = pkg  # a run spec may borrow a sub-check that lives in another property's package
    modfile = write_modfile()
    bd = build_dir()
    os.makedirs(os.path.join(bd, "bin"), exist_ok=True)
    out = os.path.join(bd, "bin", cfg["pkg"] + (".race" if race else "") + ".test")
    cmd = ["go", "test", "-c", "-vet=off", "-modfile=" + modfile, "-o", out]
    if race:
        cmd.append("-race")
    cmd.append("./" + cfg["pkg"])
    p = subprocess.run(cmd, cwd=HARNESS, env=goenv(), stdout=subprocess.PIPE, stderr=subprocess.STDOUT, text=True)
    if p.returncode != 0:
        log("BUILD FAILED (%s):\n%s" % (" ".join(cmd), p.stdout[-6000:]))
        return None
    return out


def build_cli():
    """Build the repository's command-line tools from the current tree into build/cli."""
    bd = build_dir()
    out = os.path.join(bd, "cli")
    os.makedirs(out, exist_ok=True)
    env = goenv()
    env["GOFLAGS"] = "-mod=readonly"
    cmd = ["go", "build", "-o", out + "/", "./go/bundle/cmd/...", "./go/signedexchange/cmd/..."]
    p = subprocess.run(cmd, cwd=REPO, env=env, stdout=subprocess.PIPE, stderr=subprocess.STDOUT, text=True)
    if p.returncode != 0:
        log("CLI BUILD FAILED:\n" + p.stdout[-4000:])
        return None
    return out


def limit_as(nbytes):
    def f():
        try:
            resource.setrlimit(resource.RLIMIT_AS, (nbytes, nbytes))
        except Exception:
            pass
    return f


def run_spec(pid, binpath, spec, tier, seed, rundir, clidir):
    """Runs one spec (possibly sharded). Returns list of per-process result dicts."""
    q = 0 if tier == "quick" else 1
    checks = spec.get("checks", (0, 0))[q]
    shards = spec.get("shards", (1, 1))[q]
    timeout = spec.get("timeout", (600, 3600))[q]
    fuzz = spec.get("fuzz")
    if fuzz and tier == "quick":
        return []
    if spec.get("tier_only") and spec["tier_only"] != tier:
        return []
    procs = []
    for sh in range(shards):
        tag = "%s-%d" % (spec["name"], sh)
        stats = os.path.join(rundir, "stats-%s.json" % tag)
        rdir = os.path.join(rundir, "replay-%s" % tag)
        os.makedirs(rdir, exist_ok=True)
        env = goenv()
        env.update(VERIF_STATS=stats, VERIF_REPLAY_OUT=rdir, VERIF_TIER=tier, VERIF_SEED=str(seed),
                   VERIF_SHARD=str(sh), VERIF_SHARDS=str(shards), VERIF_KNOWN=os.path.join(ROOT, "known_findings.json"),
                   VERIF_CORPUS=os.path.join(ROOT, "corpus", pid), VERIF_ROOT=ROOT, VERIF_REPO_DIR=REPO)
        if clidir:
            env["VERIF_CLI"] = clidir
        env["VERIF_TMP"] = os.path.join(rundir, "tmp-%s" % tag)
        os.makedirs(env["VERIF_TMP"], exist_ok=True)
        if spec.get("gomaxprocs"):
            env["GOMAXPROCS"] = str(spec["gomaxprocs"])
        args = [binpath, "-test.v", "-test.timeout=%ds" % (timeout + 60)]
        if fuzz:
            ftime = spec.get("fuzztime", 60)
            args += ["-test.run=^$", "-test.fuzz=^%s$" % fuzz, "-test.fuzztime=%ds" % ftime,
                     "-test.fuzzcachedir=" + os.path.join(build_dir(), "fuzzcache", pid, fuzz),
                     "-test.parallel=%d" % spec.get("fuzzworkers", NCPU)]
        else:
            args += ["-test.run=" + spec["run"]]
            import zlib
            s = (seed * 1000003 + sh * 7919 + zlib.crc32(spec["name"].encode()) * 31 + 1) % (2**63 - 1) or 1
            args += ["-rapid.seed=%d" % s, "-rapid.nofailfile", "-rapid.shrinktime=%ds" % spec.get("shrinktime", 20)]
            if checks:
                args += ["-rapid.checks=%d" % checks]
        logf = open(os.path.join(rundir, "log-%s.txt" % tag), "w")
        pre = limit_as(spec["mem_gb"] << 30) if spec.get("mem_gb") else None
        p = subprocess.Popen(args, cwd=rundir, env=env, stdout=logf, stderr=subprocess.STDOUT, preexec_fn=pre)
        procs.append(dict(p=p, tag=tag, stats=stats, rdir=rdir, log=logf.name, timeout=timeout, checks=checks, spec=spec, t0=time.time()))
    return procs


def wait_procs(procs):
    for pr in procs:
        p = pr["p"]
        left = pr["timeout"] + 90 - (time.time() - pr["t0"])
        try:
            p.wait(timeout=max(1, left))
            pr["rc"] = p.returncode
            pr["timed_out"] = False
        except subprocess.TimeoutExpired:
            p.kill()
            p.wait()
            pr["rc"] = -9
            pr["timed_out"] = True
        pr["wall"] = time.time() - pr["t0"]


def confirm_alone(pr, inflight, clidir):
    """Re-runs an in-flight case alone (no rapid, idle process). True = the property held on it."""
    rdir = pr["rdir"] + "-alone"
    shutil.rmtree(rdir, ignore_errors=True)
    os.makedirs(os.path.join(rdir, "tmp"), exist_ok=True)
    env = goenv()
    env.update(VERIF_REPLAY_IN=os.path.abspath(inflight), VERIF_TIER="quick", VERIF_SEED="1", VERIF_KNOWN=os.path.join(ROOT, "known_findings.json"),
               VERIF_ROOT=ROOT, VERIF_TMP=os.path.join(rdir, "tmp"), VERIF_REPO_DIR=REPO)
    if clidir:
        env["VERIF_CLI"] = clidir
    try:
        p = subprocess.run([pr["p"].args[0], "-test.v", "-test.run=^TestReplay$", "-test.timeout=300s"], cwd=rdir, env=env,
                           stdout=subprocess.PIPE, stderr=subprocess.STDOUT, text=True, timeout=400)
    except subprocess.TimeoutExpired:
        return False
    ok = p.returncode == 0 and "VERIF-VIOLATION" not in p.stdout
    log("in-flight case of %s at its deadline, re-run alone: %s" % (pr["tag"], "holds (deadline = load, inconclusive)" if ok else "fails"))
    return ok


def load_known():
    try:
        return json.load(open(os.path.join(ROOT, "known_findings.json"))).get("findings", [])
    except Exception:
        return []


def merge_stats(procs):
    subs = {}
    for pr in procs:
        try:
            st = json.load(open(pr["stats"]))
        except Exception:
            continue
        for name, s in st.items():
            d = subs.setdefault(name, dict(evaluations=0, skipped=0, nontrivial_total=0, distinct_counted=0, exhaustive=False,
                                           space="", classes={}, samples=[], violations=0, known={}, fps=set(), shards=0, exh_votes=[]))
            d["evaluations"] += s.get("evaluations", 0)
            d["skipped"] += s.get("skipped", 0)
            d["nontrivial_total"] += s.get("nontrivial_total", 0)
            d["distinct_counted"] += s.get("distinct_counted", 0)
            d["violations"] += s.get("violations", 0)
            d["exh_votes"].append(bool(s.get("exhaustive")))
            if s.get("space"):
                d["space"] = s["space"]
            for k, v in (s.get("classes") or {}).items():
                d["classes"][k] = d["classes"].get(k, 0) + v
            for k, v in (s.get("known") or {}).items():
                d["known"][k] = d["known"].get(k, 0) + v
            for x in s.get("samples") or []:
                if len(d["samples"]) < 6:
                    d["samples"].append(x)
            d["fps"].update(s.get("fingerprints") or [])
            d["shards"] += 1
    for d in subs.values():
        d["exhaustive"] = bool(d["exh_votes"]) and all(d["exh_votes"])
        del d["exh_votes"]
    return subs


def run_property(pid, tier, seed):
    t0 = time.time()
    cfg = PROPS[pid]
    rundir = os.path.join(build_dir(), "run", pid)
    shutil.rmtree(rundir, ignore_errors=True)
    os.makedirs(rundir, exist_ok=True)
    evidence_path = os.path.join(ROOT, "evidence", pid + ".json")
    inconclusive = []

    bins = {}
    for s in cfg["runs"]:
        key = (s.get("pkg", cfg["pkg"]), bool(s.get("race")))
        if key not in bins:
            bins[key] = build_test(pid, race=key[1], pkg=key[0])
    clidir = None
    if cfg.get("cli"):
        clidir = build_cli()
        if clidir is None:
            inconclusive.append("cli build failed")
    if any(v is None for v in bins.values()):
        inconclusive.append("harness build failed against this tree")
        log("INCONCLUSIVE property=%s reason=build-failure" % pid)
        return 2

    # Launch specs; groups of specs run concurrently but the number of processes is bounded.
    # Ordinary specs (and their shards) run concurrently, at most max_procs processes at a
    # time; "serial" specs and native-fuzz campaigns (which use all cores themselves) run
    # alone afterwards.
    all_procs = []
    budget = cfg.get("max_procs", 2 * NCPU)
    for spec in [s for s in cfg["runs"] if not (s.get("fuzz") or s.get("serial"))]:
        while len([pr for pr in all_procs if pr["p"].poll() is None]) >= budget:
            time.sleep(0.2)
        all_procs += run_spec(pid, bins[(spec.get("pkg", cfg["pkg"]), bool(spec.get("race")))], spec, tier, seed, rundir, clidir)
    wait_procs(all_procs)
    for spec in [s for s in cfg["runs"] if (s.get("fuzz") or s.get("serial"))]:
        procs = run_spec(pid, bins[(spec.get("pkg", cfg["pkg"]), bool(spec.get("race")))], spec, tier, seed, rundir, clidir)
        wait_procs(procs)
        all_procs += procs

    violations = []   # (sub, kind, path)
    known_lines = []
    fuzz_execs = 0
    shortfalls = []
    for pr in all_procs:
        txt = open(pr["log"], errors="replace").read()
        for m in re.finditer(r"^VERIF-KNOWN-FINDING property=(\S+) key=(\S+) :: (.*)$", txt, re.M):
            known_lines.append((m.group(1), m.group(2), m.group(3)))
        for m in re.finditer(r"execs: (\d+)", txt):
            pass
        ex = re.findall(r"execs: (\d+)", txt)
        if ex and pr["spec"].get("fuzz"):
            fuzz_execs += int(ex[-1])
        files = sorted(glob.glob(os.path.join(pr["rdir"], "*.json")))
        if "WARNING: DATA RACE" in txt:
            # the race detector reports asynchronously; the replay artifact is the report itself
            # (schedule-dependent failures cannot be shrunk or replayed deterministically)
            i = txt.index("WARNING: DATA RACE")
            rp = os.path.join(pr["rdir"], "%s-race-report.json" % pid)
            json.dump({"property": pid, "sub": "concurrent", "violation": {"kind": "data-race", "msg": txt[i:i + 6000]}, "case": {"note": "race detector report; see msg"}}, open(rp, "w"), indent=1)
            files.append(rp)
        if not files and pr["rc"] != 0:
            # the process died (fatal error / OOM kill) while working on a case it had written out.
            # A process that merely ran into its overall deadline (a loaded machine) also leaves its
            # in-flight case behind: that case is re-run alone; it counts only if it fails there too
            # (the per-case watchdog inside the test, not the process deadline, is the hang oracle).
            deadline = pr["timed_out"] or "panic: test timed out" in txt
            for inf in sorted(glob.glob(os.path.join(pr["rdir"], "*.inflight"))):
                if deadline and confirm_alone(pr, inf, clidir):
                    continue
                dst = inf[:-len(".inflight")] + "-died.json"
                shutil.copyfile(inf, dst)
                files.append(dst)
        if pr["spec"].get("fuzz"):
            # native fuzz crashers without a Case file
            for cr in glob.glob(os.path.join(rundir, "testdata", "fuzz", "*", "*")):
                if not files:
                    files.append(cr)
        if files:
            os.makedirs(os.path.join(ROOT, "replays"), exist_ok=True)
            for f in files:
                base = os.path.basename(f)
                if base.endswith(".json"):
                    base = base[:-5] + "-" + pr["spec"]["name"] + ".json"
                if not base.startswith(pid + "-"):
                    base = pid + "-" + re.sub(r"^C\d\d-", "", base)  # case of a borrowed sub-check: filed under this property
                dst = os.path.join(ROOT, "replays", base)
                shutil.copyfile(f, dst)
                kind, sub = "?", "?"
                try:
                    j = json.load(open(f))
                    kind = (j.get("violation") or {}).get("kind", "?")
                    sub = j.get("sub", "?")
                except Exception:
                    pass
                violations.append((sub, kind, dst, pr["log"]))
        elif pr["rc"] != 0:
            why = "timeout" if pr["timed_out"] else "exit %s" % pr["rc"]
            inconclusive.append("%s: %s (log %s)" % (pr["tag"], why, pr["log"]))
            log("---- tail of %s ----" % pr["log"])
            log(txt[-3000:])
        if pr["checks"] and not pr["spec"].get("fuzz"):
            passed = [int(x) for x in re.findall(r"OK, passed (\d+) tests", txt)]
            for n in passed:
                if n < pr["checks"]:
                    shortfalls.append("%s: rapid passed %d of %d requested" % (pr["tag"], n, pr["checks"]))
                    if n * 2 < pr["checks"]:
                        inconclusive.append(shortfalls[-1])

    subs = merge_stats(all_procs)
    evaluations = sum(d["evaluations"] for d in subs.values())
    distinct = sum(len(d["fps"]) + d["distinct_counted"] for d in subs.values())
    samples = []
    for name in sorted(subs):
        for x in subs[name]["samples"][:3]:
            samples.append({"subcheck": name, "case": x})
    subview = {}
    for name in sorted(subs):
        d = subs[name]
        subview[name] = dict(evaluations=d["evaluations"], skipped_out_of_domain=d["skipped"],
                             distinct_nontrivial=len(d["fps"]) + d["distinct_counted"], nontrivial_total=d["nontrivial_total"],
                             exhaustive=d["exhaustive"], space=d["space"], classes=dict(sorted(d["classes"].items())),
                             known_finding_exclusions=d["known"], processes=d["shards"])
    # vacuity guard
    for (sub, cls) in cfg.get("require", []):
        if tier == "quick" and (sub, cls) in cfg.get("require_thorough_only", []):
            continue
        if subs.get(sub, {}).get("classes", {}).get(cls, 0) <= 0 and not violations:
            inconclusive.append("mandatory class %s/%s is empty (starved generator)" % (sub, cls))

    ev = dict(property_id=pid, tier=tier, seed=seed, level=cfg["level"],
              coverage=dict(evaluations=int(evaluations), distinct_nontrivial=int(distinct), rule=cfg["rule"],
                            samples=samples[:24], exhaustive=bool(subs) and all(d["exhaustive"] for d in subs.values()),
                            subchecks=subview, native_fuzz_execs=fuzz_execs, rapid_shortfalls=shortfalls,
                            processes=len(all_procs)),
              assumptions=cfg.get("assumptions", []), wall_s=round(time.time() - t0, 2), violations=len(violations),
              inconclusive=inconclusive, repo=REPO)
    if REPO == "/repo":
        os.makedirs(os.path.dirname(evidence_path), exist_ok=True)
        tmp = evidence_path + ".tmp"
        json.dump(ev, open(tmp, "w"), indent=1, default=str)
        os.replace(tmp, evidence_path)

    known = load_known()
    seen = set()
    for (p_, key, rest) in known_lines:
        if (p_, key) in seen:
            continue
        seen.add((p_, key))
        log("KNOWN-FINDING: property=%s %s" % (p_, rest))
    if violations:
        seenv = set()
        for (sub, kind, path, lg) in violations:
            if (sub, kind) in seenv:
                continue
            seenv.add((sub, kind))
            log("VIOLATION property=%s replay=%s   (sub-check %s, kind %s, log %s)" % (pid, path, sub, kind, lg))
            try:
                j = json.load(open(path))
                log("  " + ((j.get("violation") or {}).get("msg", "")[:1200]).replace("\n", "\n  "))
            except Exception:
                pass
        return 1
    if inconclusive:
        for i in inconclusive:
            log("INCONCLUSIVE property=%s %s" % (pid, i))
        return 2
    log("OK property=%s tier=%s seed=%d evaluations=%d distinct_nontrivial=%d wall=%.1fs" % (pid, tier, seed, evaluations, distinct, time.time() - t0))
    return 0


def cmd_replay(pid, path):
    cfg = PROPS[pid]
    race = all(s.get("race") for s in cfg["runs"])
    pkg = None
    try:
        owner = json.load(open(path)).get("property")
        if owner and owner != pid and owner in PROPS and any(s.get("pkg") == PROPS[owner]["pkg"] for s in cfg["runs"]):
            pkg = PROPS[owner]["pkg"]  # the case comes from a sub-check borrowed from that property's package
    except Exception:
        pass
    b = build_test(pid, race=race, pkg=pkg)
    if b is None:
        return 2
    clidir = build_cli() if cfg.get("cli") else None
    rundir = os.path.join(build_dir(), "run", pid + "-replay")
    shutil.rmtree(rundir, ignore_errors=True)
    os.makedirs(os.path.join(rundir, "tmp"), exist_ok=True)
    env = goenv()
    env.update(VERIF_REPLAY_IN=os.path.abspath(path), VERIF_TIER="quick", VERIF_SEED="1", VERIF_KNOWN=os.path.join(ROOT, "known_findings.json"),
               VERIF_ROOT=ROOT, VERIF_TMP=os.path.join(rundir, "tmp"), VERIF_REPO_DIR=REPO)
    if clidir:
        env["VERIF_CLI"] = clidir
    p = subprocess.run([b, "-test.v", "-test.run=^TestReplay$", "-test.timeout=600s"], cwd=rundir, env=env,
                       stdout=subprocess.PIPE, stderr=subprocess.STDOUT, text=True)
    out = p.stdout
    if "VERIF-VIOLATION" in out:
        log("VIOLATION property=%s replay=%s" % (pid, path))
        log(out[-3000:])
        return 1
    if p.returncode != 0:
        log(out[-3000:])
        return 2
    log("OK property=%s replay=%s: property held on the saved case" % (pid, path))
    return 0


def cmd_setup():
    rc = 0
    write_modfile()
    if build_cli() is None:
        rc = 1
    with concurrent.futures.ThreadPoolExecutor(max_workers=4) as ex:
        futs = []
        for pid, cfg in PROPS.items():
            keys = set((s.get("pkg", cfg["pkg"]), bool(s.get("race"))) for s in cfg["runs"])
            for pk, r in keys:
                futs.append(ex.submit(build_test, pid, r, pk))
        for f in futs:
            if f.result() is None:
                rc = 1
    log("setup %s" % ("ok" if rc == 0 else "FAILED"))
    return rc


def main():
    a = sys.argv[1:]
    if not a:
        print(__doc__)
        return 2
    tier = os.environ.get("VERIF_TIER", "quick")
    if "--tier" in a:
        i = a.index("--tier")
        tier = a[i + 1]
        del a[i:i + 2]
    try:
        seed = int(os.environ.get("VERIF_SEED", "1"))
    except ValueError:
        seed = 1
    if seed == 0:
        seed = 20260928
    if a[0] in ("run", "replay") and a[1] not in PROPS:
        log("INCONCLUSIVE unknown property %s" % a[1])
        return 2
    if a[0] == "run":
        return run_property(a[1], tier, seed)
    if a[0] == "replay":
        return cmd_replay(a[1], a[2])
    if a[0] == "setup":
        return cmd_setup()
    if a[0] == "all":
        worst = 0
        for pid in PROPS:
            rc = run_property(pid, tier, seed)
            worst = max(worst, rc) if rc != 1 else 1 if worst != 1 else worst
        return worst
    print(__doc__)
    return 2


if __name__ == "__main__":
    sys.exit(main())
