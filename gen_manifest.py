#!/usr/bin/env python3
"""Regenerates MANIFEST.json from checks_config.py (single source of truth for the run plans)."""
import json, os, sys
ROOT = os.path.dirname(os.path.abspath(__file__))
sys.path.insert(0, ROOT)
from checks_config import PROPS, NOT_APPLICABLE

all_ids = [json.loads(l)["id"] for l in open(os.path.join(ROOT, "properties.jsonl"))]
ready = set(open(os.path.join(ROOT, "ready.txt")).read().split())
checks = []
for pid in all_ids:
    if pid not in PROPS or pid not in ready:
        continue
    c = PROPS[pid]
    checks.append(dict(
        property_id=pid,
        quick_cmd="./check.py run %s --tier quick" % pid,
        thorough_cmd="./check.py run %s --tier thorough" % pid,
        evidence_file="/verif/evidence/%s.json" % pid,
        replay_cmd_template="./check.py replay %s {path}" % pid,
        engine="pbt-harness",
        level_claimed=dict(category=c["level"], text=c["level_text"], design_ref=c.get("design_ref", "DESIGN.md section 4, " + pid)),
        level_note=c["level_note"],
        technique=c["technique"],
    ))
na = [dict(property_id=k, reason=v) for k, v in NOT_APPLICABLE.items()]
for pid in all_ids:
    if (pid not in PROPS or pid not in ready) and pid not in NOT_APPLICABLE:
        na.append(dict(property_id=pid, reason="check not yet built in this session (work in progress; see DESIGN.md section 4 for the plan)"))
m = dict(
    version=1,
    setup_cmd="./check.py setup",
    hooks=dict(guard="verif", enable="no source hooks are needed: the harness is a separate Go module (harness/, module path nested under the repository's so that go/internal packages are importable) built with -modfile against /repo's working tree; the build tag 'verif' is reserved and unused",
               baseline_off_cmd="cd /repo && go test -mod=mod -json -vet=off -count=1 -timeout 25m ./...",
               source_commits=[], add_only=True),
    engines=[dict(name="pbt-harness", path="/verif/harness", serves_properties=[c["property_id"] for c in checks],
                  kind_free_text="Go property-based tests (pgregory.net/rapid v1.3.0), exhaustive enumeration of small finite sub-spaces, fault-position enumeration and native go fuzzing (thorough tier), each against an explicit oracle: independent reference implementations in harness/ref, round trips, metamorphic tamper relations; driven by check.py")],
    checks=checks,
    not_applicable=na,
    notes="Every check rebuilds its test binary (and, where used, the repository's CLI binaries) from /repo's current working tree on each invocation. known_findings.json lists open findings (printed as KNOWN-FINDING, excluded by construction) and fixed: records (suppress nothing). Exit 2 = inconclusive (never a violation).",
)
json.dump(m, open(os.path.join(ROOT, "MANIFEST.json"), "w"), indent=1)
print("MANIFEST.json: %d checks, %d not_applicable" % (len(checks), len(na)))
