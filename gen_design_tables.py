#!/usr/bin/env python3
"""Regenerates the generated tables of DESIGN.md (Appendix C / D) from mutants/results.json and seeded/*/meta.json."""
import glob, json, os, re
ROOT = os.path.dirname(os.path.abspath(__file__))
p = os.path.join(ROOT, "DESIGN.md")
s = open(p).read()

res = json.load(open(os.path.join(ROOT, "mutants", "results.json")))
rows = ["| mutant (mutants/<name>.diff) | passes the repo's own tests | result per check (exit, seconds) | status |", "|---|---|---|---|"]
for name in sorted(res):
    r = res[name]
    if "checks" not in r:
        continue
    cs = ", ".join("%s: exit %s, %ss" % (k, v["exit"], v["wall"]) for k, v in sorted(r["checks"].items()))
    rows.append("| %s | %s | %s | %s |" % (name, "yes" if r.get("baseline_passes") else "no (already caught by unit tests)", cs, "equivalent mutant (behaviour unchanged; kept for the record)" if "equivalent" in name else r.get("status")))
caught = sum(1 for r in res.values() if r.get("status") == "caught")
rows.append("")
rows.append("%d of %d mutants caught by at least one owning check (quick tier). A mutant listed for several properties is run against each of them." % (caught, sum(1 for r in res.values() if "checks" in r)))
_m = "<!-- BEGIN GENERATED MUTANTS -->\n" + "\n".join(rows) + "\n<!-- END GENERATED MUTANTS -->"
s = re.sub(r"<!-- BEGIN GENERATED MUTANTS -->.*<!-- END GENERATED MUTANTS -->", lambda _x: _m, s, flags=re.S)

rows = ["| seeded change | property | confirmed (demo passes without / fails with the change, repo tests pass) | caught by | what it needs to manifest |", "|---|---|---|---|---|"]
for mp in sorted(glob.glob(os.path.join(ROOT, "seeded", "*", "meta.json"))):
    m = json.load(open(mp))
    v = m.get("verification", {})
    cs = ", ".join("%s (%s, exit %s, %ss)" % (k, c.get("tier"), c.get("exit"), c.get("wall_s")) for k, c in sorted(v.get("checks", {}).items()))
    rows.append("| seeded/%s | %s | %s | %s | %s |" % (os.path.basename(os.path.dirname(mp)), m.get("property"), "yes" if v.get("confirmed") else "NO", (("not claimed: " + m["not_claimed"]) if m.get("not_claimed") else cs if v.get("caught_by") else "**missed**: " + cs) + ((" - " + m["first_result"].split(";")[0]) if m.get("first_result") else ""), str(m.get("needs_to_manifest", "")).replace("|", "/").replace("\n", " ")[:300]))
_s = "<!-- BEGIN GENERATED SEEDED -->\n" + "\n".join(rows) + "\n<!-- END GENERATED SEEDED -->"
s = re.sub(r"<!-- BEGIN GENERATED SEEDED -->.*<!-- END GENERATED SEEDED -->", lambda _x: _s, s, flags=re.S)
open(p, "w").write(s)
print("DESIGN.md tables regenerated")
