PLAN = dict(
    id="C09", pkg="c09", level="exploration",
    rule=("policy: an exchange meeting every acceptance condition, with 0, 1 or 2 conditions toggled (validity-URL origin: other scheme/host/port/sub-domain; "
          "instant at date-1/date/date+1/mid/expires-1/expires/expires+1; lifetime 604799/604800/604801/...; integrity of the other version or junk; method; "
          "stateful request header in random letter case; Content-Type absent; Cache-Control directive subsets in random case/spacing over 1-2 field values; "
          "Expires; status incl. unknown and not-cacheable-by-default codes; uncached/stateful response header in random letter case), signed AFTER the "
          "fields are set, verified directly or after write+read. grid: every single fault per version, every banned header in 3 spellings, look-alike "
          "Sub-check doors: IsUncachedHeader / IsStatefulRequestHeader / VerifyUncachedHeader against the drafts' lists for every listed name and near-miss in every single-letter case variant, canonical and raw key form, with and without values, first / middle / last among other fields. "
          "harmless names, status 100..599 x 7 freshness variants. Oracle: Verify verdict == refPolicy(parameters) in both directions. Non-trivial: "
          "all-good cases, exactly one violated condition, or a boundary instant."),
    assumptions=TRUSTED + ["Cache-Control values containing quoted-string arguments are read twice, cut at every comma (the repository's documented simplification) and with RFC 7230 quoted-strings; the storable-by-a-shared-cache condition is judged only where both readings give the same verdict, the other cases are skipped and counted as cache-control-reading-ambiguous", "'status understood by the cache' = known to net/http (the code's documented notion)",
                           "no quoted Cache-Control arguments containing commas, no no-cache=\"field\" lists (documented TODOs in the source)",
                           "origins differ unambiguously (no default-port or host-case spellings)",
                           "Content-Type / Expires are generated either absent or non-empty"],
    technique="rapid fault-toggling from an all-good base + enumerated single-fault grid; two-sided comparison with an independent policy predicate",
    level_text=("Two-sided differential test of the acceptance decision against a predicate computed only from the generation parameters (RFC 7234 section 3 and "
                "the drafts' header lists typed in from the spec text); faults are toggled from an all-good base so that accepts are ~30% of cases and every "
                "single condition is exercised alone, with an enumerated grid for the small axes."),
    level_note=NOTE_BASE,
    runs=[
        dict(name="conc", run="^(TestConcPolicy|TestConcCacheable)$", checks=(40, 2000), shards=(2, 8), timeout=(400, 3600), race=True),
        dict(name="grid", run="^(TestGrid|TestDoors|TestCorpus)$", timeout=(300, 3600)),
        dict(name="policy", run="^TestPropPolicy$", checks=(4000, 500000), shards=(1, 16), timeout=(300, 3600)),
        dict(name="cacheable", run="^TestPropCacheable$", checks=(20000, 1000000), shards=(1, 4), timeout=(300, 3600)),
    ],
    require=[("policy", "expect-accept"), ("policy", "expect-reject-1-faults"), ("policy", "expect-reject-2-faults")],
)
