// Package c09: Verify succeeds iff, besides a valid signature and payload integrity, every
// acceptance condition of the spec holds. The exchange is always signed AFTER its fields are
// set, so the signature is valid in every case and only the policy decides.
package c09

import (
	"log"
	"io"
	"bytes"
	"fmt"
	"net/http"
	"strings"
	"testing"

	"github.com/WICG/webpackage/go/signedexchange"
	"github.com/WICG/webpackage/go/signedexchange/structuredheader"
	"github.com/WICG/webpackage/go/verifh/gen"
	"github.com/WICG/webpackage/go/verifh/ref/refmice"
	"github.com/WICG/webpackage/go/verifh/ref/refsxg"
	"github.com/WICG/webpackage/go/verifh/sxgkit"
	"github.com/WICG/webpackage/go/verifh/vh"
	"pgregory.net/rapid"
)

func TestMain(m *testing.M)   { vh.Main(m) }
func TestReplay(t *testing.T) { vh.Replay(t) }
func TestCorpus(t *testing.T) { vh.Corpus(t) }

type Case struct {
	Version      string         `json:"version"`
	Fixture      int            `json:"fixture"`
	Validity     string         `json:"validity"`  // same http otherhost otherport subdomain
	Time         string         `json:"time"`      // date-1 date date+1 mid expires-1 expires expires+1
	Lifetime     int64          `json:"lifetime"`  // expires - date
	// DateShift moves the signed date away from the fixed base (2023): date = baseDate + DateShift.
	// Legal dates are any integer: before 1970, 0, around 2^31 / 2^32 seconds, the year 9999.
	DateShift int64 `json:"date_shift,omitempty"`
	Integrity    string         `json:"integrity"` // right other junk
	Method       string         `json:"method"`
	ReqHeaders   []gen.HeaderKV `json:"req_headers,omitempty"`
	ContentType  string         `json:"content_type"`  // "" = absent
	CacheControl []string       `json:"cache_control"` // header field values (nil = absent)
	ExpiresHdr   string         `json:"expires_hdr"`   // "" = absent
	Status       int            `json:"status"`
	ResHeaders   []gen.HeaderKV `json:"res_headers,omitempty"`
	ViaFile      bool           `json:"via_file"` // write + read before verifying
}

const baseDate = int64(1_700_000_000)

// Lifetimes far above 7 days at which an implementation's arithmetic may wrap: 2^31 and 2^32
// seconds, the largest number of seconds whose nanoseconds fit an int64 (9223372036) and the
// values after it, 300 / 500 / 585 / 1000 / 3000 years, 2^40, 2^50.
var extremeLifetimes = []int64{1<<31 - 1, 1 << 31, 1<<32 - 1, 1 << 32, 1<<32 + 604800, 1 << 33, 9223372036, 9223372037, 9223372036 + 604800,
	9467280000, 15778800000, 18446744073, 18446744074, 18446744073 + 604800, 31557600000, 94672800000, 1 << 40, 1 << 50}

// Dates (relative to baseDate) before 1970, at 0, around 2^31 and 2^32 seconds and at the end of the year 9999.
var extremeDateShifts = []int64{-baseDate - 315360000, -baseDate - 1, -baseDate, -baseDate + 1, 1<<31 - 1 - baseDate - 302400, 1<<31 - baseDate, 1<<32 - baseDate - 302400,
	1<<32 - baseDate, 1<<33 - baseDate, 253402300799 - 604800 - baseDate}

// Lists typed in from the drafts (draft-yasskin-http-origin-signed-responses "Uncached header
// fields" + "Stateful header fields"; impl draft "stateful request headers").
var uncached = []string{"Connection", "Keep-Alive", "Proxy-Connection", "Trailer", "Transfer-Encoding", "Upgrade",
	"Authentication-Control", "Authentication-Info", "Clear-Site-Data", "Optional-WWW-Authenticate", "Proxy-Authenticate",
	"Proxy-Authentication-Info", "Public-Key-Pins", "Sec-WebSocket-Accept", "Set-Cookie", "Set-Cookie2", "SetProfile",
	"Strict-Transport-Security", "WWW-Authenticate"}
var statefulReq = []string{"Authorization", "Cookie", "Cookie2", "Proxy-Authorization", "Sec-WebSocket-Key"}

var defaultCacheable = map[int]bool{200: true, 203: true, 204: true, 206: true, 300: true, 301: true, 404: true, 405: true, 410: true, 414: true, 501: true}

func inFold(list []string, name string) bool {
	for _, x := range list {
		if strings.EqualFold(x, name) {
			return true
		}
	}
	return false
}

// tNsec is the sub-second part of the verification instant: "date-ns" is one nanosecond before
// date, "expires+ns" / "expires+ms" lie inside the second after expires (outside the window:
// the property says "every instant of [date, expires]", not every whole second).
func tNsec(c *Case) int64 {
	switch c.Time {
	case "date-ns":
		return 999_999_999
	case "date+ns", "expires+ns":
		return 1
	case "expires+ms":
		return 999_000_000
	case "expires-ns":
		return 999_999_999
	}
	return 0
}

// afterExpires: strictly later than expires.
func afterExpires(c *Case) bool {
	off := tOffset(c)
	return off > c.Lifetime || (off == c.Lifetime && tNsec(c) > 0)
}

func tOffset(c *Case) int64 {
	switch c.Time {
	case "date-ns":
		return -1
	case "date+ns":
		return 0
	case "expires-ns":
		return c.Lifetime - 1
	case "expires+ns", "expires+ms":
		return c.Lifetime
	case "date-1":
		return -1
	case "date":
		return 0
	case "date+1":
		return 1
	case "expires-1":
		return c.Lifetime - 1
	case "expires":
		return c.Lifetime
	case "expires+1":
		return c.Lifetime + 1
	}
	return c.Lifetime / 2
}

// refPolicy is the acceptance predicate, computed from the generation parameters only.
func refPolicy(c *Case) (accept bool, reasons []string) {
	no := func(s string) { reasons = append(reasons, s) }
	if c.Validity != "same" {
		no("validity-url not same-origin")
	}
	off := tOffset(c)
	if off < 0 {
		no("not yet valid")
	}
	if afterExpires(c) {
		no("expired")
	}
	if c.Lifetime > 604800 {
		no("lifetime above 7 days")
	}
	if c.Integrity != "right" {
		no("integrity scheme does not match the version")
	}
	for _, kv := range c.ResHeaders {
		if (len(kv.Values) > 0 || kv.NoValues > 0) && inFold(uncached, kv.Name) {
			no("uncached/stateful response header " + kv.Name)
		}
	}
	if c.Version != "1b3" {
		if c.Method != "GET" && c.Method != "HEAD" {
			no("method " + c.Method)
		}
		for _, kv := range c.ReqHeaders {
			if (len(kv.Values) > 0 || kv.NoValues > 0) && inFold(statefulReq, kv.Name) {
				no("stateful request header " + kv.Name)
			}
		}
		return len(reasons) == 0, reasons
	}
	// 1b3
	if c.ContentType == "" {
		no("no Content-Type")
	}
	// RFC 7234 section 3, shared cache
	if http.StatusText(c.Status) == "" {
		no("status not understood")
	}
	dirs := ccNames(strings.Join(c.CacheControl, ","), false)
	for _, r := range storableReasons(c, dirs) {
		no(r)
	}
	return len(reasons) == 0, reasons
}

func storableReasons(c *Case, dirs map[string]bool) (reasons []string) {
	if dirs["no-store"] {
		reasons = append(reasons, "no-store")
	}
	if dirs["private"] {
		reasons = append(reasons, "private")
	}
	if !(c.ExpiresHdr != "" || dirs["max-age"] || dirs["s-maxage"] || defaultCacheable[c.Status] || dirs["public"]) {
		reasons = append(reasons, "no explicit freshness, status not cacheable by default, not public")
	}
	return
}

// ccNames returns the directive names of a Cache-Control value. quoted=false: the list is cut at
// every comma (the repository's documented simplification: "TODO: correctly handle quoted-string
// arguments"); quoted=true: RFC 7234 / 7230 syntax, commas and escaped quotes inside a
// quoted-string argument belong to the argument (nil for an unterminated quoted-string).
func ccNames(v string, quoted bool) map[string]bool {
	dirs := map[string]bool{}
	add := func(part string) {
		part = strings.TrimSpace(part)
		name := part
		if i := strings.IndexByte(part, '='); i >= 0 {
			name = part[:i]
		}
		dirs[strings.ToLower(name)] = true
	}
	if !quoted {
		for _, part := range strings.Split(v, ",") {
			add(part)
		}
		return dirs
	}
	start, inq := 0, false
	for i := 0; i < len(v); i++ {
		switch {
		case inq && v[i] == '\\':
			i++ // quoted-pair
		case v[i] == '"':
			inq = !inq
		case !inq && v[i] == ',':
			add(v[start:i])
			start = i + 1
		}
	}
	if inq {
		return nil
	}
	add(v[start:])
	return dirs
}

// ccAmbiguous: the storable-by-a-shared-cache verdict depends on how quoted-string arguments are
// read (the simplified and the exact reading disagree, or the value is malformed): the property
// does not settle which reading applies, so such a case is not judged on cacheability.
func ccAmbiguous(c *Case) bool {
	if c.Version != "1b3" {
		return false
	}
	v := strings.Join(c.CacheControl, ",")
	if !strings.Contains(v, `"`) {
		return false
	}
	exact := ccNames(v, true)
	if exact == nil {
		return true
	}
	return (len(storableReasons(c, exact)) == 0) != (len(storableReasons(c, ccNames(v, false))) == 0)
}

func build(c *Case) *sxgkit.Spec {
	host := gen.Fixtures()[c.Fixture].Hosts[0]
	if strings.HasPrefix(host, "*.") {
		host = "a.example"
	}
	s := &sxgkit.Spec{Version: c.Version, Fixture: c.Fixture, URL: "https://" + host + "/page?x=1", Method: c.Method, Status: c.Status,
		PayloadLen: 50, PayloadTag: 3, RecordSize: 16, Date: baseDate + c.DateShift, Expires: baseDate + c.DateShift + c.Lifetime, CertURL: "https://cert.example/c"}
	switch c.Validity {
	case "same":
		s.ValidityURL = "https://" + host + "/validity"
	case "http":
		s.ValidityURL = "http://" + host + "/validity"
	case "otherhost":
		s.ValidityURL = "https://other.test/validity"
	case "otherport":
		s.ValidityURL = "https://" + host + ":8443/validity"
	case "subdomain":
		s.ValidityURL = "https://sub." + host + "/validity"
	}
	if c.Version != "1b3" {
		s.ReqHeaders = c.ReqHeaders
	}
	if c.ContentType != "" {
		s.ResHeaders = append(s.ResHeaders, gen.HeaderKV{Name: "Content-Type", Values: []string{c.ContentType}})
	}
	if len(c.CacheControl) > 0 {
		s.ResHeaders = append(s.ResHeaders, gen.HeaderKV{Name: "cache-control", Values: c.CacheControl})
	}
	if c.ExpiresHdr != "" {
		s.ResHeaders = append(s.ResHeaders, gen.HeaderKV{Name: "Expires", Values: []string{c.ExpiresHdr}})
	}
	s.ResHeaders = append(s.ResHeaders, c.ResHeaders...)
	if c.Integrity == "other-complete" {
		// the OTHER format version's integrity header, with the correct proof for this payload, is
		// among the signed response headers: only the (unsigned) integrity parameter then decides
		// which scheme is used, and it must be the one of the exchange's version
		other := 2
		if c.Version == "1b1" {
			other = 3
		}
		s.ResHeaders = append(s.ResHeaders, gen.HeaderKV{Name: refmice.HeaderName(other), Values: []string{refmice.Header(other, refmice.Proof0(other, s.Payload(), s.RecordSize))}})
	}
	return s
}

var prop = vh.Define("C09", "policy", func(c Case, r *vh.R) {
	s := build(&c)
	e, _, err := sxgkit.Build(s)
	if err != nil {
		r.Failf("sign-error", "cannot sign: %v", err)
		return
	}
	if c.Integrity != "right" {
		pl, err := structuredheader.ParseParameterisedList(e.SignatureHeaderValue)
		if err != nil {
			r.Failf("harness", "cannot parse own Signature header: %v", err)
			return
		}
		v := "junk/unknown"
		if c.Integrity == "other" || c.Integrity == "other-complete" {
			if c.Version == "1b1" {
				v = refsxg.IntegrityID("1b3")
			} else {
				v = refsxg.IntegrityID("1b1")
			}
		}
		pl[0].Params["integrity"] = v // not part of the signed message: the signature stays valid
		e.SignatureHeaderValue, _ = pl.String()
	}
	if c.ViaFile {
		var buf bytes.Buffer
		if err := e.Write(&buf); err != nil {
			r.Failf("write-error", "Write: %v", err)
			return
		}
		e, err = signedexchange.ReadExchange(&buf)
		if err != nil {
			r.Failf("read-error", "ReadExchange: %v", err)
			return
		}
	}
	want, reasons := refPolicy(&c)
	if ccAmbiguous(&c) {
		r.Class("cache-control-reading-ambiguous")
		r.Skip = true
		return
	}
	if strings.Contains(strings.Join(c.CacheControl, ","), `"`) {
		r.Class("cache-control-with-quoted-string")
	}
	t := baseDate + c.DateShift + tOffset(&c)
	p, got, lg := sxgkit.VerifyLogAt(e, t, tNsec(&c), sxgkit.Fetcher(c.Fixture))
	r.Class(c.Version)
	if want {
		r.Class("expect-accept")
	} else {
		r.Classf("expect-reject-%d-faults", min(len(reasons), 3))
	}
	if want || len(reasons) == 1 || strings.HasPrefix(c.Time, "date") || strings.HasPrefix(c.Time, "expires") {
		r.NT()
	}
	if got != want {
		if want {
			r.Failf("rejected-conforming", "exchange meeting every acceptance condition was rejected: %s\ncase %+v", lg, c)
		} else {
			r.Failf("accepted-violating", "exchange accepted although: %s\ncase %+v", strings.Join(reasons, "; "), c)
		}
		return
	}
	if got && !bytes.Equal(p, s.Payload()) {
		r.Failf("payload", "accepted but payload differs")
	}
})

var harmlessCC = []string{"max-age=600", "s-maxage=60", "public", "must-revalidate", "no-cache", "no-transform", "ext=1", "MAX-AGE=5", "Public", "stale-while-revalidate=30", "max-age=0"}
var harmfulCC = []string{"no-store", "private", "NO-STORE", "Private", "private=\"x\"", "No-Store"}
var neutralCC = []string{"must-revalidate", "no-cache", "no-transform", "ext=1", "immutable"}

// quoted-string arguments (RFC 7230 3.2.6): commas, escaped quotes and escaped backslashes inside
var quotedCC = []string{`ext="a\"b"`, `community="5\" screens"`, `ext="a, b"`, `no-cache="set-cookie, x-y"`, `ext="\\"`, `ext="a\\\"b"`, `ext=""`, `ext="\""`, `ext="x\"y\"z"`, `ext="q=\"1\""`}


func randCase(s string, t *rapid.T, label string) string {
	b := []byte(s)
	mask := rapid.Uint64().Draw(t, label)
	for i := range b {
		if mask>>(uint(i)%64)&1 == 1 {
			if b[i] >= 'a' && b[i] <= 'z' {
				b[i] -= 32
			} else if b[i] >= 'A' && b[i] <= 'Z' {
				b[i] += 32
			}
		}
	}
	return string(b)
}

func allGood(t *rapid.T) Case {
	c := Case{
		Version:     rapid.SampledFrom([]string{"1b1", "1b2", "1b3", "1b3"}).Draw(t, "version"),
		Fixture:     rapid.SampledFrom([]int{0, 1}).Draw(t, "fixture"),
		Validity:    "same",
		Time:        rapid.SampledFrom([]string{"mid", "mid", "date", "date+1", "expires-1", "expires", "date+ns", "expires-ns"}).Draw(t, "time"),
		Lifetime:    rapid.SampledFrom([]int64{604800, 604799, 3600, 2, 86400}).Draw(t, "lifetime"),
		Integrity:   "right",
		Method:      rapid.SampledFrom([]string{"GET", "GET", "HEAD"}).Draw(t, "method"),
		ContentType: rapid.SampledFrom([]string{"text/html", "application/json; charset=utf-8"}).Draw(t, "ct"),
		Status:      rapid.SampledFrom([]int{200, 200, 203, 204, 206, 300, 301, 404, 405, 410, 414, 501}).Draw(t, "status"),
		ViaFile:     rapid.Bool().Draw(t, "viafile"),
	}
	if rapid.IntRange(0, 5).Draw(t, "far-date") == 0 {
		c.DateShift = rapid.SampledFrom(extremeDateShifts).Draw(t, "date-shift")
	}
	c.ReqHeaders = gen.Headers(t, "req", 2)
	c.ResHeaders = gen.Headers(t, "res", 3)
	// harmless Cache-Control content in random spelling, split over 1-2 field values
	n := rapid.IntRange(0, 3).Draw(t, "ccn")
	var parts []string
	for i := 0; i < n; i++ {
		parts = append(parts, rapid.SampledFrom(append(append([]string{}, harmlessCC...), quotedCC[:5]...)).Draw(t, "cc"))
	}
	c.CacheControl = splitValues(t, parts)
	if rapid.Bool().Draw(t, "hasexpires") {
		c.ExpiresHdr = "Thu, 01 Dec 2044 16:00:00 GMT"
	}
	return c
}

func splitValues(t *rapid.T, parts []string) []string {
	if len(parts) == 0 {
		return nil
	}
	sep := rapid.SampledFrom([]string{",", ", ", " , ", ",\t"}).Draw(t, "sep")
	if len(parts) >= 2 && rapid.Bool().Draw(t, "split") {
		k := rapid.IntRange(1, len(parts)-1).Draw(t, "splitat")
		return []string{strings.Join(parts[:k], sep), strings.Join(parts[k:], sep)}
	}
	return []string{strings.Join(parts, sep)}
}

// fault applies one violating (or boundary) toggle.
func fault(t *rapid.T, c *Case) {
	kinds := []string{"validity", "time", "lifetime", "integrity", "res-banned", "res-banned"}
	if c.Version == "1b3" {
		kinds = append(kinds, "no-ct", "cc-harmful", "cc-harmful", "status-unknown", "status-not-default", "status-not-default")
	} else {
		kinds = append(kinds, "method", "req-banned", "req-banned")
	}
	switch rapid.SampledFrom(kinds).Draw(t, "fault") {
	case "validity":
		c.Validity = rapid.SampledFrom([]string{"http", "otherhost", "otherport", "subdomain"}).Draw(t, "validity")
	case "time":
		c.Time = rapid.SampledFrom([]string{"date-1", "expires+1", "date-ns", "expires+ns", "expires+ms"}).Draw(t, "badtime")
	case "lifetime":
		c.Lifetime = rapid.SampledFrom(append([]int64{604801, 604801, 604801, 700000, 700000}, extremeLifetimes...)).Draw(t, "badlife")
	case "integrity":
		c.Integrity = rapid.SampledFrom([]string{"other", "junk", "other-complete", "other-complete"}).Draw(t, "integrity")
	case "res-banned":
		name := randCase(rapid.SampledFrom(uncached).Draw(t, "banned"), t, "bcase")
		// Raw: the map key is exactly this spelling (a header map filled by direct assignment, or read
		// from another parser), not Go's canonical form
		kv := gen.HeaderKV{Name: name, Values: []string{rapid.SampledFrom([]string{"x", "a=b", "close", ""}).Draw(t, "bval")}, Raw: rapid.Bool().Draw(t, "braw")}
		if rapid.IntRange(0, 5).Draw(t, "bnovalues") == 0 {
			kv.NoValues = rapid.IntRange(1, 2).Draw(t, "bnv")
		}
		if rapid.IntRange(0, 2).Draw(t, "bfill") == 0 {
			// among many harmless fields (more than there are banned names)
			for i, n := 0, rapid.SampledFrom([]int{17, 18, 19, 20, 21, 40}).Draw(t, "bnfill"); i < n; i++ {
				c.ResHeaders = append(c.ResHeaders, gen.HeaderKV{Name: fmt.Sprintf("X-Fill-%d", i), Values: []string{"f"}})
			}
		}
		pos := rapid.IntRange(0, len(c.ResHeaders)).Draw(t, "bpos")
		c.ResHeaders = append(c.ResHeaders[:pos:pos], append([]gen.HeaderKV{kv}, c.ResHeaders[pos:]...)...)
	case "req-banned":
		name := randCase(rapid.SampledFrom(statefulReq).Draw(t, "sbanned"), t, "scase")
		c.ReqHeaders = append(c.ReqHeaders, gen.HeaderKV{Name: name, Values: []string{"secret"}, Raw: rapid.Bool().Draw(t, "sraw")})
	case "method":
		c.Method = rapid.SampledFrom([]string{"POST", "PUT", "get", "DELETE", "OPTIONS", ""}).Draw(t, "badmethod")
	case "no-ct":
		c.ContentType = ""
	case "cc-harmful":
		parts := []string{rapid.SampledFrom(harmfulCC).Draw(t, "harmful")}
		for i := rapid.IntRange(0, 2).Draw(t, "extra"); i > 0; i-- {
			parts = append(parts, rapid.SampledFrom(append(append([]string{}, harmlessCC...), quotedCC...)).Draw(t, "cc2"))
		}
		// permute
		perm := rapid.Permutation(parts).Draw(t, "perm")
		c.CacheControl = splitValues(t, perm)
	case "status-unknown":
		c.Status = rapid.SampledFrom([]int{299, 600, 999, 209, 419, 0, 306}).Draw(t, "unkstatus")
	case "status-not-default":
		// understood, but not cacheable by default: acceptable only with explicit freshness / public
		c.Status = rapid.SampledFrom([]int{201, 202, 302, 303, 304, 307, 308, 400, 401, 403, 500, 502, 503, 100, 418, 451}).Draw(t, "ndstatus")
		switch rapid.IntRange(0, 3).Draw(t, "freshness") {
		case 0: // nothing: must be rejected
			c.ExpiresHdr = ""
			var parts []string
			for i := rapid.IntRange(0, 2).Draw(t, "nn"); i > 0; i-- {
				parts = append(parts, rapid.SampledFrom(neutralCC).Draw(t, "ncc"))
			}
			c.CacheControl = splitValues(t, parts)
		case 1:
			c.ExpiresHdr = "Thu, 01 Dec 2044 16:00:00 GMT"
		case 2:
			c.ExpiresHdr = ""
			c.CacheControl = splitValues(t, []string{rapid.SampledFrom(neutralCC).Draw(t, "ncc2"), rapid.SampledFrom([]string{"max-age=1", "s-maxage=1", "public", "S-MaxAge=3", "PUBLIC"}).Draw(t, "fresh")})
		}
	}
}

// ---- the shared-cache storability decision on its own (Exchange.IsCacheable) -----------------
//
// The same reference as in the policy check, applied to the exported predicate directly on
// unsigned 1b3 exchanges: no signing, so it is cheap enough for very many cases - and for
// concurrent evaluation with thousands of calls per goroutine, where a narrow window in shared
// state (a memo of the last parsed header value, a lazily built table) has a chance to show.

type CCCase struct {
	Status       int      `json:"status"`
	CacheControl []string `json:"cache_control"`
	ExpiresHdr   string   `json:"expires_hdr"`
	Reps         int      `json:"reps"`
}

var ccDiscard = log.New(io.Discard, "", 0)

var ccProp = vh.Define("C09", "cacheable", func(c CCCase, r *vh.R) {
	full := Case{Version: "1b3", Status: c.Status, CacheControl: c.CacheControl, ExpiresHdr: c.ExpiresHdr}
	if ccAmbiguous(&full) {
		r.Class("cache-control-reading-ambiguous")
		r.Skip = true
		return
	}
	var kvs []gen.HeaderKV
	if len(c.CacheControl) > 0 {
		kvs = append(kvs, gen.HeaderKV{Name: "Cache-Control", Values: c.CacheControl})
	}
	if c.ExpiresHdr != "" {
		kvs = append(kvs, gen.HeaderKV{Name: "Expires", Values: []string{c.ExpiresHdr}})
	}
	kvs = append(kvs, gen.HeaderKV{Name: "Content-Type", Values: []string{"text/html"}})
	want := http.StatusText(c.Status) != "" && len(storableReasons(&full, ccNames(strings.Join(c.CacheControl, ","), false))) == 0
	if want {
		r.Class("storable")
	} else {
		r.Class("not-storable")
	}
	r.NT()
	for i := 0; i < max(1, c.Reps); i++ {
		e := signedexchange.NewExchange(sxgkit.Ver("1b3"), "https://a.example/", "GET", nil, c.Status, gen.BuildHeader(kvs), nil)
		if got := e.IsCacheable(ccDiscard); got != want {
			r.Failf("cacheable-verdict", "IsCacheable = %v on call %d, RFC 7234 section 3 says %v for status %d, Cache-Control %q, Expires %q", got, i, want, c.Status, c.CacheControl, c.ExpiresHdr)
			return
		}
	}
})

func genCC(t *rapid.T) CCCase {
	c := CCCase{Reps: 1}
	c.Status = rapid.SampledFrom([]int{200, 200, 203, 204, 206, 300, 301, 404, 405, 410, 414, 501, 201, 202, 302, 303, 304, 307, 308, 400, 401, 403, 500, 502, 503, 100, 418, 451, 299, 600, 999, 209, 0, 306}).Draw(t, "status")
	var parts []string
	for i := rapid.IntRange(0, 3).Draw(t, "n"); i > 0; i-- {
		pool := append(append(append([]string{}, harmlessCC...), neutralCC...), quotedCC...)
		if rapid.IntRange(0, 3).Draw(t, "harmful") == 0 {
			pool = harmfulCC
		}
		parts = append(parts, rapid.SampledFrom(pool).Draw(t, "cc"))
	}
	c.CacheControl = splitValues(t, parts)
	if rapid.IntRange(0, 2).Draw(t, "hasexpires") == 0 {
		c.ExpiresHdr = "Thu, 01 Dec 2044 16:00:00 GMT"
	}
	return c
}

func TestPropCacheable(t *testing.T) { ccProp.Rapid(t, genCC) }

// TestConcCacheable: 8 goroutines, 500 calls each per batch.
func TestConcCacheable(t *testing.T) {
	ccProp.Concurrent(t, func(t *rapid.T) CCCase { c := genCC(t); c.Reps = 500; return c }, 8, 1)
}

func TestPropPolicy(t *testing.T) { prop.Rapid(t, genPropPolicy) }

// TestConcPolicy: batches of cases evaluated at the same time on separate goroutines (vh.Prop.Concurrent).
func TestConcPolicy(t *testing.T) { prop.Concurrent(t, genPropPolicy, 8, 3) }

func genPropPolicy(t *rapid.T) Case {
	c := allGood(t)
	for n := rapid.SampledFrom([]int{0, 0, 1, 1, 1, 1, 2}).Draw(t, "nfaults"); n > 0; n-- {
		fault(t, &c)
	}
	return c
}

// TestGrid enumerates every single fault (and the boundary instants / lifetimes) per version.
func TestGrid(t *testing.T) {
	n := 0
	for _, v := range []string{"1b1", "1b2", "1b3"} {
		base := Case{Version: v, Fixture: 0, Validity: "same", Time: "mid", Lifetime: 604800, Integrity: "right", Method: "GET",
			ContentType: "text/html", Status: 200}
		try := func(mod func(c *Case)) bool {
			for _, via := range []bool{false, true} {
				c := base
				c.ViaFile = via
				mod(&c)
				n++
				if !prop.One(t, c) {
					return false
				}
			}
			return true
		}
		ok := try(func(c *Case) {})
		for _, tm := range []string{"date-1", "date", "date+1", "mid", "expires-1", "expires", "expires+1", "date-ns", "date+ns", "expires-ns", "expires+ns", "expires+ms"} {
			for _, life := range []int64{604799, 604800, 604801, 0, 1} {
				ok = ok && try(func(c *Case) { c.Time = tm; c.Lifetime = life })
			}
		}
		// numeric extremes of legal values: lifetimes whose number of nanoseconds (or of seconds
		// in 32 bits) does not fit, dates before 1970, at 0, around 2^31 / 2^32 and in the year 9999
		for _, life := range extremeLifetimes {
			for _, tm := range []string{"date", "date+1", "mid", "expires-1", "expires"} {
				ok = ok && try(func(c *Case) { c.Time = tm; c.Lifetime = life })
			}
		}
		for _, shift := range extremeDateShifts {
			for _, tm := range []string{"date-1", "date", "mid", "expires", "expires+1", "date-ns", "expires+ns"} {
				for _, life := range []int64{604800, 604801, 1} {
					ok = ok && try(func(c *Case) { c.Time = tm; c.Lifetime = life; c.DateShift = shift })
				}
			}
		}
		for _, val := range []string{"http", "otherhost", "otherport", "subdomain"} {
			ok = ok && try(func(c *Case) { c.Validity = val })
		}
		for _, in := range []string{"other", "junk", "other-complete"} {
			ok = ok && try(func(c *Case) { c.Integrity = in })
		}
		for _, m := range []string{"HEAD", "POST", "PUT", "get", "Get", "CONNECT", "PATCH"} {
			ok = ok && try(func(c *Case) { c.Method = m })
		}
		for _, h := range uncached {
			for _, nm := range []string{h, strings.ToLower(h), strings.ToUpper(h)} {
				for _, raw := range []bool{false, true} {
					for _, nfill := range []int{0, 18, 19, 20, 30} {
						ok = ok && try(func(c *Case) {
							c.ResHeaders = []gen.HeaderKV{{Name: "X-A", Values: []string{"1"}}, {Name: nm, Values: []string{"v"}, Raw: raw}}
							for i := 0; i < nfill; i++ {
								c.ResHeaders = append(c.ResHeaders, gen.HeaderKV{Name: fmt.Sprintf("X-Fill-%d", i), Values: []string{"f"}})
							}
						})
					}
				}
			}
		}
		for _, h := range statefulReq {
			for _, nm := range []string{h, strings.ToLower(h), strings.ToUpper(h)} {
				for _, raw := range []bool{false, true} {
					for _, nfill := range []int{0, 4, 5, 6, 20} {
						ok = ok && try(func(c *Case) {
							c.ReqHeaders = []gen.HeaderKV{{Name: nm, Values: []string{"v"}, Raw: raw}}
							for i := 0; i < nfill; i++ {
								c.ReqHeaders = append(c.ReqHeaders, gen.HeaderKV{Name: fmt.Sprintf("X-Fill-%d", i), Values: []string{"f"}})
							}
						})
					}
				}
			}
		}
		// a banned name present in the map with NO values (h[name] = nil / []string{}): the
		// serializers emit it with an empty value, it is a header of the exchange
		for _, nv := range []int{1, 2} {
			for _, h := range []string{"Set-Cookie", "set-cookie", "Connection", "Strict-Transport-Security", "WWW-Authenticate"} {
				ok = ok && try(func(c *Case) { c.ResHeaders = []gen.HeaderKV{{Name: "X-A", Values: []string{"1"}}, {Name: h, NoValues: nv, Raw: h[0] == 's'}} })
			}
			for _, h := range []string{"Cookie", "authorization"} {
				ok = ok && try(func(c *Case) { c.ReqHeaders = []gen.HeaderKV{{Name: h, NoValues: nv, Raw: h[0] == 'a'}} })
			}
			// ... and a harmless name without values stays harmless
			ok = ok && try(func(c *Case) { c.ResHeaders = []gen.HeaderKV{{Name: "X-Empty", NoValues: nv}} })
		}
		// response headers that merely look similar must not be refused
		for _, h := range []string{"Cookie", "Authorization", "Set-Cookie3", "X-Set-Cookie", "Connections", "Trailers", "Keep-Alive2", "Upgrade-Insecure-Requests", "Sec-WebSocket-Key"} {
			ok = ok && try(func(c *Case) { c.ResHeaders = []gen.HeaderKV{{Name: h, Values: []string{"v"}}} })
		}
		for _, h := range []string{"Set-Cookie", "Connection", "Accept", "Cookies", "X-Cookie", "WWW-Authenticate"} {
			ok = ok && try(func(c *Case) { c.ReqHeaders = []gen.HeaderKV{{Name: h, Values: []string{"v"}}} })
		}
		ok = ok && try(func(c *Case) { c.ContentType = "" })
		for st := 100; st <= 599 && ok; st++ {
			for _, cc := range [][]string{nil, {"public"}, {"max-age=10"}, {"no-store"}, {"private"}, {"s-maxage=1", "no-cache"}} {
				ok = ok && try(func(c *Case) { c.Status = st; c.CacheControl = cc })
			}
			ok = ok && try(func(c *Case) { c.Status = st; c.ExpiresHdr = "0" })
		}
		// quoted-string arguments before / after / around a restricting or a freshness directive
		if v == "1b3" {
			for _, q := range quotedCC {
				for _, d := range []string{"no-store", "private", "max-age=60", "public"} {
					for _, st := range []int{200, 302} {
						for _, lay := range [][]string{{q, d}, {d, q}, {"max-age=600", q, d}, {q + ", " + d}, {d + "," + q + ",ext=2"}} {
							ok = ok && try(func(c *Case) { c.Status = st; c.CacheControl = lay })
						}
					}
				}
			}
		}
		if !ok {
			return
		}
	}
	vh.Count("policy", "grid-cases", int64(n))
	_ = fmt.Sprint
}
