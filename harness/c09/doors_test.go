package c09

import (
	"net/http"
	"strings"
	"testing"

	"github.com/WICG/webpackage/go/signedexchange"
	"github.com/WICG/webpackage/go/verifh/vh"
)

// The exported predicates behind the "no uncached or stateful header in any letter case" clause
// can be called on their own (the command-line tools and other packages do): IsUncachedHeader,
// IsStatefulRequestHeader and VerifyUncachedHeader must give the answer of the drafts' lists for
// every ASCII field name, whichever spelling and whichever key form (canonical or raw) is used.
type DoorCase struct {
	Names    []string `json:"names"`     // keys put into the header map as they are
	NoValues []bool   `json:"no_values"` // the key is present with an empty value slice
}

var doorProp = vh.Define("C09", "doors", func(c DoorCase, r *vh.R) {
	h := http.Header{}
	wantErr := false
	for i, n := range c.Names {
		for _, ch := range []byte(n) {
			if ch <= ' ' || ch >= 0x7f {
				r.Skip = true // not a field name
				return
			}
		}
		if len(c.NoValues) > i && c.NoValues[i] {
			h[n] = []string{}
		} else {
			h[n] = append(h[n], "v")
		}
		wu, ws := inFold(uncached, n), inFold(statefulReq, n)
		if wu {
			wantErr = true
			r.Class("uncached-name")
		}
		if ws {
			r.Class("stateful-name")
		}
		if !wu && !ws {
			r.Class("harmless-name")
		}
		if got := signedexchange.IsUncachedHeader(n); got != wu {
			r.Failf("door-disagrees", "IsUncachedHeader(%q) = %v, the draft's list says %v", n, got, wu)
			return
		}
		if got := signedexchange.IsStatefulRequestHeader(n); got != ws {
			r.Failf("door-disagrees", "IsStatefulRequestHeader(%q) = %v, the draft's list says %v", n, got, ws)
			return
		}
	}
	if err := signedexchange.VerifyUncachedHeader(h); (err != nil) != wantErr {
		r.Failf("door-disagrees", "VerifyUncachedHeader(%q) = %v, want an error: %v", c.Names, err, wantErr)
		return
	}
	if len(c.Names) >= 2 || wantErr {
		r.NT()
	}
})

func spellings(n string) []string {
	out := []string{n, strings.ToLower(n), strings.ToUpper(n), http.CanonicalHeaderKey(n)}
	b := []byte(strings.ToLower(n))
	for i := range b { // one letter in the other case, at every position
		if b[i] >= 'a' && b[i] <= 'z' {
			c := append([]byte{}, b...)
			c[i] -= 32
			out = append(out, string(c))
		}
	}
	return out
}

func TestDoors(t *testing.T) {
	n := 0
	var near []string
	for _, list := range [][]string{uncached, statefulReq} {
		for _, h := range list {
			// neighbours that must not be taken for the name: one octet more, one less, a separator changed
			near = append(near, h+"s", h+"-", "x-"+h, h[1:], h[:len(h)-1], strings.ReplaceAll(h, "-", "_"), strings.ReplaceAll(h, "-", ""), h+"2", h+"\x7e")
		}
	}
	near = append(near, "Accept", "Content-Type", "Cache-Control", "Vary", "Link", "X", "a")
	fill := []string{"Content-Type", "X-A", "Accept-Ranges", "Vary", "Age", "Etag"}
	for _, list := range [][]string{uncached, statefulReq, near} {
		for _, h := range list {
			for _, sp := range spellings(h) {
				for _, nv := range []bool{false, true} {
					n++
					if !doorProp.One(t, DoorCase{Names: []string{sp}, NoValues: []bool{nv}}) {
						return
					}
					// among other fields, first / last / in the middle of what the caller inserted
					for k := 0; k <= len(fill); k += 3 {
						names := append(append(append([]string{}, fill[:k]...), sp), fill[k:]...)
						nvs := make([]bool, len(names))
						nvs[k] = nv
						n++
						if !doorProp.One(t, DoorCase{Names: names, NoValues: nvs}) {
							return
						}
					}
				}
			}
		}
	}
	vh.Count("doors", "door-cases", int64(n))
}
