package c20

import (
	"bytes"
	"crypto/ed25519"
	"crypto/sha512"
	"encoding/base32"
	"encoding/binary"
	"net/url"
	"os"
	"path/filepath"
	"regexp"
	"strconv"
	"strings"
	"testing"
	"time"

	"github.com/WICG/webpackage/go/bundle"
	"github.com/WICG/webpackage/go/bundle/signature"
	"github.com/WICG/webpackage/go/verifh/gen"
	"github.com/WICG/webpackage/go/verifh/vh"
	"pgregory.net/rapid"
)

// ---- cert chain CBOR through gen-certurl -----------------------------------------------------

// writeCertCBOR writes chain.pem / ocsp.der and runs gen-certurl; cert.cbor receives its stdout.
func writeCertCBOR(r *vh.R, tmp string, fixture, chainLen int, ocsp []byte, extra ...string) bool {
	f := gen.Fixtures()[fixture]
	must(os.WriteFile(filepath.Join(tmp, "chain.pem"), gen.CertsPEM(f.Chain[:chainLen]), 0o644))
	must(os.WriteFile(filepath.Join(tmp, "ocsp.der"), ocsp, 0o644))
	args := append([]string{"-pem", "chain.pem", "-ocsp", "ocsp.der"}, extra...)
	g := runTool(tmp, nil, "gen-certurl", args...)
	if g.exit != 0 {
		failTool(r, "gen-certurl-failed", "gen-certurl refused a PEM chain with an OCSP file", g, "fixture "+f.Name+", "+strconv.Itoa(len(ocsp))+" OCSP bytes")
		return false
	}
	must(os.WriteFile(filepath.Join(tmp, "cert.cbor"), g.stdout, 0o644))
	return true
}

// ---- sign-bundle signatures-section ----------------------------------------------------------

type SignCase struct {
	Tree       TreeCase `json:"tree"`
	Fixture    int      `json:"fixture"`
	ChainLen   int      `json:"chain_len"`
	Pem        string   `json:"pem"` // sec1 pkcs8 encrypted
	Pass       string   `json:"passphrase"`
	OCSP       vh.B     `json:"ocsp"`
	RecordSize int      `json:"mi_record_size"` // 0: flag omitted
	Win        Window   `json:"window"`
	Validity   string   `json:"validity_url"` // "": flag omitted
	// InPlace: the bundle is signed in place (-o names the same file as -i), which the tool supports
	// because it reads its whole input before it creates the output.
	InPlace bool `json:"in_place,omitempty"`
}

func pemOK(form, pass string, ec bool) bool {
	switch form {
	case "sec1":
		return ec
	case "pkcs8":
		return true
	case "encrypted":
		return validPass(pass)
	}
	return false
}

var signProp = vh.Define("C20", "sign-sections", func(c SignCase, r *vh.R) {
	if !c.Tree.valid() || c.Tree.hasF7Names() || c.Fixture < 0 || c.Fixture >= len(gen.Fixtures()) || c.ChainLen < 1 || c.ChainLen > 2 ||
		!pemOK(c.Pem, c.Pass, true) || len(c.OCSP) == 0 || c.RecordSize < 0 || c.RecordSize > 16384 || !c.Win.ok() || !asciiPrintable(c.Validity) {
		r.Skip = true
		return
	}
	fx := gen.Fixtures()[c.Fixture]
	base, _ := url.Parse(c.Tree.Base)
	c.Tree.classes(r, base)
	r.Class("pem-" + c.Pem)
	r.Class("curve:" + fx.Curve)
	c.Win.classes(r)
	switch c.RecordSize {
	case 0:
		r.Class("rs-default")
	case 1:
		r.Class("rs:1")
	case 16384:
		r.Class("rs:16384")
	}
	tmp := mkTmp("sign")
	defer os.RemoveAll(tmp)

	unsigned, ok := checkTree(r, &c.Tree, tmp)
	if !ok {
		return
	}
	orig := map[string][]byte{}
	for _, e := range unsigned.Exchanges {
		orig[e.Request.URL.String()] = e.Response.Body
	}
	if !writeCertCBOR(r, tmp, c.Fixture, c.ChainLen, c.OCSP) {
		return
	}
	must(os.WriteFile(filepath.Join(tmp, "key.pem"), keyPEM(fx.Key, c.Pem, c.Pass), 0o600))
	args := []string{"signatures-section", "-i", "out.wbn", "-o", "signed.wbn", "-certificate", "cert.cbor", "-privateKey", "key.pem"}
	if c.InPlace {
		in, err := os.ReadFile(filepath.Join(tmp, "out.wbn"))
		must(err)
		must(os.WriteFile(filepath.Join(tmp, "signed.wbn"), in, 0o644))
		args[2] = "signed.wbn"
		r.Class("signed-in-place")
	}
	if c.Validity != "" {
		args = append(args, "-validityUrl", c.Validity)
	}
	args = append(args, c.Win.args(time.Now())...)
	if c.RecordSize > 0 {
		args = append(args, "-miRecordSize", strconv.Itoa(c.RecordSize))
	}
	ctx := "bundle from: gen-bundle " + strings.Join(c.Tree.genBundleArgs(base), " ") + "; certificate fixture " + fx.Name + " (" + strings.Join(fx.Hosts, ",") + ")"
	s := runTool(tmp, passEnv(c.Pem, c.Pass), "sign-bundle", args...)
	if s.exit != 0 {
		failTool(r, "sign-bundle-failed", "sign-bundle signatures-section refused gen-bundle's output / a key in PEM form "+c.Pem, s, ctx)
		return
	}
	raw, err := os.ReadFile(filepath.Join(tmp, "signed.wbn"))
	if err != nil {
		failTool(r, "sign-bundle-no-output", "sign-bundle exited 0 without writing the -o file", s, ctx)
		return
	}
	d := runTool(tmp, nil, "dump-bundle", "-i", "signed.wbn")
	if d.exit != 0 {
		failTool(r, "dump-bundle-rejected", "dump-bundle rejects the signed bundle (sign-bundle: "+s.cmdline+")", d, ctx)
		return
	}
	b, err := bundle.Read(bytes.NewReader(raw))
	if err != nil {
		r.Failf("read-failed", "bundle.Read rejects sign-bundle's output: %v\n  %s\n  %s", err, s.cmdline, ctx)
		return
	}
	if b.Version != unsigned.Version {
		r.Failf("version", "signed bundle has version %s, input had %s", b.Version, unsigned.Version)
		return
	}
	if b.Signatures == nil {
		r.Failf("no-signatures", "the signed bundle has no signatures section\n  %s\n  %s", s.cmdline, ctx)
		return
	}
	v, err := signature.NewVerifier(b.Signatures, time.Now(), b.Version)
	if err != nil {
		r.Failf("verifier", "signature.NewVerifier at the current time rejects the signatures sign-bundle wrote: %v\n  %s\n  %s", err, s.cmdline, ctx)
		return
	}
	if len(b.Exchanges) != len(orig) {
		r.Failf("exchange-set", "signed bundle has %d exchanges, the input had %d", len(b.Exchanges), len(orig))
		return
	}
	covered := 0
	for _, e := range b.Exchanges {
		key := e.Request.URL.String()
		want, ok := orig[key]
		if !ok {
			r.Failf("exchange-set", "signed bundle has an exchange %q that the input did not have", key)
			return
		}
		res, err := v.VerifyExchange(e)
		if fx.Leaf.VerifyHostname(e.Request.URL.Hostname()) == nil {
			covered++
			if err != nil || res == nil {
				r.Failf("verify-exchange", "exchange %q (host covered by the certificate) does not verify: result %v, error %v\n  %s\n  %s", key, res, err, s.cmdline, ctx)
				return
			}
			if !bytes.Equal(res.VerifiedPayload, want) {
				r.Failf("verified-payload", "exchange %q verifies but the verified payload (%d bytes) differs from the original body (%d bytes)\n  %s", key, len(res.VerifiedPayload), len(want), s.cmdline)
				return
			}
		} else {
			if err != nil || res != nil {
				r.Failf("uncovered-exchange", "exchange %q is not covered by the certificate but VerifyExchange returned (%v, %v)", key, res, err)
				return
			}
			if !bytes.Equal(e.Response.Body, want) {
				r.Failf("uncovered-body", "exchange %q is not covered by the certificate but its body changed", key)
				return
			}
		}
	}
	if covered > 0 {
		r.Class("covered")
	} else {
		r.Class("not-covered")
	}
})

var signBases = []string{"https://a.example/", "https://a.example/base/", "https://a.example/base", "https://b.example/", "https://c.example/x/y/",
	"https://www.a.example/", "https://x.w.example/app/", "https://a.example:8443/"}

func genPem(t *rapid.T, forms []string) (string, string) {
	form := rapid.SampledFrom(forms).Draw(t, "pem")
	pass := ""
	if form == "encrypted" {
		pass = rapid.SampledFrom([]string{"secret", "p", "correct-horse-battery-staple", "x$y\"z'`\\", "0123456789012345678901234567890123456789"}).Draw(t, "pass")
	}
	return form, pass
}

func genWindow(t *rapid.T) Window {
	w := Window{ExpireAs: rapid.SampledFrom([]string{"s", "go", "m", "h"}).Draw(t, "expire-as")}
	switch rapid.IntRange(0, 9).Draw(t, "win-kind") {
	case 0: // both flags omitted: date = now, expire = 1h
		w.DateAgo, w.Expire = -1, 0
		return w
	case 1: // date omitted
		w.DateAgo = -1
		w.Expire = rapid.SampledFrom([]int{600, 3600, 86400, 7 * 24 * 3600}).Draw(t, "expire")
		return w
	case 2: // the longest permitted life time
		w.DateAgo = rapid.IntRange(120, 6*24*3600).Draw(t, "ago")
		w.Expire = 7 * 24 * 3600
	case 3: // expire omitted (1h): date within the last 58 minutes
		w.DateAgo = rapid.IntRange(120, 3480).Draw(t, "ago")
		w.Expire = 0
	default:
		w.DateAgo = rapid.IntRange(120, 3600).Draw(t, "ago")
		if rapid.IntRange(0, 3).Draw(t, "far") == 0 {
			w.DateAgo = rapid.IntRange(3600, 6*24*3600).Draw(t, "ago-far")
		}
		lo := w.DateAgo + 600
		w.Expire = rapid.IntRange(lo, 7*24*3600).Draw(t, "expire")
		if rapid.Bool().Draw(t, "round") {
			w.Expire = (w.Expire + 3599) / 3600 * 3600
			if w.Expire > 7*24*3600 {
				w.Expire = 7 * 24 * 3600
			}
		}
	}
	w.ZoneMin = rapid.SampledFrom([]int{0, 0, 0, 540, -480, 330, 1}).Draw(t, "zone")
	return w
}

func genOCSP(t *rapid.T) vh.B {
	if rapid.Bool().Draw(t, "ocsp-text") {
		return vh.B("ocsp\n")
	}
	return vh.B(rapid.SliceOfN(rapid.Byte(), 1, 120).Draw(t, "ocsp"))
}

// genFixtureFor draws a certificate fixture, preferring ones that cover host.
func genFixtureFor(t *rapid.T, host string, coverOnly bool) int {
	var cov []int
	for i, f := range gen.Fixtures() {
		if f.Leaf.VerifyHostname(host) == nil {
			cov = append(cov, i)
		}
	}
	if len(cov) > 0 && (coverOnly || rapid.IntRange(0, 6).Draw(t, "uncovered") != 0) {
		return rapid.SampledFrom(cov).Draw(t, "fixture")
	}
	return rapid.IntRange(0, len(gen.Fixtures())-1).Draw(t, "any-fixture")
}

func smallTree(t *rapid.T, bases []string) TreeCase {
	tr := genTree(t, true, bases)
	if len(tr.Files) > 5 {
		tr.Files = tr.Files[:5]
	}
	return tr
}

func TestPropSignSections(t *testing.T) {
	needCLI(t)
	signProp.Rapid(t, func(t *rapid.T) SignCase {
		c := SignCase{Tree: smallTree(t, signBases)}
		u, _ := url.Parse(c.Tree.Base)
		c.Fixture = genFixtureFor(t, u.Hostname(), false)
		c.ChainLen = rapid.IntRange(1, 2).Draw(t, "chain")
		c.Pem, c.Pass = genPem(t, []string{"sec1", "pkcs8", "encrypted"})
		c.OCSP = genOCSP(t)
		c.RecordSize = rapid.SampledFrom([]int{0, 1, 2, 7, 16, 100, 255, 256, 1000, 4096, 16383, 16384}).Draw(t, "rs")
		if c.RecordSize > 0 && rapid.IntRange(0, 2).Draw(t, "rs-any") == 0 {
			c.RecordSize = rapid.IntRange(1, 16384).Draw(t, "rs-range")
		}
		c.Win = genWindow(t)
		c.Validity = rapid.SampledFrom([]string{"https://a.example/validity", "", u.Scheme + "://" + u.Host + "/resource.validity.msg", "https://a.example/v?x=1&y=%20"}).Draw(t, "validity")
		c.InPlace = rapid.IntRange(0, 3).Draw(t, "inplace") == 0
		return c
	})
}

func fixedSignCases() []SignCase {
	tr := fixedTrees()
	return []SignCase{
		{Tree: tr[0], Fixture: 0, ChainLen: 2, Pem: "sec1", OCSP: vh.B("ocsp\n"), RecordSize: 4096, Win: Window{DateAgo: 600, Expire: 7200, ExpireAs: "go"}, Validity: "https://a.example/validity"},
		{Tree: tr[0], Fixture: 0, ChainLen: 1, Pem: "pkcs8", OCSP: vh.B("ocsp\n"), RecordSize: 16, Win: Window{DateAgo: 600, Expire: 7200, ExpireAs: "go"}, Validity: "https://a.example/validity", InPlace: true},
		{Tree: tr[1], Fixture: 4, ChainLen: 1, Pem: "encrypted", Pass: "secret", OCSP: vh.B{0x30, 0x03, 0x0a, 0x01, 0x00}, RecordSize: 1, Win: Window{DateAgo: 5 * 24 * 3600, Expire: 7 * 24 * 3600, ExpireAs: "h", ZoneMin: 540}, Validity: "https://a.example/validity"},
		{Tree: tr[2], Fixture: 5, ChainLen: 2, Pem: "pkcs8", OCSP: vh.B("x"), RecordSize: 16384, Win: Window{DateAgo: -1}, Validity: ""},
		{Tree: tr[3], Fixture: 0, ChainLen: 2, Pem: "pkcs8", OCSP: vh.B("x"), RecordSize: 0, Win: Window{DateAgo: 120, Expire: 900, ExpireAs: "m"}, Validity: "https://a.example/validity"}, // c.example not covered by fixture 0
		// large files (2^k + 1 octets: code that scales record sizes, buffers or counts with the payload)
		{Tree: TreeCase{Base: "https://a.example/", Version: "b2", Files: []FileSpec{{Path: []string{"big.bin"}, Fill: 1<<22 + 1}, {Path: []string{"small.txt"}, Body: vh.B("hello")}}},
			Fixture: 0, ChainLen: 1, Pem: "sec1", OCSP: vh.B("x"), RecordSize: 4096, Win: Window{DateAgo: 600, Expire: 3600, ExpireAs: "go"}, Validity: "https://a.example/validity"},
		{Tree: TreeCase{Base: "https://a.example/", Version: "b1", Files: []FileSpec{{Path: []string{"big.bin"}, Fill: 1<<20 + 1}, {Path: []string{"more.bin"}, Fill: 5 << 20}}},
			Fixture: 0, ChainLen: 1, Pem: "pkcs8", OCSP: vh.B("x"), RecordSize: 16384, Win: Window{DateAgo: 600, Expire: 3600, ExpireAs: "go"}, Validity: "https://a.example/validity"},
	}
}

func TestFixedSignSections(t *testing.T) {
	needCLI(t)
	for i, c := range fixedSignCases() {
		if !c.Tree.valid() || !c.Win.ok() || !pemOK(c.Pem, c.Pass, true) {
			t.Fatalf("c20: fixed sign case %d is outside the sub-check's domain and would be skipped silently", i)
		}
		if !signProp.One(t, c) {
			return
		}
	}
}

// ---- sign-bundle integrity-block / dump-id ----------------------------------------------------

type IBCase struct {
	Tree TreeCase `json:"tree"`
	Seed vh.B     `json:"key_seed"`
	Pem  string   `json:"pem"` // pkcs8 encrypted
	Pass string   `json:"passphrase"`
}

var idWord = regexp.MustCompile(`[a-z2-7]+`)

// bundleIDs returns every 56-character lower-case base32 word on stdout.
func bundleIDs(out []byte) []string {
	var ids []string
	for _, w := range idWord.FindAll(out, -1) {
		if len(w) == 56 {
			ids = append(ids, string(w))
		}
	}
	return ids
}

func be64(n int) []byte {
	var b [8]byte
	binary.BigEndian.PutUint64(b[:], uint64(n))
	return b[:]
}

var ibProp = vh.Define("C20", "sign-integrity", func(c IBCase, r *vh.R) {
	if !c.Tree.valid() || c.Tree.hasF7Names() || len(c.Seed) == 0 || c.Pem == "sec1" || !pemOK(c.Pem, c.Pass, false) {
		r.Skip = true
		return
	}
	base, _ := url.Parse(c.Tree.Base)
	c.Tree.classes(r, base)
	r.Class("pem-" + c.Pem)
	tmp := mkTmp("ib")
	defer os.RemoveAll(tmp)
	if _, ok := checkTree(r, &c.Tree, tmp); !ok {
		return
	}
	in, err := os.ReadFile(filepath.Join(tmp, "out.wbn"))
	must(err)
	pub, priv := gen.Ed25519FromSeed(c.Seed)
	must(os.WriteFile(filepath.Join(tmp, "ed25519.pem"), keyPEM(priv, c.Pem, c.Pass), 0o600))
	must(os.WriteFile(filepath.Join(tmp, "ed25519pub.pem"), gen.PublicKeyPEM(pub), 0o644))
	env := passEnv(c.Pem, c.Pass)
	ctx := "bundle from: gen-bundle " + strings.Join(c.Tree.genBundleArgs(base), " ")
	s := runTool(tmp, env, "sign-bundle", "integrity-block", "-i", "out.wbn", "-o", "ib.wbn", "-privateKey", "ed25519.pem")
	if s.exit != 0 {
		failTool(r, "sign-bundle-failed", "sign-bundle integrity-block refused gen-bundle's output / an Ed25519 key in PEM form "+c.Pem, s, ctx)
		return
	}
	out, err := os.ReadFile(filepath.Join(tmp, "ib.wbn"))
	if err != nil {
		failTool(r, "sign-bundle-no-output", "sign-bundle integrity-block exited 0 without writing the -o file", s, ctx)
		return
	}
	if !bytes.HasSuffix(out, in) || len(out) <= len(in) {
		r.Failf("not-prefixed", "the signed file (%d bytes) does not end with the exact bytes of the input bundle (%d bytes)\n  %s", len(out), len(in), s.cmdline)
		return
	}
	// The integrity block in deterministic CBOR has exactly one encoding:
	// [ h'F09F968BF09F93A6', h'31620000', [ [ {"ed25519PublicKey": pub}, sig(64) ] ] ]
	empty := append(append([]byte{0x83, 0x48}, 0xf0, 0x9f, 0x96, 0x8b, 0xf0, 0x9f, 0x93, 0xa6), 0x44, 0x31, 0x62, 0x00, 0x00)
	attrs := append(append([]byte{0xa1, 0x70}, []byte("ed25519PublicKey")...), 0x58, 0x20)
	attrs = append(attrs, pub...)
	head := append(append(append([]byte{}, empty...), 0x81, 0x82), attrs...)
	head = append(head, 0x58, 0x40)
	block := out[:len(out)-len(in)]
	if len(block) != len(head)+64 || !bytes.Equal(block[:len(head)], head) {
		r.Failf("block-structure", "the prefix (%d bytes) is not a deterministic-CBOR integrity block with one signature carrying the signer's public key: % x\n  %s", len(block), block, s.cmdline)
		return
	}
	sig := block[len(head):]
	hash := sha512.Sum512(in)
	emptyBlock := append(append([]byte{}, empty...), 0x80)
	var data []byte
	data = append(data, be64(64)...)
	data = append(data, hash[:]...)
	data = append(data, be64(len(emptyBlock))...)
	data = append(data, emptyBlock...)
	data = append(data, be64(len(attrs))...)
	data = append(data, attrs...)
	if !ed25519.Verify(pub, data, sig) {
		r.Failf("signature", "the integrity block's signature does not verify over be64(64)|SHA-512(bundle)|be64(len)|empty block|be64(len)|attributes\n  %s\n  %s", s.cmdline, ctx)
		return
	}
	wantID := strings.ToLower(base32.StdEncoding.WithPadding(base32.NoPadding).EncodeToString(append(append([]byte{}, pub...), 0, 1, 2)))
	check := func(t *toolRes, what string) bool {
		if t.exit != 0 {
			failTool(r, "dump-id-failed", what+" failed", t, ctx)
			return false
		}
		ids := bundleIDs(t.stdout)
		if len(ids) != 1 || ids[0] != wantID {
			r.Failf("bundle-id", "%s printed the IDs %q, expected exactly %q\n  %s", what, ids, wantID, t.cmdline)
			return false
		}
		return true
	}
	if !check(s, "sign-bundle integrity-block") {
		return
	}
	if !check(runTool(tmp, env, "sign-bundle", "dump-id", "-privateKey", "ed25519.pem"), "sign-bundle dump-id -privateKey") {
		return
	}
	check(runTool(tmp, nil, "sign-bundle", "dump-id", "-publicKey", "ed25519pub.pem"), "sign-bundle dump-id -publicKey")
})

func TestPropSignIntegrity(t *testing.T) {
	needCLI(t)
	ibProp.Rapid(t, func(t *rapid.T) IBCase {
		c := IBCase{Tree: smallTree(t, baseURLs), Seed: vh.B(rapid.SliceOfN(rapid.Byte(), 1, 8).Draw(t, "seed"))}
		c.Pem, c.Pass = genPem(t, []string{"pkcs8", "encrypted"})
		return c
	})
}

func TestFixedSignIntegrity(t *testing.T) {
	needCLI(t)
	tr := fixedTrees()
	for _, c := range []IBCase{
		{Tree: tr[0], Seed: vh.B{1}, Pem: "pkcs8"},
		{Tree: tr[1], Seed: vh.B{2}, Pem: "encrypted", Pass: "secret"},
	} {
		if !ibProp.One(t, c) {
			return
		}
	}
}
