PLAN = dict(
    id="C20", pkg="c20", level="exploration", cli=True,
    rule=("Every sub-check drives the repository's built binaries (directory in VERIF_CLI) on generated inputs in a scratch directory and decides from exit statuses and "
          "produced files only (never from message wording; the Web Bundle ID is the only 56-character lower-case base32 word on stdout). "
          "dir-bundle: a directory tree (depth <= 3, 1..8 files; names with space, '#', '?', '%41', bare '%', ':', sub-delims, non-ASCII, leading '-', index.html at any "
          "level; empty, text, binary and > 64 KiB files), base URLs with/without trailing slash, path, port, versions b1 (+ -primaryURL / -manifestURL), b2 and the default: "
          "gen-bundle exits 0, dump-bundle exits 0, bundle.Read yields exactly one exchange per regular file on the base's scheme/host, without query or fragment, whose "
          "decoded path == base directory + relative path (== ResolveReference of a Path-only reference), status 200 and body == file bytes; index.html is served at its "
          "directory's slash URL and its own URL is a 301 to './'; no other exchanges. sign-sections: such a bundle + gen-certurl chain + fixture key in SEC1 / PKCS#8 / "
          "encrypted PKCS#8 form, -date/-expire with the present inside the window (flags omitted, numeric zones, exactly 168h), -miRecordSize 1..16384: sign-bundle "
          "signatures-section exits 0, dump-bundle exits 0, bundle.Read + signature.NewVerifier(now) succeed, VerifyExchange returns the original body for every exchange on a "
          "host the certificate covers and (nil,nil) otherwise. sign-integrity: sign-bundle integrity-block with an Ed25519 key (PKCS#8 / encrypted): exit 0, output == "
          "deterministic-CBOR integrity block (one signature, signer's public key) | exact input bytes, Ed25519 signature verifies over the explainer's payload, printed ID == "
          "base32(pub|000102) and dump-id -privateKey / -publicKey print the same ID. certurl: gen-certurl (-sctDir with 0..3 .sct files and decoys) exits 0, dump-certurl exits 0, "
          "ReadCertChain returns the input DER in order, the OCSP bytes and the RFC 6962 list of the .sct files in lexical order. sxg: gen-signedexchange for 1b1/1b2/1b3 with "
          "statuses, methods, request/response headers (multi-valued Cache-Control incl. the F8 shapes), record sizes, key forms, -o file / -o -: exit 0 is mandatory for plainly "
          "conforming inputs; whenever it exits 0, dump-signedexchange -verify -cert exits 0 and ReadExchange + Verify(now) return the content file's bytes. har: gen-bundle -har "
          "(GET / non-GET, pseudo and banned headers, base64 bodies, duplicate URLs with/without Variants, statuses out of range): exit 0 is mandatory for plain captures; "
          "whenever it exits 0, dump-bundle exits 0, bundle.Read succeeds, every first GET entry is present with status and body, entries that must be dropped are absent. "
          "Non-trivial: every executed pipeline whose first tool exited 0; distinct by fingerprint of the case. Switches: VERIF_C20_SKIP_F7=1 keeps '#', '?', '%', ':' out of "
          "file names (class excluded-f7-names), VERIF_C20_SKIP_STDOUT_NOTICE=1 excludes 'gen-signedexchange -o -' with an encrypted key (class excluded-stdout-notice); "
          "default: both are reported."),
    assumptions=TRUSTED + ["which of several equivalent spellings of the base URL's percent-escapes gen-bundle uses is not prescribed; a redirect's target, resolved against the redirecting exchange's own URL, must be the URL of a 200 exchange octet for octet", "the downstream library readers named by the property (bundle.Read, signature.NewVerifier/VerifyExchange, signedexchange.ReadExchange/Verify, "
                           "certurl.ReadCertChain) are the acceptance judges next to the dump tools' exit statuses",
                           "github.com/youmark/pkcs8 (a dependency of the repository) produces the encrypted PKCS#8 test keys",
                           "the tools verify at time.Now(): cases carry offsets relative to the moment of execution with >= 2 minutes margin",
                           "a directory named index.html, control characters and invalid UTF-8 in names, empty OCSP files are outside the explored domain"],
    technique="rapid-generated and hand-written inputs piped through the built binaries; exit-status/file oracles with independent models of the expected bundle content, SCT list and integrity block",
    level_text=("End-to-end exploration of the command-line tools on generated directory trees, HAR captures, key forms and flag values; two-sided where the documentation leaves no "
                "reason to refuse, one-sided (no accepted-then-rejected artifact) elsewhere. Hand-written cases guarantee the mandatory shapes on every run."),
    level_note=NOTE_BASE,
    runs=[
        dict(name="dir", run="^(TestPropDirBundle|TestFixedDirBundle|TestCorpus)$", checks=(40, 2000), shards=(1, 16), timeout=(300, 3600)),
        dict(name="sign", run="^(TestPropSignSections|TestFixedSignSections)$", checks=(25, 750), shards=(1, 16), timeout=(300, 3600)),
        dict(name="ib", run="^(TestPropSignIntegrity|TestFixedSignIntegrity)$", checks=(10, 200), shards=(1, 16), timeout=(300, 3600)),
        dict(name="cert", run="^(TestPropCertURL|TestFixedCertURL)$", checks=(10, 300), shards=(1, 16), timeout=(300, 3600)),
        dict(name="sxg", run="^(TestPropSxg|TestFixedSxg)$", checks=(40, 1500), shards=(1, 16), timeout=(300, 3600)),
        dict(name="har", run="^(TestPropHar|TestFixedHar)$", checks=(40, 1500), shards=(1, 16), timeout=(300, 3600)),
    ],
    require=[("dir-bundle", "name-with-space"), ("dir-bundle", "name-non-ascii"), ("dir-bundle", "index-html-nested"), ("dir-bundle", "index-html-root"),
             ("dir-bundle", "empty-file"), ("dir-bundle", "v:b1"), ("dir-bundle", "v:b2"), ("dir-bundle", "base-no-trailing-slash"),
             ("sign-sections", "pem-encrypted"), ("sign-sections", "pem-sec1"), ("sign-sections", "pem-pkcs8"), ("sign-sections", "v:b1"), ("sign-sections", "v:b2"),
             ("sign-sections", "covered"), ("sign-sections", "not-covered"), ("sign-integrity", "pem-encrypted"), ("sign-integrity", "pem-pkcs8"),
             ("certurl", "sct-3"), ("certurl", "no-sctdir"), ("sxg", "sxg:1b1"), ("sxg", "sxg:1b2"), ("sxg", "sxg:1b3"), ("sxg", "pem-encrypted"), ("sxg", "pem-sec1"),
             ("sxg", "multi-cache-control"), ("sxg", "conforming"), ("sxg", "refused-nonconforming"), ("har", "non-get-entry"), ("har", "base64-body")],
)
