PLAN = dict(
    id="C20", pkg="c20", level="exploration", cli=True,
    rule=("TODO"),
    assumptions=TRUSTED,
    technique="TODO",
    level_text="TODO",
    level_note=NOTE_BASE,
    runs=[
        dict(name="dir", run="^(TestPropDirBundle|TestFixedDirBundle|TestCorpus)$", checks=(40, 400), shards=(1, 8), timeout=(300, 1800)),
        dict(name="sign", run="^(TestPropSignSections|TestFixedSignSections)$", checks=(25, 150), shards=(1, 8), timeout=(300, 1800)),
        dict(name="ib", run="^(TestPropSignIntegrity|TestFixedSignIntegrity)$", checks=(10, 40), shards=(1, 8), timeout=(300, 1800)),
        dict(name="cert", run="^(TestPropCertURL|TestFixedCertURL)$", checks=(10, 60), shards=(1, 8), timeout=(300, 1800)),
        dict(name="sxg", run="^(TestPropSxg|TestFixedSxg)$", checks=(40, 300), shards=(1, 8), timeout=(300, 1800)),
        dict(name="har", run="^(TestPropHar|TestFixedHar)$", checks=(40, 300), shards=(1, 8), timeout=(300, 1800)),
    ],
    require=[],
)
