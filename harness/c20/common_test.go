// Package c20: the command-line tools compose - each tool's output is accepted downstream.
//
// Oracle discipline: every verdict is derived from exit statuses and produced files only
// (never from log or message wording). The single exception is the Web Bundle ID, which is
// extracted from stdout as the only 56-character lower-case base32 word.
package c20

import (
	"bytes"
	"context"
	"crypto/ecdsa"
	"errors"
	"fmt"
	"os"
	"os/exec"
	"path/filepath"
	"strings"
	"testing"
	"time"
	"unicode/utf8"

	"encoding/pem"

	"github.com/WICG/webpackage/go/verifh/gen"
	"github.com/WICG/webpackage/go/verifh/vh"
	"github.com/youmark/pkcs8"
)

func TestMain(m *testing.M)   { vh.Main(m) }
func TestReplay(t *testing.T) { vh.Replay(t) }
func TestCorpus(t *testing.T) { needCLI(t); vh.Corpus(t) }

// ---- environment ----------------------------------------------------------------------------

// skipF7 restricts directory names to ones without '#', '?', '%', ':' (finding F7) so that the
// search can continue behind the known defect. Default: report.
func skipF7() bool { return os.Getenv("VERIF_C20_SKIP_F7") == "1" }

// skipStdoutNotice excludes the combination "gen-signedexchange -o -" + encrypted private key
// (the pass-phrase notice is printed to stdout in front of the exchange). Default: report.
func skipStdoutNotice() bool { return os.Getenv("VERIF_C20_SKIP_STDOUT_NOTICE") == "1" }

func needCLI(t *testing.T) {
	dir := os.Getenv("VERIF_CLI")
	for _, n := range []string{"gen-bundle", "dump-bundle", "sign-bundle", "gen-signedexchange", "dump-signedexchange", "gen-certurl", "dump-certurl"} {
		st, err := os.Stat(filepath.Join(dir, n))
		if dir == "" || err != nil || st.IsDir() {
			t.Fatalf("command-line tool %s not available (VERIF_CLI=%q): %v", n, dir, err)
		}
	}
}

func tmpBase() string {
	if d := os.Getenv("VERIF_TMP"); d != "" {
		if os.MkdirAll(d, 0o755) == nil {
			return d
		}
	}
	return os.TempDir()
}

func mkTmp(tag string) string {
	d, err := os.MkdirTemp(tmpBase(), "c20-"+tag+"-")
	if err != nil {
		panic(err)
	}
	return d
}

func must(err error) {
	if err != nil {
		panic(err)
	}
}

// ---- running a tool -------------------------------------------------------------------------

type toolRes struct {
	cmdline  string
	exit     int // -1: did not exit by itself (time-out / signal)
	stdout   []byte
	stderr   []byte
	timedOut bool
}

func quoteArg(a string) string {
	if a != "" && strings.IndexFunc(a, func(r rune) bool {
		return !(r >= 'a' && r <= 'z' || r >= 'A' && r <= 'Z' || r >= '0' && r <= '9' || strings.ContainsRune("-_./:=+,@%", r))
	}) < 0 {
		return a
	}
	return "'" + strings.ReplaceAll(a, "'", `'\''`) + "'"
}


// staleOutputs: every second tool invocation finds a LONGER stale file already sitting at its
// "-o" path (left over from an earlier run): tools must replace it, not overwrite its beginning.
var staleCounter int

func plantStaleOutput(dir string, args []string) {
	for i := 0; i+1 < len(args); i++ {
		if args[i] != "-o" || args[i+1] == "-" {
			continue
		}
		p := args[i+1]
		if !filepath.IsAbs(p) {
			p = filepath.Join(dir, p)
		}
		if _, err := os.Stat(p); err == nil {
			continue // the case itself put a file there
		}
		staleCounter++
		if staleCounter%2 == 0 {
			stale := bytes.Repeat([]byte("STALE-OUTPUT-FROM-AN-EARLIER-RUN "), 4096) // 132 KiB, ends with junk (not a valid length field)
			os.WriteFile(p, stale, 0o644)
		}
	}
}

// runTool runs a repository binary in dir with the extra environment and returns its exit status.
func runTool(dir string, extraEnv []string, tool string, args ...string) *toolRes {
	plantStaleOutput(dir, args)
	bin := filepath.Join(os.Getenv("VERIF_CLI"), tool)
	ctx, cancel := context.WithTimeout(context.Background(), 120*time.Second)
	defer cancel()
	cmd := exec.CommandContext(ctx, bin, args...)
	cmd.Dir = dir
	env := []string{}
	for _, e := range os.Environ() {
		if !strings.HasPrefix(e, "WEB_BUNDLE_SIGNING_PASSPHRASE=") {
			env = append(env, e)
		}
	}
	cmd.Env = append(env, extraEnv...)
	var so, se bytes.Buffer
	cmd.Stdout, cmd.Stderr = &so, &se
	err := cmd.Run()
	q := []string{}
	for _, e := range extraEnv {
		q = append(q, quoteArg(e))
	}
	q = append(q, tool)
	for _, a := range args {
		q = append(q, quoteArg(a))
	}
	res := &toolRes{cmdline: strings.Join(q, " "), stdout: so.Bytes(), stderr: se.Bytes()}
	if err == nil {
		return res
	}
	var ee *exec.ExitError
	if errors.As(err, &ee) && ctx.Err() == nil && ee.ExitCode() >= 0 {
		res.exit = ee.ExitCode()
		return res
	}
	if ctx.Err() != nil || errors.As(err, &ee) {
		res.exit = -1
		res.timedOut = ctx.Err() != nil
		return res
	}
	panic(fmt.Sprintf("harness: cannot start %s: %v", bin, err))
}

func tail(b []byte, n int) string {
	if len(b) > n {
		b = b[len(b)-n:]
	}
	return strings.TrimSpace(string(b))
}

// failTool reports a tool whose exit status contradicts the property. The diagnostic tail is
// informational only; it never takes part in a decision.
func failTool(r *vh.R, kind, what string, t *toolRes, ctx string) {
	r.Failf(kind, "%s\n  command (cwd = case directory): %s\n  exit status: %d (timed out: %v)\n  context: %s\n  [diagnostic output, not used for the verdict] %s",
		what, t.cmdline, t.exit, t.timedOut, ctx, tail(t.stderr, 600))
}

// ---- keys -----------------------------------------------------------------------------------

// keyPEM renders a private key in one of the accepted PEM forms.
func keyPEM(key any, form, pass string) []byte {
	switch form {
	case "sec1":
		return gen.ECKeySEC1PEM(key.(*ecdsa.PrivateKey))
	case "pkcs8":
		return gen.KeyPKCS8PEM(key)
	case "encrypted":
		der, err := pkcs8.MarshalPrivateKey(key, []byte(pass), nil)
		must(err)
		return pem.EncodeToMemory(&pem.Block{Type: "ENCRYPTED PRIVATE KEY", Bytes: der})
	}
	panic("unknown PEM form " + form)
}

func passEnv(form, pass string) []string {
	if form == "encrypted" {
		return []string{"WEB_BUNDLE_SIGNING_PASSPHRASE=" + pass}
	}
	return nil
}

func validPass(p string) bool {
	if p == "" || len(p) > 64 {
		return false
	}
	for _, c := range []byte(p) {
		if c < 0x21 || c > 0x7e {
			return false
		}
	}
	return true
}

// ---- time window flags ----------------------------------------------------------------------

// Window describes the -date / -expire flags relative to the moment the case is executed, so
// that a saved case stays valid: the tools verify at time.Now().
type Window struct {
	DateAgo  int    `json:"date_ago_s"`    // -date = now - DateAgo seconds; < 0: flag omitted (tool uses now)
	ZoneMin  int    `json:"date_zone_min"` // numeric zone offset used to print -date (0 = "Z")
	Expire   int    `json:"expire_s"`      // -expire duration in seconds; <= 0: flag omitted (1h default)
	ExpireAs string `json:"expire_as"`     // "s" (e.g. 5400s), "go" (1h30m0s), "m" (90m) when divisible, "h" when divisible
}

// ok: now lies inside [date, date+expire] with at least two minutes on both sides and the life
// time does not exceed seven days.
func (w Window) ok() bool {
	ago := w.DateAgo
	if ago < 0 {
		ago = 0
	} else if ago < 120 {
		return false
	}
	exp := w.Expire
	if exp <= 0 {
		exp = 3600
	}
	return exp <= 7*24*3600 && exp >= ago+120 && w.ZoneMin > -14*60 && w.ZoneMin < 14*60
}

func (w Window) args(now time.Time) []string {
	var a []string
	if w.DateAgo >= 0 {
		t := now.Add(-time.Duration(w.DateAgo) * time.Second)
		if w.ZoneMin == 0 {
			t = t.UTC()
		} else {
			t = t.In(time.FixedZone("", w.ZoneMin*60))
		}
		a = append(a, "-date", t.Format(time.RFC3339))
	}
	if w.Expire > 0 {
		d := time.Duration(w.Expire) * time.Second
		s := fmt.Sprintf("%ds", w.Expire)
		switch {
		case w.ExpireAs == "go":
			s = d.String()
		case w.ExpireAs == "m" && w.Expire%60 == 0:
			s = fmt.Sprintf("%dm", w.Expire/60)
		case w.ExpireAs == "h" && w.Expire%3600 == 0:
			s = fmt.Sprintf("%dh", w.Expire/3600)
		}
		a = append(a, "-expire", s)
	}
	return a
}

func (w Window) classes(r *vh.R) {
	if w.DateAgo < 0 {
		r.Class("date-default")
	}
	if w.Expire <= 0 {
		r.Class("expire-default")
	}
	if w.Expire == 7*24*3600 {
		r.Class("expire-168h")
	}
	if w.ZoneMin != 0 {
		r.Class("date-numeric-zone")
	}
}

// ---- small helpers --------------------------------------------------------------------------

func validComponent(s string) bool {
	if s == "" || s == "." || s == ".." || len(s) > 120 || !utf8.ValidString(s) {
		return false
	}
	for _, c := range s {
		if c == '/' || c == 0 || c < 0x20 || c == 0x7f || (c >= 0x80 && c < 0xa0) {
			return false
		}
	}
	return true
}

func asciiPrintable(s string) bool {
	for _, c := range []byte(s) {
		if c < 0x20 || c > 0x7e {
			return false
		}
	}
	return true
}
