package c20

import (
	"bytes"
	"encoding/binary"
	"io"
	"log"
	"net/http"
	"os"
	"path/filepath"
	"sort"
	"strconv"
	"strings"
	"testing"
	"time"

	"github.com/WICG/webpackage/go/signedexchange"
	"github.com/WICG/webpackage/go/signedexchange/certurl"
	"github.com/WICG/webpackage/go/verifh/gen"
	"github.com/WICG/webpackage/go/verifh/vh"
	"pgregory.net/rapid"
)

// ---- gen-certurl -> dump-certurl ---------------------------------------------------------------

type NamedFile struct {
	Name string `json:"name"`
	Body vh.B   `json:"body"`
}

type CertCase struct {
	Fixture  int         `json:"fixture"`
	ChainLen int         `json:"chain_len"`
	OCSP     vh.B        `json:"ocsp"`
	SctDir   bool        `json:"sct_dir"` // pass -sctDir
	Files    []NamedFile `json:"sct_dir_files"`
}

func validFlatName(s string) bool {
	return validComponent(s) && asciiPrintable(s) && !strings.ContainsAny(s, "*?[]\\")
}

var certProp = vh.Define("C20", "certurl", func(c CertCase, r *vh.R) {
	if c.Fixture < 0 || c.Fixture >= len(gen.Fixtures()) || c.ChainLen < 1 || c.ChainLen > 2 || len(c.OCSP) == 0 || len(c.Files) > 6 || (!c.SctDir && len(c.Files) > 0) {
		r.Skip = true
		return
	}
	names := map[string]bool{}
	for _, f := range c.Files {
		if !validFlatName(f.Name) || names[f.Name] || len(f.Body) > 4096 {
			r.Skip = true
			return
		}
		names[f.Name] = true
	}
	fx := gen.Fixtures()[c.Fixture]
	tmp := mkTmp("cert")
	defer os.RemoveAll(tmp)
	var extra []string
	var scts []NamedFile
	if c.SctDir {
		must(os.Mkdir(filepath.Join(tmp, "scts"), 0o755))
		for _, f := range c.Files {
			must(os.WriteFile(filepath.Join(tmp, "scts", f.Name), f.Body, 0o644))
			if strings.HasSuffix(f.Name, ".sct") {
				scts = append(scts, f)
			}
		}
		extra = []string{"-sctDir", "scts"}
		r.Classf("sct-%d", len(scts))
		if len(scts) < len(c.Files) {
			r.Class("decoy-files")
		}
	} else {
		r.Class("no-sctdir")
	}
	r.Classf("chain-%d", c.ChainLen)
	if !writeCertCBOR(r, tmp, c.Fixture, c.ChainLen, c.OCSP, extra...) {
		return
	}
	r.NT()
	d := runTool(tmp, nil, "dump-certurl", "-i", "cert.cbor")
	if d.exit != 0 {
		failTool(r, "dump-certurl-rejected", "dump-certurl rejects gen-certurl's output", d, "gen-certurl -pem chain.pem -ocsp ocsp.der "+strings.Join(extra, " "))
		return
	}
	raw, err := os.ReadFile(filepath.Join(tmp, "cert.cbor"))
	must(err)
	chain, err := certurl.ReadCertChain(bytes.NewReader(raw))
	if err != nil {
		r.Failf("read-failed", "certurl.ReadCertChain rejects gen-certurl's output: %v", err)
		return
	}
	if len(chain) != c.ChainLen {
		r.Failf("chain-length", "%d certificates in, %d out", c.ChainLen, len(chain))
		return
	}
	for i, ac := range chain {
		if !bytes.Equal(ac.Cert.Raw, fx.Chain[i].Raw) {
			r.Failf("cert-der", "certificate %d differs from the PEM input", i)
			return
		}
		if i > 0 && (len(ac.OCSPResponse) != 0 || len(ac.SCTList) != 0) {
			r.Failf("extra-fields", "certificate %d carries OCSP/SCT data", i)
			return
		}
	}
	if !bytes.Equal(chain[0].OCSPResponse, c.OCSP) {
		r.Failf("ocsp", "OCSP bytes differ: % x in the file, % x given", chain[0].OCSPResponse, []byte(c.OCSP))
		return
	}
	var wantSCT []byte
	if c.SctDir {
		sort.Slice(scts, func(i, j int) bool { return scts[i].Name < scts[j].Name })
		var items []byte
		for _, f := range scts {
			items = binary.BigEndian.AppendUint16(items, uint16(len(f.Body)))
			items = append(items, f.Body...)
		}
		wantSCT = append(binary.BigEndian.AppendUint16(nil, uint16(len(items))), items...)
	}
	if !bytes.Equal(chain[0].SCTList, wantSCT) {
		r.Failf("sct-list", "SCT list in the file is % x, expected the RFC 6962 SignedCertificateTimestampList of the .sct files in lexical order % x", chain[0].SCTList, wantSCT)
	}
})

func genSCT(t *rapid.T) vh.B {
	if rapid.IntRange(0, 3).Draw(t, "sct-short") == 0 {
		return vh.B(rapid.SliceOfN(rapid.Byte(), 0, 20).Draw(t, "sct-raw"))
	}
	b := append([]byte{0}, gen.Filler(32, uint64(rapid.IntRange(1, 50).Draw(t, "logid")))...)
	return vh.B(append(b, rapid.SliceOfN(rapid.Byte(), 10, 90).Draw(t, "sct-rest")...))
}

func TestPropCertURL(t *testing.T) {
	needCLI(t)
	certProp.Rapid(t, func(t *rapid.T) CertCase {
		c := CertCase{Fixture: rapid.IntRange(0, len(gen.Fixtures())-1).Draw(t, "fixture"), ChainLen: rapid.IntRange(1, 2).Draw(t, "chain"), OCSP: genOCSP(t)}
		c.SctDir = rapid.IntRange(0, 3).Draw(t, "sctdir") != 0
		if c.SctDir {
			names := rapid.SliceOfNDistinct(rapid.SampledFrom([]string{"a.sct", "b.sct", "10.sct", "2.sct", "Z.sct", ".sct", "argon2018.sct", "nimbus 2018.sct", "-x.sct"}), 0, 3, rapid.ID[string]).Draw(t, "sct-names")
			for _, n := range names {
				c.Files = append(c.Files, NamedFile{Name: n, Body: genSCT(t)})
			}
			if rapid.Bool().Draw(t, "decoy") {
				c.Files = append(c.Files, NamedFile{Name: rapid.SampledFrom([]string{"readme.txt", "x.sct.bak", "sct", "a.SCT~"}).Draw(t, "decoy-name"), Body: vh.B("decoy")})
			}
		}
		return c
	})
}

func TestFixedCertURL(t *testing.T) {
	needCLI(t)
	sct := func(tag uint64) vh.B { return vh.B(append([]byte{0}, gen.Filler(60, tag)...)) }
	for _, c := range []CertCase{
		{Fixture: 0, ChainLen: 2, OCSP: vh.B("ocsp\n")},
		{Fixture: 1, ChainLen: 1, OCSP: vh.B{0x30, 0x00}, SctDir: true},
		{Fixture: 5, ChainLen: 2, OCSP: vh.B("o"), SctDir: true, Files: []NamedFile{{"b.sct", sct(1)}, {"a.sct", sct(2)}, {"10.sct", sct(3)}, {"note.txt", vh.B("n")}}},
	} {
		if !certProp.One(t, c) {
			return
		}
	}
}

// ---- gen-signedexchange -> dump-signedexchange -verify ------------------------------------------

type SxgCase struct {
	Version    string   `json:"version"` // 1b1 1b2 1b3 default (flag omitted => 1b3)
	Authority  string   `json:"authority"`
	Path       string   `json:"path"` // path (and query) of -uri
	Validity   string   `json:"validity_path"`
	CertURL    string   `json:"cert_url"`
	Fixture    int      `json:"fixture"`
	ChainLen   int      `json:"chain_len"`
	Pem        string   `json:"pem"`
	Pass       string   `json:"passphrase"`
	OCSP       vh.B     `json:"ocsp"`
	Status     int      `json:"status"` // 0: flag omitted (200)
	Payload    vh.B     `json:"payload"`
	Fill       int      `json:"payload_fill"`
	RecordSize int      `json:"mi_record_size"` // 0: flag omitted
	Win        Window   `json:"window"`
	Method     string   `json:"method"` // "": flag omitted
	ReqHeaders []string `json:"request_headers"`
	ResHeaders []string `json:"response_headers"`
	Stdout     bool     `json:"output_to_stdout"` // -o -
}

var cacheableByDefault = map[int]bool{200: true, 203: true, 204: true, 206: true, 300: true, 301: true, 404: true, 405: true, 410: true, 414: true, 501: true}

func headerOK(h string) bool {
	i := strings.Index(h, ":")
	if i <= 0 || !asciiPrintable(h) || len(h) > 300 {
		return false
	}
	for _, c := range []byte(h[:i]) {
		if !(c >= 'a' && c <= 'z' || c >= 'A' && c <= 'Z' || c >= '0' && c <= '9' || c == '-') {
			return false
		}
	}
	return strings.TrimSpace(h[i+1:]) != ""
}

func headerName(h string) string {
	return strings.ToLower(strings.TrimSpace(h[:strings.Index(h, ":")]))
}

func (c *SxgCase) version() string {
	if c.Version == "default" {
		return "1b3"
	}
	return c.Version
}

// plainlyConforming: inputs for which the documentation leaves no reason to refuse. For all
// other inputs gen-signedexchange may refuse (its self-verification is the documented guard);
// what it may never do is exit 0 and emit something the downstream tool rejects.
func (c *SxgCase) plainlyConforming() bool {
	if gen.Fixtures()[c.Fixture].Curve != "P-256" { // README: "You have to use prime256v1 ecdsa keys"
		return false
	}
	if c.Method != "" && c.Method != "GET" && c.Method != "HEAD" {
		return false
	}
	for _, h := range c.ReqHeaders {
		if signedexchange.IsStatefulRequestHeader(headerName(h)) {
			return false
		}
	}
	for _, h := range c.ResHeaders {
		n := headerName(h)
		v := strings.ToLower(h)
		if signedexchange.IsUncachedHeader(n) || n == "digest" || n == "mi" || n == "content-encoding" || n == "signature" {
			return false
		}
		if n == "cache-control" && (strings.Contains(v, "no-store") || strings.Contains(v, "private")) {
			return false
		}
	}
	st := c.Status
	if st == 0 {
		st = 200
	}
	return cacheableByDefault[st]
}

var sxgProp = vh.Define("C20", "sxg", func(c SxgCase, r *vh.R) {
	ok := c.Fixture >= 0 && c.Fixture < len(gen.Fixtures()) && c.ChainLen >= 1 && c.ChainLen <= 2 && pemOK(c.Pem, c.Pass, true) && len(c.OCSP) > 0 &&
		(c.Status == 0 || c.Status >= 100 && c.Status <= 599) && c.Fill >= 0 && c.Fill <= 1<<20 && c.RecordSize >= 0 && c.RecordSize <= 16384 && c.Win.ok() &&
		strings.HasPrefix(c.Path, "/") && strings.HasPrefix(c.Validity, "/") && asciiPrintable(c.Authority+c.Path+c.Validity+c.CertURL+c.Method) &&
		!strings.ContainsAny(c.Authority+c.Path+c.Validity+c.Method, " #") && c.Authority != "" && strings.HasPrefix(c.CertURL, "https://")
	switch c.Version {
	case "1b1", "1b2":
	case "1b3", "default":
		ok = ok && c.Method == "" && len(c.ReqHeaders) == 0
	default:
		ok = false
	}
	for _, h := range append(append([]string{}, c.ReqHeaders...), c.ResHeaders...) {
		ok = ok && headerOK(h)
	}
	if !ok {
		r.Skip = true
		return
	}
	if c.Stdout && c.Pem == "encrypted" && skipStdoutNotice() {
		vh.Count("sxg", "excluded-stdout-notice", 1)
		r.Skip = true
		return
	}
	fx := gen.Fixtures()[c.Fixture]
	r.Class("sxg:" + c.version())
	r.Class("pem-" + c.Pem)
	r.Class("curve:" + fx.Curve)
	c.Win.classes(r)
	cc := 0
	for _, h := range c.ResHeaders {
		if headerName(h) == "cache-control" {
			cc++
		}
	}
	if cc >= 2 {
		r.Class("multi-cache-control")
	}
	if c.Stdout {
		r.Class("out-stdout")
	}
	if c.Method == "HEAD" {
		r.Class("method-head")
	}
	if c.RecordSize == 1 {
		r.Class("rs:1")
	}
	if c.RecordSize == 16384 {
		r.Class("rs:16384")
	}
	payload := append(append([]byte{}, c.Payload...), gen.Filler(c.Fill, 99)...)
	if len(payload) == 0 {
		r.Class("empty-payload")
	}

	tmp := mkTmp("sxg")
	defer os.RemoveAll(tmp)
	if !writeCertCBOR(r, tmp, c.Fixture, c.ChainLen, c.OCSP) {
		return
	}
	must(os.WriteFile(filepath.Join(tmp, "key.pem"), keyPEM(fx.Key, c.Pem, c.Pass), 0o600))
	must(os.WriteFile(filepath.Join(tmp, "payload.bin"), payload, 0o644))
	args := []string{}
	if c.Version != "default" {
		args = append(args, "-version", c.Version)
	}
	args = append(args, "-uri", "https://"+c.Authority+c.Path, "-content", "payload.bin", "-certificate", "chain.pem", "-certUrl", c.CertURL,
		"-validityUrl", "https://"+c.Authority+c.Validity, "-privateKey", "key.pem")
	if c.Status != 0 {
		args = append(args, "-status", strconv.Itoa(c.Status))
	}
	if c.RecordSize != 0 {
		args = append(args, "-miRecordSize", strconv.Itoa(c.RecordSize))
	}
	args = append(args, c.Win.args(time.Now())...)
	if c.Method != "" {
		args = append(args, "-method", c.Method)
	}
	for _, h := range c.ReqHeaders {
		args = append(args, "-requestHeader", h)
	}
	for _, h := range c.ResHeaders {
		args = append(args, "-responseHeader", h)
	}
	if c.Stdout {
		args = append(args, "-o", "-")
	} else {
		args = append(args, "-o", "out.sxg")
	}
	g := runTool(tmp, passEnv(c.Pem, c.Pass), "gen-signedexchange", args...)
	ctx := "certificate fixture " + fx.Name + ", payload " + strconv.Itoa(len(payload)) + " bytes, cert.cbor from gen-certurl -pem chain.pem -ocsp ocsp.der"
	if g.exit != 0 {
		if c.plainlyConforming() {
			failTool(r, "gen-sxg-refused", "gen-signedexchange refused plainly conforming inputs", g, ctx)
			return
		}
		r.Class("refused-nonconforming")
		return
	}
	r.NT()
	if c.plainlyConforming() {
		r.Class("conforming")
	} else {
		r.Class("accepted-not-plainly-conforming")
	}
	if c.Stdout {
		must(os.WriteFile(filepath.Join(tmp, "out.sxg"), g.stdout, 0o644))
	}
	raw, err := os.ReadFile(filepath.Join(tmp, "out.sxg"))
	if err != nil {
		failTool(r, "gen-sxg-no-output", "gen-signedexchange exited 0 without writing the -o file", g, ctx)
		return
	}
	d := runTool(tmp, nil, "dump-signedexchange", "-i", "out.sxg", "-verify", "-cert", "cert.cbor")
	if d.exit != 0 {
		what := "dump-signedexchange -verify rejects the exchange gen-signedexchange emitted with exit status 0"
		if c.Stdout {
			what += " (out.sxg holds gen-signedexchange's stdout, -o -)"
		}
		failTool(r, "dump-sxg-rejected", what+"\n  gen-signedexchange: "+g.cmdline, d, ctx)
		return
	}
	e, err := signedexchange.ReadExchange(bytes.NewReader(raw))
	if err != nil {
		r.Failf("read-failed", "signedexchange.ReadExchange rejects gen-signedexchange's output: %v\n  %s", err, g.cmdline)
		return
	}
	certCBOR, err := os.ReadFile(filepath.Join(tmp, "cert.cbor"))
	must(err)
	got, valid := e.Verify(time.Now(), func(string) ([]byte, error) { return certCBOR, nil }, log.New(io.Discard, "", 0))
	if !valid {
		r.Failf("verify", "Exchange.Verify at the current time rejects gen-signedexchange's output\n  %s\n  %s", g.cmdline, ctx)
		return
	}
	if !bytes.Equal(got, payload) {
		r.Failf("payload", "verified payload (%d bytes) differs from the -content file (%d bytes)\n  %s", len(got), len(payload), g.cmdline)
	}
})

var (
	sxgAuthorities = []string{"a.example", "a.example", "b.example", "c.example", "www.a.example", "x.w.example", "a.example:8443"}
	sxgPaths       = []string{"/", "/index.html", "/hello.html", "/a/b.html?x=1&y=2", "/%E6%97%A5.html", "/p%41th", "/a+b;c=d", "/q?"}
	cacheControls  = []string{"max-age=100", "public", "s-maxage=60", "no-cache", "max-age=0, must-revalidate", "no-transform", "max-age=604800, public", "MAX-AGE=5"}
	cacheControlsX = []string{"no-store", "private", "max-age=100, no-store", "Private", "no-store, max-age=100"}
	otherResHdrs   = []string{"Content-Type: text/plain", "content-type: application/octet-stream", "Content-Type: text/html; charset=utf-8", "X-Test: a, b", "X-Test: second",
		"Link: <https://a.example/s.css>;rel=preload;as=style", "Content-Language: en", "X-Url: https://x.example/a:b", "Expires: Thu, 01 Jan 2037 00:00:00 GMT", "Age:0",
		"Vary: Accept", "X-Empty-Ish:  padded  "}
	otherResHdrsX = []string{"Set-Cookie: a=b", "Strict-Transport-Security: max-age=1", "Connection: close"}
	reqHdrs       = []string{"Accept: */*", "User-Agent: verif", "Accept-Language: en", "accept: text/html", "X-Req: 1:2"}
	reqHdrsX      = []string{"Cookie: a=b", "Authorization: Basic eA=="}
	statuses      = []int{0, 200, 200, 203, 204, 206, 300, 301, 404, 405, 410, 414, 501}
	statusesX     = []int{302, 500, 201, 299, 307}
)

func TestPropSxg(t *testing.T) {
	needCLI(t)
	sxgProp.Rapid(t, func(t *rapid.T) SxgCase {
		c := SxgCase{Version: rapid.SampledFrom([]string{"1b1", "1b2", "1b3", "1b3", "default"}).Draw(t, "version")}
		// one case in four may contain an element that makes the exchange unverifiable by policy
		odd := rapid.IntRange(0, 3).Draw(t, "odd") == 0
		pick := func(label string, okPool, oddPool []string) string {
			if odd && rapid.IntRange(0, 2).Draw(t, label+"-odd") == 0 {
				return rapid.SampledFrom(oddPool).Draw(t, label+"-x")
			}
			return rapid.SampledFrom(okPool).Draw(t, label)
		}
		c.Authority = rapid.SampledFrom(sxgAuthorities).Draw(t, "authority")
		c.Path = rapid.SampledFrom(sxgPaths).Draw(t, "path")
		c.Validity = rapid.SampledFrom([]string{"/v", "/resource.validity.msg", "/v?1"}).Draw(t, "validity")
		c.CertURL = rapid.SampledFrom([]string{"https://cert.example/c.cbor", "https://a.example/cert.msg?x=1"}).Draw(t, "certurl")
		host := strings.Split(c.Authority, ":")[0]
		c.Fixture = genFixtureFor(t, host, true)
		c.ChainLen = rapid.IntRange(1, 2).Draw(t, "chain")
		c.Pem, c.Pass = genPem(t, []string{"sec1", "pkcs8", "encrypted"})
		c.OCSP = genOCSP(t)
		c.Status = rapid.SampledFrom(statuses).Draw(t, "status")
		if odd && rapid.IntRange(0, 2).Draw(t, "status-odd") == 0 {
			c.Status = rapid.SampledFrom(statusesX).Draw(t, "status-x")
		}
		c.Payload, c.Fill = genBody(t, "payload")
		c.RecordSize = rapid.SampledFrom([]int{0, 1, 2, 16, 100, 255, 4096, 16383, 16384}).Draw(t, "rs")
		if c.RecordSize > 0 && rapid.IntRange(0, 2).Draw(t, "rs-any") == 0 {
			c.RecordSize = rapid.IntRange(1, 16384).Draw(t, "rs-range")
		}
		c.Win = genWindow(t)
		if c.Version == "1b1" || c.Version == "1b2" {
			c.Method = pick("method", []string{"", "GET", "GET", "HEAD", "HEAD"}, []string{"POST", "PUT"})
			n := rapid.IntRange(0, 2).Draw(t, "nreq")
			for i := 0; i < n; i++ {
				c.ReqHeaders = append(c.ReqHeaders, pick("reqh", reqHdrs, reqHdrsX))
			}
		}
		ncc := rapid.SampledFrom([]int{0, 0, 1, 2, 2, 3}).Draw(t, "ncc")
		for i := 0; i < ncc; i++ {
			name := rapid.SampledFrom([]string{"Cache-Control", "Cache-Control", "cache-control"}).Draw(t, "ccname")
			c.ResHeaders = append(c.ResHeaders, name+": "+pick("cc", cacheControls, cacheControlsX))
		}
		n := rapid.IntRange(0, 2).Draw(t, "nres")
		for i := 0; i < n; i++ {
			c.ResHeaders = append(c.ResHeaders, pick("resh", otherResHdrs, otherResHdrsX))
		}
		if len(c.ResHeaders) > 1 && rapid.Bool().Draw(t, "rot") {
			c.ResHeaders = append(c.ResHeaders[1:], c.ResHeaders[0])
		}
		c.Stdout = rapid.IntRange(0, 4).Draw(t, "stdout") == 0
		if c.Stdout && c.Pem == "encrypted" && skipStdoutNotice() {
			vh.Count("sxg", "excluded-stdout-notice", 1)
			c.Stdout = false
		}
		return c
	})
}

func fixedSxgCases() []SxgCase {
	w := Window{DateAgo: 600, Expire: 7200, ExpireAs: "go"}
	return []SxgCase{
		{Version: "1b3", Authority: "a.example", Path: "/hello.html", Validity: "/resource.validity.msg", CertURL: "https://cert.example/c.cbor", Fixture: 0, ChainLen: 2, Pem: "sec1",
			OCSP: vh.B("ocsp\n"), Payload: vh.B("<h1>hi</h1>\n"), Win: Window{DateAgo: -1}},
		// F8 regression: multi-valued Cache-Control that allows caching
		{Version: "1b3", Authority: "a.example", Path: "/", Validity: "/v", CertURL: "https://cert.example/c.cbor", Fixture: 0, ChainLen: 1, Pem: "pkcs8", OCSP: vh.B("o"),
			Status: 200, Payload: vh.B("x"), RecordSize: 1, Win: w, ResHeaders: []string{"Cache-Control: max-age=100", "Cache-Control: public"}},
		// F8 regression: second value forbids caching - the generator's verdict and the downstream verdict must agree
		{Version: "1b3", Authority: "a.example", Path: "/", Validity: "/v", CertURL: "https://cert.example/c.cbor", Fixture: 0, ChainLen: 1, Pem: "pkcs8", OCSP: vh.B("o"),
			Status: 200, Payload: vh.B("x"), Win: w, ResHeaders: []string{"Cache-Control: max-age=100", "Cache-Control: no-store"}},
		{Version: "1b1", Authority: "b.example", Path: "/a/b.html?x=1&y=2", Validity: "/v", CertURL: "https://cert.example/c.cbor", Fixture: 5, ChainLen: 2, Pem: "encrypted", Pass: "secret",
			OCSP: vh.B("o"), Status: 404, Fill: 70001, RecordSize: 16384, Win: Window{DateAgo: 5 * 24 * 3600, Expire: 7 * 24 * 3600, ExpireAs: "h", ZoneMin: -480}, Method: "HEAD",
			ReqHeaders: []string{"Accept: */*"}, ResHeaders: []string{"Content-Type: text/plain"}},
		{Version: "1b2", Authority: "a.example:8443", Path: "/index.html", Validity: "/v?1", CertURL: "https://a.example/cert.msg?x=1", Fixture: 3, ChainLen: 2, Pem: "sec1",
			OCSP: vh.B("o"), Status: 301, Win: w, Method: "GET", Stdout: true},
		// -o - together with an encrypted key (excluded by VERIF_C20_SKIP_STDOUT_NOTICE=1)
		{Version: "1b3", Authority: "a.example", Path: "/hello.html", Validity: "/v", CertURL: "https://cert.example/c.cbor", Fixture: 0, ChainLen: 1, Pem: "encrypted", Pass: "secret",
			OCSP: vh.B("o"), Payload: vh.B("<h1>hi</h1>\n"), Win: w, Stdout: true},
	}
}

func TestFixedSxg(t *testing.T) {
	needCLI(t)
	for _, c := range fixedSxgCases() {
		if !sxgProp.One(t, c) {
			return
		}
	}
}

var _ = http.StatusOK
