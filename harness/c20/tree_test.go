package c20

import (
	"bytes"
	"fmt"
	"net/url"
	"os"
	"path/filepath"
	"sort"
	"strings"
	"testing"

	"github.com/WICG/webpackage/go/bundle"
	"github.com/WICG/webpackage/go/verifh/gen"
	"github.com/WICG/webpackage/go/verifh/vh"
	"pgregory.net/rapid"
)

// FileSpec is one regular file: path components below the input directory and its content
// (Body followed by Fill deterministic filler bytes).
type FileSpec struct {
	Path []string `json:"path"`
	Body vh.B     `json:"body"`
	Fill int      `json:"fill"`
}

func (f FileSpec) content(i int) []byte {
	out := append([]byte{}, f.Body...)
	if f.Fill > 0 {
		out = append(out, gen.Filler(f.Fill, uint64(i+1))...)
	}
	return out
}

// TreeCase is one gen-bundle -dir invocation.
type TreeCase struct {
	Files    []FileSpec `json:"files"`
	Base     string     `json:"base_url"`
	Version  string     `json:"version"`  // b1, b2, default (flag omitted => b2)
	Primary  int        `json:"primary"`  // b1: index of the file whose serving URL is -primaryURL
	Manifest bool       `json:"manifest"` // b1: pass -manifestURL
	// DirAs: how the input directory is NAMED on the command line ("" = the relative name D; "slash"
	// = D/; "dotslash" = ./D; "updown" = D/../D; "abs" = absolute path; "dot" / "dot/" = the tool
	// runs inside the directory and is given "." / "./"). The bundle must be the same.
	// Also: "linkparent" = LP/D where LP is a symbolic link to the directory that holds D;
	// "linkdir" / "linkdir/" = LD and LD/ where LD is a symbolic link to D itself.
	DirAs string `json:"dir_as,omitempty"`
	// LinkDirs: symbolic links INSIDE the tree (path components below D) that point at a directory
	// outside it. Nothing is promised about what lies behind them (they are not regular files);
	// the tool may refuse the tree, skip them or follow them - but must not emit a broken bundle.
	LinkDirs [][]string `json:"link_dirs,omitempty"`
}

// behindLink: is the decoded URL path at or below one of the tree's directory links?
func (t *TreeCase) behindLink(base *url.URL, p string) bool {
	for _, l := range t.LinkDirs {
		pre := dirPath(base) + strings.Join(l, "/")
		if p == pre || strings.HasPrefix(p, pre+"/") {
			return true
		}
	}
	return false
}

const f7chars = "#?%:"

func hasF7(s string) bool { return strings.ContainsAny(s, f7chars) }

func (t *TreeCase) hasF7Names() bool {
	for _, f := range t.Files {
		for _, c := range f.Path {
			if hasF7(c) {
				return true
			}
		}
	}
	return false
}

// valid: the tree can exist on a POSIX file system and lies inside the property's domain.
func (t *TreeCase) valid() bool {
	if len(t.Files) < 1 || len(t.Files) > 8 {
		return false
	}
	if t.Version != "b1" && t.Version != "b2" && t.Version != "default" {
		return false
	}
	u, err := url.Parse(t.Base)
	if err != nil || (u.Scheme != "https" && u.Scheme != "http") || u.Host == "" || u.RawQuery != "" || u.Fragment != "" || u.User != nil {
		return false
	}
	for _, seg := range strings.Split(u.Path, "/") {
		if seg == "." || seg == ".." {
			return false
		}
	}
	files := map[string]bool{}
	dirs := map[string]bool{}
	for _, f := range t.Files {
		if len(f.Path) < 1 || len(f.Path) > 3 || f.Fill < 0 || f.Fill > 1<<24 {
			return false
		}
		for i, c := range f.Path {
			if !validComponent(c) {
				return false
			}
			if i < len(f.Path)-1 {
				if c == "index.html" { // a directory named index.html is outside the statement
					return false
				}
				dirs[strings.Join(f.Path[:i+1], "/")] = true
			}
		}
		k := strings.Join(f.Path, "/")
		if files[k] {
			return false
		}
		files[k] = true
	}
	for k := range files {
		if dirs[k] {
			return false
		}
	}
	if t.Version == "b1" && (t.Primary < 0 || t.Primary >= len(t.Files)) {
		return false
	}
	return true
}

func (t *TreeCase) write(root string) {
	must(os.MkdirAll(root, 0o755))
	for i, f := range t.Files {
		p := filepath.Join(append([]string{root}, f.Path...)...)
		must(os.MkdirAll(filepath.Dir(p), 0o755))
		must(os.WriteFile(p, f.content(i), 0o644))
	}
}

// want is what the bundle has to contain under one decoded URL path.
type want struct {
	status   int
	body     []byte
	location string // for the index.html redirect
	what     string // description for messages
}

// dirPath: the base URL's directory path (RFC 3986 merge: everything up to the last '/').
func dirPath(base *url.URL) string {
	p := base.Path
	if i := strings.LastIndex(p, "/"); i >= 0 {
		return p[:i+1]
	}
	return "/"
}

// servingRef returns the relative reference under which file i is served with status 200.
func (t *TreeCase) servingRef(i int) string {
	p := t.Files[i].Path
	if p[len(p)-1] == "index.html" {
		if len(p) == 1 {
			return "./"
		}
		return strings.Join(p[:len(p)-1], "/") + "/"
	}
	return strings.Join(p, "/")
}

// model computes, keyed by the decoded URL path, what the bundle must contain. The second
// result is false when the two formulations of "base URL joined with the relative path"
// (string join with the base directory, url.URL.ResolveReference of a Path-only reference)
// disagree - such a case is outside what the harness can judge and is skipped.
func (t *TreeCase) model(base *url.URL) (map[string]want, bool) {
	m := map[string]want{}
	agree := true
	dp := dirPath(base)
	put := func(rel string, w want) {
		joined := dp + rel
		if rel == "./" {
			joined = dp
		}
		if base.ResolveReference(&url.URL{Path: rel}).Path != joined {
			agree = false
		}
		if _, dup := m[joined]; dup {
			agree = false
		}
		m[joined] = w
	}
	for i, f := range t.Files {
		body := f.content(i)
		rel := strings.Join(f.Path, "/")
		if f.Path[len(f.Path)-1] == "index.html" {
			put(t.servingRef(i), want{status: 200, body: body, what: "directory URL serving " + rel})
			put(rel, want{status: 301, location: "./", what: "redirect for " + rel})
		} else {
			put(rel, want{status: 200, body: body, what: "file " + rel})
		}
	}
	return m, agree
}

func (t *TreeCase) genBundleArgs(base *url.URL) []string {
	a := []string{"-dir", "D", "-baseURL", t.Base, "-o", "out.wbn"}
	switch t.DirAs {
	case "slash":
		a[1] = "D/"
	case "dotslash":
		a[1] = "./D"
	case "updown":
		a[1] = "D/../D"
	case "linkparent":
		a[1] = "LP/D"
	case "linkdir":
		a[1] = "LD"
	case "linkdir/":
		a[1] = "LD/"
	case "abs":
		a[1] = "ABS" // replaced by the absolute path at run time
	case "dot":
		a[1], a[5] = ".", "../out.wbn"
	case "dot/":
		a[1], a[5] = "./", "../out.wbn"
	}
	if t.Version != "default" {
		a = append(a, "-version", t.Version)
	}
	if t.Version == "b1" {
		a = append(a, "-primaryURL", base.ResolveReference(&url.URL{Path: t.servingRef(t.Primary)}).String())
		if t.Manifest {
			a = append(a, "-manifestURL", base.ResolveReference(&url.URL{Path: "manifest.webmanifest"}).String())
		}
	}
	return a
}

func (t *TreeCase) classes(r *vh.R, base *url.URL) {
	v := t.Version
	if v == "default" {
		v = "b2"
		r.Class("version-flag-omitted")
	}
	r.Class("v:" + v)
	seen := map[string]bool{}
	cl := func(s string) {
		if !seen[s] {
			seen[s] = true
			r.Class(s)
		}
	}
	for _, f := range t.Files {
		if len(f.Path) == 3 {
			cl("depth-3")
		}
		if len(f.Path) >= 2 {
			cl("nested")
		}
		if len(f.Body) == 0 && f.Fill == 0 {
			cl("empty-file")
		}
		if bytes.IndexByte(f.Body, 0) >= 0 || f.Fill > 0 {
			cl("binary-content")
		}
		if len(f.Body)+f.Fill > 65536 {
			cl("file-over-64k")
		}
		last := f.Path[len(f.Path)-1]
		if last == "index.html" {
			if len(f.Path) == 1 {
				cl("index-html-root")
			} else {
				cl("index-html-nested")
			}
		}
		for _, c := range f.Path {
			for _, ch := range c {
				switch {
				case ch == ' ':
					cl("name-with-space")
				case ch == '#':
					cl("name-hash")
				case ch == '?':
					cl("name-question")
				case ch == '%':
					cl("name-percent")
				case ch == ':':
					cl("name-colon")
				case strings.ContainsRune("&+=;", ch):
					cl("name-subdelims")
				case strings.ContainsRune("@,'~!", ch):
					cl("name-other-punct")
				case ch >= 0x80:
					cl("name-non-ascii")
				}
			}
			if strings.HasPrefix(c, "-") {
				cl("name-leading-dash")
			}
		}
	}
	if !strings.HasSuffix(base.Path, "/") {
		cl("base-no-trailing-slash")
	}
	if strings.Count(base.Path, "/") >= 2 || (base.Path != "" && base.Path != "/" && !strings.HasSuffix(base.Path, "/")) {
		cl("base-with-path")
	}
}

// checkTree runs gen-bundle over the tree in tmp/D and judges tmp/out.wbn. It returns the parsed
// unsigned bundle on success.
func checkTree(r *vh.R, t *TreeCase, tmp string) (*bundle.Bundle, bool) {
	base, _ := url.Parse(t.Base)
	model, agree := t.model(base)
	if !agree {
		r.Skip = true
		return nil, false
	}
	t.write(filepath.Join(tmp, "D"))
	names := []string{}
	for _, f := range t.Files {
		names = append(names, fmt.Sprintf("%q", strings.Join(f.Path, "/")))
	}
	ctx := "input files " + strings.Join(names, ", ") + "; base URL " + t.Base

	gargs, gdir := t.genBundleArgs(base), tmp
	if gargs[1] == "ABS" {
		gargs[1] = filepath.Join(tmp, "D")
	}
	if strings.HasPrefix(t.DirAs, "dot") && t.DirAs != "dotslash" {
		gdir = filepath.Join(tmp, "D")
	}
	if t.DirAs != "" {
		r.Class("dir-named-" + t.DirAs)
	}
	switch t.DirAs {
	case "linkparent":
		must(os.Symlink(".", filepath.Join(tmp, "LP")))
	case "linkdir", "linkdir/":
		must(os.Symlink("D", filepath.Join(tmp, "LD")))
	}
	if len(t.LinkDirs) > 0 {
		must(os.MkdirAll(filepath.Join(tmp, "OUTSIDE", "inner"), 0o755))
		must(os.WriteFile(filepath.Join(tmp, "OUTSIDE", "o.txt"), []byte("outside"), 0o644))
		must(os.WriteFile(filepath.Join(tmp, "OUTSIDE", "inner", "index.html"), []byte("<p>outside</p>"), 0o644))
		for _, l := range t.LinkDirs {
			p := filepath.Join(append([]string{tmp, "D"}, l...)...)
			must(os.MkdirAll(filepath.Dir(p), 0o755))
			must(os.Symlink(filepath.Join(tmp, "OUTSIDE"), p))
		}
		r.Class("tree-with-directory-symlink")
	}
	g := runTool(gdir, nil, "gen-bundle", gargs...)
	if g.exit != 0 && len(t.LinkDirs) > 0 {
		r.Class("directory-symlink-refused")
		r.NT()
		return nil, false
	}
	if g.exit != 0 {
		failTool(r, "gen-bundle-failed", "gen-bundle refused a directory inside the documented domain", g, ctx)
		return nil, false
	}
	r.NT()
	out := filepath.Join(tmp, "out.wbn")
	raw, err := os.ReadFile(out)
	if err != nil {
		failTool(r, "gen-bundle-no-output", "gen-bundle exited 0 without writing the -o file", g, ctx)
		return nil, false
	}
	d := runTool(tmp, nil, "dump-bundle", "-i", "out.wbn")
	if d.exit != 0 {
		failTool(r, "dump-bundle-rejected", "dump-bundle rejects the bundle gen-bundle just wrote (gen-bundle: "+g.cmdline+")", d, ctx)
		return nil, false
	}
	b, err := bundle.Read(bytes.NewReader(raw))
	if err != nil {
		r.Failf("read-failed", "bundle.Read rejects gen-bundle's output (%s): %v\n  %s", g.cmdline, err, ctx)
		return nil, false
	}
	wantVer := t.Version
	if wantVer == "default" {
		wantVer = "b2"
	}
	if string(b.Version) != wantVer {
		r.Failf("version", "requested bundle version %s, file has %s (%s)", wantVer, b.Version, g.cmdline)
		return nil, false
	}
	seen := map[string]bool{}
	behind := 0
	for _, e := range b.Exchanges {
		u := e.Request.URL
		if u.Scheme != base.Scheme || u.Host != base.Host || u.User != nil {
			r.Failf("url-origin", "exchange %q is not on the base URL's scheme and host (%s)\n  %s", u, g.cmdline, ctx)
			return nil, false
		}
		if u.RawQuery != "" || u.ForceQuery {
			r.Failf("url-query", "exchange URL %q has a query: a file name was not percent-encoded (%s)\n  %s", u, g.cmdline, ctx)
			return nil, false
		}
		if u.Fragment != "" {
			r.Failf("url-fragment", "exchange URL %q has a fragment (%s)\n  %s", u, g.cmdline, ctx)
			return nil, false
		}
		if t.behindLink(base, u.Path) {
			behind++
			continue
		}
		w, ok := model[u.Path]
		if !ok {
			keys := []string{}
			for k := range model {
				keys = append(keys, k)
			}
			sort.Strings(keys)
			r.Failf("url-path", "exchange URL %q (decoded path %q) is not the base URL joined with any file's relative path; expected decoded paths: %q (%s)\n  %s", u, u.Path, keys, g.cmdline, ctx)
			return nil, false
		}
		if seen[u.Path] {
			r.Failf("duplicate-exchange", "two exchanges for %q (%s)", u, g.cmdline)
			return nil, false
		}
		seen[u.Path] = true
		if e.Response.Status != w.status {
			r.Failf("status", "%s: exchange %q has status %d, expected %d (%s)\n  %s", w.what, u, e.Response.Status, w.status, g.cmdline, ctx)
			return nil, false
		}
		if w.status == 200 && !bytes.Equal(e.Response.Body, w.body) {
			r.Failf("body", "%s: exchange %q carries %d bytes that differ from the file's %d bytes (%s)\n  %s", w.what, u, len(e.Response.Body), len(w.body), g.cmdline, ctx)
			return nil, false
		}
		if w.status == 301 && e.Response.Header.Get("Location") != w.location {
			r.Failf("index-redirect", "%s: Location is %q, expected %q (%s)", w.what, e.Response.Header.Get("Location"), w.location, g.cmdline)
			return nil, false
		}
	}
	// "its own URL redirecting there": the redirect of an index.html, resolved against that
	// exchange's own URL, must be - octet for octet, as a client matching URLs compares them - the
	// URL of the exchange that delivers the file. (Which of several equivalent spellings of the
	// base URL's escapes the tool uses is not prescribed - only that it uses one.)
	byURL := map[string]int{}
	for _, e := range b.Exchanges {
		byURL[e.Request.URL.String()] = e.Response.Status
	}
	for _, e := range b.Exchanges {
		u := e.Request.URL
		if e.Response.Status == 301 {
			loc, perr := url.Parse(e.Response.Header.Get("Location"))
			if perr != nil {
				r.Failf("index-redirect", "unparsable Location %q", e.Response.Header.Get("Location"))
				return nil, false
			}
			target := u.ResolveReference(loc).String()
			if st, ok := byURL[target]; !ok || st != 200 {
				r.Failf("index-redirect-target", "exchange %q redirects to %q, but the bundle has no exchange with status 200 under exactly that URL (%s)\n  %s", u, target, g.cmdline, ctx)
				return nil, false
			}
		}
	}
	for k, w := range model {
		if !seen[k] {
			r.Failf("missing-exchange", "no exchange for %s (expected decoded URL path %q); the bundle has %d exchanges for %d expected (%s)\n  %s", w.what, k, len(b.Exchanges), len(model), g.cmdline, ctx)
			return nil, false
		}
	}
	if len(b.Exchanges)-behind != len(model) {
		r.Failf("count", "bundle has %d exchanges, expected %d", len(b.Exchanges), len(model))
		return nil, false
	}
	return b, true
}

var dirProp = vh.Define("C20", "dir-bundle", func(c TreeCase, r *vh.R) {
	if !c.valid() {
		r.Skip = true
		return
	}
	if skipF7() && c.hasF7Names() {
		vh.Count("dir-bundle", "excluded-f7-names", 1)
		r.Skip = true
		return
	}
	base, _ := url.Parse(c.Base)
	c.classes(r, base)
	tmp := mkTmp("dir")
	defer os.RemoveAll(tmp)
	checkTree(r, &c, tmp)
})

// ---- generators -----------------------------------------------------------------------------

var (
	plainPieces = []string{"a", "b", "file", "x1", "Z", "data", "07", "readme", "img", "Q"}
	metaPieces  = []string{" ", "#", "?", "%41", "%", ":", "&", "+", "=", ";", "é", "日本", "-", "_", ".", "@", ",", "'", "~", "!", " ", "é", "日本"}
	exts        = []string{"", "", ".txt", ".html", ".js", ".css", ".bin", ".json"}
	wholeNames  = []string{"index.html", "index.html", "index.html", ".htaccess", ".well-known", ".hidden.txt", "..data", "c:d.txt", "h#frag.txt", "a?b", "p%41", "100%", "a b.txt", "-rf", "--help", "日本語.txt", "é.html",
		"INDEX.HTML", "index.htm", "index.html.bak", "xindex.html", "a&b=c;d+e.txt", " lead", "trail ", "..."}
	baseURLs = []string{"https://a.example/", "https://a.example/base/", "https://a.example/base", "https://b.example/", "https://c.example/x/y/",
		"https://a.example", "https://www.a.example/", "https://x.w.example/app/", "https://a.example:8443/", "https://a.example/sp%20ace/",
		"http://a.example/d/", "https://b.example/deep/er/page.html", "https://c.example/base",
		// legal escapes that are not in Go's canonical form (an escaped unreserved character, lower-case hex)
		"https://a.example/%7Euser/", "https://a.example/caf%c3%a9/", "https://a.example/a%2Db/x", "https://a.example/%41/"}
)

func sanitizeF7(s string) string {
	return strings.Map(func(r rune) rune {
		if strings.ContainsRune(f7chars, r) {
			return '_'
		}
		return r
	}, s)
}

// genName draws one path component. safe: only unreserved ASCII. noF7: '#', '?', '%', ':' replaced.
func genName(t *rapid.T, label string, safe, noF7 bool) string {
	if safe {
		return rapid.SampledFrom(plainPieces).Draw(t, label+"-p") + rapid.SampledFrom(exts).Draw(t, label+"-e")
	}
	var s string
	if rapid.IntRange(0, 9).Draw(t, label+"-whole") < 3 {
		s = rapid.SampledFrom(wholeNames).Draw(t, label+"-w")
	} else {
		n := rapid.IntRange(1, 3).Draw(t, label+"-n")
		for i := 0; i < n; i++ {
			if rapid.IntRange(0, 9).Draw(t, label+"-k") < 5 {
				s += rapid.SampledFrom(metaPieces).Draw(t, label+"-m")
			} else {
				s += rapid.SampledFrom(plainPieces).Draw(t, label+"-p")
			}
		}
		s += rapid.SampledFrom(exts).Draw(t, label+"-e")
	}
	if noF7 && hasF7(s) {
		vh.Count("dir-bundle", "excluded-f7-names", 1)
		s = sanitizeF7(s)
	}
	if !validComponent(s) {
		s = "dots" + strings.ReplaceAll(s, ".", "")
	}
	return s
}

func genBody(t *rapid.T, label string) (vh.B, int) {
	switch rapid.IntRange(0, 11).Draw(t, label+"-kind") {
	case 0, 1:
		return nil, 0
	case 2, 3:
		return vh.B(rapid.SampledFrom([]string{"hello\n", "<!doctype html><title>t</title><p>x</p>", "{\"a\": 1}", "body { color: red }", "x"}).Draw(t, label+"-text")), 0
	case 4, 5:
		return vh.B(rapid.SliceOfN(rapid.Byte(), 1, 40).Draw(t, label+"-bytes")), 0
	case 6:
		return vh.B{0, 0xff, 0xfe, 0, 0x80, 0x1f, 0x8b}, 0
	case 7:
		return vh.B("\xef\xbb\xbfBOM é 日本"), 0
	case 8:
		return nil, rapid.SampledFrom([]int{511, 512, 513, 4096, 16384, 16385}).Draw(t, label+"-fill")
	case 9:
		return vh.B("<html>"), rapid.SampledFrom([]int{1000, 65530, 65536, 70001}).Draw(t, label+"-fill")
	default:
		return vh.B(rapid.StringOfN(rapid.RuneFrom([]rune("abc <>&\"\n\t")), 1, 30, -1).Draw(t, label+"-str")), 0
	}
}

// genTree draws a directory tree. noF7: never produce '#', '?', '%', ':' in names.
func genTree(t *rapid.T, noF7 bool, bases []string) TreeCase {
	c := TreeCase{Base: rapid.SampledFrom(bases).Draw(t, "base"), Version: rapid.SampledFrom([]string{"b1", "b2", "b2", "default"}).Draw(t, "version"),
		DirAs: rapid.SampledFrom([]string{"", "", "", "slash", "dotslash", "updown", "abs", "dot", "dot", "dot/", "linkparent", "linkdir", "linkdir/"}).Draw(t, "diras")}
	type dir struct {
		path []string
		used map[string]bool
	}
	dirs := []*dir{{used: map[string]bool{}}}
	uniq := func(d *dir, n string) string {
		for i := 0; d.used[n]; i++ {
			n = fmt.Sprintf("%s%d", n, i)
		}
		d.used[n] = true
		return n
	}
	nfiles := rapid.IntRange(1, 8).Draw(t, "nfiles")
	for i := 0; i < nfiles; i++ {
		safe := c.Version == "b1" && i == 0
		d := dirs[rapid.IntRange(0, len(dirs)-1).Draw(t, "dir")]
		if len(d.path) < 2 && rapid.IntRange(0, 9).Draw(t, "newdir") < 4 {
			n := genName(t, "dname", safe, noF7)
			if n == "index.html" {
				n = "sub"
			}
			nd := &dir{path: append(append([]string{}, d.path...), uniq(d, n)), used: map[string]bool{}}
			dirs = append(dirs, nd)
			d = nd
		}
		n := uniq(d, genName(t, "fname", safe, noF7))
		body, fill := genBody(t, "body")
		c.Files = append(c.Files, FileSpec{Path: append(append([]string{}, d.path...), n), Body: body, Fill: fill})
	}
	if c.Version == "b1" {
		c.Primary = 0
		c.Manifest = rapid.Bool().Draw(t, "manifest")
	}
	return c
}

func TestPropDirBundle(t *testing.T) {
	needCLI(t)
	dirProp.Rapid(t, func(t *rapid.T) TreeCase { return genTree(t, skipF7(), baseURLs) })
}

// fixedTrees are hand-written cases that are executed on every run so that the mandatory name
// classes are never left to chance in the small quick tier.
func fixedTrees() []TreeCase {
	f := func(body string, p ...string) FileSpec { return FileSpec{Path: p, Body: vh.B(body)} }
	return []TreeCase{
		{Base: "https://a.example/", Version: "b2", Files: []FileSpec{f("root", "index.html"), f("sp", "a b.txt"), f("", "empty.bin"), f("é", "é", "日本.txt"), f("n", "sub", "index.html"), f("d", "sub", "deep", "-x&y=z;w+v.js")}},
		{Base: "https://a.example/base", Version: "b1", Primary: 0, Manifest: true, Files: []FileSpec{f("p", "main.html"), f("i", "dir one", "index.html"), {Path: []string{"dir one", "bin"}, Body: vh.B{0, 1, 2, 0xff}, Fill: 70000}}},
		{Base: "https://b.example/base/", Version: "default", Files: []FileSpec{f("x", "-rf"), f("y", "--help"), f("z", "a", "b", "c.txt"), f("", "a", "b", "index.html")}},
		{Base: "https://c.example/x/y/", Version: "b1", Primary: 0, Files: []FileSpec{f("<p>", "index.html"), f("q", "index.html.bak"), f("r", "xindex.html")}},
		// names beginning with a dot, the directory named in every way a shell user would
		{Base: "https://a.example/app/", Version: "b2", DirAs: "dot", Files: []FileSpec{f("h", ".htaccess"), f("w", ".well-known", "assetlinks.json"), f("i", "index.html"), f("d", "..data")}},
		{Base: "https://a.example/app/", Version: "b2", DirAs: "dot/", Files: []FileSpec{f("h", ".htaccess"), f("w", ".well-known", "assetlinks.json"), f("i", "sub", ".hidden")}},
		{Base: "https://a.example/app/", Version: "b1", Primary: 0, DirAs: "updown", Files: []FileSpec{f("h", ".htaccess"), f("x", "D")}},
		{Base: "https://a.example/", Version: "b2", DirAs: "abs", Files: []FileSpec{f("h", ".htaccess"), f("x", "a.txt")}},
		{Base: "https://a.example/", Version: "b2", DirAs: "slash", Files: []FileSpec{f("h", ".h"), f("x", "a.txt")}},
		{Base: "https://a.example/", Version: "b2", DirAs: "dotslash", Files: []FileSpec{f("h", ".h"), f("x", "a.txt")}},
		// the environment: symbolic links on the way to the directory, as the directory, inside it
		{Base: "https://a.example/app/", Version: "b2", DirAs: "linkparent", Files: []FileSpec{f("x", "a b.txt"), f("i", "sub", "index.html")}},
		{Base: "https://a.example/app/", Version: "b1", Primary: 0, DirAs: "linkdir", Files: []FileSpec{f("x", "a.txt"), f("i", "sub", "index.html")}},
		{Base: "https://a.example/app/", Version: "b2", DirAs: "linkdir/", Files: []FileSpec{f("x", "a.txt"), f("i", "index.html")}},
		{Base: "https://a.example/", Version: "b2", LinkDirs: [][]string{{"assets"}}, Files: []FileSpec{f("x", "a.txt"), f("i", "index.html")}},
		{Base: "https://a.example/", Version: "b1", Primary: 0, LinkDirs: [][]string{{"sub", "shared"}}, Files: []FileSpec{f("x", "a.txt"), f("y", "sub", "b.txt")}},
		// URL metacharacters in names (finding F7; skipped under VERIF_C20_SKIP_F7=1)
		{Base: "https://a.example/base/", Version: "b2", Files: []FileSpec{f("h", "h#frag.txt"), f("q", "a?b"), f("p", "p%41"), f("x", "100%"), f("c", "c:d.txt"), f("n", "sub:dir", "x y#1.txt")}},
	}
}

func TestFixedDirBundle(t *testing.T) {
	needCLI(t)
	for _, c := range fixedTrees() {
		if !dirProp.One(t, c) {
			return
		}
	}
}
