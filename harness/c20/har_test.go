package c20

import (
	"bytes"
	"encoding/base64"
	"encoding/json"
	"net/url"
	"os"
	"path/filepath"
	"strings"
	"testing"
	"unicode/utf8"

	"github.com/WICG/webpackage/go/bundle"
	"github.com/WICG/webpackage/go/verifh/vh"
	"pgregory.net/rapid"
)

// ---- gen-bundle -har -> dump-bundle ----------------------------------------------------------

type HarEntry struct {
	Method     string      `json:"method"`
	URL        string      `json:"url"`
	ReqHeaders [][2]string `json:"request_headers"`
	ResHeaders [][2]string `json:"response_headers"`
	Status     int         `json:"status"`
	Body       vh.B        `json:"body"`
	Base64     bool        `json:"base64"`
}

type HarCase struct {
	Entries []HarEntry `json:"entries"`
	Version string     `json:"version"` // b1 b2 default
	Primary int        `json:"primary"` // b1: -primaryURL = URL of this entry
}

type nvp struct {
	Name  string `json:"name"`
	Value string `json:"value"`
}

func nvps(h [][2]string) []nvp {
	out := []nvp{}
	for _, kv := range h {
		out = append(out, nvp{kv[0], kv[1]})
	}
	return out
}

func (c *HarCase) harJSON() []byte {
	entries := []any{}
	for _, e := range c.Entries {
		content := map[string]any{"size": len(e.Body), "mimeType": "application/octet-stream"}
		if e.Base64 {
			content["text"] = base64.StdEncoding.EncodeToString(e.Body)
			content["encoding"] = "base64"
		} else {
			content["text"] = string(e.Body)
		}
		entries = append(entries, map[string]any{
			"startedDateTime": "2026-09-28T10:00:00.000Z", "time": 1.5,
			"request":  map[string]any{"method": e.Method, "url": e.URL, "httpVersion": "HTTP/1.1", "headers": nvps(e.ReqHeaders), "queryString": []any{}, "cookies": []any{}, "headersSize": -1, "bodySize": 0},
			"response": map[string]any{"status": e.Status, "statusText": "", "httpVersion": "HTTP/1.1", "headers": nvps(e.ResHeaders), "cookies": []any{}, "content": content, "redirectURL": "", "headersSize": -1, "bodySize": len(e.Body)},
			"cache":    map[string]any{}, "timings": map[string]any{"send": 0, "wait": 1, "receive": 0},
		})
	}
	b, err := json.Marshal(map[string]any{"log": map[string]any{"version": "1.2", "creator": map[string]any{"name": "verif", "version": "1"}, "entries": entries}})
	must(err)
	return b
}

func tokenName(s string, allowColon bool) bool {
	if s == "" {
		return false
	}
	for i, c := range []byte(s) {
		if c == ':' && allowColon && i == 0 {
			continue
		}
		if !(c >= 'a' && c <= 'z' || c >= 'A' && c <= 'Z' || c >= '0' && c <= '9' || c == '-') {
			return false
		}
	}
	return true
}

func (c *HarCase) valid() bool {
	if len(c.Entries) < 1 || len(c.Entries) > 8 || (c.Version != "b1" && c.Version != "b2" && c.Version != "default") {
		return false
	}
	if c.Version == "b1" && (c.Primary < 0 || c.Primary >= len(c.Entries)) {
		return false
	}
	for _, e := range c.Entries {
		u, err := url.Parse(e.URL)
		if err != nil || u.Scheme != "https" || u.Host == "" || u.Fragment != "" || u.User != nil || !asciiPrintable(e.URL) || strings.ContainsAny(e.URL, " #") {
			return false
		}
		if !tokenName(e.Method, false) || (!e.Base64 && !utf8.Valid(e.Body)) || len(e.Body) > 1<<20 {
			return false
		}
		for _, kv := range append(append([][2]string{}, e.ReqHeaders...), e.ResHeaders...) {
			if !tokenName(kv[0], true) || !asciiPrintable(kv[1]) || strings.TrimSpace(kv[1]) != kv[1] || kv[1] == "" {
				return false
			}
		}
	}
	return true
}

func hasHeader(h [][2]string, name string) bool {
	for _, kv := range h {
		if strings.EqualFold(kv[0], name) {
			return true
		}
	}
	return false
}

func canonURL(s string) string {
	u, _ := url.Parse(s)
	return u.String()
}

// plain: nothing in the capture gives gen-bundle a documented reason to refuse it.
func (c *HarCase) plain() bool {
	seen := map[string]bool{}
	for _, e := range c.Entries {
		k := canonURL(e.URL)
		if e.Method != "GET" || e.Status < 200 || e.Status > 599 || seen[k] || hasHeader(e.ResHeaders, "Variants") || hasHeader(e.ResHeaders, "Variant-Key") {
			return false
		}
		seen[k] = true
	}
	return true
}

var harProp = vh.Define("C20", "har", func(c HarCase, r *vh.R) {
	if !c.valid() {
		r.Skip = true
		return
	}
	v := c.Version
	if v == "default" {
		v = "b2"
	}
	r.Class("v:" + v)
	type first struct {
		status int
		body   []byte
	}
	firstGET := map[string]first{} // URL -> first GET entry with a status in 100..999
	variants := map[string]bool{}  // URL -> some entry has a Variants header
	getURL := map[string]bool{}    // URL appears in a usable GET entry
	otherOnly := map[string]bool{} // URL appears only in dropped entries
	cls := map[string]bool{}
	defer func() {
		for k := range cls {
			r.Class(k)
		}
	}()
	for _, e := range c.Entries {
		k := canonURL(e.URL)
		usable := e.Method == "GET" && e.Status >= 100 && e.Status <= 999
		if e.Method != "GET" {
			cls["non-get-entry"] = true
		}
		if e.Status < 100 || e.Status > 999 {
			cls["status-out-of-range"] = true
		}
		if e.Base64 {
			cls["base64-body"] = true
		}
		if hasHeader(e.ResHeaders, "Variants") {
			variants[k] = true
			cls["variants-header"] = true
		}
		if hasHeader(e.ResHeaders, ":status") || hasHeader(e.ReqHeaders, ":method") {
			cls["pseudo-header"] = true
		}
		if hasHeader(e.ResHeaders, "Set-Cookie") || hasHeader(e.ReqHeaders, "Cookie") {
			cls["banned-header"] = true
		}
		if usable {
			if _, dup := firstGET[k]; dup {
				cls["duplicate-url"] = true
			} else {
				firstGET[k] = first{e.Status, e.Body}
			}
			getURL[k] = true
		}
	}
	for _, e := range c.Entries {
		if k := canonURL(e.URL); !getURL[k] {
			otherOnly[k] = true
		}
	}
	tmp := mkTmp("har")
	defer os.RemoveAll(tmp)
	must(os.WriteFile(filepath.Join(tmp, "in.har"), c.harJSON(), 0o644))
	args := []string{"-har", "in.har", "-o", "out.wbn"}
	if c.Version != "default" {
		args = append(args, "-version", c.Version)
	}
	if c.Version == "b1" {
		args = append(args, "-primaryURL", canonURL(c.Entries[c.Primary].URL))
	}
	g := runTool(tmp, nil, "gen-bundle", args...)
	ctx := "in.har: " + string(c.harJSON())
	if len(ctx) > 1500 {
		ctx = ctx[:1500] + "..."
	}
	if g.exit != 0 {
		if c.plain() {
			failTool(r, "gen-bundle-failed", "gen-bundle refused a plain HAR capture (GET entries, distinct URLs, ordinary statuses)", g, ctx)
			return
		}
		r.Class("refused")
		return
	}
	r.NT()
	raw, err := os.ReadFile(filepath.Join(tmp, "out.wbn"))
	if err != nil {
		failTool(r, "gen-bundle-no-output", "gen-bundle exited 0 without writing the -o file", g, ctx)
		return
	}
	d := runTool(tmp, nil, "dump-bundle", "-i", "out.wbn")
	if d.exit != 0 {
		failTool(r, "dump-bundle-rejected", "dump-bundle rejects the bundle gen-bundle wrote from a HAR file ("+g.cmdline+")", d, ctx)
		return
	}
	b, err := bundle.Read(bytes.NewReader(raw))
	if err != nil {
		r.Failf("read-failed", "bundle.Read rejects gen-bundle's output (%s): %v\n  %s", g.cmdline, err, ctx)
		return
	}
	count := map[string]int{}
	found := map[string]bool{} // URL -> some exchange carries the first GET entry's status and body
	for _, e := range b.Exchanges {
		k := e.Request.URL.String()
		count[k]++
		if otherOnly[k] {
			r.Failf("dropped-entry-present", "exchange %q exists although every HAR entry for it is non-GET or has a status outside 100..999\n  %s", k, ctx)
			return
		}
		f, ok := firstGET[k]
		if !ok {
			r.Failf("unexpected-exchange", "exchange %q corresponds to no HAR entry\n  %s", k, ctx)
			return
		}
		if e.Response.Status == f.status && bytes.Equal(e.Response.Body, f.body) {
			found[k] = true
		}
	}
	for k, f := range firstGET {
		if count[k] == 0 {
			r.Failf("missing-exchange", "no exchange for the GET entry %q\n  %s", k, ctx)
			return
		}
		if count[k] > 1 && !variants[k] {
			r.Failf("duplicate-exchange", "%d exchanges for %q although no entry has a Variants header\n  %s", count[k], k, ctx)
			return
		}
		if !found[k] {
			r.Failf("content", "none of the %d exchanges for %q carries the first GET entry's status %d and its %d body bytes\n  %s", count[k], k, f.status, len(f.body), ctx)
			return
		}
	}
})

var (
	harURLs   = []string{"https://a.example/", "https://a.example/index.html", "https://a.example/s.css?v=1&w=2", "https://b.example/img.png", "https://a.example/%E6%97%A5", "https://c.example:8443/api?q=a+b"}
	harResHdr = [][2]string{{"Content-Type", "text/html; charset=utf-8"}, {"content-type", "image/png"}, {"Cache-Control", "max-age=60"}, {"X-A", "b, c"}, {"Content-Length", "3"},
		{":status", "200"}, {"Set-Cookie", "a=b"}, {"Strict-Transport-Security", "max-age=1"}, {"Connection", "keep-alive"}, {"ETag", "\"x\""}, {"Date", "Mon, 28 Sep 2026 10:00:00 GMT"}}
	harReqHdr = [][2]string{{":method", "GET"}, {":authority", "a.example"}, {"Accept", "*/*"}, {"Cookie", "a=b"}, {"User-Agent", "verif"}, {"Authorization", "Basic eA=="}}
)

func TestPropHar(t *testing.T) {
	needCLI(t)
	harProp.Rapid(t, func(t *rapid.T) HarCase {
		c := HarCase{Version: rapid.SampledFrom([]string{"b1", "b2", "b2", "default"}).Draw(t, "version")}
		n := rapid.IntRange(1, 6).Draw(t, "n")
		for i := 0; i < n; i++ {
			e := HarEntry{Method: rapid.SampledFrom([]string{"GET", "GET", "GET", "GET", "POST", "HEAD", "OPTIONS"}).Draw(t, "method")}
			e.URL = rapid.SampledFrom(harURLs).Draw(t, "url")
			e.Status = rapid.SampledFrom([]int{200, 200, 200, 200, 204, 301, 304, 404, 500, 0, 99, 1000, -1}).Draw(t, "status")
			e.Base64 = rapid.Bool().Draw(t, "b64")
			if e.Base64 {
				e.Body = vh.B(rapid.SliceOfN(rapid.Byte(), 0, 60).Draw(t, "bin"))
			} else {
				e.Body = vh.B(rapid.SampledFrom([]string{"", "<p>hi</p>", "body { }", "é 日本 \"quoted\" \\ \n", "{\"a\":1}"}).Draw(t, "text"))
			}
			for j, m := 0, rapid.IntRange(0, 3).Draw(t, "nres"); j < m; j++ {
				e.ResHeaders = append(e.ResHeaders, rapid.SampledFrom(harResHdr).Draw(t, "resh"))
			}
			if rapid.IntRange(0, 5).Draw(t, "variants") == 0 {
				e.ResHeaders = append(e.ResHeaders, [2]string{"Variants", "Accept-Language;en;fr"}, [2]string{"Variant-Key", rapid.SampledFrom([]string{"en", "fr"}).Draw(t, "vk")})
			}
			for j, m := 0, rapid.IntRange(0, 2).Draw(t, "nreq"); j < m; j++ {
				e.ReqHeaders = append(e.ReqHeaders, rapid.SampledFrom(harReqHdr).Draw(t, "reqh"))
			}
			c.Entries = append(c.Entries, e)
		}
		if c.Version == "b1" {
			c.Primary = rapid.IntRange(0, n-1).Draw(t, "primary")
		}
		return c
	})
}

func TestFixedHar(t *testing.T) {
	needCLI(t)
	for _, c := range []HarCase{
		{Version: "b2", Entries: []HarEntry{
			{Method: "GET", URL: "https://a.example/", Status: 200, Body: vh.B("<p>hi</p>"), ResHeaders: [][2]string{{":status", "200"}, {"Content-Type", "text/html"}, {"Set-Cookie", "a=b"}}, ReqHeaders: [][2]string{{":method", "GET"}, {"Cookie", "a=b"}}},
			{Method: "POST", URL: "https://a.example/post", Status: 200, Body: vh.B("no")},
			{Method: "GET", URL: "https://a.example/img.png", Status: 200, Body: vh.B{0x89, 'P', 'N', 'G', 0, 0xff}, Base64: true, ResHeaders: [][2]string{{"content-type", "image/png"}}},
			{Method: "GET", URL: "https://a.example/", Status: 200, Body: vh.B("duplicate")},
			{Method: "GET", URL: "https://a.example/bad", Status: 1000, Body: vh.B("x")},
		}},
		// b1 and content negotiation: one captured variant only; both variants; a Variants header without Variant-Key
		{Version: "b1", Primary: 0, Entries: []HarEntry{
			{Method: "GET", URL: "https://a.example/", Status: 200, Body: vh.B("hello"), ResHeaders: [][2]string{{"Content-Type", "text/html"}, {"Variants", "Accept-Language;en;fr"}, {"Variant-Key", "en"}}},
			{Method: "GET", URL: "https://a.example/index.html", Status: 200, Body: vh.B("plain"), ResHeaders: [][2]string{{"Content-Type", "text/html"}}},
		}},
		{Version: "b1", Primary: 0, Entries: []HarEntry{
			{Method: "GET", URL: "https://a.example/", Status: 200, Body: vh.B("hello"), ResHeaders: [][2]string{{"Content-Type", "text/html"}, {"Variants", "Accept-Language;en;fr"}, {"Variant-Key", "en"}}},
			{Method: "GET", URL: "https://a.example/", Status: 200, Body: vh.B("bonjour"), ResHeaders: [][2]string{{"Content-Type", "text/html"}, {"Variants", "Accept-Language;en;fr"}, {"Variant-Key", "fr"}}},
			{Method: "GET", URL: "https://b.example/img.png", Status: 200, Body: vh.B("png"), ResHeaders: [][2]string{{"Content-Type", "image/png"}}},
		}},
		{Version: "b1", Primary: 0, Entries: []HarEntry{
			{Method: "GET", URL: "https://a.example/index.html", Status: 200, Body: vh.B("x"), ResHeaders: [][2]string{{"Variants", "Accept-Encoding;gzip;br;identity"}}},
		}},
		{Version: "b2", Entries: []HarEntry{
			{Method: "GET", URL: "https://a.example/", Status: 200, Body: vh.B("hello"), ResHeaders: [][2]string{{"Variants", "Accept-Language;en;fr"}, {"Variant-Key", "en"}}},
		}},
		{Version: "b1", Primary: 0, Entries: []HarEntry{
			{Method: "GET", URL: "https://b.example/index.html", Status: 200, Body: vh.B("main"), ResHeaders: [][2]string{{"Content-Type", "text/html"}}},
			{Method: "GET", URL: "https://b.example/s.css?v=1", Status: 404, Body: vh.B(""), ResHeaders: [][2]string{{"Content-Type", "text/css"}}},
		}},
	} {
		if !harProp.One(t, c) {
			return
		}
	}
}
