// Package c05: the bundle reader either rejects its input or returns exactly what an independent
// parser finds at in-bounds locations; out-of-file / overflowing / table-inconsistent lengths are
// rejected; unknown sections are stepped over without losing the place.
package c05

import (
	"bytes"
	"fmt"
	"net/http"
	"net/url"
	"runtime/debug"
	"strconv"
	"strings"
	"testing"

	"github.com/WICG/webpackage/go/bundle"
	"github.com/WICG/webpackage/go/verifh/gen"
	"github.com/WICG/webpackage/go/verifh/ref/refbundle"
	"github.com/WICG/webpackage/go/verifh/vh"
	"pgregory.net/rapid"
)

func TestMain(m *testing.M)   { vh.Main(m) }
func TestReplay(t *testing.T) { vh.Replay(t) }
func TestCorpus(t *testing.T) { vh.Corpus(t) }

type PatchSpec struct {
	Slot  string `json:"slot"`  // slot name (see refbundle.Assemble)
	Mode  string `json:"mode"`  // abs delta filesize respsize wrap-decoy
	Value uint64 `json:"value"` // abs: the value; delta: signed delta (two's complement)
}

type Case struct {
	Asm      refbundle.Asm `json:"asm"`
	Patches  []PatchSpec   `json:"patches,omitempty"`
	Truncate int           `json:"truncate"` // -1: no truncation; otherwise keep (n mod (len+1)) bytes
	FlipOff  int           `json:"flip_off"` // -1: none
	FlipBit  int           `json:"flip_bit"`
	Append   int           `json:"append"` // bytes of trailing garbage
}

func findSlot(slots []refbundle.Slot, name string) (refbundle.Slot, bool) {
	for _, s := range slots {
		if s.Name == name {
			return s, true
		}
	}
	return refbundle.Slot{}, false
}

// materialise builds the input bytes of a case.
func materialise(c *Case) ([]byte, []string) {
	file, slots := refbundle.Assemble(&c.Asm)
	honestLen := len(file)
	var applied []string
	for _, p := range c.Patches {
		s, ok := findSlot(slots, p.Slot)
		if !ok {
			continue
		}
		v := p.Value
		switch p.Mode {
		case "delta":
			v = s.Value + p.Value
		case "filesize":
			v = uint64(honestLen) + p.Value
		case "respsize":
			if rs, ok := respSectionLen(slots); ok {
				v = rs + p.Value
			}
		case "wrap-decoy":
			// make responses-start + offset wrap around 2^64 onto the decoy planted in a raw section
			starts, _ := refbundle.SectionAbs(file, &c.Asm, slots)
			respStart, decoyStart := -1, -1
			for i, sec := range c.Asm.Sections {
				if i >= len(starts) {
					break
				}
				if sec.Kind == "responses" {
					respStart = starts[i]
				}
				if sec.Kind == "raw" && sec.Decoy >= 0 {
					if rs, ok := findSlot(slots, fmt.Sprintf("raw[%d].len", i)); ok {
						decoyStart = rs.Off + 1 + rs.Width
					}
				}
			}
			if respStart < 0 || decoyStart < 0 {
				continue
			}
			v = uint64(decoyStart) - uint64(respStart) // negative => huge
		}
		file = refbundle.Patch(file, s, v)
		applied = append(applied, p.Slot)
	}
	if c.FlipOff >= 0 && len(file) > 0 {
		file = append([]byte{}, file...)
		file[c.FlipOff%len(file)] ^= 1 << uint(c.FlipBit&7)
	}
	if c.Truncate >= 0 {
		file = file[:c.Truncate%(len(file)+1)]
	}
	if c.Append > 0 {
		file = append(append([]byte{}, file...), bytes.Repeat([]byte{0x61}, c.Append)...)
	}
	return file, applied
}

func respSectionLen(slots []refbundle.Slot) (uint64, bool) {
	// the responses section is described by the sl[i].len slot whose name slot says "responses";
	// simpler: responses.count's enclosing section length = last sl[*].len in honest layouts
	var last *refbundle.Slot
	for i := range slots {
		if strings.HasPrefix(slots[i].Name, "sl[") && strings.HasSuffix(slots[i].Name, ".len") {
			last = &slots[i]
		}
	}
	if last == nil {
		return 0, false
	}
	return last.Value, true
}

type readResult struct {
	b     *bundle.Bundle
	err   error
	panic string
}

func safeRead(in []byte) (res readResult) {
	defer func() {
		if e := recover(); e != nil {
			res.panic = fmt.Sprintf("%v\n%s", e, firstLines(string(debug.Stack()), 30))
		}
	}()
	bsrc := gen.Source(in, gen.SourceModeOf(in))
	b, err := bundle.Read(bsrc)
	gen.Recycle(bsrc)
	return readResult{b: b, err: err}
}

func firstLines(s string, n int) string {
	ls := strings.Split(s, "\n")
	if len(ls) > n {
		ls = ls[:n]
	}
	return strings.Join(ls, "\n")
}

// judge compares the reader's result on input with the independent parser. It returns a
// violation kind + message ("" = fine) and the outcome class.
func judge(in []byte, rr readResult) (kind, msg, outcome string) {
	if rr.panic != "" {
		return "panic", "bundle.Read panicked: " + rr.panic, "panic"
	}
	if rr.err != nil {
		return "", "", "rejected"
	}
	res := refbundle.Lenient(in)
	switch res.Verdict {
	case refbundle.MustReject:
		return "accepted-must-reject", fmt.Sprintf("bundle.Read accepted an input that must be rejected: %s (returned %d exchanges)", res.Reason, len(rr.b.Exchanges)), "accepted"
	case refbundle.Unspecified:
		return "", "", "accepted-unspecified"
	}
	p := res.P
	b := rr.b
	if string(b.Version) != p.Version {
		return "wrong-version", fmt.Sprintf("version %q, file says %q", b.Version, p.Version), "accepted"
	}
	if len(b.Exchanges) != len(p.Exchanges) {
		return "wrong-exchange-count", fmt.Sprintf("reader returned %d exchanges, the file holds %d index locations", len(b.Exchanges), len(p.Exchanges)), "accepted"
	}
	for i, ex := range p.Exchanges {
		g := b.Exchanges[i]
		if u, err := url.Parse(ex.RawURL); err == nil {
			if g.Request.URL == nil || g.Request.URL.String() != u.String() {
				return "wrong-url", fmt.Sprintf("exchange %d: URL %v, index key %q", i, g.Request.URL, ex.RawURL), "accepted"
			}
		}
		st, cnt := ex.Resp.Status()
		if cnt == 0 {
			return "fabricated-status", fmt.Sprintf("exchange %d: reader returned status %d but the header map has no :status", i, g.Response.Status), "accepted"
		}
		if cnt == 1 {
			// "exactly the bytes found": three ASCII digits are compared as a number; for any other
			// spelling that a reader chooses to accept, the number it returns must at least be
			// spelled that way (a reader turning "+20" or " 20" into 20 returns a status that is
			// not in the file)
			if n, ok := refbundle.StatusValue(st); ok {
				if n != g.Response.Status {
					return "wrong-status", fmt.Sprintf("exchange %d: status %d, file says %q", i, g.Response.Status, st), "accepted"
				}
			} else if strconv.Itoa(g.Response.Status) != st {
				return "wrong-status", fmt.Sprintf("exchange %d: status %d, but the file spells :status as %q, which is not three ASCII digits", i, g.Response.Status, st), "accepted"
			}
		}
		// headers: every returned field must be an occurrence in the file, and every file field must be returned
		want := map[string][]string{}
		for _, f := range ex.Resp.Fields {
			if strings.HasPrefix(f.Name, ":") {
				continue
			}
			k := http.CanonicalHeaderKey(f.Name)
			want[k] = append(want[k], f.Value)
		}
		if len(want) != len(g.Response.Header) {
			return "wrong-headers", fmt.Sprintf("exchange %d: reader returned %d header names %v, file has %d %v", i, len(g.Response.Header), g.Response.Header, len(want), want), "accepted"
		}
		for k, vs := range g.Response.Header {
			occ, ok := want[k]
			if !ok || len(vs) != 1 {
				return "wrong-headers", fmt.Sprintf("exchange %d: header %q=%q not in the file (%v)", i, k, vs, want), "accepted"
			}
			found := false
			for _, o := range occ {
				if o == vs[0] {
					found = true
				}
			}
			if !found {
				return "wrong-headers", fmt.Sprintf("exchange %d: header %q=%q, file has %q", i, k, vs[0], occ), "accepted"
			}
		}
		if !bytes.Equal(g.Response.Body, ex.Resp.Body) {
			return "wrong-body", fmt.Sprintf("exchange %d (%q): body of %d bytes differs from the %d bytes at [%d,%d) of the input", i, ex.RawURL, len(g.Response.Body), len(ex.Resp.Body), ex.Resp.Start, ex.Resp.End), "accepted"
		}
	}
	if p.Version == "b1" && !p.HasPrimary {
		if u, err := url.Parse(p.HeaderURL); err == nil && (b.PrimaryURL == nil || b.PrimaryURL.String() != u.String()) {
			return "wrong-primary", fmt.Sprintf("primary URL %v, file says %q", b.PrimaryURL, p.HeaderURL), "accepted"
		}
	}
	// A section name that the file's OWN version does not define ("primary" in a b1 file, "manifest"
	// in a b2 file) may be read or stepped over like any unknown section: what is returned must
	// come from the file, but leaving such a section unused is not a fault of the reader.
	if p.HasPrimary {
		if u, err := url.Parse(p.PrimaryURL); err == nil && (b.PrimaryURL == nil || b.PrimaryURL.String() != u.String()) {
			hu, herr := url.Parse(p.HeaderURL)
			if !(p.Version == "b1" && herr == nil && b.PrimaryURL != nil && b.PrimaryURL.String() == hu.String()) {
				return "wrong-primary", fmt.Sprintf("primary URL %v, primary section says %q", b.PrimaryURL, p.PrimaryURL), "accepted"
			}
		}
	}
	if p.HasManifest {
		if u, err := url.Parse(p.ManifestURL); err == nil && (b.ManifestURL == nil || b.ManifestURL.String() != u.String()) {
			if !(p.Version != "b1" && b.ManifestURL == nil) {
				return "wrong-manifest", fmt.Sprintf("manifest URL %v, manifest section says %q", b.ManifestURL, p.ManifestURL), "accepted"
			}
		}
	}
	return "", "", "accepted-equal"
}

var prop = vh.Define("C05", "structured", func(c Case, r *vh.R) {
	in, applied := materialise(&c)
	rr := safeRead(in)
	kind, msg, outcome := judge(in, rr)
	r.Class("outcome:" + outcome)
	for _, a := range applied {
		// strip indices for the histogram
		r.Class("patched:" + stripIdx(a))
	}
	if len(applied) > 0 || c.Truncate >= 0 || c.FlipOff >= 0 {
		if len(in) >= 15 {
			r.NT()
		}
	}
	if c.Truncate >= 0 {
		r.Class("truncated")
	}
	if kind != "" {
		r.Failf(kind, "%s\ninput (%d bytes) %x", msg, len(in), head(in, 160))
	}
})

func stripIdx(s string) string {
	var b strings.Builder
	skip := false
	for _, ch := range s {
		if ch == '[' {
			skip = true
			b.WriteString("[]")
			continue
		}
		if ch == ']' {
			skip = false
			continue
		}
		if !skip {
			b.WriteRune(ch)
		}
	}
	return b.String()
}

func head(b []byte, n int) []byte {
	if len(b) > n {
		return b[:n]
	}
	return b
}

// ---- generators ----------------------------------------------------------------------------

func genResp(t *rapid.T, hostile bool) refbundle.AsmResp {
	r := refbundle.AsmResp{BodyLen: rapid.SampledFrom([]int{0, 1, 5, 23, 24, 100, 255, 256, 300}).Draw(t, "bodylen"), BodyTag: rapid.Uint64().Draw(t, "bodytag")}
	st := rapid.SampledFrom([]string{"200", "200", "404", "301", "999", "100", "200", "200x", "200 ", " 200", "\t200", "200\n", "+200", "2e2", "0x1", "2000", "20", "", "abc", "9223372036854775808", "-20"}).Draw(t, "status")
	if !hostile && (len(st) != 3 || st[0] < '0' || st[0] > '9' || st[1] < '0' || st[1] > '9' || st[2] < '0' || st[2] > '9') {
		st = "200" // the unknown-section relation needs a base bundle that is valid by construction
	}
	r.Fields = append(r.Fields, refbundle.HeaderField{Name: ":status", Value: st})
	n := rapid.IntRange(0, 3).Draw(t, "nh")
	for i := 0; i < n; i++ {
		r.Fields = append(r.Fields, refbundle.HeaderField{
			Name:  rapid.SampledFrom([]string{"content-type", "x-a", "x-b", "etag", "vary", "x-a"}).Draw(t, "hn"),
			Value: rapid.SampledFrom([]string{"text/html", "", "v", "a,b", strings.Repeat("z", 30), " padded", "padded ", "  both  ", "\ttab", "tab\t", " ", "a  b", "cr\r\n", "\nlf", "nul\x00", "\x7f"}).Draw(t, "hv"),
		})
	}
	if rapid.Bool().Draw(t, "statuslast") && len(r.Fields) > 1 {
		r.Fields[0], r.Fields[len(r.Fields)-1] = r.Fields[len(r.Fields)-1], r.Fields[0]
	}
	return r
}

// GenAsm draws a valid bundle description (honest values give a bundle the reader accepts).
func GenAsm(t *rapid.T, allowRaw bool) refbundle.Asm {
	a := refbundle.Asm{Version: rapid.SampledFrom([]string{"b1", "b2"}).Draw(t, "version"), Wide: rapid.IntRange(0, 3).Draw(t, "wide") > 0}
	if a.Version == "b1" {
		a.HeaderURL = "https://a.example/"
	}
	nr := rapid.IntRange(0, 4).Draw(t, "nresp")
	for i := 0; i < nr; i++ {
		a.Resps = append(a.Resps, genResp(t, allowRaw))
	}
	for i := 0; i < nr; i++ {
		a.Index = append(a.Index, refbundle.AsmIndex{URL: fmt.Sprintf("https://a.example/r%d%s", i, rapid.SampledFrom([]string{"", "?q=1", "/x%20y"}).Draw(t, "usuf")), Resps: []int{i}})
	}
	// b1: an entry with a variants-value and one location per possible key
	if a.Version == "b1" && nr >= 2 && rapid.IntRange(0, 2).Draw(t, "variantentry") == 0 {
		if nr >= 3 && rapid.Bool().Draw(t, "threekeys") {
			a.Index = append(a.Index, refbundle.AsmIndex{URL: "https://a.example/negotiated", Variants: "Accept-Encoding;gzip;br;identity", Resps: []int{0, 1, 2}})
		} else {
			a.Index = append(a.Index, refbundle.AsmIndex{URL: "https://a.example/negotiated", Variants: "Accept-Language;en;ja", Resps: []int{rapid.IntRange(0, nr-1).Draw(t, "v0"), rapid.IntRange(0, nr-1).Draw(t, "v1")}})
		}
	}
	// optionally two index entries share one response (aliasing is legal)
	if nr >= 1 && rapid.IntRange(0, 5).Draw(t, "alias") == 0 {
		a.Index = append(a.Index, refbundle.AsmIndex{URL: "https://a.example/alias", Resps: []int{0}})
	}
	secs := []refbundle.AsmSection{{Name: "index", Kind: "index", Decoy: -1}}
	if a.Version == "b2" && rapid.Bool().Draw(t, "primary") {
		secs = append(secs, refbundle.AsmSection{Name: "primary", Kind: "primary", Text: "https://a.example/r0", Decoy: -1})
	}
	// a manifest section is a known section name in both versions (the writer only emits it for b1,
	// but files come from anywhere); likewise a "primary" section may appear in a b1 file
	if rapid.IntRange(0, 2).Draw(t, "manifest") == 0 {
		secs = append(secs, refbundle.AsmSection{Name: "manifest", Kind: "manifest", Text: rapid.SampledFrom([]string{"https://a.example/manifest.json", "https://a.example/r0", "https://a.example/m?x=1"}).Draw(t, "manifesttext"), Decoy: -1})
	}
	if a.Version == "b1" && rapid.IntRange(0, 4).Draw(t, "b1primary") == 0 {
		secs = append(secs, refbundle.AsmSection{Name: "primary", Kind: "primary", Text: "https://a.example/r0", Decoy: -1})
	}
	if rapid.IntRange(0, 3).Draw(t, "sigs") == 0 {
		secs = append(secs, refbundle.AsmSection{Name: "signatures", Kind: "signatures", Decoy: -1})
	}
	if len(secs) > 1 && rapid.Bool().Draw(t, "shuffle") {
		secs = rapid.Permutation(secs).Draw(t, "secorder")
	}
	if allowRaw {
		for k := rapid.SampledFrom([]int{0, 0, 1, 1, 2}).Draw(t, "nraw"); k > 0; k-- {
			pos := rapid.IntRange(0, len(secs)).Draw(t, "rawpos")
			raw := refbundle.AsmSection{Name: rapid.SampledFrom([]string{"critical", "x-unknown", "future", "indexx", ""}).Draw(t, "rawname") + fmt.Sprint(k), Kind: "raw",
				RawLen: rapid.SampledFrom([]int{0, 1, 10, 300}).Draw(t, "rawlen"), Decoy: -1}
			secs = append(secs[:pos:pos], append([]refbundle.AsmSection{raw}, secs[pos:]...)...)
		}
	}
	secs = append(secs, refbundle.AsmSection{Name: "responses", Kind: "responses", Decoy: -1})
	a.Sections = secs
	return a
}

var hostileValues = []uint64{0, 1, 2, 23, 24, 255, 256, 65535, 65536, 1<<31 - 1, 1 << 31, 1<<32 - 1, 1 << 32, 1<<62 - 1, 1 << 62, 1<<63 - 1, 1 << 63, 1<<63 + 1, ^uint64(0) - 8, ^uint64(0) - 1, ^uint64(0)}

func genPatch(t *rapid.T, slots []refbundle.Slot) PatchSpec {
	// weight the fields that decide locations
	var pri []refbundle.Slot
	for _, s := range slots {
		n := s.Name
		if strings.Contains(n, ".off[") || strings.Contains(n, ".len[") || (strings.HasPrefix(n, "sl[") && strings.HasSuffix(n, ".len")) ||
			n == "toplevel.count" || n == "sections.count" || n == "sl.count" || n == "sl.len" || n == "index.count" || n == "responses.count" || strings.HasSuffix(n, ".hdrlen") || strings.HasSuffix(n, ".bodylen") || strings.HasSuffix(n, ".arr") {
			pri = append(pri, s)
		}
	}
	pool := slots
	if len(pri) > 0 && rapid.IntRange(0, 3).Draw(t, "prio") > 0 {
		pool = pri
	}
	s := rapid.SampledFrom(pool).Draw(t, "slot")
	p := PatchSpec{Slot: s.Name}
	switch rapid.IntRange(0, 5).Draw(t, "pmode") {
	case 0:
		p.Mode, p.Value = "delta", uint64(int64(rapid.SampledFrom([]int{-2, -1, 1, 2, 8, -8}).Draw(t, "delta")))
	case 1:
		p.Mode, p.Value = "filesize", uint64(int64(rapid.SampledFrom([]int{-1, 0, 1}).Draw(t, "fdelta")))
	case 2:
		p.Mode, p.Value = "respsize", uint64(int64(rapid.SampledFrom([]int{-1, 0, 1}).Draw(t, "rdelta")))
	default:
		p.Mode, p.Value = "abs", rapid.SampledFrom(hostileValues).Draw(t, "abs")
	}
	return p
}

func TestPropStructured(t *testing.T) { prop.Rapid(t, genPropStructured) }

// TestConcStructured: batches of cases evaluated at the same time on separate goroutines (vh.Prop.Concurrent).
func TestConcStructured(t *testing.T) { prop.Concurrent(t, genPropStructured, 8, 3) }

func genPropStructured(t *rapid.T) Case {
	c := Case{Asm: GenAsm(t, true), Truncate: -1, FlipOff: -1}
	file, slots := refbundle.Assemble(&c.Asm)
	switch rapid.IntRange(0, 13).Draw(t, "kind") {
	case 0:
		// honest
	case 1:
		c.Truncate = rapid.IntRange(0, len(file)).Draw(t, "trunc")
	case 2:
		c.FlipOff, c.FlipBit = rapid.IntRange(0, len(file)-1).Draw(t, "flipoff"), rapid.IntRange(0, 7).Draw(t, "flipbit")
	case 3:
		// structural defects on the section list
		switch rapid.IntRange(0, 4).Draw(t, "sdefect") {
		case 0: // responses not last
			n := len(c.Asm.Sections)
			if n >= 2 {
				c.Asm.Sections[n-1], c.Asm.Sections[n-2] = c.Asm.Sections[n-2], c.Asm.Sections[n-1]
			}
		case 1: // duplicate a section name
			i := rapid.IntRange(0, len(c.Asm.Sections)-1).Draw(t, "dupsec")
			c.Asm.Sections = append(c.Asm.Sections[:i+1:i+1], c.Asm.Sections[i:]...)
		case 2: // drop a section
			i := rapid.IntRange(0, len(c.Asm.Sections)-1).Draw(t, "dropsec")
			c.Asm.Sections = append(c.Asm.Sections[:i:i], c.Asm.Sections[i+1:]...)
		case 3: // rename a known section to an unknown name (content stays)
			i := rapid.IntRange(0, len(c.Asm.Sections)-1).Draw(t, "rensec")
			c.Asm.Sections[i].Name = "renamed"
		case 4: // index entry pointing at a response index that does not exist (offset 0,len 0)
			if len(c.Asm.Index) > 0 {
				c.Asm.Index[0].Resps = []int{99}
			}
		}
	case 4:
		// wrap-around onto a decoy response planted in an unknown section
		if len(c.Asm.Resps) > 0 && len(c.Asm.Index) > 0 {
			c.Asm.Wide = true
			raw := refbundle.AsmSection{Name: "decoy", Kind: "raw", RawLen: 0, Decoy: 0}
			n := len(c.Asm.Sections)
			c.Asm.Sections = append(c.Asm.Sections[:n-1:n-1], raw, c.Asm.Sections[n-1])
			c.Patches = []PatchSpec{{Slot: "index[0].off[0]", Mode: "wrap-decoy"}}
		}
	case 5:
		c.Append = rapid.IntRange(1, 20).Draw(t, "append")
	case 6, 7:
		// "transfer": two fields of one family are edited TOGETHER so that their sum is unchanged
		// modulo 2^64 (one grows by x, the other shrinks by x; x up to 2^64-1): every running total
		// a careless reader computes without overflow checks still lands where the honest file has
		// it, although one field alone now reaches far outside the file.
		c.Asm.Wide = true
		if rapid.Bool().Draw(t, "addraw") { // unknown sections to step over
			n := len(c.Asm.Sections)
			raws := []refbundle.AsmSection{{Name: "unknown-a", Kind: "raw", RawLen: rapid.IntRange(0, 40).Draw(t, "rawa"), Decoy: -1}, {Name: "unknown-b", Kind: "raw", RawLen: rapid.IntRange(0, 40).Draw(t, "rawb"), Decoy: -1}}
			at := rapid.IntRange(0, n-1).Draw(t, "rawat")
			c.Asm.Sections = append(c.Asm.Sections[:at:at], append(raws, c.Asm.Sections[at:]...)...)
		}
		_, wslots := refbundle.Assemble(&c.Asm)
		fam := rapid.SampledFrom([]string{"sl", "sl", "idx", "resp"}).Draw(t, "family")
		var pool []refbundle.Slot
		for _, sl := range wslots {
			n := sl.Name
			switch {
			case fam == "sl" && strings.HasPrefix(n, "sl[") && strings.HasSuffix(n, ".len"):
				pool = append(pool, sl)
			case fam == "idx" && (strings.Contains(n, ".off[") || strings.Contains(n, ".len[")):
				pool = append(pool, sl)
			case fam == "resp" && (strings.HasSuffix(n, ".hdrlen") || strings.HasSuffix(n, ".bodylen")):
				pool = append(pool, sl)
			}
		}
		if len(pool) >= 2 {
			i := rapid.IntRange(0, len(pool)-2).Draw(t, "ta")
			j := rapid.IntRange(i+1, len(pool)-1).Draw(t, "tb")
			a, b := pool[i], pool[j]
			if rapid.Bool().Draw(t, "swapab") {
				a, b = b, a
			}
			x := rapid.SampledFrom([]uint64{^uint64(0) - a.Value, 1 << 63, 1 << 32, 1, -a.Value, uint64(len(file)), 1<<63 - a.Value}).Draw(t, "x")
			c.Patches = []PatchSpec{{Slot: a.Name, Mode: "delta", Value: x}, {Slot: b.Name, Mode: "delta", Value: -x}}
		}
	default:
		np := rapid.SampledFrom([]int{1, 1, 1, 2}).Draw(t, "npatch")
		for i := 0; i < np; i++ {
			c.Patches = append(c.Patches, genPatch(t, slots))
		}
	}
	return c
}

// ---- every truncation length and every single-bit flip of small bundles -------------------

func smallAsms() []refbundle.Asm {
	mk := func(ver string, wide bool, raw bool) refbundle.Asm {
		a := refbundle.Asm{Version: ver, Wide: wide}
		if ver == "b1" {
			a.HeaderURL = "https://a.example/"
		}
		a.Resps = []refbundle.AsmResp{
			{Fields: []refbundle.HeaderField{{":status", "200"}, {"content-type", "text/plain"}}, BodyLen: 5, BodyTag: 1},
			{Fields: []refbundle.HeaderField{{"x-a", "1"}, {":status", "404"}}, BodyLen: 30, BodyTag: 2},
		}
		a.Index = []refbundle.AsmIndex{{URL: "https://a.example/a", Resps: []int{0}}, {URL: "https://a.example/b?x", Resps: []int{1}}}
		if ver == "b1" {
			a.Index = append(a.Index, refbundle.AsmIndex{URL: "https://a.example/v", Variants: "Accept-Language;en;ja", Resps: []int{0, 1}})
		}
		a.Sections = []refbundle.AsmSection{{Name: "index", Kind: "index", Decoy: -1}}
		if ver == "b2" {
			a.Sections = append(a.Sections, refbundle.AsmSection{Name: "primary", Kind: "primary", Text: "https://a.example/a", Decoy: -1})
		} else {
			a.Sections = append(a.Sections, refbundle.AsmSection{Name: "manifest", Kind: "manifest", Text: "https://a.example/m", Decoy: -1})
		}
		if raw {
			a.Sections = append([]refbundle.AsmSection{{Name: "future", Kind: "raw", RawLen: 7, Decoy: -1}}, a.Sections...)
		}
		a.Sections = append(a.Sections, refbundle.AsmSection{Name: "signatures", Kind: "signatures", Decoy: -1}, refbundle.AsmSection{Name: "responses", Kind: "responses", Decoy: -1})
		return a
	}
	return []refbundle.Asm{mk("b2", false, false), mk("b1", false, false), mk("b2", true, true), mk("b1", true, true)}
}

// TestStatusSweep: every string of 0..3 octets over an alphabet of digits, signs, blanks and the
// characters number parsers give a meaning to, plus longer look-alikes, as the :status of one
// response of a small bundle of either version (numbers written as text: the format allows
// exactly three ASCII digits).
func TestStatusSweep(t *testing.T) {
	alpha := []string{"0", "1", "2", "7", "9", "+", "-", " ", "\t", "x", "e", ".", "_", "\x00", "\n", ","}
	var sts []string
	sts = append(sts, "")
	for _, a := range alpha {
		sts = append(sts, a)
		for _, b := range alpha {
			sts = append(sts, a+b)
			for _, c := range alpha {
				sts = append(sts, a+b+c)
			}
		}
	}
	sts = append(sts, "0200", "2000", "+200", "-200", "200 ", " 200", "2 00", "20.0", "2e02", "0x20", "0b11", "0o77", "1_0", "1_00", "\u0662\u0660\u0660", "\uff12\uff10\uff10", "2\u06f00", "\u00b200",
		"9223372036854775807", "9223372036854775808", "18446744073709551616", "00000000000000000000200", "1e3", "Inf", "NaN", "200\r", "\r\n200")
	n := 0
	for _, a := range smallAsms()[:2] {
		for _, st := range sts {
			b := a
			b.Resps = append([]refbundle.AsmResp{}, a.Resps...)
			b.Resps[1] = refbundle.AsmResp{Fields: []refbundle.HeaderField{{"x-a", "1"}, {":status", st}}, BodyLen: 30, BodyTag: 2}
			n++
			if !statusProp.One(t, Case{Asm: b, Truncate: -1, FlipOff: -1}) {
				return
			}
		}
	}
	vh.Exhaustive("status", fmt.Sprintf("b1 and b2 x every :status string of 0..3 octets over %d symbols (digits, signs, blanks, x e . _ NUL LF comma) + 27 longer look-alikes: %d bundles", len(alpha), n))
}

var statusProp = vh.Define("C05", "status", func(c Case, r *vh.R) {
	in, _ := materialise(&c)
	rr := safeRead(in)
	kind, msg, outcome := judge(in, rr)
	r.Class("outcome:" + outcome)
	r.NT()
	if kind != "" {
		r.Failf(kind, "%s\ninput (%d bytes) %x", msg, len(in), head(in, 160))
	}
})

func TestExhaustiveTruncFlip(t *testing.T) {
	asms := smallAsms()
	if !vh.Thorough() {
		asms = asms[:2]
	}
	n := 0
	for _, a := range asms {
		file, slots := refbundle.Assemble(&a)
		// the honest bundle must be accepted with identical content (guards the generator)
		if !prop.One(t, Case{Asm: a, Truncate: -1, FlipOff: -1}) {
			return
		}
		if rr := safeRead(file); rr.err != nil || rr.panic != "" {
			t.Fatalf("harness: honest assembled bundle rejected: %v %s", rr.err, rr.panic)
		}
		for k := 0; k <= len(file); k++ {
			n++
			if !prop.One(t, Case{Asm: a, Truncate: k, FlipOff: -1}) {
				return
			}
		}
		for off := 0; off < len(file); off++ {
			for bit := 0; bit < 8; bit++ {
				n++
				if !prop.One(t, Case{Asm: a, Truncate: -1, FlipOff: off, FlipBit: bit}) {
					return
				}
			}
		}
		// every slot x every hostile value
		for _, s := range slots {
			for _, v := range hostileValues {
				n++
				if !prop.One(t, Case{Asm: a, Truncate: -1, FlipOff: -1, Patches: []PatchSpec{{Slot: s.Name, Mode: "abs", Value: v}}}) {
					return
				}
			}
			for _, d := range []int64{-1, 1} {
				for _, mode := range []string{"delta", "filesize", "respsize"} {
					n++
					if !prop.One(t, Case{Asm: a, Truncate: -1, FlipOff: -1, Patches: []PatchSpec{{Slot: s.Name, Mode: mode, Value: uint64(d)}}}) {
						return
					}
				}
			}
		}
	}
	// relations between two location fields: B := A + c for every ordered pair of offset / length
	// fields of the index and constants a reader might confuse (relative vs absolute offsets)
	for _, a := range asms {
		file, slots := refbundle.Assemble(&a)
		starts, sectionsStart := refbundle.SectionAbs(file, &a, slots)
		consts := []uint64{0, 1, ^uint64(0), uint64(sectionsStart), uint64(len(file))}
		for i, sec := range a.Sections {
			if i < len(starts) && (sec.Kind == "responses" || sec.Kind == "index") {
				consts = append(consts, uint64(starts[i]), -uint64(starts[i]), uint64(starts[i]-sectionsStart))
			}
		}
		var locs []refbundle.Slot
		for _, sl := range slots {
			if strings.Contains(sl.Name, ".off[") || strings.Contains(sl.Name, ".len[") {
				locs = append(locs, sl)
			}
		}
		for _, sa := range locs {
			for _, sb := range locs {
				if sa.Name == sb.Name {
					continue
				}
				for _, c := range consts {
					n++
					if !prop.One(t, Case{Asm: a, Truncate: -1, FlipOff: -1, Patches: []PatchSpec{{Slot: sb.Name, Mode: "abs", Value: sa.Value + c}}}) {
						return
					}
				}
			}
		}
		// a whole location (offset, length) made a shifted copy of another one: same length, offset + c
		for _, sa := range locs {
			if !strings.Contains(sa.Name, ".off[") {
				continue
			}
			la, okA := findSlot(slots, strings.Replace(sa.Name, ".off[", ".len[", 1))
			for _, sb := range locs {
				if !strings.Contains(sb.Name, ".off[") || sa.Name == sb.Name || !okA {
					continue
				}
				lbName := strings.Replace(sb.Name, ".off[", ".len[", 1)
				for _, c := range consts {
					n++
					if !prop.One(t, Case{Asm: a, Truncate: -1, FlipOff: -1, Patches: []PatchSpec{{Slot: sb.Name, Mode: "abs", Value: sa.Value + c}, {Slot: lbName, Mode: "abs", Value: la.Value}}}) {
						return
					}
				}
			}
		}
	}
	vh.Count("structured", "exhaustive-sweep-cases", int64(n))
}

// ---- unknown sections are stepped over (metamorphic, guards against over-rejection) --------

type UnknownCase struct {
	Asm     refbundle.Asm `json:"asm"` // without raw sections
	Inserts []struct {
		Pos    int    `json:"pos"`
		Name   string `json:"name"`
		RawLen int    `json:"raw_len"`
	} `json:"inserts"`
}

func exchangesEqual(a, b *bundle.Bundle) string {
	if a.Version != b.Version || len(a.Exchanges) != len(b.Exchanges) {
		return fmt.Sprintf("version/exchange count differ: %s/%d vs %s/%d", a.Version, len(a.Exchanges), b.Version, len(b.Exchanges))
	}
	us := func(u *url.URL) string {
		if u == nil {
			return "<nil>"
		}
		return u.String()
	}
	if us(a.PrimaryURL) != us(b.PrimaryURL) || us(a.ManifestURL) != us(b.ManifestURL) || (a.Signatures == nil) != (b.Signatures == nil) {
		return "primary / manifest / signatures differ"
	}
	for i := range a.Exchanges {
		x, y := a.Exchanges[i], b.Exchanges[i]
		if us(x.Request.URL) != us(y.Request.URL) || x.Response.Status != y.Response.Status || !bytes.Equal(x.Response.Body, y.Response.Body) || fmt.Sprint(x.Response.Header) != fmt.Sprint(y.Response.Header) {
			return fmt.Sprintf("exchange %d differs", i)
		}
	}
	return ""
}

var unknownProp = vh.Define("C05", "unknown-section", func(c UnknownCase, r *vh.R) {
	base, _ := refbundle.Assemble(&c.Asm)
	rb := safeRead(base)
	if rb.panic != "" {
		r.Failf("panic", "bundle.Read panicked on an honest bundle: %s", rb.panic)
		return
	}
	if rb.err != nil {
		r.Failf("honest-rejected", "bundle.Read rejects an honest generated bundle: %v\ninput %x", rb.err, head(base, 200))
		return
	}
	if k, m, _ := judge(base, rb); k != "" {
		r.Failf(k, "honest bundle: %s", m)
		return
	}
	a2 := c.Asm
	a2.Sections = append([]refbundle.AsmSection{}, c.Asm.Sections...)
	for _, ins := range c.Inserts {
		pos := ins.Pos % len(a2.Sections) // never after "responses"
		raw := refbundle.AsmSection{Name: ins.Name, Kind: "raw", RawLen: ins.RawLen, Decoy: -1}
		a2.Sections = append(a2.Sections[:pos:pos], append([]refbundle.AsmSection{raw}, a2.Sections[pos:]...)...)
		r.Classf("insert-at-%d", min(pos, 3))
	}
	in2, _ := refbundle.Assemble(&a2)
	r2 := safeRead(in2)
	if r2.panic != "" {
		r.Failf("panic", "bundle.Read panicked after inserting unknown sections: %s", r2.panic)
		return
	}
	if r2.err != nil {
		r.Failf("unknown-section-not-skipped", "bundle.Read accepts the bundle but rejects it once unknown sections %v are inserted (section table kept consistent): %v", c.Inserts, r2.err)
		return
	}
	if d := exchangesEqual(rb.b, r2.b); d != "" {
		r.Failf("unknown-section-changes-result", "inserting unknown sections changed what the reader returns: %s", d)
		return
	}
	if len(c.Inserts) > 0 {
		r.NT()
	}
})

func TestPropUnknownSection(t *testing.T) { unknownProp.Rapid(t, genPropUnknownSection) }

// TestConcUnknownSection: batches of cases evaluated at the same time on separate goroutines (vh.Prop.Concurrent).
func TestConcUnknownSection(t *testing.T) { unknownProp.Concurrent(t, genPropUnknownSection, 8, 3) }

func genPropUnknownSection(t *rapid.T) UnknownCase {
	c := UnknownCase{Asm: GenAsm(t, false)}
	n := rapid.IntRange(1, 3).Draw(t, "ninserts")
	for i := 0; i < n; i++ {
		c.Inserts = append(c.Inserts, struct {
			Pos    int    `json:"pos"`
			Name   string `json:"name"`
			RawLen int    `json:"raw_len"`
		}{rapid.IntRange(0, 8).Draw(t, "pos"), fmt.Sprintf("unknown-%d", i), rapid.SampledFrom([]int{0, 1, 23, 24, 300, 70000}).Draw(t, "rawlen")})
	}
	return c
}

// ---- arbitrary bytes ---------------------------------------------------------------------------

type BytesCase struct {
	Input vh.B `json:"input"`
}

var bytesProp = vh.Define("C05", "bytes", func(c BytesCase, r *vh.R) {
	rr := safeRead(c.Input)
	kind, msg, outcome := judge(c.Input, rr)
	r.Class("outcome:" + outcome)
	if len(c.Input) >= 15 && bytes.Equal(c.Input[2:10], []byte{0xf0, 0x9f, 0x8c, 0x90, 0xf0, 0x9f, 0x93, 0xa6}) {
		r.NT()
	}
	if kind != "" {
		r.Failf(kind, "%s\ninput (%d bytes) %x", msg, len(c.Input), head(c.Input, 200))
	}
})

func TestPropBytes(t *testing.T) {
	seeds := [][]byte{}
	for _, a := range smallAsms() {
		f, _ := refbundle.Assemble(&a)
		seeds = append(seeds, f)
	}
	bytesProp.Rapid(t, func(t *rapid.T) BytesCase {
		if rapid.Bool().Draw(t, "fromseed") {
			b := append([]byte{}, rapid.SampledFrom(seeds).Draw(t, "seed")...)
			// splice: overwrite a random window with random bytes
			n := rapid.IntRange(1, 6).Draw(t, "nedits")
			for i := 0; i < n; i++ {
				off := rapid.IntRange(0, len(b)-1).Draw(t, "off")
				w := rapid.SliceOfN(rapid.Byte(), 1, 9).Draw(t, "w")
				copy(b[off:], w)
			}
			return BytesCase{Input: b}
		}
		return BytesCase{Input: rapid.SliceOfN(rapid.Byte(), 0, 200).Draw(t, "bytes")}
	})
}

// ---- native fuzzing (thorough tier): same oracle inside the target --------------------------

func FuzzRead(f *testing.F) {
	for _, a := range smallAsms() {
		b, slots := refbundle.Assemble(&a)
		f.Add(b)
		for _, s := range slots {
			if strings.Contains(s.Name, ".off[") || strings.HasSuffix(s.Name, ".len") {
				f.Add(refbundle.Patch(b, s, ^uint64(0)))
				f.Add(refbundle.Patch(b, s, 1<<63))
			}
		}
	}
	f.Fuzz(func(t *testing.T, in []byte) {
		if len(in) > 1<<16 {
			return
		}
		c := BytesCase{Input: in}
		if r := bytesProp.Eval(c); r.V != nil {
			bytesProp.One(t, c)
		}
	})
}
