PLAN = dict(
    id="C05", pkg="c05", level="exploration",
    rule=("structured: a bundle assembled byte by byte from a description (b1/b2, 0..4 responses, index incl. aliasing entries, primary/manifest/signatures/"
          "unknown sections in drawn order, optionally with every length/count/offset written as an 8-byte argument so that one field can be overwritten without "
          "moving any other byte) plus one of: 1-2 field rewrites to {0, 1, exact+-1/2/8, file size+-1, responses-section size+-1, 2^31, 2^32, 2^62, 2^63, 2^63+1, "
          "2^64-9..2^64-1}, truncation, bit flip, trailing garbage, section list defects (responses not last, duplicated / dropped / renamed section, dangling "
          "index entry), or an offset that wraps around 2^64 onto a decoy response planted in an unknown section. Exhaustive part: for small bundles every "
          "truncation length, every single-bit flip and every slot x every hostile value. unknown-section: an honest bundle must be accepted and inserting unknown "
          "sections (table kept consistent) must not change the result. bytes: random bytes and random splices of valid bundles; thorough: native coverage-guided "
          "fuzzing with the same oracle inside the target. Oracle: no panic; if bundle.Read accepts then refbundle.Lenient must not say MustReject (span outside the "
          "file, 64-bit overflow, entry outside the responses section, table/array arity disagreement, item not filling its span, duplicate section) and the "
          "reader's version, URLs, status, headers, bodies, primary/manifest equal what the independent parser extracts from the byte spans. Non-trivial: a mutated "
          "input that still carries magic and version (the reader reaches the bounds logic)."),
    assumptions=TRUSTED + ["inputs the independent parser classifies as Unspecified (trailing bytes inside the section table, responses not last, ...) are counted and not compared",
                           "URL strings that net/url cannot parse, fragment/userinfo URLs and non-3-digit :status values are rejected by design and not compared"],
    technique="structure-aware field rewriting of assembled bundles (rapid + exhaustive sweeps) and native fuzzing, differential against an independent lenient extractor; metamorphic unknown-section insertion",
    level_text=("Differential exploration against refbundle, which recomputes every location with overflow-checked arithmetic from the bytes alone; the generator rewrites "
                "individual length/offset/count fields in place (all heads can be 8 bytes wide), so the reader's bounds logic is reached instead of dying in CBOR framing, "
                "and the over-rejection direction is covered by the metamorphic unknown-section relation."),
    level_note=NOTE_BASE,
    runs=[
        dict(name="conc", run="^(TestConcStructured|TestConcUnknownSection)$", checks=(400, 20000), shards=(2, 8), timeout=(400, 3600), race=True),
        dict(name="sweep", run="^(TestExhaustiveTruncFlip|TestStatusSweep|TestCorpus)$", timeout=(300, 3600)),
        dict(name="structured", run="^TestPropStructured$", checks=(4000, 500000), shards=(2, 16), timeout=(300, 3600)),
        dict(name="unknown", run="^TestPropUnknownSection$", checks=(1500, 150000), shards=(1, 4), timeout=(300, 3600)),
        dict(name="bytes", run="^TestPropBytes$", checks=(3000, 500000), shards=(1, 16), timeout=(300, 3600)),
        dict(name="fuzz", fuzz="FuzzRead", fuzztime=180, timeout=(0, 3600)),
    ],
    require=[("structured", "outcome:rejected"), ("structured", "outcome:accepted-equal"), ("structured", "patched:index[].off[]"), ("structured", "patched:sl[].len"),
             ("structured", "truncated"), ("unknown-section", "insert-at-0")],
)
