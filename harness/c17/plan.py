PLAN = dict(
    id="C17", pkg="c17", level="exploration",
    rule=("chain-roundtrip: chains of 0..4 certificates drawn from a pool (6 fixtures + their CA + a throw-away P-384 CA + 8 leaves with P-256/P-384 keys, 1..60 SANs, "
          "0..900 bytes of padding; DER 400..2100 bytes) x OCSP / SCT blobs per element that are absent (nil), empty-but-present or of length 1,23,24,255,256,65535,65536 "
          "(+-1, random) x presence patterns (valid; leaf without OCSP; OCSP on a non-leaf; both; empty chain; free); one case in four first writes the same chain to a destination that fails after 0..3000 bytes. Valid pattern: Write succeeds, refcbor decodes the "
          "output as exactly one array [text U+1F4DC U+26D3, map...] of len+1 elements whose maps have exactly the text keys cert/ocsp/sct that are present with byte-string "
          "values equal to the given bytes, refcbor.CheckDeterministic accepts it (shortest heads, keys ascending), ReadCertChain returns the same number of elements with "
          "bytes.Equal DER / OCSP / SCT (nil == empty) and what it returns can be written again. Invalid pattern: Write fails and leaves nothing that reads back as a chain, and "
          "the same chain encoded canonically by refcbor is refused by ReadCertChain. Every presence pattern of chains of 0..3 elements over OCSP {absent,0,1,300} x SCT "
          "{absent,0,30} is additionally enumerated. read-crafted: refcbor-encoded inputs derived from a valid chain by up to 3 perturbations (non-shortest heads anywhere, "
          "shuffled map entries, unknown keys incl. near-misses of cert/ocsp/sct, unknown keys with non-bstr values, dropped cert key, 5 wrong magics, array of length 0/1, "
          "certificate DER truncated / with a trailing byte / with a flipped bit / replaced by filler / empty, duplicate cert/ocsp/sct keys, leaf without ocsp, ocsp on a "
          "non-leaf, trailing bytes, truncation). No panic; must be rejected: wrong magic, array shorter than 2, an element without cert, cert bytes crypto/x509 does not parse, "
          "invalid OCSP presence; must be accepted: only the canonical encoding of a valid chain; accepted => number of elements and DER/OCSP/SCT equal the byte strings in "
          "the input (with duplicate keys: one of the occurrences; duplicate keys, unknown keys and non-canonical encodings are otherwise unspecified). sct-list / "
          "sct-boundaries: SerializeSCTList on lists described as runs (size, count) with filler content: error iff an element > 65535 bytes or sum(len+2) > 65535, "
          "otherwise output == reference vector (2-byte total, then 2-byte length + bytes per element) and an independent parser of the output returns exactly the input "
          "Per element: CertChain.Validate agrees with the presence pattern; AugmentedCertificate.EncodeTo gives the element's canonical map and DecodeAugmentedCertificateFrom reads it back with data behind it, stopping exactly at its end. "
          "elements in order. Non-trivial: chain of >= 2 certificates or an OCSP/SCT blob of >= 24 bytes, i.e. outside the immediate (0-width) CBOR length class "
          "(chain-roundtrip); accepted inputs and must-reject inputs (read-crafted); lists whose sum(len+2) is within +-4 of 65535 or that contain an element >= 65533 bytes "
          "(sct-*). Distinct by fingerprint of the case description."),
    assumptions=TRUSTED + ["crypto/x509.ParseCertificate decides whether mutated certificate bytes are 'a certificate' (the same trusted library the code under test uses)",
                           "Certificate keys / signatures are generated per process; cases name pool positions, and no clause depends on the key material",
                           "bytes.Equal semantics for 'byte-for-byte': an absent blob and an empty blob are not distinguished on the read side"],
    technique=("rapid-generated chains and crafted encodings judged by an independent RFC 8949 decoder / deterministic-encoding judge and a reference encoder; "
               "enumerated presence patterns; SerializeSCTList differential against a reference TLS-vector encoder + parser with exhaustive boundary enumeration"),
    level_text=("Exploration: random chains over a 16-certificate pool with blobs in every CBOR length class and every OCSP presence pattern, the writer judged structurally and "
                "for canonicity by code that shares nothing with the repository, the reader fed both the writer's output and independently encoded valid / invalid / "
                "non-canonical inputs. The SCT boundary sub-check enumerates its described finite space completely on every run; the rest is sampled."),
    level_note=NOTE_BASE,
    runs=[
        dict(name="conc", run="^(TestConcSCT|TestConcChain|TestConcCrafted)$", checks=(40, 2000), shards=(2, 8), timeout=(400, 3600), race=True),
        dict(name="exh", run="^(TestExhaustiveSCT|TestExhaustiveChainPresence|TestCorpus)$", timeout=(300, 3600)),
        dict(name="chain", run="^TestPropChain$", checks=(5000, 150000), shards=(1, 16), timeout=(300, 3600)),
        dict(name="craft", run="^TestPropCrafted$", checks=(8000, 200000), shards=(1, 16), timeout=(300, 3600)),
        dict(name="sct", run="^TestPropSCT$", checks=(4000, 150000), shards=(1, 4), timeout=(300, 3600)),
    ],
    require=[("chain-roundtrip", "pattern:valid"), ("chain-roundtrip", "pattern:leaf-without-ocsp"), ("chain-roundtrip", "pattern:ocsp-on-nonleaf"),
             ("chain-roundtrip", "pattern:empty-chain"), ("chain-roundtrip", "ocsp-len-65536"), ("chain-roundtrip", "sct-len-65536"),
             ("chain-roundtrip", "ocsp-len-0"), ("chain-roundtrip", "sct-on-nonleaf"),
             ("read-crafted", "accepted"), ("read-crafted", "must-reject"), ("read-crafted", "reject:missing-cert"), ("read-crafted", "reject:cert-not-der"),
             ("read-crafted", "reject:wrong-magic"), ("read-crafted", "reject:array-shorter-than-2"),
             ("sct-list", "error"), ("sct-list", "ok"), ("sct-boundaries", "error"), ("sct-boundaries", "ok"),
             ("sct-boundaries", "total-65535"), ("sct-boundaries", "total-65536")],
)
