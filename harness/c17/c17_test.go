// Package c17: application/cert-chain+cbor round trip / validation (certurl.CertChain.Write,
// certurl.ReadCertChain) and RFC 6962 SCT list serialisation (certurl.SerializeSCTList).
//
// Oracles share no code with the repository: the CBOR side is judged by ref/refcbor (independent
// RFC 8949 decoder + deterministic-encoding judge), the SCT side by a reference TLS-vector encoder
// and parser written here, "is this DER a certificate" by crypto/x509 (trusted standard library).
package c17

import (
	"bytes"
	"crypto/ecdsa"
	"crypto/elliptic"
	"crypto/rand"
	"crypto/x509"
	"crypto/x509/pkix"
	"fmt"
	"math/big"
	"sort"
	"strings"
	"sync"
	"testing"
	"time"

	"github.com/WICG/webpackage/go/internal/cbor"
	"github.com/WICG/webpackage/go/signedexchange/certurl"
	"github.com/WICG/webpackage/go/verifh/gen"
	"github.com/WICG/webpackage/go/verifh/ref/refcbor"
	"github.com/WICG/webpackage/go/verifh/vh"
	"pgregory.net/rapid"
)

func TestMain(m *testing.M)   { vh.Main(m) }
func TestReplay(t *testing.T) { vh.Replay(t) }
func TestCorpus(t *testing.T) { vh.Corpus(t) }

// magic is U+1F4DC U+26D3 in UTF-8, spelled out so that it does not depend on the repository's constant.
var magic = string([]byte{0xf0, 0x9f, 0x93, 0x9c, 0xe2, 0x9b, 0x93})

// ----------------------------------------------------------------------------- certificate pool

// The pool is built once per process. Its *layout* (index -> kind of certificate) is fixed, so a Case
// that names pool indices replays in another process; the key material differs per process, which no
// clause of the property depends on.
//
//	0..5   gen.Fixtures() leaves (P-256 / P-384, 0..120 bytes of Organization padding)
//	6      gen.CA()
//	7      throw-away P-384 CA created here
//	8..    leaves signed by 7: P-256 / P-384 keys, 1..60 SANs, 0..900 bytes of padding (DER 400..2100 bytes)
var (
	poolOnce sync.Once
	pool     []*x509.Certificate
)

type leafSpec struct {
	p384     bool
	sans     int
	padding  int
	longSANs bool
}

var leafSpecs = []leafSpec{
	{false, 1, 0, false},
	{false, 5, 0, false},
	{true, 1, 30, false},
	{true, 12, 0, true},
	{false, 40, 0, false},
	{false, 1, 900, false},
	{true, 60, 200, false},
	{false, 3, 333, true},
}

func must[T any](v T, err error) T {
	if err != nil {
		panic(err)
	}
	return v
}

func certs() []*x509.Certificate {
	poolOnce.Do(func() {
		for _, f := range gen.Fixtures() {
			pool = append(pool, f.Leaf)
		}
		pool = append(pool, gen.CA())
		caKey := must(ecdsa.GenerateKey(elliptic.P384(), rand.Reader))
		caT := &x509.Certificate{
			SerialNumber:          big.NewInt(1700),
			Subject:               pkix.Name{CommonName: "c17 throwaway CA"},
			NotBefore:             time.Unix(1500000000, 0),
			NotAfter:              time.Unix(4000000000, 0),
			IsCA:                  true,
			KeyUsage:              x509.KeyUsageCertSign,
			BasicConstraintsValid: true,
		}
		ca := must(x509.ParseCertificate(must(x509.CreateCertificate(rand.Reader, caT, caT, &caKey.PublicKey, caKey))))
		pool = append(pool, ca)
		for i, s := range leafSpecs {
			curve := elliptic.P256()
			if s.p384 {
				curve = elliptic.P384()
			}
			key := must(ecdsa.GenerateKey(curve, rand.Reader))
			var sans []string
			for j := 0; j < s.sans; j++ {
				h := fmt.Sprintf("h%d-%d.c17.example", i, j)
				if s.longSANs {
					h = strings.Repeat("l", 40+j) + "." + h
				}
				sans = append(sans, h)
			}
			tmpl := &x509.Certificate{
				SerialNumber: big.NewInt(int64(1701 + i)),
				Subject:      pkix.Name{CommonName: sans[0], Organization: []string{"c17" + strings.Repeat("p", s.padding)}},
				NotBefore:    time.Unix(1500000000, 0),
				NotAfter:     time.Unix(4000000000, 0),
				DNSNames:     sans,
				KeyUsage:     x509.KeyUsageDigitalSignature,
			}
			der := must(x509.CreateCertificate(rand.Reader, tmpl, ca, &key.PublicKey, caKey))
			pool = append(pool, must(x509.ParseCertificate(der)))
		}
	})
	return pool
}

func poolSize() int { return 6 + 1 + 1 + len(leafSpecs) }

// blob returns the OCSP / SCT bytes for a described length: -1 = absent (nil), 0 = present and empty
// (non-nil, zero length), n = n filler bytes.
func blob(n int, tag uint64) []byte {
	if n < 0 {
		return nil
	}
	return gen.Filler(n, tag) // make([]byte, 0) for n == 0: non-nil
}

var edgeLens = []int{0, 1, 23, 24, 255, 256, 65535, 65536}

func isEdge(n int) bool {
	for _, e := range edgeLens {
		if e == n {
			return true
		}
	}
	return false
}

func trunc(b []byte) []byte {
	if len(b) > 40 {
		return b[:40]
	}
	return b
}

// ----------------------------------------------------------------------------- (1) chain-roundtrip

type Elem struct {
	Cert int `json:"cert"` // pool index
	OCSP int `json:"ocsp"` // length, -1 = absent
	SCT  int `json:"sct"`  // length, -1 = absent
	// Alias k > 0: this chain element is the SAME OBJECT (*AugmentedCertificate pointer) as element
	// k-1 (a self-signed leaf that is also the root, a caller reusing one value); Cert / OCSP / SCT
	// above are ignored and taken from that element.
	Alias int `json:"alias,omitempty"`
}

type ChainCase struct {
	Elems []Elem `json:"elems"`
	Tag   uint64 `json:"tag"`
	// FailFirst > 0: before the judged Write, the same chain is written to a destination that
	// fails after FailFirst-1 bytes (a failed earlier attempt must not show in the next output).
	FailFirst int `json:"fail_first,omitempty"`
}

type failingWriter struct{ k int }

func (w *failingWriter) Write(p []byte) (int, error) {
	if len(p) <= w.k {
		w.k -= len(p)
		return len(p), nil
	}
	n := w.k
	w.k = 0
	return n, fmt.Errorf("destination failed (injected by the harness)")
}

type mat struct{ der, ocsp, sct []byte }

func (c ChainCase) materialize(P []*x509.Certificate) ([]mat, certurl.CertChain, bool) {
	var ms []mat
	chain := certurl.CertChain{}
	for i, e := range c.Elems {
		if e.Alias > 0 {
			if e.Alias-1 >= i {
				return nil, nil, false
			}
			c.Elems[i].Cert, c.Elems[i].OCSP, c.Elems[i].SCT = c.Elems[e.Alias-1].Cert, c.Elems[e.Alias-1].OCSP, c.Elems[e.Alias-1].SCT
			ms = append(ms, ms[e.Alias-1])
			chain = append(chain, chain[e.Alias-1])
			continue
		}
		if e.Cert < 0 || e.Cert >= len(P) || e.OCSP > 1<<20 || e.SCT > 1<<20 {
			return nil, nil, false
		}
		m := mat{der: P[e.Cert].Raw, ocsp: blob(e.OCSP, c.Tag*16+uint64(2*i)), sct: blob(e.SCT, c.Tag*16+uint64(2*i+1))}
		ms = append(ms, m)
		chain = append(chain, &certurl.AugmentedCertificate{Cert: P[e.Cert], OCSPResponse: m.ocsp, SCTList: m.sct})
	}
	return ms, chain, true
}

// refEncode is the canonical cert-chain+cbor encoding of ms by the reference encoder.
func refEncode(ms []mat) []byte {
	items := [][]byte{refcbor.Tstr(magic)}
	for _, m := range ms {
		kvs := []refcbor.KV{{K: refcbor.Tstr("cert"), V: refcbor.Bstr(m.der)}}
		if m.ocsp != nil {
			kvs = append(kvs, refcbor.KV{K: refcbor.Tstr("ocsp"), V: refcbor.Bstr(m.ocsp)})
		}
		if m.sct != nil {
			kvs = append(kvs, refcbor.KV{K: refcbor.Tstr("sct"), V: refcbor.Bstr(m.sct)})
		}
		items = append(items, refcbor.MapBytewise(kvs))
	}
	return refcbor.Arr(items...)
}

// presence classifies the OCSP presence pattern: "" = valid.
func presence(es []Elem) []string {
	if len(es) == 0 {
		return []string{"empty-chain"}
	}
	var out []string
	if es[0].OCSP < 0 {
		out = append(out, "leaf-without-ocsp")
	}
	for _, e := range es[1:] {
		if e.OCSP >= 0 {
			out = append(out, "ocsp-on-nonleaf")
			break
		}
	}
	return out
}

var chainProp = vh.Define("C17", "chain-roundtrip", func(c ChainCase, r *vh.R) {
	P := certs()
	ms, chain, ok := c.materialize(P)
	if !ok || len(c.Elems) > 8 {
		r.Skip = true
		return
	}
	r.Classf("n=%d", len(c.Elems))
	big := false
	for i, e := range c.Elems {
		if isEdge(e.OCSP) {
			r.Classf("ocsp-len-%d", e.OCSP)
		}
		if isEdge(e.SCT) {
			r.Classf("sct-len-%d", e.SCT)
		}
		if e.OCSP >= 24 || e.SCT >= 24 {
			big = true
		}
		if i > 0 && e.SCT >= 0 {
			r.Class("sct-on-nonleaf")
		}
		if len(ms[i].der) > 0 {
			r.Classf("der-size-%dxx", len(ms[i].der)/256*256)
		}
	}
	if len(c.Elems) >= 2 || big {
		r.NT()
	}
	bad := presence(c.Elems)

	// -- the other doors. Validate is the exported statement of which chains can be written
	// (first element with an OCSP response, later ones without); it must agree with the pattern.
	if verr := chain.Validate(); (verr == nil) != (len(bad) == 0) {
		r.Failf("validate-disagrees", "CertChain.Validate returned %v for presence pattern %v (elems %+v)", verr, bad, c.Elems)
		return
	}
	// EncodeTo / DecodeAugmentedCertificateFrom handle ONE element, whatever its place in a chain:
	// the bytes are the element's canonical map, and decoding them (with more data behind) gives
	// the element back and stops exactly at its end.
	for i, m := range ms {
		var eb bytes.Buffer
		if err := chain[i].EncodeTo(cbor.NewEncoder(&eb)); err != nil {
			r.Failf("element-door", "AugmentedCertificate.EncodeTo refuses element %d (%+v): %v", i, c.Elems[i], err)
			return
		}
		want := refEncode([]mat{m})[len(refcbor.Arr(refcbor.Tstr(magic))):]
		if !bytes.Equal(eb.Bytes(), want) {
			r.Failf("element-door", "AugmentedCertificate.EncodeTo of element %d gives %d octets (%x...), the canonical map has %d (%x...)", i, eb.Len(), trunc(eb.Bytes()), len(want), trunc(want))
			return
		}
		tail := []byte{0xa1, 0x64, 'c', 'e', 'r', 't', 0x40}
		rd := bytes.NewReader(append(append([]byte{}, want...), tail...))
		ac, derr := certurl.DecodeAugmentedCertificateFrom(cbor.NewDecoder(rd))
		if derr != nil || ac == nil || ac.Cert == nil {
			r.Failf("element-door", "DecodeAugmentedCertificateFrom refuses the canonical map of element %d: %v", i, derr)
			return
		}
		if !bytes.Equal(ac.Cert.Raw, m.der) || !bytes.Equal(ac.OCSPResponse, m.ocsp) || !bytes.Equal(ac.SCTList, m.sct) || rd.Len() != len(tail) {
			r.Failf("element-door", "DecodeAugmentedCertificateFrom on element %d: der equal %v, ocsp %d/%d octets, sct %d/%d octets, %d octets left unread (want %d)", i,
				bytes.Equal(ac.Cert.Raw, m.der), len(ac.OCSPResponse), len(m.ocsp), len(ac.SCTList), len(m.sct), rd.Len(), len(tail))
			return
		}
	}
	r.Class("doors:validate+element")

	if c.FailFirst > 0 {
		chain.Write(&failingWriter{k: c.FailFirst - 1})
		r.Class("after-failed-write")
	}
	var buf bytes.Buffer
	werr := chain.Write(&buf)
	out := buf.Bytes()

	if len(bad) > 0 {
		for _, b := range bad {
			r.Class("pattern:" + b)
		}
		if werr == nil {
			r.Failf("wrote-invalid-chain", "Write accepted a chain with presence pattern %v (elems %+v) and produced %d bytes", bad, c.Elems, len(out))
			return
		}
		if len(out) > 0 {
			if _, rerr := certurl.ReadCertChain(bytes.NewReader(out)); rerr == nil {
				r.Failf("wrote-invalid-chain", "Write returned %v for pattern %v but left %d bytes in the buffer that read back as a chain", werr, bad, len(out))
				return
			}
		}
		// the same chain encoded by the reference encoder must be refused by the reader
		enc := refEncode(ms)
		if got, rerr := certurl.ReadCertChain(bytes.NewReader(enc)); rerr == nil {
			r.Failf("read-invalid-chain", "ReadCertChain accepted a reference-encoded chain with presence pattern %v (elems %+v): %d elements returned", bad, c.Elems, len(got))
		}
		return
	}

	r.Class("pattern:valid")
	if c.Elems[0].OCSP == 0 {
		r.Class("leaf-ocsp-empty-nonnil")
	}
	if werr != nil {
		r.Failf("write-error", "Write refused a valid chain (elems %+v): %v", c.Elems, werr)
		return
	}

	// -- form: exactly one item [magic, {cert, ocsp?, sct?}...] with the given bytes
	items, derr := refcbor.DecodeAll(out)
	if derr != nil || len(items) != 1 {
		r.Failf("not-one-item", "output (%d bytes, starts %x) is not exactly one well-formed CBOR item: %d items, err %v", len(out), trunc(out), len(items), derr)
		return
	}
	top := items[0]
	if top.Major != 4 || top.Arg != uint64(len(ms)+1) {
		r.Failf("wrong-form", "top-level item is major %d with argument %d, want an array of %d (magic + %d certificates)", top.Major, top.Arg, len(ms)+1, len(ms))
		return
	}
	if k := top.Kids[0]; k.Major != 3 || string(k.Content) != magic {
		r.Failf("wrong-form", "first array element is %s, want the text string U+1F4DC U+26D3", refcbor.Describe(k))
		return
	}
	for i, m := range ms {
		it := top.Kids[i+1]
		want := map[string][]byte{"cert": m.der}
		if m.ocsp != nil {
			want["ocsp"] = m.ocsp
		}
		if m.sct != nil {
			want["sct"] = m.sct
		}
		if it.Major != 5 {
			r.Failf("wrong-form", "element %d is major type %d, want a map", i, it.Major)
			return
		}
		if int(it.Arg) != len(want) {
			r.Failf("wrong-form", "element %d is a map of %d entries, want %d (%v)", i, it.Arg, len(want), keysOf(want))
			return
		}
		seen := map[string]bool{}
		for j := 0; j+1 < len(it.Kids); j += 2 {
			k, v := it.Kids[j], it.Kids[j+1]
			if k.Major != 3 {
				r.Failf("wrong-form", "element %d: key %s is not a text string", i, refcbor.Describe(k))
				return
			}
			name := string(k.Content)
			w, known := want[name]
			if !known || seen[name] {
				r.Failf("wrong-form", "element %d: unexpected or repeated key %q (want exactly %v)", i, name, keysOf(want))
				return
			}
			seen[name] = true
			if v.Major != 2 {
				r.Failf("wrong-form", "element %d: value of %q is major type %d, want a byte string", i, name, v.Major)
				return
			}
			if !bytes.Equal(v.Content, w) {
				r.Failf("wrong-value", "element %d: value of %q is %d bytes (%x...), want the %d given bytes (%x...)", i, name, len(v.Content), trunc(v.Content), len(w), trunc(w))
				return
			}
		}
	}
	// -- canonical
	if cerr := refcbor.CheckDeterministic(out, refcbor.Profile{}); cerr != nil {
		r.Failf("not-canonical", "output is not canonical CBOR: %v (starts %x)", cerr, trunc(out))
		return
	}
	if ref := refEncode(ms); !bytes.Equal(ref, out) {
		// form + canonical imply byte equality with the reference encoding; reaching this is a harness inconsistency
		r.Failf("canonical-bytes-differ", "output passes form and canonical checks but differs from the reference encoding (%d vs %d bytes)", len(out), len(ref))
		return
	}
	// -- read back
	csrc := gen.Source(out, sourceMode(out))
	got, rerr := certurl.ReadCertChain(csrc)
	gen.Recycle(csrc)
	if rerr != nil {
		r.Failf("written-chain-not-readable", "Write accepted the chain (elems %+v) but ReadCertChain rejects its output: %v", c.Elems, rerr)
		return
	}
	if len(got) != len(ms) {
		r.Failf("roundtrip-differs", "wrote %d certificates, read %d", len(ms), len(got))
		return
	}
	for i, m := range ms {
		g := got[i]
		if g == nil || g.Cert == nil || !bytes.Equal(g.Cert.Raw, m.der) {
			r.Failf("roundtrip-differs", "element %d: certificate DER differs after the round trip", i)
			return
		}
		if !bytes.Equal(g.OCSPResponse, m.ocsp) {
			r.Failf("roundtrip-differs", "element %d: OCSP response read back as %d bytes (%x...), written %d bytes (%x...)", i, len(g.OCSPResponse), trunc(g.OCSPResponse), len(m.ocsp), trunc(m.ocsp))
			return
		}
		if !bytes.Equal(g.SCTList, m.sct) {
			r.Failf("roundtrip-differs", "element %d: SCT list read back as %d bytes (%x...), written %d bytes (%x...)", i, len(g.SCTList), trunc(g.SCTList), len(m.sct), trunc(m.sct))
			return
		}
	}
	// what was read is itself a chain that can be written again, to the same bytes
	var buf2 bytes.Buffer
	if err := got.Write(&buf2); err != nil {
		r.Failf("written-chain-not-readable", "the chain returned by ReadCertChain cannot be written again: %v", err)
		return
	}
	if !bytes.Equal(buf2.Bytes(), out) {
		r.Class("rewrite-differs-nil-vs-empty") // only possible through absent <-> empty; recorded, not a stated clause
	}
})

func keysOf(m map[string][]byte) []string {
	var ks []string
	for k := range m {
		ks = append(ks, k)
	}
	sort.Strings(ks)
	return ks
}

func drawBlobLen(t *rapid.T, label string) int {
	switch m := rapid.IntRange(0, 9).Draw(t, label+"-mode"); {
	case m <= 5:
		return rapid.SampledFrom(edgeLens).Draw(t, label+"-edge")
	case m == 6:
		n := rapid.SampledFrom(edgeLens).Draw(t, label+"-edge") + rapid.IntRange(-1, 1).Draw(t, label+"-delta")
		if n < 0 {
			n = 0
		}
		return n
	case m == 7:
		return rapid.IntRange(0, 300).Draw(t, label+"-small")
	case m == 8:
		return gen.ImplLen(t, label+"-impl", 4097)
	}
	return rapid.IntRange(0, 70000).Draw(t, label+"-any")
}

func drawOptBlobLen(t *rapid.T, label string) int {
	if rapid.Bool().Draw(t, label+"-absent") {
		return -1
	}
	return drawBlobLen(t, label)
}

func TestPropChain(t *testing.T) { chainProp.Rapid(t, chainGen(t)) }

// TestConcChain: batches of cases evaluated at the same time on separate goroutines (vh.Prop.Concurrent).
func TestConcChain(t *testing.T) { chainProp.Concurrent(t, chainGen(t), 8, 3) }

func chainGen(t *testing.T) func(*rapid.T) ChainCase {
	ps := poolSize()
	if len(certs()) != ps {
		t.Fatalf("pool has %d certificates, layout says %d", len(certs()), ps)
	}
	pats := []string{"valid", "valid", "valid", "valid", "valid", "valid", "leaf-without-ocsp", "ocsp-on-nonleaf", "both", "empty", "free"}
	return func(t *rapid.T) ChainCase {
		c := ChainCase{Tag: rapid.Uint64Range(0, 1<<40).Draw(t, "tag"), Elems: []Elem{}}
		pat := rapid.SampledFrom(pats).Draw(t, "pattern")
		if pat == "empty" {
			return c
		}
		lo := 1
		if pat == "ocsp-on-nonleaf" || pat == "both" {
			lo = 2
		}
		n := rapid.IntRange(lo, 4).Draw(t, "n")
		for i := 0; i < n; i++ {
			e := Elem{Cert: rapid.IntRange(0, ps-1).Draw(t, "cert"), OCSP: -1, SCT: drawOptBlobLen(t, "sct")}
			switch pat {
			case "valid":
				if i == 0 {
					e.OCSP = drawBlobLen(t, "ocsp")
				}
			case "leaf-without-ocsp":
			case "ocsp-on-nonleaf", "both":
				if i == 0 && pat == "ocsp-on-nonleaf" {
					e.OCSP = drawBlobLen(t, "ocsp")
				}
				if i > 0 && (i == n-1 || rapid.Bool().Draw(t, "extra-ocsp")) {
					e.OCSP = drawBlobLen(t, "ocsp")
				}
			case "free":
				e.OCSP = drawOptBlobLen(t, "ocsp")
			}
			c.Elems = append(c.Elems, e)
		}
		if len(c.Elems) >= 1 && len(c.Elems) < 5 && rapid.IntRange(0, 5).Draw(t, "alias") == 0 {
			// one more element that is the same object as an earlier one (the leaf, mostly)
			k := 1
			if rapid.IntRange(0, 2).Draw(t, "aliasleaf") == 0 {
				k = rapid.IntRange(1, len(c.Elems)).Draw(t, "aliasof")
			}
			c.Elems = append(c.Elems, Elem{Alias: k})
		}
		if rapid.IntRange(0, 3).Draw(t, "failfirst") == 0 {
			c.FailFirst = 1 + rapid.SampledFrom([]int{0, 1, 9, 10, 30, 500, 1000, 3000}).Draw(t, "failat")
		}
		return c
	}
}

// TestExhaustiveChainPresence enumerates every presence pattern (OCSP absent / empty / 1 byte / 300 bytes,
// SCT absent / empty / 30 bytes per element) for chains of 0..3 certificates over a few pool certificates.
func TestExhaustiveChainPresence(t *testing.T) {
	ocsps := []int{-1, 0, 1, 300}
	scts := []int{-1, 0, 30}
	var opts []Elem
	for _, o := range ocsps {
		for _, s := range scts {
			opts = append(opts, Elem{OCSP: o, SCT: s})
		}
	}
	n := 0
	var rec func(prefix []Elem, depth int) bool
	rec = func(prefix []Elem, depth int) bool {
		n++
		c := ChainCase{Elems: append([]Elem{}, prefix...), Tag: uint64(n)}
		if !chainProp.One(t, c) {
			return false
		}
		if depth == 3 {
			return true
		}
		for _, o := range opts {
			e := o
			e.Cert = (3*depth + 5*len(prefix) + n) % poolSize()
			if !rec(append(prefix, e), depth+1) {
				return false
			}
		}
		return true
	}
	rec(nil, 0)
}

// ----------------------------------------------------------------------------- (2) read-crafted

type Entry struct {
	Key    string `json:"key"`
	KW     int    `json:"kw"`             // key head width: -1 shortest, else 0/1/2/4/8 (raised to the minimum that fits)
	VW     int    `json:"vw"`             // value head width
	Cert   int    `json:"cert"`           // >= 0: the value is the DER of this pool certificate (after Mut); -1: a blob of Len bytes
	Mut    string `json:"mut,omitempty"`  // "", truncate, trailing, flip, garbage, empty
	MutArg int    `json:"marg,omitempty"` //
	Len    int    `json:"len"`            // blob length
	Val    string `json:"val,omitempty"`  // "" = byte string; "uint" / "tstr": value of another type (unknown keys only)
}

type CElem struct {
	MW      int     `json:"mw"` // map head width
	Entries []Entry `json:"entries"`
}

type CraftCase struct {
	Magic    string  `json:"magic"` // ok, half, ascii, bstr, empty, absent
	MagicW   int     `json:"magicw"`
	ArrW     int     `json:"arrw"`
	Elems    []CElem `json:"elems"`
	Trailing int     `json:"trailing"` // bytes appended after the top-level item
	Cut      int     `json:"cut"`      // bytes removed from the end
	Tag      uint64  `json:"tag"`
}

func head(major int, arg uint64, w int) []byte {
	min := refcbor.MinWidth(arg)
	switch w {
	case 0, 1, 2, 4, 8:
		if w < min {
			w = min
		}
	default:
		w = min
	}
	return refcbor.HeadW(major, arg, w)
}

func isKnown(k string) bool { return k == "cert" || k == "ocsp" || k == "sct" }

type celemModel struct {
	vals     map[string][][]byte // values per known key, in input order
	extras   int
	oddExtra bool
}

func (c CraftCase) build(P []*x509.Certificate) (input []byte, model []celemModel, ok bool) {
	var body []byte
	count := len(c.Elems) + 1
	switch c.Magic {
	case "ok":
		body = append(head(3, uint64(len(magic)), c.MagicW), magic...)
	case "half":
		s := magic[:4]
		body = append(head(3, uint64(len(s)), c.MagicW), s...)
	case "ascii":
		s := "cert-chain"
		body = append(head(3, uint64(len(s)), c.MagicW), s...)
	case "bstr":
		body = append(head(2, uint64(len(magic)), c.MagicW), magic...)
	case "empty":
		body = head(3, 0, c.MagicW)
	case "absent":
		count--
	default:
		return nil, nil, false
	}
	for i, e := range c.Elems {
		m := celemModel{vals: map[string][][]byte{}}
		body = append(body, head(5, uint64(len(e.Entries)), e.MW)...)
		for j, en := range e.Entries {
			var v []byte
			if en.Cert >= 0 {
				if en.Cert >= len(P) {
					return nil, nil, false
				}
				der := append([]byte{}, P[en.Cert].Raw...)
				switch en.Mut {
				case "":
				case "truncate":
					k := 1
					if en.MutArg > 0 {
						k = 1 + en.MutArg%len(der)
					}
					der = der[:len(der)-k]
				case "trailing":
					der = append(der, byte(en.MutArg))
				case "flip":
					pos := 0
					if en.MutArg > 0 {
						pos = en.MutArg % (8 * len(der))
					}
					der[pos/8] ^= 1 << uint(pos%8)
				case "garbage":
					der = gen.Filler(len(der), c.Tag+uint64(en.MutArg))
				case "empty":
					der = der[:0]
				default:
					return nil, nil, false
				}
				v = der
			} else {
				if en.Len < 0 || en.Len > 1<<20 {
					return nil, nil, false
				}
				v = gen.Filler(en.Len, c.Tag*64+uint64(i*8+j))
			}
			body = append(body, head(3, uint64(len(en.Key)), en.KW)...)
			body = append(body, en.Key...)
			if isKnown(en.Key) {
				if en.Val != "" {
					return nil, nil, false // known keys always carry byte strings in this sub-check
				}
				m.vals[en.Key] = append(m.vals[en.Key], v)
			} else {
				m.extras++
			}
			switch en.Val {
			case "":
				body = append(body, head(2, uint64(len(v)), en.VW)...)
				body = append(body, v...)
			case "uint":
				body = append(body, head(0, uint64(len(v)), en.VW)...)
				m.oddExtra = true
			case "tstr":
				body = append(body, head(3, 1, en.VW)...)
				body = append(body, 'v')
				m.oddExtra = true
			default:
				return nil, nil, false
			}
		}
		model = append(model, m)
	}
	input = append(head(4, uint64(count), c.ArrW), body...)
	if c.Trailing > 0 {
		input = append(input, gen.Filler(c.Trailing, c.Tag+99)...)
	}
	if c.Cut > 0 {
		if c.Cut >= len(input) {
			input = nil
		} else {
			input = input[:len(input)-c.Cut]
		}
	}
	return input, model, true
}

func oneOf(got []byte, cands [][]byte) bool {
	if len(cands) == 0 {
		return len(got) == 0
	}
	for _, c := range cands {
		if bytes.Equal(got, c) {
			return true
		}
	}
	return false
}

var craftProp = vh.Define("C17", "read-crafted", func(c CraftCase, r *vh.R) {
	P := certs()
	if c.Trailing < 0 || c.Trailing > 4096 || c.Cut < 0 || len(c.Elems) > 8 {
		r.Skip = true
		return
	}
	input, model, ok := c.build(P)
	if !ok {
		r.Skip = true
		return
	}

	// ---- what the property says about this input
	var reasons []string // any entry: must be rejected
	dup := false
	extras := 0
	odd := false
	if c.Magic != "ok" {
		reasons = append(reasons, "wrong-magic")
	}
	if len(c.Elems) == 0 {
		reasons = append(reasons, "array-shorter-than-2")
	}
	for i, m := range model {
		for _, k := range []string{"cert", "ocsp", "sct"} {
			if len(m.vals[k]) > 1 {
				dup = true
			}
		}
		extras += m.extras
		odd = odd || m.oddExtra
		if len(m.vals["cert"]) == 0 {
			reasons = append(reasons, "missing-cert")
		} else {
			parseable := 0
			for _, der := range m.vals["cert"] {
				if _, err := x509.ParseCertificate(der); err == nil {
					parseable++
				}
			}
			if parseable == 0 {
				reasons = append(reasons, "cert-not-der")
			} else if parseable < len(m.vals["cert"]) {
				r.Class("dup-cert-partly-invalid")
			}
		}
		if i == 0 && len(m.vals["ocsp"]) == 0 {
			reasons = append(reasons, "leaf-without-ocsp")
		}
		if i > 0 && len(m.vals["ocsp"]) > 0 {
			reasons = append(reasons, "ocsp-on-nonleaf")
		}
	}
	canonical := refcbor.CheckDeterministic(input, refcbor.Profile{}) == nil
	mustAccept := len(reasons) == 0 && !dup && extras == 0 && c.Cut == 0 && c.Trailing == 0 && canonical

	isrc := gen.Source(input, sourceMode(input))
	got, err := certurl.ReadCertChain(isrc)
	gen.Recycle(isrc)

	if dup {
		r.Class("duplicate-known-key(unspecified)")
	}
	if extras > 0 {
		r.Class("unknown-keys")
	}
	if odd {
		r.Class("unknown-key-with-non-bstr-value(unspecified)")
	}
	if c.Cut > 0 {
		r.Class("truncated")
	}
	if c.Trailing > 0 {
		r.Class("trailing-bytes")
	}
	if err != nil {
		if mustAccept {
			r.Failf("rejected-canonical-chain", "ReadCertChain rejects the canonical encoding of a valid chain (%d bytes, starts %x): %v", len(input), trunc(input), err)
			return
		}
		if len(reasons) > 0 {
			r.NT()
			r.Class("must-reject")
			for _, s := range reasons {
				r.Class("reject:" + s)
			}
		} else {
			r.Class("rejected-unspecified")
			if !canonical && !dup && !odd && c.Cut == 0 {
				r.Class("rejected-noncanonical-valid")
			}
		}
		return
	}
	// accepted
	if len(reasons) > 0 {
		r.Failf("accepted-invalid", "ReadCertChain accepted an input that must be rejected (%v): %d bytes starting %x; %d elements returned", reasons, len(input), trunc(input), len(got))
		return
	}
	if len(got) != len(model) {
		r.Failf("accepted-content-differs", "input encodes %d certificates, ReadCertChain returned %d", len(model), len(got))
		return
	}
	for i, m := range model {
		g := got[i]
		if g == nil || g.Cert == nil || !oneOf(g.Cert.Raw, m.vals["cert"]) {
			r.Failf("accepted-content-differs", "element %d: returned certificate DER is not the byte string under \"cert\" in the input", i)
			return
		}
		if !oneOf(g.OCSPResponse, m.vals["ocsp"]) {
			r.Failf("accepted-content-differs", "element %d: returned OCSP response (%d bytes, %x...) is not the byte string under \"ocsp\" in the input (%d occurrence(s))", i, len(g.OCSPResponse), trunc(g.OCSPResponse), len(m.vals["ocsp"]))
			return
		}
		if !oneOf(g.SCTList, m.vals["sct"]) {
			r.Failf("accepted-content-differs", "element %d: returned SCT list (%d bytes, %x...) is not the byte string under \"sct\" in the input (%d occurrence(s))", i, len(g.SCTList), trunc(g.SCTList), len(m.vals["sct"]))
			return
		}
	}
	r.NT()
	r.Class("accepted")
	r.Classf("accepted-n=%d", len(got))
	if mustAccept {
		r.Class("accepted-canonical")
	} else if !canonical {
		r.Class("accepted-noncanonical")
	}
})

func drawW(t *rapid.T, label string) int {
	return rapid.SampledFrom([]int{-1, -1, -1, -1, 1, 2, 4, 8}).Draw(t, label)
}

func TestPropCrafted(t *testing.T) { craftProp.Rapid(t, craftGen(t)) }

// TestConcCrafted: batches of cases evaluated at the same time on separate goroutines (vh.Prop.Concurrent).
func TestConcCrafted(t *testing.T) { craftProp.Concurrent(t, craftGen(t), 8, 3) }

func craftGen(t *testing.T) func(*rapid.T) CraftCase {
	ps := poolSize()
	certs()
	smallLens := []int{0, 1, 23, 24, 255, 256, 300}
	perts := []string{"none", "widths", "widths", "shuffle", "shuffle", "extra", "extra", "drop-cert", "wrong-magic", "short-array", "bad-der", "bad-der",
		"dup-cert", "drop-leaf-ocsp", "ocsp-on-nonleaf", "trailing", "cut", "odd-extra", "dup-blob"}
	return func(t *rapid.T) CraftCase {
		c := CraftCase{Magic: "ok", MagicW: -1, ArrW: -1, Tag: rapid.Uint64Range(0, 1<<40).Draw(t, "tag"), Elems: []CElem{}}
		n := rapid.IntRange(1, 3).Draw(t, "n")
		drawLen := func(label string) int {
			if rapid.IntRange(0, 11).Draw(t, label+"-big") == 11 {
				return rapid.SampledFrom([]int{65535, 65536}).Draw(t, label+"-biglen")
			}
			return rapid.SampledFrom(smallLens).Draw(t, label)
		}
		for i := 0; i < n; i++ {
			// canonical order of the encoded keys: "sct" (63 ..) < "cert" (64 63 ..) < "ocsp" (64 6f ..)
			var es []Entry
			if rapid.Bool().Draw(t, "has-sct") {
				es = append(es, Entry{Key: "sct", KW: -1, VW: -1, Cert: -1, Len: drawLen("sctlen")})
			}
			es = append(es, Entry{Key: "cert", KW: -1, VW: -1, Cert: rapid.IntRange(0, ps-1).Draw(t, "cert")})
			if i == 0 {
				es = append(es, Entry{Key: "ocsp", KW: -1, VW: -1, Cert: -1, Len: drawLen("ocsplen")})
			}
			c.Elems = append(c.Elems, CElem{MW: -1, Entries: es})
		}
		np := rapid.SampledFrom([]int{0, 1, 1, 1, 2, 2, 3}).Draw(t, "nperts")
		for k := 0; k < np; k++ {
			p := rapid.SampledFrom(perts).Draw(t, "pert")
			if len(c.Elems) == 0 {
				break
			}
			ei := rapid.IntRange(0, len(c.Elems)-1).Draw(t, "elem")
			el := &c.Elems[ei]
			switch p {
			case "widths":
				c.ArrW = drawW(t, "arrw")
				c.MagicW = drawW(t, "magicw")
				for i := range c.Elems {
					c.Elems[i].MW = drawW(t, "mw")
					for j := range c.Elems[i].Entries {
						c.Elems[i].Entries[j].KW = drawW(t, "kw")
						c.Elems[i].Entries[j].VW = drawW(t, "vw")
					}
				}
			case "shuffle":
				el.Entries = rapid.Permutation(el.Entries).Draw(t, "perm")
			case "extra", "odd-extra":
				name := rapid.SampledFrom([]string{"x", "certs", "Cert", "CERT", "ocsp ", "sct ", " sct", "zzzzz", "", "cer", "oscp", "sct\x00", "é"}).Draw(t, "extra-key")
				en := Entry{Key: name, KW: -1, VW: -1, Cert: -1, Len: rapid.SampledFrom(smallLens).Draw(t, "extra-len")}
				if p == "odd-extra" {
					en.Val = rapid.SampledFrom([]string{"uint", "tstr"}).Draw(t, "extra-val")
				}
				pos := rapid.IntRange(0, len(el.Entries)).Draw(t, "extra-pos")
				el.Entries = append(el.Entries[:pos:pos], append([]Entry{en}, el.Entries[pos:]...)...)
			case "drop-cert":
				var keep []Entry
				for _, en := range el.Entries {
					if en.Key != "cert" {
						keep = append(keep, en)
					}
				}
				el.Entries = keep
				if rapid.Bool().Draw(t, "misspelt") { // keep the certificate under a near-miss key
					el.Entries = append(el.Entries, Entry{Key: rapid.SampledFrom([]string{"Cert", "cert ", "certs", "cer"}).Draw(t, "near"), KW: -1, VW: -1, Cert: rapid.IntRange(0, ps-1).Draw(t, "cert2")})
				}
			case "wrong-magic":
				c.Magic = rapid.SampledFrom([]string{"half", "ascii", "bstr", "empty", "absent"}).Draw(t, "magic")
			case "short-array":
				c.Elems = []CElem{}
				if rapid.Bool().Draw(t, "no-magic") {
					c.Magic = "absent"
				}
			case "bad-der":
				for j := range el.Entries {
					if el.Entries[j].Key == "cert" {
						el.Entries[j].Mut = rapid.SampledFrom([]string{"truncate", "truncate", "trailing", "flip", "flip", "garbage", "empty"}).Draw(t, "mut")
						el.Entries[j].MutArg = rapid.IntRange(0, 1<<20).Draw(t, "mutarg")
					}
				}
			case "dup-cert":
				en := Entry{Key: "cert", KW: -1, VW: -1, Cert: rapid.IntRange(0, ps-1).Draw(t, "dupcert")}
				pos := rapid.IntRange(0, len(el.Entries)).Draw(t, "dup-pos")
				el.Entries = append(el.Entries[:pos:pos], append([]Entry{en}, el.Entries[pos:]...)...)
			case "dup-blob":
				en := Entry{Key: rapid.SampledFrom([]string{"ocsp", "sct"}).Draw(t, "dupkey"), KW: -1, VW: -1, Cert: -1, Len: rapid.SampledFrom(smallLens).Draw(t, "duplen")}
				if ei > 0 {
					en.Key = "sct"
				}
				el.Entries = append(el.Entries, en)
			case "drop-leaf-ocsp":
				var keep []Entry
				for _, en := range c.Elems[0].Entries {
					if en.Key != "ocsp" {
						keep = append(keep, en)
					}
				}
				c.Elems[0].Entries = keep
			case "ocsp-on-nonleaf":
				if len(c.Elems) < 2 {
					c.Elems = append(c.Elems, CElem{MW: -1, Entries: []Entry{{Key: "cert", KW: -1, VW: -1, Cert: rapid.IntRange(0, ps-1).Draw(t, "cert3")}}})
				}
				tgt := &c.Elems[rapid.IntRange(1, len(c.Elems)-1).Draw(t, "nonleaf")]
				tgt.Entries = append(tgt.Entries, Entry{Key: "ocsp", KW: -1, VW: -1, Cert: -1, Len: rapid.SampledFrom(smallLens).Draw(t, "nl-ocsp-len")})
			case "trailing":
				c.Trailing = rapid.IntRange(1, 40).Draw(t, "trailing")
			case "cut":
				c.Cut = rapid.SampledFrom([]int{1, 1, 2, 3, 10, 100, 400}).Draw(t, "cut")
			}
		}
		return c
	}
}

// ----------------------------------------------------------------------------- (3) sct-list

type Run struct {
	Size  int `json:"size"`
	Count int `json:"count"`
	// SelfSimilar: the element's octets are themselves a well-formed SCT list (2-octet total, then
	// 2-octet-length-prefixed entries filling it exactly): an SCT is opaque, whatever it looks
	// like. Size >= 4.
	SelfSimilar bool `json:"self_similar,omitempty"`
}

// listShaped returns size octets that parse as an SCT list: total = size-2, entries of (at most)
// 40 octets each, the last one taking the remainder.
func listShaped(size int, tag uint64) []byte {
	out := []byte{byte((size - 2) >> 8), byte(size - 2)}
	rest := size - 2
	for rest > 0 {
		n := 40
		if rest-2 < n || rest-2-n < 3 {
			n = rest - 2
		}
		out = append(out, byte(n>>8), byte(n))
		out = append(out, gen.Filler(n, tag+uint64(rest))...)
		rest -= 2 + n
	}
	return out
}

type SCTCase struct {
	Runs []Run  `json:"runs"` // the list is Count elements of Size bytes for each run, in order
	Tag  uint64 `json:"tag"`
}

func (c SCTCase) elements() ([][]byte, bool) {
	var out [][]byte
	total := 0
	for _, rn := range c.Runs {
		if rn.Size < 0 || rn.Size > 1<<17 || rn.Count < 0 || rn.Count > 70000 {
			return nil, false
		}
		total += rn.Size * rn.Count
		if total > 1<<21 || len(out)+rn.Count > 70000 {
			return nil, false
		}
		for i := 0; i < rn.Count; i++ {
			if rn.SelfSimilar && rn.Size >= 5 && rn.Size <= 65535 {
				out = append(out, listShaped(rn.Size, c.Tag+uint64(len(out))))
				continue
			}
			out = append(out, gen.Filler(rn.Size, c.Tag+uint64(len(out))))
		}
	}
	return out, true
}

// refSCTList is the RFC 6962 section 3.3 SignedCertificateTimestampList: opaque SerializedSCT<1..2^16-1>;
// SerializedSCT sct_list<1..2^16-1> -- a 2-byte length followed by 2-byte-length-prefixed elements.
func refSCTList(es [][]byte) []byte {
	total := 0
	for _, e := range es {
		total += 2 + len(e)
	}
	out := []byte{byte(total >> 8), byte(total)}
	for _, e := range es {
		out = append(out, byte(len(e)>>8), byte(len(e)))
		out = append(out, e...)
	}
	return out
}

func parseSCTList(b []byte) ([][]byte, error) {
	if len(b) < 2 {
		return nil, fmt.Errorf("shorter than the 2-byte total length")
	}
	total := int(b[0])<<8 | int(b[1])
	rest := b[2:]
	if total != len(rest) {
		return nil, fmt.Errorf("total length field %d, %d bytes follow", total, len(rest))
	}
	out := [][]byte{}
	for len(rest) > 0 {
		if len(rest) < 2 {
			return nil, fmt.Errorf("dangling byte where an element length is expected")
		}
		l := int(rest[0])<<8 | int(rest[1])
		rest = rest[2:]
		if l > len(rest) {
			return nil, fmt.Errorf("element %d declares %d bytes, %d left", len(out), l, len(rest))
		}
		out = append(out, rest[:l])
		rest = rest[l:]
	}
	return out, nil
}

func sctCheck(c SCTCase, r *vh.R) {
	es, ok := c.elements()
	if !ok {
		r.Skip = true
		return
	}
	total, maxEl := 0, 0
	for _, e := range es {
		total += 2 + len(e)
		if len(e) > maxEl {
			maxEl = len(e)
		}
	}
	wantErr := maxEl > 65535 || total > 65535
	if (total >= 65535-4 && total <= 65535+4) || maxEl >= 65533 {
		r.NT()
	}
	r.Classf("n=%s", bucket(len(es)))
	if total >= 65531 && total <= 65539 {
		r.Classf("total-%d", total)
	}
	if maxEl >= 65533 && maxEl <= 65536 {
		r.Classf("element-%d", maxEl)
	}
	got, err := certurl.SerializeSCTList(es)
	if wantErr {
		r.Class("error")
		if maxEl > 65535 {
			r.Class("error-element")
		}
		if total > 65535 {
			r.Class("error-total")
		}
		if err == nil {
			r.Failf("oversize-accepted", "SerializeSCTList returned %d bytes (starts %x) for %d elements, largest %d bytes, sum of (len+2) = %d; an element or the total exceeds 65535 so it must fail", len(got), trunc(got), len(es), maxEl, total)
		}
		return
	}
	r.Class("ok")
	if err != nil {
		r.Failf("rejected-fitting-list", "SerializeSCTList failed (%v) for %d elements, largest %d bytes, sum of (len+2) = %d <= 65535", err, len(es), maxEl, total)
		return
	}
	if want := refSCTList(es); !bytes.Equal(got, want) {
		d := 0
		for d < len(got) && d < len(want) && got[d] == want[d] {
			d++
		}
		r.Failf("wrong-encoding", "SerializeSCTList output (%d bytes) differs from the reference vector (%d bytes) at offset %d: got %x..., want %x... (sizes %v)", len(got), len(want), d, trunc(got[min(d, len(got)):]), trunc(want[min(d, len(want)):]), c.Runs)
		return
	}
	back, perr := parseSCTList(got)
	if perr != nil {
		r.Failf("not-wellformed", "output is not a well-formed RFC 6962 list: %v", perr)
		return
	}
	if len(back) != len(es) {
		r.Failf("wrong-elements", "output holds %d elements, %d given", len(back), len(es))
		return
	}
	for i := range es {
		if !bytes.Equal(back[i], es[i]) {
			r.Failf("wrong-elements", "element %d differs after parsing the output back", i)
			return
		}
	}
}

func bucket(n int) string {
	switch {
	case n <= 3:
		return fmt.Sprint(n)
	case n <= 8:
		return "4..8"
	case n <= 1000:
		return "9..1000"
	}
	return ">1000"
}

var (
	sctProp = vh.Define("C17", "sct-list", sctCheck)
	sctExh  = vh.Define("C17", "sct-boundaries", sctCheck)
)

var sctSizes = []int{0, 1, 2, 100, 65533, 65534, 65535, 65536}

func TestExhaustiveSCT(t *testing.T) {
	n := 0
	one := func(runs ...Run) bool {
		n++
		return sctExh.One(t, SCTCase{Runs: append([]Run{}, runs...), Tag: uint64(n)})
	}
	// (a) every list of 0..3 elements over the boundary sizes
	if !one() {
		return
	}
	for _, a := range sctSizes {
		if !one(Run{Size: a, Count: 1}) {
			return
		}
		for _, b := range sctSizes {
			if !one(Run{Size: a, Count: 1}, Run{Size: b, Count: 1}) {
				return
			}
			for _, c := range sctSizes {
				if !one(Run{Size: a, Count: 1}, Run{Size: b, Count: 1}, Run{Size: c, Count: 1}) {
					return
				}
			}
		}
	}
	// (b) every total 65531..65539 reached by 1, 2 or 3 elements where the leading elements come from a fixed set
	lead := []int{0, 1, 2, 100, 32765, 32766, 32767}
	for T := 65531; T <= 65539; T++ {
		if !one(Run{Size: T - 2, Count: 1}) {
			return
		}
		for _, a := range lead {
			if b := T - 4 - a; b >= 0 {
				if !one(Run{Size: a, Count: 1}, Run{Size: b, Count: 1}) || !one(Run{Size: b, Count: 1}, Run{Size: a, Count: 1}) {
					return
				}
			}
			for _, b := range lead {
				if c := T - 6 - a - b; c >= 0 {
					if !one(Run{Size: a, Count: 1}, Run{Size: b, Count: 1}, Run{Size: c, Count: 1}) || !one(Run{Size: c, Count: 1}, Run{Size: a, Count: 1}, Run{Size: b, Count: 1}) {
						return
					}
				}
			}
		}
	}
	// (c) many equal small elements around the total boundary: k elements of s bytes, k*(s+2) within one element of 65535
	for _, s := range []int{0, 1, 2, 3, 14, 100} {
		k0 := 65535 / (s + 2)
		for k := k0 - 1; k <= k0+2; k++ {
			if !one(Run{Size: s, Count: k}) {
				return
			}
			// and the same with one element of another size in front / behind so that the total lands exactly on 65535 / 65536
			for _, T := range []int{65535, 65536} {
				if pad := T - k*(s+2) - 2; pad >= 0 && pad < 200 {
					if !one(Run{Size: pad, Count: 1}, Run{Size: s, Count: k}) || !one(Run{Size: s, Count: k}, Run{Size: pad, Count: 1}) {
						return
					}
				}
			}
		}
	}
	vh.Exhaustive("sct-boundaries", fmt.Sprintf("(a) all lists of 0..3 elements with sizes in %v; (b) all lists of 1..3 elements whose sum of (len+2) is each of 65531..65539 with leading sizes in %v (both placements of the free element); "+
		"(c) k equal elements of size s in {0,1,2,3,14,100} for k within -1..+2 of floor(65535/(s+2)), alone and with one padding element in front/behind making the total exactly 65535 and 65536: %d lists, filler content", sctSizes, lead, n))
}

func TestPropSCT(t *testing.T) { sctProp.Rapid(t, genPropSCT) }

// TestConcSCT: batches of cases evaluated at the same time on separate goroutines (vh.Prop.Concurrent).
func TestConcSCT(t *testing.T) { sctProp.Concurrent(t, genPropSCT, 8, 3) }

func genPropSCT(t *rapid.T) SCTCase {
	c := SCTCase{Tag: rapid.Uint64Range(0, 1<<40).Draw(t, "tag"), Runs: []Run{}}
	drawSize := func(label string) int {
		switch rapid.IntRange(0, 4).Draw(t, label+"-mode") {
		case 0, 1:
			return rapid.SampledFrom(sctSizes).Draw(t, label)
		case 2:
			return rapid.IntRange(0, 200).Draw(t, label+"-small")
		case 3:
			return rapid.IntRange(0, 66000).Draw(t, label+"-any")
		}
		return rapid.IntRange(65529, 65538).Draw(t, label+"-edge")
	}
	switch rapid.IntRange(0, 3).Draw(t, "shape") {
	case 0: // free list
		n := rapid.IntRange(0, 6).Draw(t, "n")
		for i := 0; i < n; i++ {
			c.Runs = append(c.Runs, Run{Size: drawSize("size"), Count: 1})
		}
	case 1, 2: // aimed at a total near the limit
		T := 65535 + rapid.IntRange(-6, 6).Draw(t, "delta")
		n := rapid.IntRange(1, 6).Draw(t, "n")
		left := T
		for i := 0; i < n-1; i++ {
			max := left - 2*(n-i) // keep room for the remaining length prefixes
			if max < 0 {
				break
			}
			s := rapid.IntRange(0, max).Draw(t, "part")
			if rapid.Bool().Draw(t, "small-part") {
				s = rapid.IntRange(0, min(max, 300)).Draw(t, "part-small")
			}
			c.Runs = append(c.Runs, Run{Size: s, Count: 1})
			left -= s + 2
		}
		if left-2 >= 0 {
			c.Runs = append(c.Runs, Run{Size: left - 2, Count: 1})
		}
		if rapid.Bool().Draw(t, "shuffle") {
			c.Runs = rapid.Permutation(c.Runs).Draw(t, "perm")
		}
	case 3: // many small elements
		s := rapid.IntRange(0, 30).Draw(t, "s")
		k := 65535/(s+2) + rapid.IntRange(-3, 3).Draw(t, "dk")
		c.Runs = append(c.Runs, Run{Size: s, Count: k})
		if rapid.Bool().Draw(t, "tail") {
			c.Runs = append(c.Runs, Run{Size: rapid.IntRange(0, 40).Draw(t, "tail-size"), Count: 1})
		}
	}
	if len(c.Runs) > 0 && rapid.IntRange(0, 2).Draw(t, "selfsimilar") == 0 {
		i := rapid.IntRange(0, len(c.Runs)-1).Draw(t, "selfsimilarat")
		if c.Runs[i].Size >= 5 && c.Runs[i].Size <= 65535 {
			c.Runs[i].SelfSimilar = true
		}
	}
	return c
}

// sourceMode picks how the bytes are handed to ReadCertChain as a pure function of the bytes:
// about a third of the inputs go through a reader that only implements Read (files, pipes and
// HTTP bodies look like that), in chunks of 1 / 7 / 4096 bytes, some returning data with io.EOF.
func sourceMode(b []byte) int {
	h := 0
	for i, x := range b {
		if i > 64 {
			break
		}
		h = h*31 + int(x)
	}
	h += len(b)
	if h < 0 {
		h = -h
	}
	return []int{0, gen.SourceSeekAdvanced, gen.SourceBuffer, gen.SourceBufio, 1, 2, 7, 512, 4096, 4097, gen.SourceFile, gen.SourceFileAdvanced, gen.SourcePipe}[h%13]
}
