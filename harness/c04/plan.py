PLAN = dict(
    id="C04", pkg="c04", level="exploration",
    rule=("wellformed: the bundle specs of C03 written to three kinds of destination (bytes.Buffer, a Write-only sink, a sink implementing io.ReaderFrom); "
          "every output produced without error is judged by refbundle.Strict: magic/version/arity, section table = array of (tstr,uint) whose lengths tile the "
          "sections exactly with responses last, responses array items tile the section and every index entry delimits exactly one [bstr headers, bstr payload] "
          "item, :status of three digits, canonical CBOR (shortest heads, maps strictly ascending by encoded key) over the whole file, the section table, every "
          "header map and every signed subset, trailing 8-byte length == file size, no trailing bytes; returned count == bytes the destination received; "
          "content extracted from the bytes == model. countingwriter: stateful model of bundle.CountingWriter (ops Write / ReadFrom / io.Copy from readers with "
          "and without WriterTo, over sinks with and without ReaderFrom that fail after a drawn number of bytes by rejecting or by a short write): Written == "
          "bytes the sink accepted after every step, returned n == bytes accepted, no io.EOF from ReadFrom, no silent loss. Non-trivial: >=2 sections besides "
          "index/responses or >=2 index keys of different lengths (wellformed); >=2 ops or a failing sink (countingwriter)."),
    assumptions=TRUSTED + ["a b1 Bundle value without a primary URL cannot be written as b1: any refusal is accepted for it, including the nil dereference of the pinned commit (the one place where a check recovers from a panic of the code under test); a nil error for a file that is not a well-formed b1 bundle is a violation"],
    technique="rapid-generated bundles judged by an independent strict parser + canonical-CBOR judge; stateful model of the byte-accounting writer",
    level_text=("The writer is judged by a parser that shares no code with it (refbundle over refcbor) in strict mode, so an encoder error that the repository's "
                "own reader would tolerate or mirror is still visible; the byte accounting mechanism is additionally model-checked by random operation sequences."),
    level_note=NOTE_BASE,
    runs=[
        dict(name="conc", run="^(TestConcWellFormed|TestConcCountingWriter)$", checks=(40, 2000), shards=(2, 8), timeout=(400, 3600), race=True),
        dict(name="wf", run="^(TestPropWellFormed|TestCorpus)$", checks=(1500, 200000), shards=(2, 16), timeout=(300, 3600)),
        dict(name="aligned", run="^(TestAligned|TestOptionalParts|TestShapeSweep)$", timeout=(300, 900)),
        dict(name="cw", run="^TestPropCountingWriter$", checks=(3000, 300000), shards=(1, 4), timeout=(300, 3600)),
    ],
    require=[("wellformed", "sink:plain"), ("wellformed", "sink:readerfrom"), ("wellformed", "sink:counting-prewritten"), ("wellformed", "extra-sections-2"), ("wellformed", "b1-without-primary-url"), ("countingwriter", "sink-failed"),
             ("countingwriter", "op:readfrom"), ("countingwriter", "op:copy-plain")],
)
