// Package c04: everything the bundle writer emits without error is a well-formed, canonical,
// self-consistent bundle as judged by an independent strict parser, and byte counts are exact.
package c04

import (
	"bytes"
	"errors"
	"fmt"
	"io"
	"testing"

	"github.com/WICG/webpackage/go/bundle"
	"github.com/WICG/webpackage/go/verifh/bundlekit"
	"github.com/WICG/webpackage/go/verifh/gen"
	"github.com/WICG/webpackage/go/verifh/ref/refbundle"
	"github.com/WICG/webpackage/go/verifh/vh"
	"pgregory.net/rapid"
)

func init() { bundlekit.AllowCollide = true }

func TestMain(m *testing.M)   { vh.Main(m) }
func TestReplay(t *testing.T) { vh.Replay(t) }
func TestCorpus(t *testing.T) { vh.Corpus(t) }

// ---- sinks -------------------------------------------------------------------------------

// plainSink implements only io.Writer.
type plainSink struct{ got []byte }

func (s *plainSink) Write(p []byte) (int, error) { s.got = append(s.got, p...); return len(p), nil }

// rfSink implements io.Writer and io.ReaderFrom (like bytes.Buffer / os.File), recording everything.
type rfSink struct {
	got       []byte
	readFroms int
}

func (s *rfSink) Write(p []byte) (int, error) { s.got = append(s.got, p...); return len(p), nil }
func (s *rfSink) ReadFrom(r io.Reader) (int64, error) {
	s.readFroms++
	b, err := io.ReadAll(r)
	s.got = append(s.got, b...)
	return int64(len(b)), err
}

type Case struct {
	Spec bundlekit.Spec `json:"spec"`
	Sink string         `json:"sink"` // buffer plain readerfrom
}

var prop = vh.Define("C04", "wellformed", func(c Case, r *vh.R) {
	s := &c.Spec
	r.Class(s.Version)
	r.Class("sink:" + c.Sink)
	b := bundlekit.Build(s)
	var n int64
	var err error
	var out []byte
	if s.Version == "b1" && s.Primary == "" {
		// b1 carries the primary URL in its header: a Bundle value without one cannot be written
		// as b1. The property speaks about what is emitted WITHOUT ERROR, so a refusal in any
		// form - including the nil dereference of the repository at the pinned commit - is fine;
		// what must not happen is a nil error for a file that is not a well-formed b1 bundle.
		r.Class("b1-without-primary-url")
		refused := false
		func() {
			defer func() {
				if recover() != nil {
					refused = true
				}
			}()
			var buf bytes.Buffer
			n, err = b.WriteTo(&buf)
			out = buf.Bytes()
		}()
		if refused || err != nil {
			r.Class("refused")
			return
		}
		if _, serr := refbundle.Strict(out); serr != nil {
			r.Failf("not-wellformed", "WriteTo returned no error for a b1 bundle without a primary URL, and the file is not a well-formed b1 bundle: %v", serr)
		} else if n != int64(len(out)) {
			r.Failf("count", "WriteTo returned %d but the destination received %d bytes", n, len(out))
		}
		return
	}
	switch c.Sink {
	case "plain":
		sk := &plainSink{}
		n, err = b.WriteTo(sk)
		out = sk.got
	case "readerfrom":
		sk := &rfSink{}
		n, err = b.WriteTo(sk)
		out = sk.got
	case "counting-prewritten", "counting-prewritten-rf":
		// the destination is itself a bundle.CountingWriter that has already carried other data
		// (a second bundle appended to one stream): count and trailing length are per bundle
		var inner io.Writer
		var got *[]byte
		if c.Sink == "counting-prewritten" {
			sk := &plainSink{}
			inner, got = sk, &sk.got
		} else {
			sk := &rfSink{}
			inner, got = sk, &sk.got
		}
		cw := bundle.NewCountingWriter(inner)
		prefix := gen.Filler(1+len(s.Exchanges)*37, 99)
		if _, perr := cw.Write(prefix); perr != nil {
			panic(perr)
		}
		n, err = b.WriteTo(cw)
		out = (*got)[len(prefix):]
		if !bytes.Equal((*got)[:len(prefix)], prefix) {
			r.Failf("prefix-damaged", "data written to the destination before the bundle was altered")
			return
		}
	default:
		var buf bytes.Buffer
		n, err = b.WriteTo(&buf)
		out = buf.Bytes()
	}
	if err != nil {
		if must, _ := s.WriteMustFail(); must {
			r.Class("refused")
			return
		}
		if may, _ := s.WriteMayFail(); may {
			r.Class("refused-non-ascii-header")
			return
		}
		r.Failf("write-error", "WriteTo failed on a valid bundle: %v", err)
		return
	}
	if n != int64(len(out)) {
		r.Failf("count", "WriteTo returned %d but the destination received %d bytes", n, len(out))
		return
	}
	p, serr := refbundle.Strict(out)
	if serr != nil {
		r.Failf("not-wellformed", "independent strict parser: %v", serr)
		return
	}
	if p.Version != s.Version {
		r.Failf("version", "requested %s, file says %s", s.Version, p.Version)
		return
	}
	if s.HasCollide() {
		// accepted although one field came under two spellings: how they are folded is not
		// prescribed, the file is well-formed (judged above), nothing more is compared
		r.Class("colliding-header-keys-accepted")
		return
	}
	// the file must contain exactly the exchanges of the model (content judged from the bytes)
	model := s.Model()
	seen := map[string]int{}
	for _, ex := range p.Exchanges {
		want, ok := model[ex.RawURL]
		if !ok {
			r.Failf("content", "file contains index key %q that was never written", ex.RawURL)
			return
		}
		i := seen[ex.RawURL]
		seen[ex.RawURL]++
		if i >= len(want) {
			r.Failf("content", "file contains more responses for %q than written", ex.RawURL)
			return
		}
		st, _ := ex.Resp.Status()
		if st != fmt.Sprint(want[i].Status) {
			r.Failf("content", "%q response %d: status %s in file, %d written", ex.RawURL, i, st, want[i].Status)
			return
		}
		hs := map[string]string{}
		for _, f := range ex.Resp.Fields {
			if f.Name != ":status" {
				hs[f.Name] = f.Value
			}
		}
		if !gen.MapsEqual(hs, want[i].Headers) {
			r.Failf("content", "%q response %d: headers in file %v, written %v", ex.RawURL, i, hs, want[i].Headers)
			return
		}
		if !bytes.Equal(ex.Resp.Body, want[i].Body) {
			r.Failf("content", "%q response %d: body differs (%d vs %d bytes)", ex.RawURL, i, len(ex.Resp.Body), len(want[i].Body))
			return
		}
	}
	for k, want := range model {
		if seen[k] != len(want) {
			r.Failf("content", "%q: %d responses written, %d in file", k, len(want), seen[k])
			return
		}
	}
	extra := 0
	for _, sec := range p.Sections {
		if sec.Name != "index" && sec.Name != "responses" {
			extra++
		}
	}
	difflen := false
	for i := 1; i < len(p.Index); i++ {
		if len(p.Index[i].RawURL) != len(p.Index[0].RawURL) {
			difflen = true
		}
	}
	if extra >= 2 || (len(p.Index) >= 2 && difflen) {
		r.NT()
	}
	if extra > 0 {
		r.Classf("extra-sections-%d", extra)
	}
})

func TestPropWellFormed(t *testing.T) { prop.Rapid(t, genPropWellFormed) }

// TestConcWellFormed: batches of cases evaluated at the same time on separate goroutines (vh.Prop.Concurrent).
func TestConcWellFormed(t *testing.T) { prop.Concurrent(t, genPropWellFormed, 8, 3) }

func genPropWellFormed(t *rapid.T) Case {
	s := bundlekit.GenWide(t)
	c := Case{Spec: *s, Sink: rapid.SampledFrom([]string{"buffer", "plain", "readerfrom", "counting-prewritten", "counting-prewritten-rf"}).Draw(t, "sink")}
	if rapid.IntRange(0, 4).Draw(t, "align") == 0 {
		target := rapid.SampledFrom([]string{"responses", "responses", "index+responses", "file"}).Draw(t, "aligntarget")
		mod := rapid.SampledFrom([]int{512, 4096, 32768, 32768, 65536}).Draw(t, "alignmod")
		off := rapid.SampledFrom([]int{0, 0, 0, -1, 1}).Draw(t, "alignoff")
		bundlekit.AlignTo(&c.Spec, target, mod, off)
	}
	return c
}

// TestAligned: the same calibration on fixed small bundles, for every target x modulus x {-1,0,+1}
// x version, through every kind of destination.
func TestAligned(t *testing.T) {
	n := 0
	for _, ver := range []string{"b1", "b2"} {
		for _, target := range []string{"responses", "index+responses", "file"} {
			for _, mod := range []int{512, 4096, 32768, 65536, 131072} {
				for _, off := range []int{-1, 0, 1} {
					s := bundlekit.Spec{Version: ver, Primary: "https://a.example/a", Exchanges: []bundlekit.ExSpec{
						{URL: "https://a.example/a", Status: 200, Headers: []gen.HeaderKV{{Name: "Content-Type", Values: []string{"text/plain"}}}, BodyLen: 10, BodyTag: 1},
						{URL: "https://a.example/b", Status: 404, Headers: []gen.HeaderKV{{Name: "Content-Type", Values: []string{"text/html"}}}, BodyLen: 3, BodyTag: 2}}}
					if !bundlekit.AlignTo(&s, target, mod, off) {
						t.Fatalf("c04: calibration did not converge for %s %s mod %d off %d", ver, target, mod, off)
					}
					for _, sink := range []string{"buffer", "plain", "readerfrom", "counting-prewritten"} {
						n++
						if !prop.One(t, Case{Spec: s, Sink: sink}) {
							return
						}
					}
				}
			}
		}
	}
	vh.Exhaustive("wellformed", fmt.Sprintf("aligned sizes: responses section / index+responses / whole file ending exactly at, one below and one above a multiple of 512, 4 KiB, 32 KiB, 64 KiB, 128 KiB, versions b1/b2, four kinds of destination: %d bundles", n))
}

// TestOptionalParts: every combination of version x primary URL present / absent x manifest
// present / absent x signatures section present / absent x 0..2 exchanges: the optional parts
// of one version are mandatory or unsupported in the other, and a guard written for one
// version must not let the other emit a malformed file.
func TestOptionalParts(t *testing.T) {
	n := 0
	exs := []bundlekit.ExSpec{
		{URL: "https://a.example/a", Status: 200, Headers: []gen.HeaderKV{{Name: "Content-Type", Values: []string{"text/plain"}}}, BodyLen: 10, BodyTag: 1},
		{URL: "https://a.example/b", Status: 404, Headers: []gen.HeaderKV{{Name: "Content-Type", Values: []string{"text/html"}}}, BodyLen: 3, BodyTag: 2}}
	for _, ver := range []string{"b1", "b2"} {
		for _, primary := range []string{"", "https://a.example/a", "https://elsewhere.example/"} {
			for _, manifest := range []string{"", "https://a.example/manifest.json"} {
				for _, sigs := range []*bundlekit.SigSpec{nil, {}} {
					for nex := 0; nex <= 2; nex++ {
						for _, sink := range []string{"buffer", "plain", "readerfrom"} {
							s := bundlekit.Spec{Version: ver, Primary: primary, Manifest: manifest, Sigs: sigs, Exchanges: append([]bundlekit.ExSpec{}, exs[:nex]...)}
							n++
							if !prop.One(t, Case{Spec: s, Sink: sink}) {
								return
							}
						}
					}
				}
			}
		}
	}
	// one field under two spellings of its name, with equal and with different values, first / last / only exchange
	for _, ver := range []string{"b1", "b2"} {
		for _, collide := range []int{1, 2} {
			for at := 0; at < 2; at++ {
				for nex := at + 1; nex <= 2; nex++ {
					s := bundlekit.Spec{Version: ver, Primary: "https://a.example/a", Exchanges: append([]bundlekit.ExSpec{}, exs[:nex]...)}
					s.Exchanges[at].Collide = collide
					n++
					if !prop.One(t, Case{Spec: s, Sink: "buffer"}) {
						return
					}
				}
			}
		}
	}
	vh.Exhaustive("wellformed", fmt.Sprintf("optional parts: versions b1/b2 x primary URL absent / an exchange's / foreign x manifest absent / present x signatures section absent / empty x 0..2 exchanges x three kinds of destination: %d bundles", n))
}

// ---- CountingWriter model ------------------------------------------------------------------

// A sink that accepts at most Cap bytes, then fails; optionally implements ReaderFrom.
type capSink struct {
	got  []byte
	cap  int
	mode string // "reject" (n=0,err) or "short" (n=partial, err) when the cap is hit
}

var errFull = errors.New("sink full")

func (s *capSink) Write(p []byte) (int, error) {
	room := s.cap - len(s.got)
	if len(p) <= room {
		s.got = append(s.got, p...)
		return len(p), nil
	}
	if s.mode == "short" && room > 0 {
		s.got = append(s.got, p[:room]...)
		return room, errFull
	}
	return 0, errFull
}

type capSinkRF struct{ capSink }

func (s *capSinkRF) ReadFrom(r io.Reader) (int64, error) {
	var n int64
	buf := make([]byte, 7)
	for {
		k, err := r.Read(buf)
		if k > 0 {
			w, werr := s.Write(buf[:k])
			n += int64(w)
			if werr != nil {
				return n, werr
			}
		}
		if err == io.EOF {
			return n, nil
		}
		if err != nil {
			return n, err
		}
	}
}

// plainReader hides WriterTo so that io.Copy must use the destination's ReadFrom.
type plainReader struct{ r io.Reader }

func (p plainReader) Read(b []byte) (int, error) { return p.r.Read(b) }

type Op struct {
	Kind  string `json:"kind"` // write readfrom copy-plain copy-writerto
	Len   int    `json:"len"`
	Chunk int    `json:"chunk"`
}

type CWCase struct {
	SinkRF bool   `json:"sink_readerfrom"`
	Cap    int    `json:"cap"`
	Mode   string `json:"mode"`
	Ops    []Op   `json:"ops"`
}

type chunkReader struct {
	b     []byte
	chunk int
}

func (c *chunkReader) Read(p []byte) (int, error) {
	if len(c.b) == 0 {
		return 0, io.EOF
	}
	n := len(p)
	if c.chunk > 0 && n > c.chunk {
		n = c.chunk
	}
	n = copy(p[:n], c.b)
	c.b = c.b[n:]
	return n, nil
}

var cwProp = vh.Define("C04", "countingwriter", func(c CWCase, r *vh.R) {
	var sink io.Writer
	var inner *capSink
	if c.SinkRF {
		s := &capSinkRF{capSink{cap: c.Cap, mode: c.Mode}}
		sink, inner = s, &s.capSink
		r.Class("sink-readerfrom")
	} else {
		s := &capSink{cap: c.Cap, mode: c.Mode}
		sink, inner = s, s
		r.Class("sink-plain")
	}
	cw := bundle.NewCountingWriter(sink)
	var model []byte // bytes the destination should hold if nothing fails
	failed := false
	for i, op := range c.Ops {
		data := gen.Filler(op.Len, uint64(i+1))
		before := len(inner.got)
		var n int64
		var err error
		switch op.Kind {
		case "write":
			var k int
			k, err = cw.Write(data)
			n = int64(k)
		case "readfrom":
			n, err = cw.ReadFrom(&chunkReader{b: data, chunk: op.Chunk})
			if err == io.EOF {
				r.Failf("readfrom-eof", "op %d: CountingWriter.ReadFrom returned io.EOF as an error (io.ReaderFrom must not); n=%d, destination received %d", i, n, len(inner.got)-before)
				return
			}
		case "copy-plain":
			n, err = io.Copy(cw, plainReader{&chunkReader{b: data, chunk: op.Chunk}})
		case "copy-writerto":
			n, err = io.Copy(cw, bytes.NewReader(data))
		}
		r.Class("op:" + op.Kind)
		accepted := len(inner.got) - before
		if cw.Written != int64(len(inner.got)) {
			r.Failf("written-drift", "after op %d (%s, %d bytes): CountingWriter.Written=%d but the destination accepted %d bytes in total", i, op.Kind, op.Len, cw.Written, len(inner.got))
			return
		}
		if n != int64(accepted) {
			r.Failf("return-count", "op %d (%s): returned n=%d but the destination accepted %d bytes", i, op.Kind, n, accepted)
			return
		}
		if err == nil {
			if accepted != op.Len {
				r.Failf("silent-loss", "op %d (%s): no error but only %d of %d bytes reached the destination", i, op.Kind, accepted, op.Len)
				return
			}
			model = append(model, data...)
		} else {
			failed = true
			model = append(model, data[:min(accepted, len(data))]...)
			r.Class("sink-failed")
			break
		}
	}
	if !bytes.Equal(inner.got, model) {
		r.Failf("content", "destination content differs from the concatenation of the accepted data")
		return
	}
	if len(c.Ops) >= 2 && !failed {
		r.NT()
	}
	if failed {
		r.NT()
	}
})

func TestPropCountingWriter(t *testing.T) { cwProp.Rapid(t, genPropCountingWriter) }

// TestConcCountingWriter: batches of cases evaluated at the same time on separate goroutines (vh.Prop.Concurrent).
func TestConcCountingWriter(t *testing.T) { cwProp.Concurrent(t, genPropCountingWriter, 8, 3) }

func genPropCountingWriter(t *rapid.T) CWCase {
	c := CWCase{SinkRF: rapid.Bool().Draw(t, "rf"), Mode: rapid.SampledFrom([]string{"reject", "short"}).Draw(t, "mode")}
	n := rapid.IntRange(1, 5).Draw(t, "nops")
	total := 0
	for i := 0; i < n; i++ {
		op := Op{Kind: rapid.SampledFrom([]string{"write", "readfrom", "copy-plain", "copy-writerto"}).Draw(t, "kind"),
			Len: rapid.SampledFrom([]int{0, 1, 11, 100, 32*1024 - 1, 32 * 1024, 32*1024 + 1, 70000}).Draw(t, "len"), Chunk: rapid.SampledFrom([]int{0, 1, 5, 4096}).Draw(t, "chunk")}
		if op.Len > 1000 && op.Chunk == 1 {
			op.Chunk = 4096
		}
		total += op.Len
		c.Ops = append(c.Ops, op)
	}
	if rapid.IntRange(0, 2).Draw(t, "unbounded") == 0 {
		c.Cap = total + 10
	} else {
		c.Cap = rapid.IntRange(0, total+1).Draw(t, "cap")
	}
	return c
}


// ---- dense shape sweeps: one size or count at a time, every value 0..1100 (counts: ..300) ----

type ShapeCase struct {
	Shape string `json:"shape"`
	N     int    `json:"n"`
	Sink  string `json:"sink"`
}

var shapeProp = vh.Define("C04", "shape-sweep", func(c ShapeCase, r *vh.R) {
	s, ok := bundlekit.ShapeSpec(c.Shape, c.N)
	if !ok {
		r.Skip = true
		return
	}
	r.Class("shape:" + c.Shape)
	sub := &vh.R{}
	prop.Check(Case{Spec: *s, Sink: c.Sink}, sub)
	r.V = sub.V
	r.NT()
})

func shapeGrid() (out []ShapeCase) {
	for _, sh := range []string{"exchanges", "headers", "body-octets", "url-octets", "value-octets"} {
		top, extra := 1100, []int{2047, 2048, 2049, 4095, 4096, 4097, 10000, 65535, 65536, 65537}
		if sh == "exchanges" || sh == "headers" {
			top, extra = 300, []int{500, 1000, 1100, 2000}
		}
		for n := 0; n <= top; n++ {
			out = append(out, ShapeCase{Shape: sh, N: n, Sink: []string{"buffer", "plain", "readerfrom"}[n%3]})
		}
		for _, n := range extra {
			out = append(out, ShapeCase{Shape: sh, N: n, Sink: "plain"})
		}
	}
	return out
}

func TestShapeSweep(t *testing.T) {
	g := shapeGrid()
	for _, c := range g {
		if !shapeProp.One(t, c) {
			return
		}
	}
	vh.Exhaustive("shape-sweep", fmt.Sprintf("exchanges per bundle and header fields per response 0..300 (+500, 1000, 1100, 2000), body / URL / header-value octets 0..1100 (+ around 2048, 4096, 65536, 10000), versions alternating, three kinds of destination: %d bundles judged by the strict parser", len(g)))
}
