module github.com/WICG/webpackage/go/verifh

go 1.23

require (
	github.com/WICG/webpackage v0.0.0
	pgregory.net/rapid v1.3.0
)

replace github.com/WICG/webpackage => /repo
