// Package c13: cbor.Deterministic accepts a byte string exactly when it is a sequence of
// complete CBOR items (unsigned integers, byte/text strings, arrays, maps) in RFC 8949
// section 4.2.1 core deterministic form; it never accepts malformed or truncated input,
// accepts everything the repository's encoder emits in that subset, and always terminates.
//
// Contract facts used by the oracle: a panic is a rejection (the repository's unit tests
// require panics on truncated arrays, maps and strings); not returning is a violation.
package c13

import (
	"bytes"
	"fmt"
	"os"
	"strings"
	"sync"
	"sync/atomic"
	"testing"
	"time"

	"github.com/WICG/webpackage/go/internal/cbor"
	"github.com/WICG/webpackage/go/verifh/ref/refcbor"
	"github.com/WICG/webpackage/go/verifh/vh"
	"pgregory.net/rapid"
)

func TestMain(m *testing.M)   { vh.Main(m) }
func TestReplay(t *testing.T) { vh.Replay(t) }
func TestCorpus(t *testing.T) { vh.Corpus(t) }

// ------------------------------------------------------------------------------- running the code under test

type verdict int

const (
	vAccept verdict = iota
	vReject         // returned an error
	vPanic          // panicked (a rejection by the repository's own contract)
	vHang           // did not return within the watchdog's time
)

func (v verdict) String() string {
	return [...]string{"accepted (nil)", "rejected (error)", "rejected (panic)", "DID NOT RETURN"}[v]
}

// call runs cbor.Deterministic on the calling goroutine, turning a panic into vPanic.
func call(b []byte) (v verdict) {
	defer func() {
		if recover() != nil {
			v = vPanic
		}
	}()
	if cbor.Deterministic(b) == nil {
		return vAccept
	}
	return vReject
}

const singleTimeout = 3 * time.Second

var (
	hangMu sync.Mutex
	hangs  = map[string]bool{} // inputs already seen not to return (each costs a spinning goroutine)
)

// guarded runs cbor.Deterministic(b) under a watchdog. A goroutine that does not come back
// cannot be killed; it keeps spinning until the process exits.
func guarded(b []byte) verdict {
	hangMu.Lock()
	known := hangs[string(b)]
	hangMu.Unlock()
	if known {
		return vHang
	}
	done := make(chan verdict, 1)
	in := append([]byte(nil), b...)
	go func() { done <- call(in) }()
	select {
	case v := <-done:
		return v
	case <-time.After(singleTimeout):
		hangMu.Lock()
		hangs[string(b)] = true
		hangMu.Unlock()
		return vHang
	}
}

// skipF3 is VERIF_C13_SKIP_F3=1: leave out the inputs of known finding F3 so that the search
// can continue behind it. The default is to report them.
var skipF3 = os.Getenv("VERIF_C13_SKIP_F3") == "1"

// inF3Class: walking the input head by head the way any sequential parser does (string
// contents skipped, array/map heads followed by their items), an 8-byte-argument head
// (ai=27) of major type 2, 3, 4 or 5 with an argument >= 2^62 is reached before anything
// that ends the walk (a head that does not parse, another major type, a string longer than
// the rest of the input - all of which the code under test rejects on the spot).
func inF3Class(b []byte) bool {
	pos := 0
	for pos < len(b) {
		major, ai, arg, he, err := refcbor.Head(b, pos)
		if err != nil {
			return false
		}
		if ai == 27 && major >= 2 && major <= 5 && arg >= 1<<62 {
			return true
		}
		switch major {
		case 0, 4, 5:
			pos = he
		case 2, 3:
			if arg > uint64(len(b)-he) {
				return false
			}
			pos = he + int(arg)
		default:
			return false
		}
	}
	return false
}

// refClass names the reference's verdict.
func refClass(b []byte) (accept bool, class string) {
	err := refcbor.CheckDeterministic(b, refcbor.Profile{})
	if err == nil {
		return true, "accepted"
	}
	msg := err.Error()
	switch {
	case strings.Contains(msg, "not strictly ascending"):
		return false, "rejected-order"
	case strings.Contains(msg, "non-shortest"):
		return false, "rejected-nonshortest"
	case strings.Contains(msg, "not in subset"):
		return false, "rejected-other-major-type"
	}
	return false, "rejected-malformed"
}

// judge is the oracle shared by all sub-checks: Deterministic(b) == nil  <=>  b is core deterministic.
func judge(sub string, b []byte, r *vh.R) (got verdict, refAccept bool) {
	if skipF3 && inF3Class(b) {
		vh.Count(sub, "excluded-f3", 1)
		r.Skip = true
		return vReject, false
	}
	refAccept, class := refClass(b)
	r.Class(class)
	if _, _, _, _, err := refcbor.Head(b, 0); err == nil {
		r.NT()
	}
	got = guarded(b)
	switch {
	case got == vHang:
		r.Failf("non-termination", "Deterministic(%x) did not return within %v (reference verdict: %s)", trunc(b), singleTimeout, class)
	case got == vAccept && !refAccept:
		r.Failf("accepted-invalid", "Deterministic(%x) returned nil but the input is not deterministic CBOR: %v", trunc(b), refcbor.CheckDeterministic(b, refcbor.Profile{}))
	case got != vAccept && refAccept:
		r.Failf("rejected-valid", "Deterministic(%x) %s but the input is a sequence of complete items in core deterministic form", trunc(b), got)
	}
	if got == vPanic {
		r.Class("panic-as-reject")
	}
	return got, refAccept
}

func trunc(b []byte) []byte {
	if len(b) > 64 {
		return b[:64]
	}
	return b
}

// ------------------------------------------------------------------------------- (a) short-exhaustive

type InputCase struct {
	Input vh.B `json:"input"`
}

var shortProp = vh.Define("C13", "short-exhaustive", func(c InputCase, r *vh.R) { judge("short-exhaustive", c.Input, r) })

// alphabet: heads of each supported major type in each argument class, reserved / indefinite
// additional information, the other major types, and content bytes.
var alphabet = []byte{
	0x00, 0x01, 0x17, 0x18, 0x19, 0x1a, 0x1b, // uint: direct, 1/2/4/8-byte argument
	0x40, 0x41, 0x42, 0x58, 0x59, // bstr
	0x60, 0x61, 0x78, // tstr
	0x80, 0x81, 0x82, 0x98, 0x99, // array
	0xa0, 0xa1, 0xa2, 0xb8, // map
	0x1c, 0x1f, 0x5f, 0x9f, 0xbf, // reserved / indefinite
	0x20, 0xc0, 0xf4, 0xf6, // negative int, tag, simple
	0x02, 0x03, 0xff, 0x7f, // content
}

type batchStats struct {
	n, nt   int64
	classes map[string]int64
}

// runBatch evaluates inputs on a separate goroutine under one watchdog. It returns the
// index of the first input on which the code and the reference disagree or which does not
// return (-1: none).
func runBatch(inputs [][]byte, timeout time.Duration, st *batchStats) (bad int, hung bool) {
	type res struct {
		bad     int
		n, nt   int64
		classes map[string]int64
	}
	var progress atomic.Int64
	done := make(chan res, 1)
	go func() {
		out := res{bad: -1, classes: map[string]int64{}}
		for i, b := range inputs {
			progress.Store(int64(i))
			if skipF3 && inF3Class(b) {
				out.classes["excluded-f3"]++
				continue
			}
			refAccept, class := refClass(b)
			got := call(b)
			out.n++
			out.classes[class]++
			if got == vPanic {
				out.classes["panic-as-reject"]++
			}
			if _, _, _, _, err := refcbor.Head(b, 0); err == nil {
				out.nt++
			}
			if (got == vAccept) != refAccept {
				out.bad = i
				break
			}
		}
		done <- out
	}()
	select {
	case out := <-done:
		st.n += out.n
		st.nt += out.nt
		for k, v := range out.classes {
			st.classes[k] += v
		}
		return out.bad, false
	case <-time.After(timeout):
		return int(progress.Load()), true
	}
}

func TestExhaustiveShort(t *testing.T) {
	L := vh.Scale(4, 5)
	shard, shards := vh.Shard()
	A := len(alphabet)
	st := &batchStats{classes: map[string]int64{}}
	var batch [][]byte
	var sample any
	complete := true

	flush := func() bool {
		if len(batch) == 0 {
			return true
		}
		bad, hung := runBatch(batch, 20*time.Second, st)
		defer func() { batch = batch[:0] }()
		if bad < 0 {
			return true
		}
		complete = false
		if hung {
			// confirm in isolation: the input the batch was working on first, then every input of the batch
			if !shortProp.One(t, InputCase{Input: batch[bad]}) {
				return false
			}
			for _, b := range batch {
				if !shortProp.One(t, InputCase{Input: b}) {
					return false
				}
			}
			t.Errorf("a batch of %d inputs did not finish within 20s but no single input reproduces it", len(batch))
			return false
		}
		shortProp.One(t, InputCase{Input: batch[bad]})
		return false
	}
	add := func(b []byte) bool {
		batch = append(batch, append([]byte(nil), b...))
		if sample == nil && len(b) == L+1 && b[1] == 0x41 {
			sample = InputCase{Input: append([]byte(nil), b...)}
		}
		if len(batch) >= 4096 {
			return flush()
		}
		return true
	}

	// strings shorter than two symbols belong to shard 0, longer ones to the shard of their first two symbols
	buf := make([]byte, 0, L)
	var rec func() bool
	rec = func() bool {
		if (len(buf) >= 2 || shard == 0) && !add(buf) {
			return false
		}
		if len(buf) == L && buf[0] != 0xa2 || len(buf) == L+1 {
			return true // strings that start a two-pair map go one symbol further: a2 k v k v
		}
		for i := 0; i < A; i++ {
			if len(buf) == 1 && (bytes.IndexByte(alphabet, buf[0])*A+i)%shards != shard {
				continue
			}
			buf = append(buf, alphabet[i])
			ok := rec()
			buf = buf[:len(buf)-1]
			if !ok {
				return false
			}
		}
		return true
	}
	ok := rec() && flush()
	vh.Bulk("short-exhaustive", st.n, st.nt, st.classes, sample)
	if ok && complete {
		vh.Exhaustive("short-exhaustive", fmt.Sprintf("all byte strings of length 0..%d, and all of length %d beginning with a2 (two-pair map), over the %d-byte alphabet %x (every supported head class, reserved/indefinite additional information, other major types, content bytes); this process: shard %d of %d by the first two symbols, %d strings", L, L+1, A, alphabet, shard, shards, st.n))
	}
}

// ------------------------------------------------------------------------------- (a') boundary enumeration

// HeadCtxCase: one head (major, argument, width) with a chosen amount of content following,
// placed in a context.
type HeadCtxCase struct {
	Major   int    `json:"major"`
	Arg     uint64 `json:"arg"`
	Width   int    `json:"width"`   // argument width used: 0,1,2,4,8
	Present int    `json:"present"` // content bytes (strings) / items (arrays) / pairs (maps) that follow
	Ctx     string `json:"ctx"`     // top | in-array | map-value | then-uint | second-of-two
}

func (c HeadCtxCase) valid() bool {
	if c.Major < 0 || c.Major > 5 || c.Major == 1 || c.Present < 0 || c.Present > 1<<17 {
		return false
	}
	switch c.Width {
	case 0:
		return c.Arg < 24
	case 1:
		return c.Arg < 1<<8
	case 2:
		return c.Arg < 1<<16
	case 4:
		return c.Arg < 1<<32
	case 8:
		return true
	}
	return false
}

func (c HeadCtxCase) bytes() []byte {
	it := refcbor.HeadW(c.Major, c.Arg, c.Width)
	switch c.Major {
	case 2, 3:
		for i := 0; i < c.Present; i++ {
			it = append(it, 'a'+byte(i%26))
		}
	case 4:
		for i := 0; i < c.Present; i++ {
			it = append(it, refcbor.Uint(uint64(i%24))...)
		}
	case 5:
		for i := 0; i < c.Present; i++ { // ascending distinct keys: 0..23, then 24.., 256..
			it = append(it, refcbor.Uint(uint64(i))...)
			it = append(it, 0x00)
		}
	}
	switch c.Ctx {
	case "in-array":
		return append([]byte{0x81}, it...)
	case "map-value":
		return append([]byte{0xa1, 0x00}, it...)
	case "then-uint":
		return append(it, 0x05)
	case "second-of-two":
		return append([]byte{0x82, 0x00}, it...)
	}
	return it
}

func headCtxCheck(sub string) func(c HeadCtxCase, r *vh.R) {
	return func(c HeadCtxCase, r *vh.R) {
		if !c.valid() {
			r.Skip = true
			return
		}
		judge(sub, c.bytes(), r)
		r.Classf("major%d-width%d", c.Major, c.Width)
	}
}

var (
	boundaryProp = vh.Define("C13", "boundary", headCtxCheck("boundary"))
	bigStrProp   = vh.Define("C13", "bigarg-string", headCtxCheck("bigarg-string"))
	bigArrProp   = vh.Define("C13", "bigarg-array", headCtxCheck("bigarg-array"))
	bigMapProp   = vh.Define("C13", "bigarg-map", headCtxCheck("bigarg-map"))
)

var contexts = []string{"top", "in-array", "map-value", "then-uint", "second-of-two"}
var widths = []int{0, 1, 2, 4, 8}

func TestExhaustiveBoundary(t *testing.T) {
	args := []uint64{0, 1, 2, 22, 23, 24, 25, 127, 128, 254, 255, 256, 257, 32767, 32768, 65534, 65535, 65536, 65537,
		1<<31 - 1, 1 << 31, 1<<32 - 1, 1 << 32, 1<<32 + 1, 1<<62 - 1}
	n := 0
	for _, major := range []int{0, 2, 3, 4, 5} {
		for _, arg := range args {
			presents := []int{0}
			if major != 0 {
				if arg <= 65537 {
					presents = []int{int(arg) - 1, int(arg), int(arg) + 1}
				} else {
					presents = []int{0, 1, 2, 30}
				}
			}
			for _, w := range widths {
				for _, pr := range presents {
					for _, ctx := range contexts {
						c := HeadCtxCase{Major: major, Arg: arg, Width: w, Present: pr, Ctx: ctx}
						if pr < 0 || !c.valid() {
							continue
						}
						n++
						if !boundaryProp.One(t, c) {
							return
						}
					}
				}
			}
		}
	}
	vh.Exhaustive("boundary", fmt.Sprintf("major type {0,2,3,4,5} x argument at every width boundary (%d values up to 2^62-1) x every head width that can hold it x content/items present = declared-1, declared, declared+1 (0,1,2,30 for huge declarations) x 5 contexts: %d inputs", len(args), n))
}

// ---------------------------------------------------------------------------- (b2) every initial byte
//
// Every one of the 256 initial bytes, followed by k copies of a content unit (a content byte, a
// one-byte item, an ascending key/value pair) for k around every value the additional
// information could be mistaken for (a reserved 28..30 read as a direct count needs >= 28 units
// to be "complete"; a 1-byte argument read as direct needs 24; ...), in the five contexts.

type InitByteCase struct {
	Init byte   `json:"init"`
	Unit string `json:"unit"` // byte item pair arg8
	K    int    `json:"k"`
	Ctx  string `json:"ctx"`
}

func (c InitByteCase) bytes() []byte {
	it := []byte{c.Init}
	for i := 0; i < c.K; i++ {
		switch c.Unit {
		case "byte":
			it = append(it, 'a'+byte(i%26))
		case "item":
			it = append(it, byte(i%24))
		case "pair":
			it = append(it, refcbor.Uint(uint64(i))...)
			it = append(it, 0x00)
		case "zero":
			it = append(it, 0x00)
		}
	}
	switch c.Ctx {
	case "in-array":
		return append([]byte{0x81}, it...)
	case "map-value":
		return append([]byte{0xa1, 0x00}, it...)
	case "then-uint":
		return append(it, 0x05)
	case "second-of-two":
		return append([]byte{0x82, 0x00}, it...)
	}
	return it
}

var initByteProp = vh.Define("C13", "initial-byte", func(c InitByteCase, r *vh.R) {
	judge("initial-byte", c.bytes(), r)
	r.Classf("ai%d", c.Init&0x1f)
})

func TestExhaustiveInitialByte(t *testing.T) {
	ks := []int{0, 1, 2, 3, 4, 5, 8, 9, 23, 24, 25, 26, 27, 28, 29, 30, 31, 32, 33, 56, 57, 58, 60, 62, 64, 300}
	n := 0
	for init := 0; init < 256; init++ {
		for _, unit := range []string{"byte", "item", "pair", "zero"} {
			for _, k := range ks {
				for _, ctx := range contexts {
					n++
					if !initByteProp.One(t, InitByteCase{Init: byte(init), Unit: unit, K: k, Ctx: ctx}) {
						return
					}
				}
			}
		}
	}
	vh.Exhaustive("initial-byte", fmt.Sprintf("all 256 initial bytes x 4 kinds of following unit (content byte, one-byte item, ascending pair, zero byte) x %d repetition counts around every value the additional information could be mistaken for x 5 contexts: %d inputs", len(ks), n))
}

// Arguments that do not fit a signed 64-bit integer, or whose double does not (maps).
func TestExhaustiveBigArgs(t *testing.T) {
	args := []uint64{1 << 62, 1<<62 + 1, 1<<63 - 1, 1 << 63, 1<<63 + 1, 1<<63 + 2}
	for d := uint64(16); d >= 1; d-- {
		args = append(args, -d) // 2^64-16 .. 2^64-1
	}
	run := func(p *vh.Prop[HeadCtxCase], sub string, majors []int) {
		n := 0
		for _, major := range majors {
			for _, arg := range args {
				for _, pr := range []int{0, 1, 2, 9} {
					for _, ctx := range contexts {
						n++
						if !p.One(t, HeadCtxCase{Major: major, Arg: arg, Width: 8, Present: pr, Ctx: ctx}) {
							return // e.g. non-termination: do not pile up spinning goroutines
						}
					}
				}
			}
		}
		if skipF3 {
			return // everything in this sub-check belongs to the excluded class
		}
		vh.Exhaustive(sub, fmt.Sprintf("major types %v x 8-byte argument in {2^62, 2^62+1, 2^63-1, 2^63, 2^63+1, 2^63+2, 2^64-16..2^64-1} x 0,1,2,9 following bytes/items/pairs x 5 contexts: %d inputs", majors, n))
	}
	run(bigStrProp, "bigarg-string", []int{2, 3})
	run(bigArrProp, "bigarg-array", []int{4})
	run(bigMapProp, "bigarg-map", []int{5})
}

// ------------------------------------------------------------------------------- (b) generated + one corruption

// GenCase: Base is a valid deterministic sequence built with the reference encoder; exactly
// one corruption (or none) is applied to it by apply().
type GenCase struct {
	Base   vh.B   `json:"base"`
	Corr   string `json:"corr"`   // none lengthen swap dupkey setarg truncate append
	Target int    `json:"target"` // index into the candidate list of the corruption
	Width  int    `json:"width"`  // lengthen: new head width
	Arg    uint64 `json:"arg"`    // setarg: new length / count
	Cut    int    `json:"cut"`    // truncate: new length; swap/dupkey: entry index
	Tail   vh.B   `json:"tail"`   // append: partial item
}

func allItems(b []byte) ([]*refcbor.Item, error) {
	top, err := refcbor.DecodeAll(b)
	if err != nil {
		return nil, err
	}
	var out []*refcbor.Item
	for _, it := range top {
		out = append(out, refcbor.Walk(it)...)
	}
	return out, nil
}

// candidates lists the items of base a corruption kind can be applied to.
func candidates(base []byte, corr string) []*refcbor.Item {
	items, err := allItems(base)
	if err != nil {
		return nil
	}
	var out []*refcbor.Item
	for _, it := range items {
		switch corr {
		case "lengthen":
			if it.AI < 27 {
				out = append(out, it)
			}
		case "swap", "dupkey":
			if it.Major == 5 && len(it.Kids) >= 4 {
				out = append(out, it)
			}
		case "setarg":
			if it.Major >= 2 && it.Major <= 5 {
				out = append(out, it)
			}
		}
	}
	return out
}

// apply returns the corrupted input; ok=false when the case does not describe a corruption of Base.
func (c GenCase) apply() (b []byte, ok bool) {
	base := []byte(c.Base)
	pick := func() *refcbor.Item {
		cs := candidates(base, c.Corr)
		if c.Target < 0 || c.Target >= len(cs) {
			return nil
		}
		return cs[c.Target]
	}
	switch c.Corr {
	case "none":
		return base, true
	case "lengthen":
		it := pick()
		if it == nil || c.Width <= refcbor.MinWidth(it.Arg) || (c.Width != 1 && c.Width != 2 && c.Width != 4 && c.Width != 8) {
			return nil, false
		}
		return refcbor.RewriteHead(base, it, it.Arg, c.Width), true
	case "swap", "dupkey":
		it := pick()
		if it == nil {
			return nil, false
		}
		pairs := len(it.Kids) / 2
		if c.Cut < 0 || c.Cut+1 >= pairs {
			return nil, false
		}
		k0, v0, k1, v1 := it.Kids[2*c.Cut], it.Kids[2*c.Cut+1], it.Kids[2*c.Cut+2], it.Kids[2*c.Cut+3]
		out := append([]byte(nil), base[:k0.Start]...)
		if c.Corr == "swap" {
			out = append(out, base[k1.Start:v1.End]...)
			out = append(out, base[k0.Start:v0.End]...)
		} else {
			out = append(out, base[k0.Start:v0.End]...)
			out = append(out, base[k0.Start:k0.End]...) // second entry gets the first entry's key
			out = append(out, base[v1.Start:v1.End]...)
		}
		return append(out, base[v1.End:]...), true
	case "setarg":
		it := pick()
		if it == nil || it.Arg == c.Arg {
			return nil, false
		}
		return refcbor.RewriteHead(base, it, c.Arg, -1), true
	case "truncate":
		if c.Cut < 0 || c.Cut >= len(base) {
			return nil, false
		}
		return base[:c.Cut], true
	case "append":
		if len(c.Tail) == 0 {
			return nil, false
		}
		return append(append([]byte(nil), base...), c.Tail...), true
	}
	return nil, false
}

var genProp = vh.Define("C13", "generated", func(c GenCase, r *vh.R) {
	if !refcbor.IsCoreDeterministic(c.Base) {
		r.Skip = true // not a case of this sub-check: Base must be valid by construction
		return
	}
	b, ok := c.apply()
	if !ok {
		r.Skip = true
		return
	}
	_, refAccept := judge("generated", b, r)
	if r.Skip {
		return
	}
	r.Class("corr-" + c.Corr)
	if refAccept {
		r.Class("corr-" + c.Corr + "-still-valid")
	}
	// the corruptions that break a rule by construction: a harness self-check of the reference
	switch c.Corr {
	case "none":
		if !refAccept {
			r.Failf("reference-inconsistent", "reference rejects its own encoder's output %x", trunc(b))
		}
	case "lengthen", "swap", "dupkey":
		if refAccept {
			r.Failf("reference-inconsistent", "reference accepts %x although one %s corruption was applied to %x", trunc(b), c.Corr, trunc(c.Base))
		}
	}
})

// ---- generator of valid items (bytes built with the reference encoder)

func genUint(t *rapid.T) uint64 {
	switch rapid.IntRange(0, 3).Draw(t, "umode") {
	case 0:
		e := rapid.SampledFrom([]uint64{0, 24, 1 << 8, 1 << 15, 1 << 16, 1 << 31, 1 << 32, 1 << 63, ^uint64(0)}).Draw(t, "uedge")
		return e + uint64(rapid.Int64Range(-2, 2).Draw(t, "udelta"))
	case 1:
		return rapid.Uint64().Draw(t, "u") >> uint(rapid.IntRange(0, 63).Draw(t, "ushift"))
	case 2:
		return rapid.Uint64().Draw(t, "u")
	}
	return rapid.Uint64Range(0, 30).Draw(t, "usmall")
}

func genStr(t *rapid.T, text bool) []byte {
	l := rapid.IntRange(0, 5).Draw(t, "slen")
	if rapid.IntRange(0, 3).Draw(t, "slong") == 0 {
		l = rapid.SampledFrom([]int{22, 23, 24, 25, 254, 255, 256, 257, 63, 64, 65, 127, 128, 129, 511, 512, 513}).Draw(t, "slenclass")
	}
	b := make([]byte, l)
	for i := range b {
		b[i] = 'a' + byte(i%26)
	}
	if !text {
		// content bytes that look like heads, so that a wrong length lands on parsable bytes
		head := rapid.SliceOfN(rapid.SampledFrom([]byte{0x00, 0x01, 0x17, 0x18, 0x40, 0x41, 0x60, 0x80, 0x81, 0xa0, 0xff}), 0, 5).Draw(t, "shead")
		copy(b, head)
	} else if l >= 2 && rapid.Bool().Draw(t, "smb") {
		copy(b, "é")
	}
	if text {
		return refcbor.Tstr(string(b))
	}
	return refcbor.Bstr(b)
}

func genItem(t *rapid.T, depth, maxDepth int) []byte {
	kinds := []string{"uint", "uint", "bstr", "tstr", "array", "array", "map", "map"}
	if depth >= maxDepth {
		kinds = []string{"uint", "uint", "bstr", "tstr"}
	}
	switch rapid.SampledFrom(kinds).Draw(t, "kind") {
	case "uint":
		return refcbor.Uint(genUint(t))
	case "bstr":
		return genStr(t, false)
	case "tstr":
		return genStr(t, true)
	case "array":
		n := rapid.IntRange(0, 4).Draw(t, "alen")
		d := depth + 1
		switch rapid.IntRange(0, 11).Draw(t, "abig") {
		case 0:
			n, d = rapid.IntRange(22, 26).Draw(t, "alen24"), maxDepth
		case 1:
			n, d = rapid.IntRange(254, 257).Draw(t, "alen256"), maxDepth+1
		}
		var items [][]byte
		for i := 0; i < n; i++ {
			if d > maxDepth {
				items = append(items, []byte{byte(i % 24)})
			} else {
				items = append(items, genItem(t, d, maxDepth))
			}
		}
		return refcbor.Arr(items...)
	}
	n := rapid.IntRange(0, 5).Draw(t, "mlen")
	d := depth + 1
	big := false
	switch rapid.IntRange(0, 15).Draw(t, "mbig") {
	case 0:
		n, d, big = rapid.IntRange(22, 26).Draw(t, "mlen24"), maxDepth, true
	case 1:
		n, d, big = rapid.IntRange(254, 257).Draw(t, "mlen256"), maxDepth+1, true
	}
	var kvs []refcbor.KV
	seen := map[string]bool{}
	for i := 0; i < n; i++ {
		var k []byte
		if big {
			k = refcbor.Uint(uint64(i))
		} else {
			switch rapid.IntRange(0, 3).Draw(t, "kkind") {
			case 0:
				k = refcbor.Uint(rapid.SampledFrom([]uint64{0, 1, 2, 23, 24, 25, 255, 256, 65535, 65536, 1 << 32}).Draw(t, "ku"))
			case 1:
				k = refcbor.Bstr(rapid.SliceOfN(rapid.SampledFrom([]byte{0x00, 0x01, 0x61, 0xff}), 0, 3).Draw(t, "kb"))
			case 2:
				k = refcbor.Tstr(string(rapid.SliceOfN(rapid.SampledFrom([]byte{'a', 'b', 'z'}), 0, 3).Draw(t, "kt")))
			default:
				k = genItem(t, maxDepth, maxDepth)
			}
		}
		if seen[string(k)] {
			continue
		}
		seen[string(k)] = true
		var v []byte
		if d > maxDepth {
			v = []byte{byte(i % 24)}
		} else {
			v = genItem(t, d, maxDepth)
		}
		kvs = append(kvs, refcbor.KV{K: k, V: v})
	}
	return refcbor.MapBytewise(kvs)
}

var tails = [][]byte{{0x19, 0x01}, {0x41}, {0x81}, {0x18}, {0xa1, 0x00}, {0x5a, 0x00, 0x01}, {0x1b, 0x00, 0x00, 0x00, 0x01}, {0x82, 0x00}, {0x78}, {0x61}, {0xa1}, {0x98, 0x18}}

var setargValues = []uint64{0, 1 << 31, 1 << 32, 1 << 62, 1<<63 - 1, 1 << 63}

func TestPropGenerated(t *testing.T) { genProp.Rapid(t, genPropGenerated) }

// TestConcGenerated: batches of cases evaluated at the same time on separate goroutines (vh.Prop.Concurrent).
func TestConcGenerated(t *testing.T) { genProp.Concurrent(t, genPropGenerated, 8, 3) }

func genPropGenerated(t *rapid.T) GenCase {
	maxDepth := rapid.IntRange(1, 4).Draw(t, "maxDepth")
	n := rapid.SampledFrom([]int{1, 1, 2, 3}).Draw(t, "nitems")
	var base []byte
	for i := 0; i < n; i++ {
		base = append(base, genItem(t, 1, maxDepth)...)
	}
	c := GenCase{Base: base, Corr: "none"}
	corr := rapid.SampledFrom([]string{"none", "lengthen", "lengthen", "swap", "dupkey", "setarg", "setarg", "setarg", "truncate", "append"}).Draw(t, "corr")
	switch corr {
	case "lengthen", "swap", "dupkey", "setarg":
		cs := candidates(base, corr)
		if len(cs) == 0 {
			return c
		}
		c.Target = rapid.IntRange(0, len(cs)-1).Draw(t, "target")
		it := cs[c.Target]
		switch corr {
		case "lengthen":
			var ws []int
			for _, w := range []int{1, 2, 4, 8} {
				if w > refcbor.MinWidth(it.Arg) {
					ws = append(ws, w)
				}
			}
			c.Width = rapid.SampledFrom(ws).Draw(t, "width")
		case "swap", "dupkey":
			c.Cut = rapid.IntRange(0, len(it.Kids)/2-2).Draw(t, "entry")
		case "setarg":
			switch rapid.IntRange(0, 3).Draw(t, "argmode") {
			case 0:
				c.Arg = it.Arg + 1
			case 1:
				if it.Arg == 0 {
					c.Arg = 2
				} else {
					c.Arg = it.Arg - 1
				}
			case 2:
				c.Arg = rapid.SampledFrom(setargValues).Draw(t, "argbig")
			default:
				c.Arg = -uint64(rapid.IntRange(1, 9).Draw(t, "argneg")) // 2^64-9 .. 2^64-1
			}
			if c.Arg == it.Arg {
				c.Arg = it.Arg + 2
			}
		}
		c.Corr = corr
	case "truncate":
		if len(base) > 0 {
			c.Corr, c.Cut = corr, rapid.IntRange(0, len(base)-1).Draw(t, "cut")
		}
	case "append":
		c.Corr, c.Tail = corr, rapid.SampledFrom(tails).Draw(t, "tail")
	}
	return c
}

// ------------------------------------------------------------------------------- (c) encoder output

// Node is a value of the subset (uint, bstr, tstr, array, map) for the repository's encoder.
type Node struct {
	Kind    string  `json:"kind"`
	U       uint64  `json:"u,omitempty"`
	S       vh.B    `json:"s,omitempty"`
	Kids    []*Node `json:"kids,omitempty"`
	Entries []Entry `json:"entries,omitempty"` // in caller order
}

type Entry struct {
	K *Node `json:"k"`
	V *Node `json:"v"`
}

type EncCase struct {
	Items []*Node `json:"items"`
}

// encode drives the repository's encoder; ok=false when the encoder refuses the tree
// (duplicate keys, invalid UTF-8: outside this sub-check, property C11 covers them).
func encode(e *cbor.Encoder, n *Node) bool {
	if n == nil {
		return false
	}
	switch n.Kind {
	case "uint":
		return e.EncodeUint(n.U) == nil
	case "bytes":
		return e.EncodeByteString(n.S) == nil
	case "text":
		return e.EncodeTextString(string(n.S)) == nil
	case "array":
		if e.EncodeArrayHeader(len(n.Kids)) != nil {
			return false
		}
		for _, k := range n.Kids {
			if !encode(e, k) {
				return false
			}
		}
		return true
	case "map":
		ok := true
		var mes []*cbor.MapEntryEncoder
		for _, ent := range n.Entries {
			ent := ent
			mes = append(mes, cbor.GenerateMapEntry(func(keyE, valueE *cbor.Encoder) {
				ok = ok && encode(keyE, ent.K) && encode(valueE, ent.V)
			}))
		}
		return ok && e.EncodeMap(mes) == nil
	}
	return false
}

var encProp = vh.Define("C13", "encoder-output", func(c EncCase, r *vh.R) {
	var buf bytes.Buffer
	enc := cbor.NewEncoder(&buf)
	for _, it := range c.Items {
		if !encode(enc, it) {
			r.Skip = true
			return
		}
	}
	out := buf.Bytes()
	got, _ := judge("encoder-output", out, r)
	if r.Skip {
		return
	}
	if got != vAccept {
		r.Failf("rejected-encoder-output", "Deterministic(%x) %s; these bytes were emitted by the repository's own Encoder", trunc(out), got)
	}
})

func genNode(t *rapid.T, depth, maxDepth int) *Node {
	kinds := []string{"uint", "bytes", "text", "array", "map", "map"}
	if depth >= maxDepth {
		kinds = []string{"uint", "bytes", "text"}
	}
	str := func(text bool) []byte {
		l := rapid.IntRange(0, 4).Draw(t, "slen")
		if rapid.IntRange(0, 4).Draw(t, "slong") == 0 {
			l = rapid.SampledFrom([]int{23, 24, 255, 256, 63, 64, 65, 127, 128, 129}).Draw(t, "slenclass")
		}
		b := make([]byte, l)
		for i := range b {
			b[i] = 'a' + byte(i%26)
		}
		if l > 0 {
			b[0] = rapid.SampledFrom([]byte{'a', 'b', 'z', '0'}).Draw(t, "s0")
			if !text {
				b[0] = rapid.SampledFrom([]byte{0x00, 0x01, 0x18, 0x61, 0xff}).Draw(t, "b0")
			}
		}
		return b
	}
	switch rapid.SampledFrom(kinds).Draw(t, "kind") {
	case "uint":
		return &Node{Kind: "uint", U: genUint(t)}
	case "bytes":
		return &Node{Kind: "bytes", S: str(false)}
	case "text":
		return &Node{Kind: "text", S: str(true)}
	case "array":
		n := rapid.IntRange(0, 4).Draw(t, "alen")
		d := depth + 1
		if rapid.IntRange(0, 11).Draw(t, "abig") == 0 {
			n, d = rapid.IntRange(22, 26).Draw(t, "alen24"), maxDepth
		}
		arr := &Node{Kind: "array"}
		for i := 0; i < n; i++ {
			arr.Kids = append(arr.Kids, genNode(t, d, maxDepth))
		}
		return arr
	}
	m := &Node{Kind: "map"}
	n := rapid.IntRange(0, 5).Draw(t, "mlen")
	big := rapid.IntRange(0, 15).Draw(t, "mbig") == 0
	if big {
		n = rapid.IntRange(22, 26).Draw(t, "mlen24")
	}
	seen := map[string]bool{}
	for i := 0; i < n; i++ {
		var k *Node
		switch rapid.IntRange(0, 2).Draw(t, "kkind") {
		case 0:
			k = &Node{Kind: "uint", U: rapid.SampledFrom([]uint64{0, 1, 2, 23, 24, 25, 255, 256, 65535, 65536, 1 << 32}).Draw(t, "ku")}
			if big {
				k.U = uint64(i * 11)
			}
		case 1:
			k = &Node{Kind: "bytes", S: str(false)}
		default:
			k = &Node{Kind: "text", S: str(true)}
		}
		id := fmt.Sprintf("%s/%d/%x", k.Kind, k.U, []byte(k.S))
		if seen[id] {
			continue
		}
		seen[id] = true
		// now and then the key of an EARLIER entry is given again later (not next to it in the
		// caller's order): the encoder must refuse the map - what it emits is never a map with a
		// repeated key
		if i >= 2 && len(m.Entries) >= 2 && rapid.IntRange(0, 11).Draw(t, "dupkey") == 0 {
			k = m.Entries[rapid.IntRange(0, len(m.Entries)-2).Draw(t, "dupof")].K
		}
		d := depth + 1
		if big {
			d = maxDepth
		}
		m.Entries = append(m.Entries, Entry{K: k, V: genNode(t, d, maxDepth)})
	}
	// caller order: a drawn permutation
	if len(m.Entries) > 1 {
		m.Entries = rapid.Permutation(m.Entries).Draw(t, "perm")
	}
	return m
}

func TestPropEncoderOutput(t *testing.T) { encProp.Rapid(t, genPropEncoderOutput) }

// TestConcEncoderOutput: batches of cases evaluated at the same time on separate goroutines (vh.Prop.Concurrent).
func TestConcEncoderOutput(t *testing.T) { encProp.Concurrent(t, genPropEncoderOutput, 8, 3) }

func genPropEncoderOutput(t *rapid.T) EncCase {
	maxDepth := rapid.IntRange(1, 4).Draw(t, "maxDepth")
	n := rapid.SampledFrom([]int{1, 1, 2, 3}).Draw(t, "nitems")
	var c EncCase
	for i := 0; i < n; i++ {
		c.Items = append(c.Items, genNode(t, 1, maxDepth))
	}
	return c
}

// ------------------------------------------------------------------------------- (f) dense shape sweeps
//
// One dimension at a time, every value 0..1100 and a few larger ones: nesting depth, array
// length, number of map entries, string length, number of top-level items - each as a valid
// input and with ONE defect at the far end (so both directions are judged). The format has no
// limit on any of these below 2^64, so an implementation-chosen threshold (a fast path above N
// entries, a nesting limit, a batch size) shows up here whatever N is, as long as it is within
// the swept range; the random generators only reach small values.

type ShapeCase struct {
	Shape  string `json:"shape"`
	N      int    `json:"n"`
	Defect string `json:"defect,omitempty"`
}

func (c ShapeCase) bytes() ([]byte, bool) {
	n := c.N
	if n < 0 || n > 200000 {
		return nil, false
	}
	leaf := []byte{0x00}
	switch c.Defect {
	case "":
	case "nonshortest-leaf":
		leaf = []byte{0x18, 0x00}
	case "truncated-leaf":
		leaf = []byte{0x19, 0x01}
	case "unordered-leaf":
		leaf = []byte{0xa2, 0x01, 0x00, 0x00, 0x00}
	default:
		return nil, false
	}
	var b []byte
	switch c.Shape {
	case "nest-array": // n arrays of one element around the leaf
		b = append(bytes.Repeat([]byte{0x81}, n), leaf...)
	case "nest-map": // {0: {0: ... leaf}}
		b = append(bytes.Repeat([]byte{0xa1, 0x00}, n), leaf...)
	case "nest-mixed": // [0, {1: [0, {1: ... leaf}]}]
		for i := 0; i < n; i++ {
			if i%2 == 0 {
				b = append(b, 0x82, 0x00)
			} else {
				b = append(b, 0xa1, 0x01)
			}
		}
		b = append(b, leaf...)
	case "nest-text-key": // {"k": {"k": ... leaf}}
		b = append(bytes.Repeat([]byte{0xa1, 0x61, 'k'}, n), leaf...)
	case "array-len": // array of n zeros, the last one being the leaf
		b = refcbor.HeadS(4, uint64(n))
		for i := 0; i < n-1; i++ {
			b = append(b, 0x00)
		}
		if n > 0 {
			b = append(b, leaf...)
		} else if c.Defect != "" {
			return nil, false
		}
	case "map-len": // {0:0, 1:0, ... n-1: leaf}
		b = refcbor.HeadS(5, uint64(n))
		for i := 0; i < n; i++ {
			b = append(b, refcbor.Uint(uint64(i))...)
			if i == n-1 {
				b = append(b, leaf...)
			} else {
				b = append(b, 0x00)
			}
		}
		if n == 0 && c.Defect != "" {
			return nil, false
		}
	case "map-len-last-two-swapped":
		if n < 2 || c.Defect != "" {
			return nil, false
		}
		b = refcbor.HeadS(5, uint64(n))
		for i := 0; i < n; i++ {
			k := i
			if i == n-2 {
				k = n - 1
			} else if i == n-1 {
				k = n - 2
			}
			b = append(append(b, refcbor.Uint(uint64(k))...), 0x00)
		}
	case "map-len-text-keys": // keys "a", "b", ... then 2-octet keys, ...: bytewise = length first
		b = refcbor.HeadS(5, uint64(n))
		for i := 0; i < n; i++ {
			var k string
			switch {
			case i < 26:
				k = string(rune('a' + i))
			case i < 26+26*26:
				j := i - 26
				k = string(rune('a'+j/26)) + string(rune('a'+j%26))
			default:
				j := i - 26 - 26*26
				k = string(rune('a'+j/676%26)) + string(rune('a'+j/26%26)) + string(rune('a'+j%26))
			}
			b = append(b, refcbor.Tstr(k)...)
			if i == n-1 {
				b = append(b, leaf...)
			} else {
				b = append(b, 0x00)
			}
		}
		if n == 0 && c.Defect != "" {
			return nil, false
		}
	case "bstr-len", "tstr-len":
		if c.Defect != "" && c.Defect != "truncated-leaf" {
			return nil, false
		}
		m := 2
		if c.Shape == "tstr-len" {
			m = 3
		}
		b = append(refcbor.HeadS(m, uint64(n)), bytes.Repeat([]byte{'a'}, n)...)
		if c.Defect == "truncated-leaf" {
			if n == 0 {
				return nil, false
			}
			b = b[:len(b)-1]
		}
	case "sequence": // n top-level items
		for i := 0; i < n-1; i++ {
			b = append(b, refcbor.Uint(uint64(i))...)
		}
		if n > 0 {
			b = append(b, leaf...)
		} else if c.Defect != "" {
			return nil, false
		}
	default:
		return nil, false
	}
	return b, true
}

var shapeProp = vh.Define("C13", "shape-sweep", func(c ShapeCase, r *vh.R) {
	b, ok := c.bytes()
	if !ok {
		r.Skip = true
		return
	}
	r.Class("shape:" + c.Shape)
	if c.Defect != "" {
		r.Class("with-defect")
	}
	judge("shape-sweep", b, r)
})

func TestShapeSweep(t *testing.T) {
	var ns []int
	for n := 0; n <= 1100; n++ {
		ns = append(ns, n)
	}
	ns = append(ns, 1500, 2000, 2048, 3000, 4095, 4096, 4097, 5000, 10000, 65535, 65536, 65537, 100000)
	shapes := []string{"nest-array", "nest-map", "nest-mixed", "nest-text-key", "array-len", "map-len", "map-len-last-two-swapped", "map-len-text-keys", "bstr-len", "tstr-len", "sequence"}
	defects := []string{"", "nonshortest-leaf", "truncated-leaf", "unordered-leaf"}
	cnt := 0
	for _, sh := range shapes {
		for _, n := range ns {
			if strings.HasPrefix(sh, "nest-") && n > 10000 {
				continue // nesting far beyond anything a format user needs; the stack cost is the implementation's business
			}
			if sh == "map-len-text-keys" && n > 26+26*26+26*26*26 {
				continue
			}
			for _, d := range defects {
				c := ShapeCase{Shape: sh, N: n, Defect: d}
				if _, ok := c.bytes(); !ok {
					continue
				}
				cnt++
				if !shapeProp.One(t, c) {
					return
				}
			}
		}
	}
	vh.Exhaustive("shape-sweep", fmt.Sprintf("%d shapes (nesting depth of arrays / maps / mixed / text-keyed maps, array length, map entries with uint and text keys, last two keys swapped, byte / text string length, top-level item count) x every n in 0..1100 and 13 larger values x {valid, non-shortest / truncated / unordered item at the far end}: %d inputs", len(shapes), cnt))
}
