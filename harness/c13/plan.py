PLAN = dict(
    id="C13",
    pkg="c13", level="exploration",
    rule=("Oracle for every input b: cbor.Deterministic(b) == nil  <=>  the independent judge refcbor.IsCoreDeterministic(b) (complete items of "
          "major types 0,2,3,4,5, shortest heads, map keys strictly ascending bytewise). A panic is a rejection (the repository's unit tests "
          "require panics on truncated input); not returning within the watchdog time is a violation. short-exhaustive: every byte string of "
          "length <= L (4 quick, 5 thorough), and of length L+1 when starting with a2 (two-pair map), over a 37-byte grammar alphabet; boundary / bigarg-*: one head (major, argument at a width "
          "boundary, every width) with declared-1/declared/declared+1 content in 5 contexts; initial-byte: each of the 256 initial bytes followed by k content units (bytes, one-byte items, ascending pairs; k around every value its additional information could be mistaken for, up to 300) in 5 contexts; generated: a valid nested sequence from the "
          "reference encoder with none or exactly one corruption (head lengthened, adjacent map entries swapped, key duplicated, length/count "
          "replaced incl. 2^62..2^64-1, truncated, partial item appended); encoder-output: bytes emitted by the repository's Encoder for "
          "generated trees of the subset must be accepted. Non-trivial: the first head of the input parses. VERIF_C13_SKIP_F3=1 leaves out "
          "inputs containing an 8-byte-argument head of major type 2..5 with argument >= 2^62 (known finding F3; counted as excluded-f3)."),
    assumptions=TRUSTED + ["A panic of cbor.Deterministic is a rejection (required by TestArraysNumberOfItemsIsWrong / TestMapsNumberOfItemsIsWrong and the byte-string test)",
                           "UTF-8 validity of text strings is outside RFC 8949 well-formedness and is not judged"],
    runs=[
        dict(name="conc", run="^(TestConcGenerated|TestConcEncoderOutput)$", checks=(400, 20000), shards=(2, 8), timeout=(400, 3600), race=True),
        dict(name="short", run="^TestExhaustiveShort$", shards=(1, 16), timeout=(300, 900)),
        dict(name="enum", run="^(TestExhaustiveBoundary|TestExhaustiveInitialByte|TestExhaustiveBigArgs|TestShapeSweep|TestCorpus)$"),
        dict(name="gen", run="^TestPropGenerated$", checks=(100000, 250000), shards=(1, 8)),
        dict(name="enc", run="^TestPropEncoderOutput$", checks=(30000, 100000), shards=(1, 4)),
    ],
    technique="exhaustive enumeration of short inputs over a grammar alphabet and of head/argument/content boundaries, plus rapid-generated valid items with one structure-aware corruption, differential against an independent RFC 8949 section 4.2.1 judge; per-call and per-batch watchdogs for termination",
    level_text=("All byte strings up to length 4 (quick) / 5 (thorough), one more for two-pair maps, over a 37-byte alphabet covering every head class are enumerated "
                "completely, as are head/width/content boundary combinations; nested inputs are sampled (valid items with exactly one "
                "corruption, encoder output). Every verdict is compared with an independent RFC 8949 core-deterministic judge and every call "
                "runs under a watchdog. Exploration level: longer and deeper inputs are sampled, not enumerated."),
    level_note=NOTE_BASE,
    require=[("short-exhaustive", "accepted"), ("short-exhaustive", "rejected-order"), ("short-exhaustive", "rejected-nonshortest"),
             ("short-exhaustive", "rejected-malformed"),
             ("generated", "accepted"), ("generated", "rejected-order"), ("generated", "rejected-nonshortest"), ("generated", "rejected-malformed"),
             ("generated", "corr-setarg-still-valid"), ("encoder-output", "accepted"), ("boundary", "accepted")],
)
