// Package c06: bundle signatures — covered exchanges verify inside the window and yield the
// original body, uncovered ones are reported unsigned, this survives write/read and sequences
// of signers, and any alteration is detected.
package c06

import (
	"bytes"
	"fmt"
	"net/url"
	"strings"
	"testing"
	"time"

	"github.com/WICG/webpackage/go/bundle"
	"github.com/WICG/webpackage/go/bundle/signature"
	"github.com/WICG/webpackage/go/signedexchange/certurl"
	"github.com/WICG/webpackage/go/verifh/bundlekit"
	"github.com/WICG/webpackage/go/verifh/gen"
	"github.com/WICG/webpackage/go/verifh/vh"
	"pgregory.net/rapid"
)

func TestMain(m *testing.M) { vh.Main(m) }
func TestReplay(t *testing.T) { vh.Replay(t) }
func TestCorpus(t *testing.T) { vh.Corpus(t) }

type SignerSpec struct {
	Fixture  int   `json:"fixture"`
	DateOff  int64 `json:"date_off"` // seconds relative to baseDate
	Duration int64 `json:"duration"` // seconds
	RS       int   `json:"rs"`
	ChainLen int   `json:"chain_len"` // 1 or 2 certificates
}

type Tamper struct {
	Kind  string `json:"kind"` // none body-flip body-trunc body-extend status hdr-add hdr-remove hdr-edit reencode signed-flip sig-flip authority auth-swap
	Ex    int    `json:"ex"`   // exchange selector
	Pos   int    `json:"pos"`
	Bit   int    `json:"bit"`
	Value string `json:"value,omitempty"`
	N     int    `json:"n"`
}

type Case struct {
	Bundle  bundlekit.Spec `json:"bundle"`
	Signers []SignerSpec   `json:"signers"`
	ViaFile bool           `json:"via_file"`
	Tamper  Tamper         `json:"tamper"`
	Time    string         `json:"time"` // mid start end start-1 end+1
	// Decoys: between the exchanges of the bundle each signer is also OFFERED exchanges it must
	// refuse - "dup": another response for a URL it has already accepted (a second variant),
	// "unencodable": a response whose header cannot be encoded, for a URL that is not in the
	// bundle - and carries on, as a caller that skips what cannot be signed does. What was
	// accepted before and after has to verify as if nothing had been offered in between.
	Decoys string `json:"decoys,omitempty"` // "" dup unencodable both
}

const baseDate = int64(1_700_000_000)

func covers(fx int, u *url.URL) bool {
	return gen.Fixtures()[fx].Leaf.VerifyHostname(u.Hostname()) == nil
}

func chainOf(s SignerSpec) certurl.CertChain {
	f := gen.Fixtures()[s.Fixture]
	certs := f.Chain[:1]
	if s.ChainLen >= 2 {
		certs = f.Chain[:2]
	}
	cc, err := certurl.NewCertChain(certs, []byte("ocsp"), nil)
	if err != nil {
		panic(err)
	}
	return cc
}

// window returns the intersection of all signers' validity windows.
func window(ss []SignerSpec) (start, end int64) {
	start, end = -1<<62, 1<<62
	for _, s := range ss {
		d := baseDate + s.DateOff
		if d > start {
			start = d
		}
		if d+s.Duration < end {
			end = d + s.Duration
		}
	}
	return
}

type origEx struct {
	url     string
	status  int
	headers map[string]string // normalised, after signing (includes Digest / Content-Encoding when covered)
	body    []byte
	signer  int // index of the first covering signer, -1 = uncovered
}

var prop = vh.Define("C06", "signatures", func(c Case, r *vh.R) { check(c, r) })

func check(c Case, r *vh.R) {
	b := bundlekit.Build(&c.Bundle)
	r.Class(c.Bundle.Version)
	r.Classf("signers-%d", len(c.Signers))
	origs := make([]origEx, len(b.Exchanges))
	for i, e := range b.Exchanges {
		origs[i] = origEx{url: e.Request.URL.String(), status: e.Response.Status, body: append([]byte{}, e.Response.Body...), signer: -1}
	}
	tooLong := false
	// ---- the signing history, the way sign-bundle drives the library
	for si, ss := range c.Signers {
		f := gen.Fixtures()[ss.Fixture]
		vu, _ := url.Parse("https://" + strings.TrimPrefix(f.Hosts[0], "*.") + "/validity")
		sg, err := signature.NewSigner(b.Version, chainOf(ss), f.Key, vu, gen.Instant(baseDate+ss.DateOff, 0), time.Duration(ss.Duration)*time.Second)
		if err != nil {
			r.Failf("signer-error", "NewSigner: %v", err)
			return
		}
		if ss.Duration > 7*24*3600 {
			tooLong = true
		}
		for i, e := range b.Exchanges {
			if !sg.CanSignForURL(e.Request.URL) {
				continue
			}
			if !covers(ss.Fixture, e.Request.URL) {
				r.Failf("can-sign-mismatch", "CanSignForURL(%v) disagrees with the certificate's host coverage", e.Request.URL)
				return
			}
			id := b.Version.MiceEncoding().IntegrityIdentifier()
			if origs[i].signer < 0 {
				var err error
				id, err = e.AddPayloadIntegrity(b.Version, ss.RS)
				if err != nil {
					r.Failf("integrity-error", "AddPayloadIntegrity: %v", err)
					return
				}
				origs[i].signer = si
			}
			if err := sg.AddExchange(e, id); err != nil {
				r.Failf("addexchange-error", "AddExchange: %v", err)
				return
			}
			if c.Decoys == "dup" || c.Decoys == "both" {
				d := &bundle.Exchange{Request: e.Request, Response: bundle.Response{Status: 404, Header: map[string][]string{"Content-Type": {"x/decoy"}}, Body: []byte("decoy body")}}
				r.Class("decoy-offered:dup")
				if derr := sg.AddExchange(d, id); derr != nil {
					r.Class("decoy-refused:dup")
				}
			}
			if c.Decoys == "unencodable" || c.Decoys == "both" {
				du := *e.Request.URL
				du.Path = fmt.Sprintf("/decoy-%d-%d", si, i)
				du.RawPath, du.RawQuery = "", ""
				d := &bundle.Exchange{Request: bundle.Request{URL: &du}, Response: bundle.Response{Status: 200, Header: map[string][]string{"X-Bad-\u00e9": {"v"}}, Body: []byte("decoy body")}}
				r.Class("decoy-offered:unencodable")
				if derr := sg.AddExchange(d, id); derr != nil {
					r.Class("decoy-refused:unencodable")
				}
			}
		}
		sigs, err := sg.UpdateSignatures(b.Signatures)
		if err != nil {
			r.Failf("update-error", "UpdateSignatures: %v", err)
			return
		}
		b.Signatures = sigs
		// invariant after every signer (only when all windows so far are acceptable)
		if !tooLong {
			s0, e0 := window(c.Signers[:si+1])
			if s0 <= e0 {
				for i, e := range b.Exchanges {
					origs[i].headers = gen.Normalize(e.Response.Header)
				}
				if v := verifyAll(b, origs, c.Signers, s0+(e0-s0)/2, fmt.Sprintf("after signer %d", si+1)); v != "" {
					r.Failf("untampered-rejected", "%s", v)
					return
				}
			}
		}
	}
	for i, e := range b.Exchanges {
		origs[i].headers = gen.Normalize(e.Response.Header)
	}
	ncov := 0
	for _, o := range origs {
		if o.signer >= 0 {
			ncov++
		}
	}
	if ncov > 0 {
		r.Class("has-covered")
	}
	if ncov < len(origs) {
		r.Class("has-uncovered")
	}

	// ---- optional write/read
	target := b
	if c.ViaFile {
		var buf bytes.Buffer
		if _, err := b.WriteTo(&buf); err != nil {
			r.Failf("write-error", "WriteTo of the signed bundle failed: %v", err)
			return
		}
		rb, err := bundle.Read(&buf)
		if err != nil {
			r.Failf("read-error", "Read rejects the signed bundle: %v", err)
			return
		}
		// the reader returns exchanges in index order: re-associate by URL
		reord := make([]origEx, 0, len(origs))
		for _, e := range rb.Exchanges {
			for _, o := range origs {
				if o.url == e.Request.URL.String() {
					reord = append(reord, o)
					break
				}
			}
		}
		if len(reord) != len(origs) {
			r.Failf("read-differs", "signed bundle read back with %d exchanges, %d written", len(rb.Exchanges), len(origs))
			return
		}
		origs = reord
		target = rb
		r.Class("via-file")
	}

	s0, e0 := window(c.Signers)
	if s0 > e0 {
		r.Class("empty-window-intersection")
	}
	var t, nsec int64 // the verification instant is t seconds + nsec nanoseconds
	switch c.Time {
	case "start":
		t = s0
	case "end":
		t = e0
	case "start-1":
		t = s0 - 1
	case "end+1":
		t = e0 + 1
	case "start-ns": // one nanosecond before the window opens
		t, nsec = s0-1, 999_999_999
	case "start+ns":
		t, nsec = s0, 1
	case "end-ns":
		t, nsec = e0-1, 999_999_999
	case "end+ns": // inside the second that follows expires: expired
		t, nsec = e0, 1
	case "end+ms":
		t, nsec = e0, 999_000_000
	default:
		t = s0 + (e0-s0)/2
	}
	inWindow := s0 <= e0 && t >= s0 && (t < e0 || (t == e0 && nsec == 0))
	r.Class("time:" + c.Time)

	// ---- tamper
	tm := c.Tamper
	r.Class("tamper:" + tm.Kind)
	changed := false
	sigAppended := false
	pick := func() int {
		// prefer a covered exchange
		var cov []int
		for i, o := range origs {
			if o.signer >= 0 {
				cov = append(cov, i)
			}
		}
		if len(cov) == 0 {
			if len(origs) == 0 {
				return -1
			}
			return ((tm.Ex % len(origs)) + len(origs)) % len(origs)
		}
		return cov[((tm.Ex%len(cov))+len(cov))%len(cov)]
	}
	xi := pick()
	if tm.Kind != "none" && xi < 0 && !strings.HasPrefix(tm.Kind, "s") && !strings.HasPrefix(tm.Kind, "auth") {
		r.Skip = true
		return
	}
	switch tm.Kind {
	case "none":
	case "body-flip":
		e := target.Exchanges[xi]
		if len(e.Response.Body) > 0 {
			e.Response.Body = append([]byte{}, e.Response.Body...)
			e.Response.Body[((tm.Pos%len(e.Response.Body))+len(e.Response.Body))%len(e.Response.Body)] ^= 1 << uint(tm.Bit&7)
			changed = true
		}
	case "body-trunc":
		e := target.Exchanges[xi]
		if n := len(e.Response.Body); n > 0 {
			e.Response.Body = e.Response.Body[:n-1-(tm.N%n)]
			changed = true
		}
	case "body-extend":
		e := target.Exchanges[xi]
		e.Response.Body = append(append([]byte{}, e.Response.Body...), bytes.Repeat([]byte{0x41}, 1+tm.N%40)...)
		changed = true
	case "status":
		e := target.Exchanges[xi]
		e.Response.Status = (e.Response.Status-100+1+tm.N%800)%900 + 100
		changed = e.Response.Status != origs[xi].status
	case "hdr-add":
		target.Exchanges[xi].Response.Header.Add("X-Injected", tm.Value)
		changed = true
	case "hdr-remove":
		h := target.Exchanges[xi].Response.Header
		if k := pickKey(h, tm.Pos); k != "" {
			h.Del(k)
			changed = true
		}
	case "hdr-edit":
		h := target.Exchanges[xi].Response.Header
		if k := pickKey(h, tm.Pos); k != "" {
			h[k] = append([]string{h[k][0] + "x"}, h[k][1:]...)
			changed = true
		}
	case "reencode":
		// attacker swaps the body and recomputes the MI encoding + Digest header
		e := target.Exchanges[xi]
		if origs[xi].signer >= 0 {
			enc := target.Version.MiceEncoding()
			var buf bytes.Buffer
			dg, err := enc.Encode(&buf, []byte("attacker controlled body "+tm.Value), 16)
			if err == nil {
				e.Response.Body = buf.Bytes()
				e.Response.Header.Set("Digest", dg)
				changed = true
			}
		}
	case "signed-flip", "sig-flip":
		if target.Signatures != nil && len(target.Signatures.VouchedSubsets) > 0 {
			vs := target.Signatures.VouchedSubsets[((tm.Ex%len(target.Signatures.VouchedSubsets))+len(target.Signatures.VouchedSubsets))%len(target.Signatures.VouchedSubsets)]
			buf := &vs.Signed
			if tm.Kind == "sig-flip" {
				buf = &vs.Sig
			}
			if len(*buf) > 0 {
				*buf = append([]byte{}, (*buf)...)
				(*buf)[((tm.Pos%len(*buf))+len(*buf))%len(*buf)] ^= 1 << uint(tm.Bit&7)
				changed = true
			}
		}
	case "sig-append":
		// octets appended after the complete DER signature (a second SEQUENCE, or a single byte)
		if target.Signatures != nil && len(target.Signatures.VouchedSubsets) > 0 {
			vs := target.Signatures.VouchedSubsets[((tm.Ex%len(target.Signatures.VouchedSubsets))+len(target.Signatures.VouchedSubsets))%len(target.Signatures.VouchedSubsets)]
			extra := []byte{byte(tm.Bit)}
			if tm.N%2 == 0 {
				extra = append([]byte{}, vs.Sig...)
			}
			vs.Sig = append(append([]byte{}, vs.Sig...), extra...)
			changed = true
			sigAppended = true
		}
	case "authority":
		if target.Signatures != nil && len(target.Signatures.VouchedSubsets) > 0 && len(target.Signatures.Authorities) > 1 {
			vs := target.Signatures.VouchedSubsets[((tm.Ex%len(target.Signatures.VouchedSubsets))+len(target.Signatures.VouchedSubsets))%len(target.Signatures.VouchedSubsets)]
			vs.Authority = (vs.Authority + 1 + uint64(tm.N)%uint64(len(target.Signatures.Authorities)-1)) % uint64(len(target.Signatures.Authorities))
			changed = true
		}
	case "auth-samekey-cert":
		// the authority a subset points at is replaced by ANOTHER certificate for the SAME key
		// (fixtures 0 and 3 share a key): the signature still verifies, auth-sha256 must not
		if target.Signatures != nil {
			for _, vs := range target.Signatures.VouchedSubsets {
				if vs.Authority >= uint64(len(target.Signatures.Authorities)) {
					continue
				}
				a := target.Signatures.Authorities[vs.Authority]
				other := -1
				if bytes.Equal(a.Cert.Raw, gen.Fixtures()[0].Leaf.Raw) {
					other = 3
				} else if bytes.Equal(a.Cert.Raw, gen.Fixtures()[3].Leaf.Raw) {
					other = 0
				}
				if other >= 0 {
					target.Signatures.Authorities[vs.Authority] = &certurl.AugmentedCertificate{Cert: gen.Fixtures()[other].Leaf, OCSPResponse: a.OCSPResponse}
					changed = true
					break
				}
			}
		}
	case "auth-swap":
		if target.Signatures != nil && len(target.Signatures.Authorities) > 1 {
			a := target.Signatures.Authorities
			i := ((tm.Pos % len(a)) + len(a)) % len(a)
			j := (i + 1) % len(a)
			if !bytes.Equal(a[i].Cert.Raw, a[j].Cert.Raw) {
				a[i], a[j] = a[j], a[i]
				changed = true
			}
		}
	default:
		r.Failf("harness", "unknown tamper %q", tm.Kind)
		return
	}
	if changed || !inWindow || tooLong {
		r.NT()
	}
	if len(c.Signers) >= 2 {
		r.NT()
	}

	if target.Signatures == nil {
		r.Failf("no-signatures", "signers ran but the bundle has no signatures section")
		return
	}
	ver, err := signature.NewVerifier(target.Signatures, gen.Instant(t, nsec), target.Version)
	if err != nil {
		r.Class("rejected-newverifier")
		if !changed && inWindow && !tooLong {
			r.Failf("untampered-rejected", "NewVerifier rejects an untampered bundle at t=%d inside [%d,%d]: %v", t, s0, e0, err)
		}
		return
	}
	if sigAppended {
		// "any change to ... the signature bytes ... makes verification fail" (the shared ECDSA verifier
		// refuses trailing data after the DER signature)
		r.Failf("accepted-extended-signature", "NewVerifier accepted a vouched subset whose signature bytes were extended by trailing octets (tamper %+v)", tm)
		return
	}
	// the verifier was created: the window and the 7-day cap must hold for every subset
	if !inWindow {
		r.Failf("accepted-outside-window", "NewVerifier succeeded at t=%d outside the signed window [%d,%d]", t, s0, e0)
		return
	}
	if tooLong {
		r.Failf("accepted-long-lifetime", "NewVerifier accepted a signature valid for more than 7 days")
		return
	}
	// All results are obtained first and judged afterwards: a result must stay what it was when
	// later exchanges are verified with the same Verifier (no aliasing of verifier state).
	type held struct {
		res  *signature.VerifyExchangeResult
		verr error
	}
	helds := make([]held, len(target.Exchanges))
	for i, e := range target.Exchanges {
		res, verr := ver.VerifyExchange(e)
		helds[i] = held{res, verr}
	}
	for i, e := range target.Exchanges {
		res, verr := helds[i].res, helds[i].verr
		o := origs[i]
		if verr != nil {
			r.Class("rejected-exchange")
			if !changed {
				r.Failf("untampered-rejected", "VerifyExchange(%s) fails on an untampered bundle: %v", o.url, verr)
				return
			}
			continue
		}
		if res == nil {
			if o.signer >= 0 && !changed {
				r.Failf("covered-reported-unsigned", "exchange %s is covered by signer %d but reported as not signed", o.url, o.signer)
				return
			}
			continue
		}
		// success: must be exactly what was signed
		if o.signer < 0 {
			r.Failf("uncovered-verified", "exchange %s is covered by no signer but verified", o.url)
			return
		}
		if e.Response.Status != o.status || !gen.MapsEqual(gen.Normalize(e.Response.Header), o.headers) {
			r.Failf("accepted-tampered", "exchange %s verified although status/headers differ from the signed ones (tamper %+v): status %d/%d headers %v / %v", o.url, tm, e.Response.Status, o.status, gen.Normalize(e.Response.Header), o.headers)
			return
		}
		if !bytes.Equal(res.VerifiedPayload, o.body) {
			r.Failf("accepted-tampered-payload", "exchange %s verified but the returned payload (%d bytes) is not the original body (%d bytes) (tamper %+v)", o.url, len(res.VerifiedPayload), len(o.body), tm)
			return
		}
		want := gen.Fixtures()[c.Signers[o.signer].Fixture].Leaf.Raw
		if res.Authority == nil || !bytes.Equal(res.Authority.Cert.Raw, want) {
			r.Failf("wrong-authority", "exchange %s verified with an authority that is not the leaf of its first covering signer %d (tamper %+v)", o.url, o.signer, tm)
			return
		}
		r.Class("verified")
	}
}

// verifyAll is the untampered invariant.
func verifyAll(b *bundle.Bundle, origs []origEx, signers []SignerSpec, t int64, when string) string {
	ver, err := signature.NewVerifier(b.Signatures, gen.Instant(t, 0), b.Version)
	if err != nil {
		return fmt.Sprintf("%s: NewVerifier at t=%d: %v", when, t, err)
	}
	ress := make([]*signature.VerifyExchangeResult, len(b.Exchanges))
	errs := make([]error, len(b.Exchanges))
	for i, e := range b.Exchanges {
		ress[i], errs[i] = ver.VerifyExchange(e)
	}
	for i := range b.Exchanges {
		res, err := ress[i], errs[i]
		o := origs[i]
		if err != nil {
			return fmt.Sprintf("%s: VerifyExchange(%s): %v", when, o.url, err)
		}
		if o.signer < 0 {
			if res != nil {
				return fmt.Sprintf("%s: uncovered exchange %s verified", when, o.url)
			}
			continue
		}
		if res == nil {
			return fmt.Sprintf("%s: covered exchange %s reported unsigned", when, o.url)
		}
		if !bytes.Equal(res.VerifiedPayload, o.body) {
			return fmt.Sprintf("%s: exchange %s payload differs from the original body", when, o.url)
		}
		if !bytes.Equal(res.Authority.Cert.Raw, gen.Fixtures()[signers[o.signer].Fixture].Leaf.Raw) {
			return fmt.Sprintf("%s: exchange %s authority is not its signer's leaf", when, o.url)
		}
	}
	return ""
}

func pickKey(h map[string][]string, pos int) string {
	var ks []string
	for k := range h {
		ks = append(ks, k)
	}
	for i := 1; i < len(ks); i++ {
		for j := i; j > 0 && ks[j] < ks[j-1]; j-- {
			ks[j], ks[j-1] = ks[j-1], ks[j]
		}
	}
	if len(ks) == 0 {
		return ""
	}
	return ks[((pos%len(ks))+len(ks))%len(ks)]
}

func genBundle(t *rapid.T) bundlekit.Spec {
	s := bundlekit.Spec{Version: rapid.SampledFrom([]string{"b1", "b2"}).Draw(t, "version")}
	n := rapid.IntRange(1, 6).Draw(t, "nex")
	seen := map[string]bool{}
	for i := 0; i < n; i++ {
		host := rapid.SampledFrom(gen.Hosts).Draw(t, "host")
		u := fmt.Sprintf("https://%s/r%d%s", host, i, rapid.SampledFrom([]string{"", ".html", "?q=1", "/a%20b"}).Draw(t, "suffix"))
		if rapid.IntRange(0, 11).Draw(t, "rel") == 0 {
			u = fmt.Sprintf("/relative/%d", i)
		}
		if seen[u] {
			continue
		}
		seen[u] = true
		e := bundlekit.ExSpec{URL: u, Status: rapid.SampledFrom([]int{200, 200, 404, 301}).Draw(t, "status"),
			BodyLen: rapid.SampledFrom([]int{0, 1, 15, 16, 17, 32, 100, 4096, 5000}).Draw(t, "bodylen"), BodyTag: rapid.Uint64().Draw(t, "bodytag")}
		e.Headers = append(gen.Headers(t, "hdr", 3), gen.HeaderKV{Name: "Content-Type", Values: []string{"text/plain"}})
		if rapid.IntRange(0, 3).Draw(t, "priorce") == 0 {
			// a response that already carries a content coding (a gzip'ed resource): the MI coding is
			// added as a further value of the same field
			e.Headers = append(e.Headers, gen.HeaderKV{Name: rapid.SampledFrom([]string{"Content-Encoding", "content-encoding"}).Draw(t, "cename"),
				Values: rapid.SampledFrom([][]string{{"gzip"}, {"br"}, {"gzip", "br"}, {"identity"}}).Draw(t, "cevals")})
		}
		s.Exchanges = append(s.Exchanges, e)
	}
	if s.Version == "b1" {
		s.Primary = s.Exchanges[0].URL
		if strings.HasPrefix(s.Primary, "/") {
			s.Primary = "https://a.example/"
		}
	}
	return s
}

func genSigner(t *rapid.T, fixtures []int) SignerSpec {
	return SignerSpec{
		Fixture:  rapid.SampledFrom(fixtures).Draw(t, "fixture"),
		DateOff:  rapid.Int64Range(-3600, 3600).Draw(t, "dateoff"),
		Duration: rapid.SampledFrom([]int64{7 * 24 * 3600, 7*24*3600 - 1, 86400, 7300, 7201}).Draw(t, "duration"),
		RS:       rapid.SampledFrom([]int{1, 16, 4096, 16384}).Draw(t, "rs"),
		ChainLen: rapid.IntRange(1, 2).Draw(t, "chainlen"),
	}
}

func TestPropSignatures(t *testing.T) { prop.Rapid(t, genPropSignatures) }

// TestConcSignatures: batches of cases evaluated at the same time on separate goroutines (vh.Prop.Concurrent).
func TestConcSignatures(t *testing.T) { prop.Concurrent(t, genPropSignatures, 8, 3) }

func genPropSignatures(t *rapid.T) Case {
	c := Case{Bundle: genBundle(t), ViaFile: rapid.Bool().Draw(t, "viafile"), Time: "mid", Decoys: rapid.SampledFrom([]string{"", "", "dup", "unencodable", "both"}).Draw(t, "decoys")}
	ns := rapid.SampledFrom([]int{1, 1, 2, 2, 3}).Draw(t, "nsigners")
	for i := 0; i < ns; i++ {
		c.Signers = append(c.Signers, genSigner(t, []int{0, 1, 2, 4, 5}))
	}
	switch rapid.IntRange(0, 9).Draw(t, "scenario") {
	case 0:
		c.Tamper.Kind = "none"
		c.Time = rapid.SampledFrom([]string{"mid", "start", "end", "start+ns", "end-ns"}).Draw(t, "time")
	case 1:
		c.Tamper.Kind = "none"
		c.Time = rapid.SampledFrom([]string{"start-1", "end+1", "start-ns", "end+ns", "end+ms"}).Draw(t, "badtime")
	case 2:
		c.Tamper.Kind = "none"
		c.Signers[rapid.IntRange(0, ns-1).Draw(t, "longidx")].Duration = rapid.SampledFrom([]int64{7*24*3600 + 1, 7*24*3600 + 1, 8 * 24 * 3600, 8 * 24 * 3600, 1<<31 - 1, 1 << 31, 1 << 32, 1<<32 + 3600, 1 << 33, 9223372036}).Draw(t, "long")
	default:
		c.Tamper = Tamper{
			Kind:  rapid.SampledFrom([]string{"body-flip", "body-trunc", "body-extend", "status", "hdr-add", "hdr-remove", "hdr-edit", "reencode", "signed-flip", "sig-flip", "sig-append", "authority", "auth-swap", "auth-samekey-cert"}).Draw(t, "tamper"),
			Ex:    rapid.IntRange(0, 20).Draw(t, "ex"),
			Pos:   rapid.IntRange(0, 1<<16).Draw(t, "pos"),
			Bit:   rapid.IntRange(0, 7).Draw(t, "bit"),
			N:     rapid.IntRange(0, 1000).Draw(t, "n"),
			Value: rapid.SampledFrom([]string{"", "x", "evil"}).Draw(t, "value"),
		}
	}
	if rapid.IntRange(0, 7).Draw(t, "far-date") == 0 {
		// dates around 2^31 / 2^32 / 2^33 seconds and in the year 9999 (legal unsigned integers)
		c.Signers[rapid.IntRange(0, ns-1).Draw(t, "faridx")].DateOff = rapid.SampledFrom([]int64{1<<31 - 1 - baseDate, 1<<31 - baseDate - 3600, 1<<32 - baseDate - 3600, 1<<32 - baseDate, 1<<33 - baseDate, 253402300799 - 8*24*3600 - baseDate}).Draw(t, "fardate")
	}
	if c.Tamper.Kind == "auth-samekey-cert" {
		c.Signers[0].Fixture = rapid.SampledFrom([]int{0, 3}).Draw(t, "samekeyfixture")
		// make sure something is covered by it
		c.Bundle.Exchanges[0].URL = "https://a.example/covered"
		if c.Bundle.Version == "b1" {
			c.Bundle.Primary = c.Bundle.Exchanges[0].URL
		}
	}
	return c
}
