PLAN = dict(
    id="C06", pkg="c06", level="exploration", cli=True,
    rule=("signatures: a generated bundle (b1/b2, 1..6 exchanges on hosts covered by different fixture certificates, plus uncovered and relative URLs) processed by a "
          "history of 1..3 signers the way sign-bundle drives the library (AddPayloadIntegrity on first coverage, AddExchange, UpdateSignatures; P-256/P-384 "
          "fixtures, chains of 1-2 certificates, MI record sizes 1..16384, date offsets, durations up to exactly 7 days); the untampered invariant is checked after "
          "every signer; then optionally WriteTo+Read, then one scenario: verification at mid/start/end of the window intersection, at start-1 / end+1, a signer with "
          "a lifetime of 7d+1s, or one tamper (body flip/truncate/extend, status, header add/remove/edit, body re-encoded with a fresh MI digest and Digest header, bit "
          "flip in a signed subset or in a signature, authority index changed, authorities swapped). Oracle: untampered => NewVerifier ok inside the window, covered "
          "exchanges yield the original body with the first covering signer's leaf as authority, uncovered ones (nil,nil); any success implies status/normalised "
          "headers/decoded payload == signed originals, t inside every signer's window, lifetime <= 7 days. Non-trivial: >= 2 signers, a tamper that changed "
          "something, an instant outside the window or an over-long lifetime. sign-sections (the command-line entry point, sub-check shared with C20): gen-bundle + gen-certurl + "
          "sign-bundle signatures-section with keys in SEC1 / PKCS#8 / encrypted PKCS#8 form, -date / -expire (flags omitted, numeric zone offsets, exactly 168h) and -miRecordSize 1..16384; the "
          "signed bundle must verify NOW with signature.NewVerifier for every covered exchange, leave uncovered ones unsigned, and be refused outside the window."),
    assumptions=TRUSTED + ["a caller may offer a signer exchanges that it refuses (a second response for a URL already added, a response whose header cannot be encoded) and carry on with the others: refused offers are not part of what was signed", "collision resistance of SHA-256 and unforgeability of ECDSA", "an exchange covered by several signers gets its payload integrity from the first one (the second reuses the existing Digest)"],
    technique="rapid-generated signing histories and tampers; metamorphic oracle 'verified implies unchanged signed content, right authority, inside the window'; two-sided untampered invariant after every step",
    level_text=("History-based exploration: signer sequences, write/read and tampers are generated together; the invariant is evaluated after every signer, which is what "
                "exposes authority-index and ordering errors that a single-signer example cannot."),
    level_note=NOTE_BASE,
    runs=[
        dict(name="conc", run="^(TestConcSignatures)$", checks=(40, 2000), shards=(2, 8), timeout=(400, 3600), race=True),
        dict(name="sig", run="^(TestPropSignatures|TestCorpus)$", checks=(700, 75000), shards=(2, 16), timeout=(300, 3600)),
        # the command-line entry point of the same signer (sign-bundle signatures-section), which is anchored in this property too; the sub-check lives in the CLI package c20
        # several bundles signed with ONE certificate-chain value, each counter-signed by its own second signer, judged after all have been signed (sub-check of the purity package c18)
        dict(name="shared", pkg="c18", run="^TestPropSharedChain$", checks=(100, 5000), shards=(1, 4), timeout=(400, 3600)),
        dict(name="cli", pkg="c20", run="^(TestPropSignSections|TestFixedSignSections)$", checks=(25, 750), shards=(1, 16), timeout=(300, 3600)),
    ],
    require=[("sign-sections", "covered"), ("sign-sections", "date-numeric-zone"), ("signatures", "signers-2"), ("signatures", "decoy-offered:dup"), ("signatures", "decoy-offered:unencodable"), ("signatures", "signers-3"), ("signatures", "via-file"), ("signatures", "verified"), ("signatures", "rejected-newverifier"),
             ("signatures", "rejected-exchange"), ("signatures", "has-uncovered"), ("signatures", "tamper:authority"), ("signatures", "tamper:auth-samekey-cert"), ("signatures", "time:end+1")],
)
