PLAN = dict(
    id="C16",
    pkg="c16", level="exploration",
    rule=("value-roundtrip: a generated valid ParameterisedList / ListOfLists (every item type, int64 extremes, strings over %x20-7E with "
          "quotes/backslashes, tokens with every allowed punctuation, byte sequences of every length mod 3, value-less parameters, 0-5 parameters, "
          "1-4 members) is serialised; String() must succeed, give the identical text for 4 map insertion orders x 3 calls, parse back to the same "
          "value, re-serialise to the same text, and the independent reference parser refsh must read the same value with parameter keys in "
          "ascending order. invalid-values: a value with one injected defect (character outside %x20-7E in a string, malformed token/label/key, "
          "empty list / inner list, unsupported Go type incl. nil in an inner list) must be refused by String(). history: 2-5 such valid and invalid values serialised one after the other in one process, each step judged like a single value (output must not depend on earlier, in particular refused, calls). strings-exhaustive / "
          "strings-mutated: a header string is given to ParseParameterisedList or ParseListOfLists; wherever refsh (draft-09 grammar subset, "
          "three-valued) is not Unspecified the verdict and, on accept, the value must agree; on every accepted input String() must succeed and "
          "parse(String(parse(s))) == parse(s). Non-trivial: every value case; a string case is non-trivial iff the repository accepted it or the "
          "reference scanner consumed at least 2 characters before it stopped (rejected/unspecified inputs whose valid prefix is >= 2 characters). "
          "Distinct: enumerated strings are distinct by construction (counted), generated cases by fingerprint."),
    assumptions=TRUSTED + [
        "refsh answers Unspecified (verdict not compared, counted in class *-ref-unspecified) for: base64 text made of alphabet characters and '=' that is not "
        "the canonical padded or unpadded encoding (partial/misplaced padding, dangling character, non-zero trailing bits); integers with more than "
        "19 digits, a redundant leading zero or a magnitude outside int64; a number followed by '.'; an item starting with '?'",
        "Unpadded canonical base64 is in the subset (parser.go: 'Allow unpadded encoding'; draft-09 4.2.11: parsers SHOULD NOT fail on missing padding)",
        "VERIF_C16_SKIP_F10=1 excludes strings with CR/LF between the '*' delimiters of a byte sequence (known finding F10); default is to report them",
    ],
    runs=[
        dict(name="conc", run="^(TestConcValueRoundTrip|TestConcInvalidValues|TestConcStringsMutated)$", checks=(400, 20000), shards=(2, 8), timeout=(400, 3600), race=True),
        dict(name="exh", run="^TestStringsExhaustive$", shards=(1, 16), timeout=(300, 900)),
        dict(name="value", run="^(TestPropValueRoundTrip|TestValueEdgeCases|TestCorpus)$", checks=(20000, 300000), shards=(1, 4)),
        dict(name="invalid", run="^(TestPropInvalidValues|TestInvalidEdgeCases)$", checks=(15000, 200000), shards=(1, 2)),
        dict(name="history", run="^TestPropHistory$", checks=(4000, 100000), shards=(1, 4)),
        dict(name="mutated", run="^TestPropStringsMutated$", checks=(120000, 1000000), shards=(1, 8)),
    ],
    technique=("rapid-generated values and mutated header strings + exhaustive enumeration of all strings up to length 5 (quick) / 6 (thorough) over a "
               "16-character grammar alphabet, differential against an independent three-valued draft-09 reference parser (refsh); metamorphic "
               "map-insertion-order and parse-serialize-parse relations"),
    level_text=("Exhaustive for both parsers over every string of length <= 5 (quick) / <= 6 (thorough) over {a A 1 - _ ; , = \" \\ * / SP HTAB LF DEL}, "
                "plus random valid values of every item type, single-defect invalid values (every byte value in every name/string position enumerated) "
                "and randomly edited serialisations over a wider alphabet. Exploration level: longer inputs, digits other than those drawn, and "
                "multi-defect values are sampled, not enumerated."),
    level_note=NOTE_BASE,
    require=[("history", "valid-after-refusal"), ("strings-exhaustive", "pl-accept"), ("strings-exhaustive", "pl-reject"), ("strings-exhaustive", "ll-accept"), ("strings-exhaustive", "ll-reject"),
             ("strings-mutated", "pl-accept"), ("strings-mutated", "pl-reject"), ("strings-mutated", "ll-accept"), ("strings-mutated", "ll-reject"),
             ("strings-mutated", "ll-ref-unspecified"),
             ("value-roundtrip", "item-int-extreme"), ("value-roundtrip", "item-str-escape"), ("value-roundtrip", "item-tok-punct"),
             ("value-roundtrip", "item-bytes-len-mod3-0"), ("value-roundtrip", "item-bytes-len-mod3-1"), ("value-roundtrip", "item-bytes-len-mod3-2"),
             ("value-roundtrip", "param-valueless"), ("value-roundtrip", "params-5"), ("value-roundtrip", "inner-list-multi"),
             ("invalid-values", "ll-bad-string"), ("invalid-values", "pl-bad-string"), ("invalid-values", "ll-bad-token"), ("invalid-values", "pl-bad-label"),
             ("invalid-values", "pl-bad-key"), ("invalid-values", "pl-empty-list"), ("invalid-values", "ll-empty-list"), ("invalid-values", "ll-empty-inner-list"),
             ("invalid-values", "ll-bad-type-nil"), ("invalid-values", "ll-bad-type-goint"), ("invalid-values", "pl-bad-type-float")],
)
