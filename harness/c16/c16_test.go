// Package c16: structured headers - serialize and parse are inverse, the writer refuses
// invalid values and emits a unique (sorted-parameter) form, and the two parsers accept
// exactly the draft-09 grammar subset they document, as decided by the independent
// reference parser refsh.
package c16

import (
	"encoding/json"
	"fmt"
	"math"
	"os"
	"sort"
	"strconv"
	"strings"
	"testing"

	sh "github.com/WICG/webpackage/go/signedexchange/structuredheader"
	"github.com/WICG/webpackage/go/verifh/ref/refsh"
	"github.com/WICG/webpackage/go/verifh/vh"
	"pgregory.net/rapid"
)

func TestMain(m *testing.M)   { vh.Main(m) }
func TestReplay(t *testing.T) { vh.Replay(t) }
func TestCorpus(t *testing.T) { vh.Corpus(t) }
func skipF10() bool           { return os.Getenv("VERIF_C16_SKIP_F10") == "1" }
func trunc(s string) string   { return truncN(s, 200) }
func truncN(s string, n int) string {
	if len(s) > n {
		return s[:n] + "..."
	}
	return s
}

// Q is an arbitrary byte string that serialises as a Go-quoted ASCII literal inside a JSON
// string, so that control characters and invalid UTF-8 survive the replay file unchanged.
type Q string

func (q Q) MarshalJSON() ([]byte, error) { return json.Marshal(strconv.QuoteToASCII(string(q))) }
func (q *Q) UnmarshalJSON(d []byte) error {
	var s string
	if err := json.Unmarshal(d, &s); err != nil {
		return err
	}
	u, err := strconv.Unquote(s)
	if err != nil {
		return err
	}
	*q = Q(u)
	return nil
}

// =============================================================================== values

// ItemC describes one item of a generated value.
//
//	valid kinds:   int (I), str (S), tok (S), bytes (B; NilB: a nil []byte), none (value-less parameter)
//	invalid kinds: goint, int32, uint64, float, bool, key (a structuredheader.Key), ptr (*string), nil
type ItemC struct {
	K    string `json:"k"`
	I    int64  `json:"i,omitempty"`
	S    Q      `json:"s,omitempty"`
	B    vh.B   `json:"b,omitempty"`
	NilB bool   `json:"nilb,omitempty"`
}

type ParamC struct {
	Key Q     `json:"key"`
	Val ItemC `json:"val"`
}

type MemberC struct {
	Label  Q        `json:"label"`
	Params []ParamC `json:"params"` // insertion order; keys are distinct (a later duplicate overrides)
}

// ValueCase is a ParameterisedList ("pl") or ListOfLists ("ll") value.
type ValueCase struct {
	Kind     string    `json:"kind"`
	PL       []MemberC `json:"pl,omitempty"`
	LL       [][]ItemC `json:"ll,omitempty"`
	NilOuter bool      `json:"nil_outer,omitempty"` // empty list represented by nil instead of an empty slice
	Defect   string    `json:"defect,omitempty"`    // informational: what the generator injected
}

func (it ItemC) build() sh.Item {
	switch it.K {
	case "int":
		return it.I
	case "str":
		return string(it.S)
	case "tok":
		return sh.Token(it.S)
	case "bytes":
		if it.NilB {
			return []byte(nil)
		}
		return append([]byte{}, it.B...)
	case "goint":
		return int(it.I)
	case "int32":
		return int32(it.I)
	case "uint64":
		return uint64(it.I)
	case "float":
		return float64(it.I) + 0.5
	case "bool":
		return it.I != 0
	case "key":
		return sh.Key(it.S)
	case "ptr":
		s := string(it.S)
		return &s
	}
	return nil // none, nil
}

// order returns a permutation of 0..n-1: the insertion order variant v.
func order(n, v int) []int {
	idx := make([]int, 0, n)
	switch v {
	case 1: // reversed
		for i := n - 1; i >= 0; i-- {
			idx = append(idx, i)
		}
	case 2: // rotated
		for i := 0; i < n; i++ {
			idx = append(idx, (i+1)%n)
		}
	case 3: // odd positions first
		for i := 1; i < n; i += 2 {
			idx = append(idx, i)
		}
		for i := 0; i < n; i += 2 {
			idx = append(idx, i)
		}
	default:
		for i := 0; i < n; i++ {
			idx = append(idx, i)
		}
	}
	return idx
}

// effective removes overridden duplicates (replayed cases only; generators draw distinct keys).
func (m MemberC) effective() []ParamC {
	var out []ParamC
	for i, p := range m.Params {
		dup := false
		for _, q := range m.Params[i+1:] {
			if q.Key == p.Key {
				dup = true
			}
		}
		if !dup {
			out = append(out, p)
		}
	}
	return out
}

func (m MemberC) build(variant int) sh.ParameterisedIdentifier {
	ps := m.effective()
	params := sh.Parameters{}
	for _, i := range order(len(ps), variant) {
		params[sh.Key(ps[i].Key)] = ps[i].Val.build()
	}
	return sh.ParameterisedIdentifier{Label: sh.Token(m.Label), Params: params}
}

type repoValue struct {
	kind string
	pl   sh.ParameterisedList
	ll   sh.ListOfLists
}

func (v repoValue) str() (string, error) {
	if v.kind == "pl" {
		return v.pl.String()
	}
	return v.ll.String()
}

func (c ValueCase) build(variant int) repoValue {
	v := repoValue{kind: c.Kind}
	if c.Kind == "pl" {
		if !c.NilOuter {
			v.pl = sh.ParameterisedList{}
		}
		for _, m := range c.PL {
			v.pl = append(v.pl, m.build(variant))
		}
		return v
	}
	if !c.NilOuter {
		v.ll = sh.ListOfLists{}
	}
	for _, in := range c.LL {
		var l []sh.Item
		if len(in) == 0 && !c.NilOuter {
			l = []sh.Item{}
		}
		for _, it := range in {
			l = append(l, it.build())
		}
		v.ll = append(v.ll, l)
	}
	return v
}

// --- independent validity rules (draft-09 section 3, restricted to the documented subset)

func validToken(s string) bool {
	if s == "" || !(s[0] >= 'a' && s[0] <= 'z' || s[0] >= 'A' && s[0] <= 'Z') {
		return false
	}
	for i := 1; i < len(s); i++ {
		c := s[i]
		if !(c >= 'a' && c <= 'z' || c >= 'A' && c <= 'Z' || c >= '0' && c <= '9' || strings.IndexByte("_-.:%*/", c) >= 0) {
			return false
		}
	}
	return true
}

func validKey(s string) bool {
	if s == "" || !(s[0] >= 'a' && s[0] <= 'z') {
		return false
	}
	for i := 1; i < len(s); i++ {
		c := s[i]
		if !(c >= 'a' && c <= 'z' || c >= '0' && c <= '9' || c == '_' || c == '-') {
			return false
		}
	}
	return true
}

func (it ItemC) invalidity(param bool) string {
	switch it.K {
	case "int", "bytes":
		return ""
	case "str":
		for i := 0; i < len(it.S); i++ {
			if it.S[i] < 0x20 || it.S[i] > 0x7e {
				return "bad-string"
			}
		}
		return ""
	case "tok":
		if !validToken(string(it.S)) {
			return "bad-token"
		}
		return ""
	case "none":
		if param {
			return ""
		}
		return "bad-type-nil"
	case "nil":
		if param {
			return "" // a nil parameter value IS the value-less parameter
		}
		return "bad-type-nil"
	}
	return "bad-type-" + it.K
}

func (m MemberC) invalidity() string {
	if !validToken(string(m.Label)) {
		return "bad-label"
	}
	for _, p := range m.effective() {
		if !validKey(string(p.Key)) {
			return "bad-key"
		}
		if w := p.Val.invalidity(true); w != "" {
			return w
		}
	}
	return ""
}

// invalidity returns "" for a valid value, otherwise the class of the first defect.
func (c ValueCase) invalidity() string {
	switch c.Kind {
	case "pl":
		if len(c.LL) != 0 {
			return "malformed-case"
		}
		if len(c.PL) == 0 {
			return "empty-list"
		}
		for _, m := range c.PL {
			if w := m.invalidity(); w != "" {
				return w
			}
		}
		return ""
	case "ll":
		if len(c.PL) != 0 {
			return "malformed-case"
		}
		if len(c.LL) == 0 {
			return "empty-list"
		}
		for _, in := range c.LL {
			if len(in) == 0 {
				return "empty-inner-list"
			}
			for _, it := range in {
				if w := it.invalidity(false); w != "" {
					return w
				}
			}
		}
		return ""
	}
	return "malformed-case"
}

// --- conversion to the reference value model

func (it ItemC) ref() refsh.Item {
	switch it.K {
	case "int":
		return refsh.Item{Kind: refsh.Integer, Int: it.I}
	case "str":
		return refsh.Item{Kind: refsh.String, Text: string(it.S)}
	case "tok":
		return refsh.Item{Kind: refsh.Token, Text: string(it.S)}
	case "bytes":
		return refsh.Item{Kind: refsh.Bytes, Bin: []byte(it.B)}
	}
	return refsh.Item{Kind: refsh.None}
}

func (c ValueCase) ref() refsh.Value {
	var v refsh.Value
	for _, m := range c.PL {
		rm := refsh.Member{Label: string(m.Label)}
		for _, p := range m.effective() {
			rm.Params = append(rm.Params, refsh.Param{Key: string(p.Key), Value: p.Val.ref()})
		}
		v.PL = append(v.PL, rm)
	}
	for _, in := range c.LL {
		var l []refsh.Item
		for _, it := range in {
			l = append(l, it.ref())
		}
		v.LL = append(v.LL, l)
	}
	return v
}

func repoItemRef(it sh.Item) (refsh.Item, error) {
	switch x := it.(type) {
	case nil:
		return refsh.Item{Kind: refsh.None}, nil
	case int64:
		return refsh.Item{Kind: refsh.Integer, Int: x}, nil
	case string:
		return refsh.Item{Kind: refsh.String, Text: x}, nil
	case sh.Token:
		return refsh.Item{Kind: refsh.Token, Text: string(x)}, nil
	case []byte:
		return refsh.Item{Kind: refsh.Bytes, Bin: x}, nil
	}
	return refsh.Item{}, fmt.Errorf("item of undocumented dynamic type %T", it)
}

func (v repoValue) ref() (refsh.Value, error) {
	var out refsh.Value
	for _, m := range v.pl {
		rm := refsh.Member{Label: string(m.Label)}
		keys := make([]string, 0, len(m.Params))
		for k := range m.Params {
			keys = append(keys, string(k))
		}
		sort.Strings(keys)
		for _, k := range keys {
			it, err := repoItemRef(m.Params[sh.Key(k)])
			if err != nil {
				return out, err
			}
			rm.Params = append(rm.Params, refsh.Param{Key: k, Value: it})
		}
		out.PL = append(out.PL, rm)
	}
	for _, in := range v.ll {
		var l []refsh.Item
		for _, x := range in {
			it, err := repoItemRef(x)
			if err != nil {
				return out, err
			}
			l = append(l, it)
		}
		out.LL = append(out.LL, l)
	}
	return out, nil
}

func showRef(v refsh.Value) string {
	var b strings.Builder
	item := func(it refsh.Item) {
		switch it.Kind {
		case refsh.None:
			b.WriteString("<none>")
		case refsh.Integer:
			fmt.Fprintf(&b, "int(%d)", it.Int)
		case refsh.String:
			fmt.Fprintf(&b, "str(%q)", it.Text)
		case refsh.Token:
			fmt.Fprintf(&b, "tok(%q)", it.Text)
		case refsh.Bytes:
			fmt.Fprintf(&b, "bytes(%x)", it.Bin)
		}
	}
	if v.PL != nil {
		b.WriteString("PL[")
		for i, m := range v.PL {
			if i > 0 {
				b.WriteString(", ")
			}
			fmt.Fprintf(&b, "%q{", m.Label)
			for j, p := range m.Params {
				if j > 0 {
					b.WriteString(" ")
				}
				fmt.Fprintf(&b, "%q:", p.Key)
				item(p.Value)
			}
			b.WriteString("}")
		}
		b.WriteString("]")
	}
	if v.LL != nil {
		b.WriteString("LL[")
		for i, in := range v.LL {
			if i > 0 {
				b.WriteString(", ")
			}
			b.WriteString("[")
			for j, it := range in {
				if j > 0 {
					b.WriteString(" ")
				}
				item(it)
			}
			b.WriteString("]")
		}
		b.WriteString("]")
	}
	return truncN(b.String(), 400)
}

func parseRepo(kind, in string) (repoValue, error) {
	v := repoValue{kind: kind}
	var err error
	if kind == "pl" {
		v.pl, err = sh.ParseParameterisedList(in)
	} else {
		v.ll, err = sh.ParseListOfLists(in)
	}
	return v, err
}

func parseRef(kind, in string) refsh.Result {
	if kind == "pl" {
		return refsh.ParseParameterisedList(in)
	}
	return refsh.ParseListOfLists(in)
}

// ------------------------------------------------------------------ (1) value-roundtrip

func (c ValueCase) classes(r *vh.R) {
	r.Class("kind-" + c.Kind)
	item := func(it ItemC) {
		switch it.K {
		case "int":
			r.Class("item-int")
			switch it.I {
			case math.MinInt64, math.MaxInt64:
				r.Class("item-int-extreme")
			case 0, 1, -1:
				r.Class("item-int-small")
			}
		case "str":
			r.Class("item-str")
			if len(it.S) == 0 {
				r.Class("item-str-empty")
			}
			if strings.ContainsAny(string(it.S), "\"\\") {
				r.Class("item-str-escape")
			}
		case "tok":
			r.Class("item-tok")
			if strings.ContainsAny(string(it.S), "_-.:%*/") {
				r.Class("item-tok-punct")
			}
		case "bytes":
			r.Classf("item-bytes-len-mod3-%d", len(it.B)%3)
			if len(it.B) == 0 {
				r.Class("item-bytes-empty")
			}
		case "none":
			r.Class("param-valueless")
		}
	}
	if c.Kind == "pl" {
		r.Classf("members-%d", len(c.PL))
		for _, m := range c.PL {
			r.Classf("params-%d", len(m.Params))
			for _, p := range m.Params {
				item(p.Val)
			}
		}
	} else {
		r.Classf("members-%d", len(c.LL))
		nested := false
		for _, in := range c.LL {
			if len(in) > 1 {
				nested = true
			}
			for _, it := range in {
				item(it)
			}
		}
		if nested {
			r.Class("inner-list-multi")
		}
	}
}

var valueProp = vh.Define("C16", "value-roundtrip", checkValue)

func checkValue(c ValueCase, r *vh.R) {
	if c.invalidity() != "" {
		r.Skip = true
		return
	}
	c.classes(r)
	r.NT()
	v := c.build(0)
	s, err := v.str()
	if err != nil {
		r.Failf("valid-refused", "String() refused a valid %s value %s: %v", c.Kind, showRef(c.ref()), err)
		return
	}
	// uniqueness: same value, different map insertion orders / repeated calls
	for variant := 0; variant < 4; variant++ {
		alt := c.build(variant)
		for rep := 0; rep < 3; rep++ {
			s2, err := alt.str()
			if err != nil || s2 != s {
				r.Failf("not-unique", "the same %s value serialises differently (insertion order variant %d, call %d):\n  first: %q\n  now:   %q (err %v)", c.Kind, variant, rep, trunc(s), trunc(s2), err)
				return
			}
		}
	}
	if c.Kind == "pl" {
		// the per-identifier String() method emits the same member text
		var parts []string
		for i := range v.pl {
			ps, err := v.pl[i].String()
			if err != nil {
				r.Failf("valid-refused", "(*ParameterisedIdentifier).String() refused valid member %d of %s: %v", i, showRef(c.ref()), err)
				return
			}
			parts = append(parts, ps)
		}
		if len(parts) == 1 && parts[0] != s {
			r.Failf("not-unique", "ParameterisedList{m}.String()=%q but m.String()=%q", trunc(s), trunc(parts[0]))
			return
		}
		wantPL := c.ref().PL
		for i, ps := range parts {
			pr := refsh.ParseParameterisedList(ps)
			if pr.Verdict != refsh.Accept || len(pr.PL) != 1 || !refsh.EqualMember(pr.PL[0], wantPL[i]) || !refsh.KeysAscending(pr.PL) {
				r.Failf("output-wrong-value", "(*ParameterisedIdentifier).String() of member %d gave %q, which does not read back as that member with sorted keys (%s %s; value %s)", i, trunc(ps), pr.Verdict, pr.Why, showRef(refsh.Value{PL: wantPL[i : i+1]}))
				return
			}
		}
	}
	want := c.ref()
	// parse(serialize(v)) == v
	got, err := parseRepo(c.Kind, s)
	if err != nil {
		r.Failf("roundtrip-reject", "parser rejects the writer's output %q for %s: %v", trunc(s), showRef(want), err)
		return
	}
	gref, err := got.ref()
	if err != nil {
		r.Failf("roundtrip-value", "parse(%q): %v", trunc(s), err)
		return
	}
	if !refsh.EqualValue(gref, want) {
		r.Failf("roundtrip-value", "parse(serialize(v)) != v\n  v:      %s\n  text:   %q\n  parsed: %s", showRef(want), trunc(s), showRef(gref))
		return
	}
	// serialize(parse(serialize(v))) == serialize(v)
	s3, err := got.str()
	if err != nil || s3 != s {
		r.Failf("roundtrip-string", "serialize(parse(s)) != s: s=%q again=%q err=%v", trunc(s), trunc(s3), err)
		return
	}
	// the reference parser reads the same value, with parameters in sorted order
	ref := parseRef(c.Kind, s)
	if ref.Verdict != refsh.Accept {
		r.Failf("output-not-in-grammar", "writer output %q for %s is not accepted by the reference grammar: %s at %d (%s)", trunc(s), showRef(want), ref.Verdict, ref.Pos, ref.Why)
		return
	}
	if !refsh.EqualValue(ref.Value, want) {
		r.Failf("output-wrong-value", "writer output %q reads as %s by the reference grammar, value was %s", trunc(s), showRef(ref.Value), showRef(want))
		return
	}
	if !refsh.KeysAscending(ref.PL) {
		r.Failf("params-not-sorted", "parameters are not in sorted key order in %q", trunc(s))
	}
}

var (
	alphaL     = "abcdefghijklmnopqrstuvwxyz"
	alphaU     = "ABCDEFGHIJKLMNOPQRSTUVWXYZ"
	digits     = "0123456789"
	tokenPunct = "_-.:%*/"
	tokenTail  = alphaL + alphaU + digits + tokenPunct + tokenPunct // punctuation boosted
	keyTail    = alphaL + digits + "_-" + "_-09"
)

func genFrom(t *rapid.T, set string, label string) byte {
	return set[rapid.IntRange(0, len(set)-1).Draw(t, label)]
}

func genToken(t *rapid.T) string {
	switch rapid.IntRange(0, 9).Draw(t, "tokmode") {
	case 0:
		return "A123_-.:%*/"
	case 1:
		return string(genFrom(t, alphaL+alphaU, "tok0"))
	}
	n := rapid.IntRange(0, 8).Draw(t, "toklen")
	b := []byte{genFrom(t, alphaL+alphaU, "tok0")}
	for i := 0; i < n; i++ {
		b = append(b, genFrom(t, tokenTail, "tokc"))
	}
	return string(b)
}

func genKey(t *rapid.T) string {
	n := rapid.IntRange(0, 5).Draw(t, "keylen")
	b := []byte{genFrom(t, alphaL, "key0")}
	for i := 0; i < n; i++ {
		b = append(b, genFrom(t, keyTail, "keyc"))
	}
	return string(b)
}

func genPrintable(t *rapid.T) string {
	n := rapid.IntRange(0, 12).Draw(t, "strlen")
	if rapid.IntRange(0, 14).Draw(t, "longstr") == 0 {
		n = rapid.SampledFrom([]int{63, 64, 65, 255, 256, 257, 1023, 1024, 1025, 4096, 4097}).Draw(t, "longstrlen")
		return strings.Repeat("s", n-1) + string(rune(rapid.SampledFrom([]byte{'"', '\\', 'z', ' '}).Draw(t, "longstrlast")))
	}
	b := make([]byte, 0, n)
	for i := 0; i < n; i++ {
		switch rapid.IntRange(0, 5).Draw(t, "strmode") {
		case 0:
			b = append(b, '"')
		case 1:
			b = append(b, '\\')
		case 2:
			b = append(b, genFrom(t, " ;,=*~!", "strp"))
		default:
			b = append(b, byte(rapid.IntRange(0x20, 0x7e).Draw(t, "strc")))
		}
	}
	return string(b)
}

var intEdges = []int64{math.MinInt64, math.MaxInt64, 0, 1, -1, math.MinInt64 + 1, math.MaxInt64 - 1,
	999999999999999999, 1000000000000000000, -999999999999999999, -1000000000000000000, 9, 10, -9, -10}

func genItem(t *rapid.T) ItemC {
	switch rapid.IntRange(0, 3).Draw(t, "itemkind") {
	case 0:
		if rapid.Bool().Draw(t, "edge") {
			return ItemC{K: "int", I: rapid.SampledFrom(intEdges).Draw(t, "intedge")}
		}
		shift := rapid.IntRange(0, 63).Draw(t, "shift")
		return ItemC{K: "int", I: rapid.Int64().Draw(t, "int") >> uint(shift)}
	case 1:
		return ItemC{K: "str", S: Q(genPrintable(t))}
	case 2:
		return ItemC{K: "tok", S: Q(genToken(t))}
	}
	n := rapid.IntRange(0, 10).Draw(t, "byteslen")
	if n == 0 && rapid.Bool().Draw(t, "nilbytes") {
		return ItemC{K: "bytes", B: vh.B{}, NilB: true}
	}
	if rapid.IntRange(0, 9).Draw(t, "longbytes") == 0 {
		// long byte sequences: a chunked base64 encoder / decoder has boundaries that the values of
		// real headers (a 32-byte hash, a 70-byte signature) never reach; every residue mod 3
		n = rapid.SampledFrom([]int{47, 48, 49, 57, 255, 256, 257, 767, 768, 769, 1023, 1024, 1025, 1026, 3071, 3072, 3073, 4095, 4096, 4097, 5000}).Draw(t, "longlen")
		b := make([]byte, n)
		x := uint32(n)*2654435761 + 12345
		for i := range b {
			x = x*1664525 + 1013904223
			b[i] = byte(x >> 24)
		}
		return ItemC{K: "bytes", B: b}
	}
	b := make([]byte, n)
	for i := range b {
		switch rapid.IntRange(0, 4).Draw(t, "bytesel") {
		case 0:
			b[i] = 0x00
		case 1:
			b[i] = 0xff
		case 2:
			b[i] = rapid.SampledFrom([]byte{0xfb, 0xef, 0xbe, 0x3e, 0x3f, '\n', '*'}).Draw(t, "bytepick")
		default:
			b[i] = rapid.Byte().Draw(t, "byte")
		}
	}
	return ItemC{K: "bytes", B: b}
}

func genValue(t *rapid.T) ValueCase {
	if rapid.Bool().Draw(t, "pl") {
		c := ValueCase{Kind: "pl"}
		n := rapid.IntRange(1, 4).Draw(t, "members")
		for i := 0; i < n; i++ {
			m := MemberC{Label: Q(genToken(t)), Params: []ParamC{}}
			np := rapid.IntRange(0, 5).Draw(t, "nparams")
			seen := map[string]bool{}
			// parameter keys that differ LATE: a long common prefix, the last octet different, and the
			// bare prefix among them (duplicate detection and sorting must look at the whole key)
			lateLen := 0
			if np >= 2 && rapid.IntRange(0, 9).Draw(t, "latekeys") == 0 {
				lateLen = rapid.SampledFrom([]int{7, 8, 15, 16, 17, 31, 32, 33, 63, 64, 65, 255, 256, 1000}).Draw(t, "latekeylen")
			}
			for j := 0; j < np; j++ {
				k := genKey(t)
				if lateLen > 0 {
					k = "k" + strings.Repeat("-", lateLen-1) + string(rune('a'+j))
					if j == 1 {
						k = "k" + strings.Repeat("-", lateLen-1)
					}
				}
				if seen[k] {
					k += strconv.Itoa(j) // still a valid key; keeps keys distinct
				}
				seen[k] = true
				p := ParamC{Key: Q(k), Val: ItemC{K: "none"}}
				if rapid.IntRange(0, 4).Draw(t, "hasvalue") != 0 {
					p.Val = genItem(t)
				}
				m.Params = append(m.Params, p)
			}
			c.PL = append(c.PL, m)
		}
		return c
	}
	c := ValueCase{Kind: "ll"}
	n := rapid.IntRange(1, 4).Draw(t, "members")
	for i := 0; i < n; i++ {
		k := rapid.IntRange(1, 4).Draw(t, "inner")
		var in []ItemC
		for j := 0; j < k; j++ {
			in = append(in, genItem(t))
		}
		c.LL = append(c.LL, in)
	}
	return c
}

func TestPropValueRoundTrip(t *testing.T) { valueProp.Rapid(t, genValue) }

// TestConc*: batches of cases evaluated at the same time on separate goroutines (vh.Prop.Concurrent).
func TestConcValueRoundTrip(t *testing.T) { valueProp.Concurrent(t, genValue, 8, 3) }
func TestConcInvalidValues(t *testing.T)  { invalidProp.Concurrent(t, genInvalid, 8, 3) }
func TestConcStringsMutated(t *testing.T) { mutProp.Concurrent(t, genMutated, 8, 3) }

// TestValueEdgeCases feeds the boundary item values deterministically (independent of the seed):
// every int64 edge, every single printable character as a string, every token punctuation
// character, byte sequences of length 0..7 with all-zero / all-one / mixed bits, each as a lone
// List-of-Lists item and as a parameter value.
func TestValueEdgeCases(t *testing.T) {
	var items []ItemC
	for _, n := range intEdges {
		items = append(items, ItemC{K: "int", I: n})
	}
	for c := 0x20; c <= 0x7e; c++ {
		items = append(items, ItemC{K: "str", S: Q(string(rune(c)))}, ItemC{K: "str", S: Q("x" + string(rune(c)) + string(rune(c)))})
	}
	items = append(items, ItemC{K: "str", S: ""}, ItemC{K: "str", S: `\"`}, ItemC{K: "str", S: `"\`}, ItemC{K: "str", S: `a\\"b`})
	for _, p := range tokenPunct {
		items = append(items, ItemC{K: "tok", S: Q("a" + string(p))}, ItemC{K: "tok", S: Q("Z" + string(p) + "9" + string(p))})
	}
	items = append(items, ItemC{K: "tok", S: "a"}, ItemC{K: "tok", S: "Z"}, ItemC{K: "tok", S: "A123_-.:%*/"})
	for n := 0; n <= 7; n++ {
		for _, fill := range []byte{0x00, 0xff, 0xa5} {
			b := make([]byte, n)
			for i := range b {
				b[i] = fill ^ byte(i*37)
			}
			items = append(items, ItemC{K: "bytes", B: b})
		}
	}
	items = append(items, ItemC{K: "bytes", B: vh.B{}, NilB: true}, ItemC{K: "bytes", B: vh.B{0xfb, 0xff}}, ItemC{K: "bytes", B: vh.B{0xff, 0xef, 0xbe}})
	for _, it := range items {
		if !valueProp.One(t, ValueCase{Kind: "ll", LL: [][]ItemC{{it}}}) {
			return
		}
		if !valueProp.One(t, ValueCase{Kind: "ll", LL: [][]ItemC{{it, it}, {it}}}) {
			return
		}
		if !valueProp.One(t, ValueCase{Kind: "pl", PL: []MemberC{{Label: "l", Params: []ParamC{{Key: "z", Val: it}, {Key: "a", Val: ItemC{K: "none"}}, {Key: "m-1", Val: it}}}}}) {
			return
		}
	}
	// all orders of up to four keys (sortedness / uniqueness)
	keys := []string{"b", "a", "ab", "a-", "a0", "a_", "z9"}
	for i := range keys {
		for j := range keys {
			if i == j {
				continue
			}
			m := MemberC{Label: "t", Params: []ParamC{{Key: Q(keys[i]), Val: ItemC{K: "int", I: 1}}, {Key: Q(keys[j]), Val: ItemC{K: "none"}}}}
			if !valueProp.One(t, ValueCase{Kind: "pl", PL: []MemberC{m}}) {
				return
			}
			for k := range keys {
				if k == i || k == j {
					continue
				}
				m3 := m
				m3.Params = append(append([]ParamC{}, m.Params...), ParamC{Key: Q(keys[k]), Val: ItemC{K: "tok", S: "v"}})
				if !valueProp.One(t, ValueCase{Kind: "pl", PL: []MemberC{m3, m}}) {
					return
				}
			}
		}
	}
}

// ------------------------------------------------------------------- (2) invalid-values

var invalidProp = vh.Define("C16", "invalid-values", checkInvalid)

func checkInvalid(c ValueCase, r *vh.R) {
	why := c.invalidity()
	if why == "" || why == "malformed-case" {
		r.Skip = true
		return
	}
	r.NT()
	r.Class(c.Kind + "-" + why)
	v := c.build(0)
	s, err := v.str()
	if err == nil {
		r.Failf("invalid-accepted", "String() serialised an invalid %s value (%s; %s) as %q", c.Kind, why, describe(c), trunc(s))
		return
	}
	if c.Kind == "pl" {
		for i, m := range c.PL {
			if mw := m.invalidity(); mw != "" {
				ps, err := v.pl[i].String()
				if err == nil {
					r.Failf("invalid-accepted", "(*ParameterisedIdentifier).String() serialised invalid member %d (%s; %s) as %q", i, mw, describe(c), trunc(ps))
					return
				}
			}
		}
	}
}

// ----------------------------------------------------------------------------- call histories
//
// The writers are judged over a HISTORY of calls in one process: refused values (which leave a
// partly written output behind inside the writer) alternate with valid ones; every step is
// judged exactly like a single value (round trip / uniqueness / refusal), so output that
// depends on what was serialised or refused before is seen.

type HistoryCase struct {
	Steps []ValueCase `json:"steps"`
}

var historyProp = vh.Define("C16", "history", func(c HistoryCase, r *vh.R) {
	// Unjudged successful calls first: whatever earlier cases of this process left behind in the
	// writers is used up here, so that a failure below is caused by this case's own steps (and the
	// replay file reproduces it in a fresh process).
	for i := 0; i < 8; i++ {
		pi := sh.ParameterisedIdentifier{Label: "flush", Params: sh.Parameters{}}
		pi.String()
		sh.ParameterisedList{pi}.String()
		sh.ListOfLists{{sh.Token("flush")}}.String()
	}
	refusedBefore, validAfterRefusal := false, 0
	for i, st := range c.Steps {
		why := st.invalidity()
		if why == "malformed-case" {
			r.Skip = true
			return
		}
		sub := &vh.R{}
		if why == "" {
			checkValue(st, sub)
			if refusedBefore {
				validAfterRefusal++
			}
		} else {
			checkInvalid(st, sub)
			refusedBefore = true
		}
		if sub.V != nil {
			r.Failf("history-"+sub.V.Kind, "step %d of %d (after %d earlier calls, refused before: %v): %s", i, len(c.Steps), i, refusedBefore, sub.V.Msg)
			return
		}
	}
	if validAfterRefusal > 0 {
		r.NT()
		r.Class("valid-after-refusal")
	}
})

func TestPropHistory(t *testing.T) {
	historyProp.Rapid(t, func(t *rapid.T) HistoryCase {
		var c HistoryCase
		n := rapid.IntRange(2, 5).Draw(t, "steps")
		for i := 0; i < n; i++ {
			if rapid.IntRange(0, 1).Draw(t, "invalid") == 0 {
				c.Steps = append(c.Steps, genInvalid(t))
			} else {
				c.Steps = append(c.Steps, genValue(t))
			}
		}
		return c
	})
}

func describe(c ValueCase) string {
	b, _ := json.Marshal(c)
	return truncN(string(b), 500)
}

var badStringPieces = []string{"\x00", "\x01", "\t", "\n", "\r", "\x1f", "\x7f", "\x80", "\xff", "\xc3", "\u00e9", "\u0080", "\u00a0", "\u65e5", "\ufffd", "\U0001F310"}

func genBadString(t *rapid.T) string {
	base := genPrintable(t)
	var piece string
	if rapid.Bool().Draw(t, "listed") {
		piece = rapid.SampledFrom(badStringPieces).Draw(t, "badpiece")
	} else {
		c := byte(rapid.IntRange(0, 0x20+0x80).Draw(t, "badbyte")) // 0x00-0x1f, then 0x7f-0xff
		if c >= 0x20 {
			c = c - 0x20 + 0x7f
		}
		piece = string([]byte{c})
	}
	at := rapid.IntRange(0, len(base)).Draw(t, "at")
	return base[:at] + piece + base[at:]
}

// wideLookalike: a code point >= U+0100 whose LOW octet is a character that tokens and keys allow
// (U+0161 -> 'a', U+0430 -> '0', U+4E2D -> '-', U+212A -> '*', U+0141 -> 'A', U+FF5A -> 'Z' ...):
// a validator that narrows runes to bytes lets these through.
func wideLookalike(t *rapid.T) string {
	low := rapid.SampledFrom([]byte("az09AZ-_*.:/%")).Draw(t, "widelow")
	hi := rapid.SampledFrom([]rune{0x100, 0x400, 0x2100, 0x4e00, 0xff00, 0x1f600, 0x10ff00}).Draw(t, "widehi")
	return string(hi | rune(low))
}

func genBadToken(t *rapid.T) string {
	if rapid.IntRange(0, 5).Draw(t, "badtokwide") == 0 {
		tok := genToken(t)
		at := rapid.IntRange(1, len(tok)).Draw(t, "wideat")
		return tok[:at] + wideLookalike(t) + tok[at:]
	}
	switch rapid.IntRange(0, 3).Draw(t, "badtokmode") {
	case 0:
		return rapid.SampledFrom([]string{"", "1a", "_a", "-a", "*a", "a b", " a", "a ", "a\"", "a,b", "a;b", "a=b", "a\n", "a\u00e9", "a\x80", "a(", "a+", "a~", "a\t", "a\\", "/", "9", "\u00e9"}).Draw(t, "badtok")
	case 1: // bad first character
		tok := genToken(t)
		c := byte(rapid.IntRange(0, 255).Draw(t, "first"))
		if c >= 'a' && c <= 'z' || c >= 'A' && c <= 'Z' {
			c = genFrom(t, digits+tokenPunct+" ", "firstp")
		}
		return string([]byte{c}) + tok[1:]
	}
	tok := genToken(t)
	c := byte(rapid.IntRange(0, 255).Draw(t, "badc"))
	if validToken("a" + string([]byte{c})) {
		c = genFrom(t, " \t\n\"\\,;=+~!@#$^&()[]{}<>?|'`\x7f\x80\xff", "badp")
	}
	at := rapid.IntRange(1, len(tok)).Draw(t, "at")
	return tok[:at] + string([]byte{c}) + tok[at:]
}

func genBadKey(t *rapid.T) string {
	if rapid.IntRange(0, 5).Draw(t, "badkeywide") == 0 {
		k := genKey(t)
		at := rapid.IntRange(1, len(k)).Draw(t, "widekat")
		return k[:at] + wideLookalike(t) + k[at:]
	}
	switch rapid.IntRange(0, 3).Draw(t, "badkeymode") {
	case 0:
		return rapid.SampledFrom([]string{"", "A", "Ab", "aB", "InvalidKey", "1a", "_a", "-a", "a.b", "a:b", "a*", "a/", "a%", "a b", "a=", "a;", "a\u00e9", "a\x80", "a\n", " a", "\u00e9"}).Draw(t, "badkey")
	case 1:
		k := genKey(t)
		c := byte(rapid.IntRange(0, 255).Draw(t, "first"))
		if c >= 'a' && c <= 'z' {
			c = genFrom(t, alphaU+digits+"_- ", "firstp")
		}
		return string([]byte{c}) + k[1:]
	}
	k := genKey(t)
	c := byte(rapid.IntRange(0, 255).Draw(t, "badc"))
	if validKey("a" + string([]byte{c})) {
		c = genFrom(t, alphaU+".:%*/ \t\n\"\\,;=+\x7f\x80\xff", "badp")
	}
	at := rapid.IntRange(1, len(k)).Draw(t, "at")
	return k[:at] + string([]byte{c}) + k[at:]
}

func genBadItem(t *rapid.T, param bool) ItemC {
	switch rapid.IntRange(0, 2).Draw(t, "baditem") {
	case 0:
		return ItemC{K: "str", S: Q(genBadString(t))}
	case 1:
		return ItemC{K: "tok", S: Q(genBadToken(t))}
	}
	kinds := []string{"goint", "int32", "uint64", "float", "bool", "key", "ptr"}
	if !param {
		kinds = append(kinds, "nil", "nil")
	}
	k := rapid.SampledFrom(kinds).Draw(t, "badtype")
	return ItemC{K: k, I: rapid.Int64Range(-3, 3).Draw(t, "badint"), S: "abc"}
}

func genInvalid(t *rapid.T) ValueCase {
	_ = rapid.Uint64().Draw(t, "salt") // the driver gives every spec the same seed: decorrelate from the valid-value stream
	c := genValue(t)
	if c.Kind == "pl" {
		mi := rapid.IntRange(0, len(c.PL)-1).Draw(t, "member")
		m := &c.PL[mi]
		switch d := rapid.SampledFrom([]string{"empty", "label", "key", "key", "item", "item", "item"}).Draw(t, "defect"); d {
		case "empty":
			c.PL = nil
			c.NilOuter = rapid.Bool().Draw(t, "nilouter")
			c.Defect = "empty parameterised list"
		case "label":
			m.Label = Q(genBadToken(t))
			c.Defect = "malformed label"
		case "key":
			k := Q(genBadKey(t))
			if len(m.Params) > 0 && rapid.Bool().Draw(t, "replacekey") {
				m.Params[rapid.IntRange(0, len(m.Params)-1).Draw(t, "which")].Key = k
			} else {
				p := ParamC{Key: k, Val: ItemC{K: "none"}}
				if rapid.Bool().Draw(t, "withvalue") {
					p.Val = genItem(t)
				}
				m.Params = append(m.Params, p)
			}
			c.Defect = "malformed key"
		default:
			bad := genBadItem(t, true)
			if len(m.Params) > 0 && rapid.Bool().Draw(t, "replaceval") {
				m.Params[rapid.IntRange(0, len(m.Params)-1).Draw(t, "which")].Val = bad
			} else {
				m.Params = append(m.Params, ParamC{Key: "zz-bad", Val: bad})
			}
			c.Defect = "invalid parameter value"
		}
		return c
	}
	switch d := rapid.SampledFrom([]string{"empty", "inner", "item", "item", "item"}).Draw(t, "defect"); d {
	case "empty":
		c.LL = nil
		c.NilOuter = rapid.Bool().Draw(t, "nilouter")
		c.Defect = "empty list of lists"
	case "inner":
		at := rapid.IntRange(0, len(c.LL)).Draw(t, "at")
		c.NilOuter = rapid.Bool().Draw(t, "nilinner") // doubles as "nil inner slice"
		c.LL = append(c.LL[:at:at], append([][]ItemC{{}}, c.LL[at:]...)...)
		c.Defect = "empty inner list"
	default:
		li := rapid.IntRange(0, len(c.LL)-1).Draw(t, "list")
		ii := rapid.IntRange(0, len(c.LL[li])-1).Draw(t, "item")
		c.LL[li][ii] = genBadItem(t, false)
		c.Defect = "invalid item"
	}
	return c
}

func TestPropInvalidValues(t *testing.T) { invalidProp.Rapid(t, genInvalid) }

// TestInvalidEdgeCases enumerates every single byte value 0..255 in each position class:
// inside a string, as first / later character of a token, a label and a key; plus the empty
// lists and every unsupported item type in every position.
func TestInvalidEdgeCases(t *testing.T) {
	one := func(c ValueCase) bool { return invalidProp.One(t, c) } // valid combinations are skipped by the check
	for b := 0; b < 256; b++ {
		ch := string([]byte{byte(b)})
		cases := []ValueCase{
			{Kind: "ll", LL: [][]ItemC{{{K: "str", S: Q("a" + ch + "c")}}}},
			{Kind: "ll", LL: [][]ItemC{{{K: "int", I: 1}}, {{K: "tok", S: "x"}, {K: "str", S: Q(ch)}}}},
			{Kind: "pl", PL: []MemberC{{Label: "l", Params: []ParamC{{Key: "k", Val: ItemC{K: "str", S: Q(ch + "z")}}}}}},
			{Kind: "ll", LL: [][]ItemC{{{K: "tok", S: Q("a" + ch)}}}},
			{Kind: "ll", LL: [][]ItemC{{{K: "tok", S: Q(ch + "a")}}}},
			{Kind: "ll", LL: [][]ItemC{{{K: "tok", S: Q(ch)}}}},
			{Kind: "pl", PL: []MemberC{{Label: Q("a" + ch + "b")}}},
			{Kind: "pl", PL: []MemberC{{Label: Q(ch + "b")}}},
			{Kind: "pl", PL: []MemberC{{Label: "ok"}, {Label: Q(ch)}}},
			{Kind: "pl", PL: []MemberC{{Label: "l", Params: []ParamC{{Key: "k", Val: ItemC{K: "tok", S: Q("t" + ch)}}}}}},
			{Kind: "pl", PL: []MemberC{{Label: "l", Params: []ParamC{{Key: Q("k" + ch), Val: ItemC{K: "int", I: 1}}}}}},
			{Kind: "pl", PL: []MemberC{{Label: "l", Params: []ParamC{{Key: Q(ch + "k"), Val: ItemC{K: "none"}}}}}},
			{Kind: "pl", PL: []MemberC{{Label: "l", Params: []ParamC{{Key: "a", Val: ItemC{K: "none"}}, {Key: Q(ch), Val: ItemC{K: "none"}}}}}},
		}
		for _, c := range cases {
			if !one(c) {
				return
			}
		}
	}
	for _, s := range []string{"\u00e9", "\u65e5\u672c", "a\u0080", "\ufffd", "ab\U0001F310"} {
		for _, c := range []ValueCase{
			{Kind: "ll", LL: [][]ItemC{{{K: "str", S: Q(s)}}}},
			{Kind: "ll", LL: [][]ItemC{{{K: "tok", S: Q("a" + s)}}}},
			{Kind: "pl", PL: []MemberC{{Label: Q("a" + s)}}},
			{Kind: "pl", PL: []MemberC{{Label: "a", Params: []ParamC{{Key: Q("a" + s), Val: ItemC{K: "none"}}}}}},
		} {
			if !one(c) {
				return
			}
		}
	}
	for _, c := range []ValueCase{
		{Kind: "pl"}, {Kind: "pl", NilOuter: true}, {Kind: "ll"}, {Kind: "ll", NilOuter: true},
		{Kind: "ll", LL: [][]ItemC{{}}}, {Kind: "ll", LL: [][]ItemC{{}}, NilOuter: true},
		{Kind: "ll", LL: [][]ItemC{{{K: "int", I: 1}}, {}}}, {Kind: "ll", LL: [][]ItemC{{}, {{K: "int", I: 1}}}},
		{Kind: "ll", LL: [][]ItemC{{{K: "int", I: 1}}, {}, {{K: "int", I: 2}}}},
		{Kind: "pl", PL: []MemberC{{Label: ""}}}, {Kind: "pl", PL: []MemberC{{Label: "a", Params: []ParamC{{Key: "", Val: ItemC{K: "none"}}}}}},
		{Kind: "ll", LL: [][]ItemC{{{K: "tok", S: ""}}}},
	} {
		if !one(c) {
			return
		}
	}
	for _, k := range []string{"goint", "int32", "uint64", "float", "bool", "key", "ptr", "nil"} {
		bad := ItemC{K: k, I: 1, S: "abc"}
		for _, c := range []ValueCase{
			{Kind: "ll", LL: [][]ItemC{{bad}}},
			{Kind: "ll", LL: [][]ItemC{{{K: "int", I: 1}, bad}}},
			{Kind: "ll", LL: [][]ItemC{{{K: "int", I: 1}}, {bad, {K: "int", I: 1}}}},
			{Kind: "pl", PL: []MemberC{{Label: "a", Params: []ParamC{{Key: "k", Val: bad}}}}},
			{Kind: "pl", PL: []MemberC{{Label: "a"}, {Label: "b", Params: []ParamC{{Key: "j", Val: ItemC{K: "int", I: 1}}, {Key: "k", Val: bad}}}}},
		} {
			if !one(c) {
				return
			}
		}
	}
}

// ------------------------------------------------------------ (3)/(4) strings vs. refsh

// StrCase is one header string handed to one of the two parsers.
type StrCase struct {
	Parser string `json:"parser"` // "pl" (ParseParameterisedList) or "ll" (ParseListOfLists)
	Input  Q      `json:"input"`
}

type outcome struct {
	accepted   bool
	ref        refsh.Verdict
	nontrivial bool
	skippedF10 bool
	kind, msg  string
}

func (o *outcome) fail(kind, f string, a ...any) {
	if o.kind == "" {
		o.kind, o.msg = kind, fmt.Sprintf(f, a...)
	}
}

// judge is the oracle shared by the exhaustive and the mutated string sub-checks.
func judge(parser, in string, skip bool) (o outcome) {
	ref := parseRef(parser, in)
	o.ref = ref.Verdict
	if ref.CRLFInBytes && skip {
		o.skippedF10 = true
		return
	}
	got, err := parseRepo(parser, in)
	o.accepted = err == nil
	// Non-trivial: accepted, or the reference scanner consumed at least two characters before it stopped.
	o.nontrivial = o.accepted || ref.Pos >= 2
	name := "ParseListOfLists"
	if parser == "pl" {
		name = "ParseParameterisedList"
	}
	var gref refsh.Value
	if o.accepted {
		gref, err = got.ref()
		if err != nil {
			o.fail("wrong-value", "%s(%q): %v", name, trunc(in), err)
			return
		}
	}
	switch ref.Verdict {
	case refsh.Reject:
		if o.accepted {
			kind := "accepted-malformed"
			if ref.CRLFInBytes {
				kind = "accepted-crlf-in-byte-sequence"
			}
			o.fail(kind, "%s(%q) succeeded with %s, but the draft-09 grammar rejects the input at offset %d: %s", name, trunc(in), showRef(gref), ref.Pos, ref.Why)
			return
		}
	case refsh.Accept:
		if !o.accepted {
			o.fail("rejected-wellformed", "%s(%q) failed (%v), but the input is in the draft-09 grammar subset with value %s", name, trunc(in), err, showRef(ref.Value))
			return
		}
		if !refsh.EqualValue(gref, ref.Value) {
			o.fail("wrong-value", "%s(%q) returned %s, the grammar gives %s", name, trunc(in), showRef(gref), showRef(ref.Value))
			return
		}
	}
	if !o.accepted {
		return
	}
	// parse -> serialize -> parse is the identity on every accepted input
	s2, err := got.str()
	if err != nil {
		o.fail("reserialize-failed", "%s(%q) returned %s which String() refuses: %v", name, trunc(in), showRef(gref), err)
		return
	}
	got2, err := parseRepo(parser, s2)
	if err != nil {
		o.fail("reparse-failed", "%s(%q) = %s serialises to %q which the parser rejects: %v", name, trunc(in), showRef(gref), trunc(s2), err)
		return
	}
	gref2, err := got2.ref()
	if err != nil || !refsh.EqualValue(gref, gref2) {
		o.fail("reparse-differs", "%s(%q) = %s; serialised %q; parsed again = %s (err %v)", name, trunc(in), showRef(gref), trunc(s2), showRef(gref2), err)
	}
	return
}

func strCheck(c StrCase, r *vh.R) {
	if c.Parser != "pl" && c.Parser != "ll" {
		r.Skip = true
		return
	}
	o := judge(c.Parser, string(c.Input), skipF10())
	if o.skippedF10 {
		r.Class(c.Parser + "-excluded-crlf-in-byte-sequence(F10 switch)")
		return
	}
	if o.nontrivial {
		r.NT()
	}
	if o.accepted {
		r.Class(c.Parser + "-accept")
	} else {
		r.Class(c.Parser + "-reject")
	}
	r.Class(c.Parser + "-ref-" + o.ref.String())
	if o.kind != "" {
		r.Failf(o.kind, "%s", o.msg)
	}
}

var exhProp = vh.Define("C16", "strings-exhaustive", strCheck)
var mutProp = vh.Define("C16", "strings-mutated", strCheck)

var reducedAlphabet = []byte{'a', 'A', '1', '-', '_', ';', ',', '=', '"', '\\', '*', '/', ' ', '\t', '\n', 0x7f}

func TestStringsExhaustive(t *testing.T) {
	maxLen := vh.Scale(5, 6)
	si, sn := vh.Shard()
	skip := skipF10()
	classes := map[string]int64{}
	var evals, nontrivial, excluded int64
	samples := map[string]any{}
	failed := false
	visit := func(s string) bool {
		for _, parser := range []string{"pl", "ll"} {
			o := judge(parser, s, skip)
			if o.kind != "" {
				// full bookkeeping (replay file, violation record) only for the failing string
				exhProp.One(t, StrCase{Parser: parser, Input: Q(s)})
				failed = true
				return false
			}
			if o.skippedF10 {
				excluded++
				classes[parser+"-excluded-crlf-in-byte-sequence(F10 switch)"]++
				continue
			}
			evals++
			if o.nontrivial {
				nontrivial++
			}
			if o.accepted {
				classes[parser+"-accept"]++
				if len(s) == maxLen && samples[parser] == nil && strings.ContainsAny(s, ";,") {
					samples[parser] = StrCase{Parser: parser, Input: Q(s)}
				}
			} else {
				classes[parser+"-reject"]++
			}
			classes[parser+"-ref-"+o.ref.String()]++
			if o.ref == refsh.Unspecified && samples["unspecified"] == nil {
				samples["unspecified"] = StrCase{Parser: parser, Input: Q(s)}
			}
		}
		return true
	}
	buf := make([]byte, 0, maxLen)
	var walk func() bool
	walk = func() bool {
		if !visit(string(buf)) {
			return false
		}
		if len(buf) == maxLen {
			return true
		}
		for _, ch := range reducedAlphabet {
			buf = append(buf, ch)
			ok := walk()
			buf = buf[:len(buf)-1]
			if !ok {
				return false
			}
		}
		return true
	}
	ok := true
	if si == 0 {
		ok = visit("")
	}
	for k, ch := range reducedAlphabet {
		if !ok {
			break
		}
		if k%sn != si {
			continue
		}
		buf = append(buf[:0], ch)
		ok = walk()
	}
	vh.Bulk("strings-exhaustive", evals, nontrivial, classes, samples["pl"])
	vh.Bulk("strings-exhaustive", 0, 0, nil, samples["ll"])
	vh.Bulk("strings-exhaustive", 0, 0, nil, samples["unspecified"])
	if failed || !ok {
		return
	}
	total := int64(0)
	pow := int64(1)
	for l := 0; l <= maxLen; l++ {
		total += pow
		pow *= int64(len(reducedAlphabet))
	}
	if excluded > 0 {
		t.Logf("strings-exhaustive: %d (parser,string) pairs excluded by VERIF_C16_SKIP_F10; not marking the space as exhaustively compared", excluded)
		return
	}
	vh.Exhaustive("strings-exhaustive", fmt.Sprintf("every string of length 0..%d over the 16-character alphabet {a A 1 - _ ; , = \" \\ * / SP HTAB LF DEL} (%d strings, split over %d process(es) by first character) x both parsers", maxLen, total, sn))
}

// --- mutated strings

type drawer struct{ t *rapid.T }

func (d drawer) n(n int, label string) int { return rapid.IntRange(0, n-1).Draw(d.t, label) }

var owsChoices = []string{"", "", "", " ", "\t", "  ", " \t"}

// renderItem writes an item in one of the spellings the grammar allows.
func renderItem(d drawer, it ItemC, b *strings.Builder) {
	switch it.K {
	case "int":
		switch {
		case it.I == 0 && d.n(3, "negzero") == 0:
			b.WriteString("-0")
		case d.n(40, "leadzero") == 0: // reference answers Unspecified
			if it.I < 0 {
				b.WriteString("-0" + strconv.FormatUint(uint64(-it.I), 10))
			} else {
				b.WriteString("0" + strconv.FormatInt(it.I, 10))
			}
		default:
			b.WriteString(strconv.FormatInt(it.I, 10))
		}
	case "str":
		b.WriteByte('"')
		for i := 0; i < len(it.S); i++ {
			if it.S[i] == '"' || it.S[i] == '\\' {
				b.WriteByte('\\')
			}
			b.WriteByte(it.S[i])
		}
		b.WriteByte('"')
	case "tok":
		b.WriteString(string(it.S))
	case "bytes":
		const tbl = "ABCDEFGHIJKLMNOPQRSTUVWXYZabcdefghijklmnopqrstuvwxyz0123456789+/"
		b.WriteByte('*')
		src := []byte(it.B)
		pad := d.n(4, "pad") != 0
		for len(src) >= 3 {
			v := uint(src[0])<<16 | uint(src[1])<<8 | uint(src[2])
			b.WriteByte(tbl[v>>18&63])
			b.WriteByte(tbl[v>>12&63])
			b.WriteByte(tbl[v>>6&63])
			b.WriteByte(tbl[v&63])
			src = src[3:]
		}
		switch len(src) {
		case 1:
			v := uint(src[0]) << 16
			b.WriteByte(tbl[v>>18&63])
			b.WriteByte(tbl[v>>12&63])
			if pad {
				b.WriteString("==")
			}
		case 2:
			v := uint(src[0])<<16 | uint(src[1])<<8
			b.WriteByte(tbl[v>>18&63])
			b.WriteByte(tbl[v>>12&63])
			b.WriteByte(tbl[v>>6&63])
			if pad {
				b.WriteString("=")
			}
		}
		b.WriteByte('*')
	}
}

func renderValue(d drawer, c ValueCase) string {
	var b strings.Builder
	ows := func() { b.WriteString(owsChoices[d.n(len(owsChoices), "ows")]) }
	ows()
	if c.Kind == "pl" {
		for i, m := range c.PL {
			if i > 0 {
				ows()
				b.WriteByte(',')
				ows()
			}
			b.WriteString(string(m.Label))
			for _, p := range m.Params {
				ows()
				b.WriteByte(';')
				ows()
				b.WriteString(string(p.Key))
				if p.Val.K != "none" {
					b.WriteByte('=')
					renderItem(d, p.Val, &b)
				}
			}
		}
	} else {
		for i, in := range c.LL {
			if i > 0 {
				ows()
				b.WriteByte(',')
				ows()
			}
			for j, it := range in {
				if j > 0 {
					ows()
					b.WriteByte(';')
					ows()
				}
				renderItem(d, it, &b)
			}
		}
	}
	ows()
	return b.String()
}

const editAlphabet = "aAzZbB019 \t-_;;,,==\"\"\\\\**/+.:%?~\r\n\x00\x7f\x80"

func genMutated(t *rapid.T) StrCase {
	d := drawer{t}
	_ = rapid.Uint32().Draw(t, "salt") // see genInvalid
	v := genValue(t)
	s := renderValue(d, v)
	parser := v.Kind
	if d.n(10, "crossparser") == 0 { // a list-of-lists text handed to the other parser and vice versa
		parser = map[string]string{"pl": "ll", "ll": "pl"}[parser]
	}
	edits := rapid.SampledFrom([]int{0, 1, 1, 1, 2, 2, 3}).Draw(t, "edits")
	for e := 0; e < edits; e++ {
		b := []byte(s)
		switch d.n(8, "op") {
		case 0, 1, 2: // insert
			at := d.n(len(b)+1, "at")
			ch := editAlphabet[d.n(len(editAlphabet), "ch")]
			b = append(b[:at:at], append([]byte{ch}, b[at:]...)...)
		case 3, 4: // delete
			if len(b) > 0 {
				at := d.n(len(b), "at")
				b = append(b[:at:at], b[at+1:]...)
			}
		case 5, 6: // replace
			if len(b) > 0 {
				b[d.n(len(b), "at")] = editAlphabet[d.n(len(editAlphabet), "ch")]
			}
		default: // duplicate a segment (duplicate parameters, doubled separators) or truncate
			if len(b) > 0 {
				i := d.n(len(b), "from")
				j := i + 1 + d.n(min(len(b)-i, 8), "seglen")
				if d.n(3, "trunc") == 0 {
					b = b[:j]
				} else {
					b = append(b[:j:j], append(append([]byte{}, b[i:j]...), b[j:]...)...)
				}
			}
		}
		s = string(b)
	}
	return StrCase{Parser: parser, Input: Q(s)}
}

func TestPropStringsMutated(t *testing.T) { mutProp.Rapid(t, genMutated) }
