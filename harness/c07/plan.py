PLAN = dict(
    id="C07", pkg="c07", level="exploration", cli=True,
    rule=("lib (in-process, real temp files): ObtainIntegrityBlock + ComputeWebBundleSha512 + a history of 1..4 SignAndAddNewSignature calls on one "
          "IntegrityBlockSigner; files = filler of boundary/random length 0..64 KiB, the repository's testfile.wbn or a freshly written b2 bundle, with a trailing "
          "length field that is correct, too small (incl. a genuinely signed file), or larger than the file (incl. >= 2^63); keys derived from drawn seeds (a third of the later steps sign with the key of an earlier step again, mostly through the SAME strategy object); per "
          "signature 0..3 extra attributes with UTF-8 names sorting before/after the mandatory key and values of every CBOR length class; strategies honest "
          "(the repository's and an own one), wrong public key, corrupted signature, short signature, Sign error. Oracle after every step: honest => nil, stack "
          "grew by one at index 0 with older entries unchanged, CborBytes decodes (refcbor) to [magic, 1b\\0\\0, [[attrs, sig]...]] exactly, is core-deterministic "
          "and equals the canonical re-encoding of its content, every signature i verifies under attrs_i[ed25519PublicKey] over len64|SHA-512(file)|len64|"
          "block-before-i|len64|attrs_i recomputed by the harness; dishonest => error and stack unchanged; bad trailing length => error; Web Bundle ID == own "
          "lower-case unpadded base32(key|000102). cli: sign-bundle integrity-block on generated files: exit 0, output == block | input bytes, one verifying "
          "signature, printed ID == own computation == dump-id -privateKey == dump-id -publicKey; its own output / too-small / too-large trailing length as "
          "Every verified (key, signature, data) triple is also put to integrityblock.VerifyEd25519Signature, which must say yes to it and never yes to a one-bit neighbour of signature, data or key. "
          "input => non-zero exit. Non-trivial: >= 2 signatures in the history, or extra attributes, or a dishonest strategy (lib); every executed pipeline (cli)."),
    assumptions=TRUSTED + ["crypto/ed25519 Verify as the judge of signatures", "exit status and files of the CLI are the observation, never message wording "
                           "(except the 56-character base32 word on stdout)",
                           "VERIF_C07_SKIP_F4=1 (off by default) excludes the outcome 'dishonest strategy accepted' (counted in class excluded-f4)"],
    technique="stateful rapid histories against a reference model + independent recomputation of block, data-to-be-signed and ID; end-to-end CLI pipelines",
    level_text=("Random signing histories over boundary-sized real files with honest and dishonest strategies; every observable (block bytes, order of the "
                "stack, each signature, hash, ID) is recomputed from the explainer by code that shares nothing with the repository (refcbor, crypto/ed25519, "
                "own base32); the command-line path is exercised through the binary built from the tree under test."),
    level_note=NOTE_BASE,
    runs=[
        dict(name="conc", run="^(TestConcLib)$", checks=(40, 2000), shards=(2, 8), timeout=(400, 3600), race=True),
        dict(name="lib", run="^(TestPropLib|TestCorpus)$", checks=(8000, 100000), shards=(1, 16), timeout=(300, 3600)),
        dict(name="cli", run="^(TestCLILookalikes|TestPropCLI)$", checks=(40, 2000), shards=(1, 1), timeout=(300, 3600)),
    ],
    require=[("lib", "file:lookalike"), ("cli", "file:lookalike"), ("lib", "strategy-object-reused"), ("lib", "file-offset-advanced"), ("lib", "dishonest-wrong-key"), ("lib", "history>=2"), ("lib", "extra-attrs"), ("lib", "already-signed-input"), ("lib", "length-too-large"),
             ("cli", "signed-ok"), ("cli", "already-signed-input"), ("cli", "length-too-large")],
)
