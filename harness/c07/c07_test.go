// Package c07: signing a bundle file with an integrity block yields exactly the deterministic-CBOR
// block [magic, version, signature list] followed by the untouched file; every listed signature
// verifies under the key in its own attributes over the data-to-be-signed recomputed by this
// harness; newest first; the Web Bundle ID is lower-case unpadded base32(key || 00 01 02); the
// signer refuses (error, nothing added) a signature that does not verify, an input that already
// carries a block and a trailing length larger than the file.
package c07

import (
	"bytes"
	"context"
	"crypto/ed25519"
	"crypto/sha512"
	"encoding/binary"
	"errors"
	"fmt"
	"io"
	"os"
	"os/exec"
	"path/filepath"
	"regexp"
	"testing"
	"time"
	"unicode/utf8"

	"github.com/WICG/webpackage/go/integrityblock"
	"github.com/WICG/webpackage/go/integrityblock/webbundleid"
	"github.com/WICG/webpackage/go/verifh/bundlekit"
	"github.com/WICG/webpackage/go/verifh/gen"
	"github.com/WICG/webpackage/go/verifh/ref/refcbor"
	"github.com/WICG/webpackage/go/verifh/vh"
	"pgregory.net/rapid"
)

func TestMain(m *testing.M)   { vh.Main(m) }
func TestReplay(t *testing.T) { vh.Replay(t) }
func TestCorpus(t *testing.T) { vh.Corpus(t) }

// ---- reference model (shares nothing with the repository) ------------------------------------

// Constants restated from the integrity-block explainer, not imported from the code under test.
var (
	refMagic   = []byte{0xf0, 0x9f, 0x96, 0x8b, 0xf0, 0x9f, 0x93, 0xa6}
	refVersion = []byte{0x31, 0x62, 0x00, 0x00} // "1b\0\0"
)

const pkAttr = "ed25519PublicKey"

// sigEntry is one [attributes, signature] pair (model side / decoded side).
type sigEntry struct {
	attrs map[string][]byte
	sig   []byte
}

func refAttrs(a map[string][]byte) []byte {
	kvs := make([]refcbor.KV, 0, len(a))
	for k, v := range a {
		kvs = append(kvs, refcbor.KV{K: refcbor.Tstr(k), V: refcbor.Bstr(v)})
	}
	return refcbor.MapBytewise(kvs)
}

// refBlock is the canonical CBOR of the block holding the given signatures (index 0 first).
func refBlock(sigs []sigEntry) []byte {
	items := make([][]byte, 0, len(sigs))
	for _, s := range sigs {
		items = append(items, refcbor.Arr(refAttrs(s.attrs), refcbor.Bstr(s.sig)))
	}
	return refcbor.Arr(refcbor.Bstr(refMagic), refcbor.Bstr(refVersion), refcbor.Arr(items...))
}

func be64(n int) []byte {
	var b [8]byte
	binary.BigEndian.PutUint64(b[:], uint64(n))
	return b[:]
}

// refData is the data-to-be-signed: len64|hash|len64|block|len64|attributes.
func refData(hash, block, attrs []byte) []byte {
	var out []byte
	out = append(out, be64(len(hash))...)
	out = append(out, hash...)
	out = append(out, be64(len(block))...)
	out = append(out, block...)
	out = append(out, be64(len(attrs))...)
	out = append(out, attrs...)
	return out
}

// parseBlock decodes b, which must be exactly one CBOR item of the integrity-block shape.
func parseBlock(b []byte) ([]sigEntry, error) {
	it, err := refcbor.Decode(b, 0)
	if err != nil {
		return nil, fmt.Errorf("not well-formed CBOR: %v", err)
	}
	if it.End != len(b) {
		return nil, fmt.Errorf("%d trailing bytes after the block item", len(b)-it.End)
	}
	if it.Major != 4 || len(it.Kids) != 3 {
		return nil, fmt.Errorf("top level is not an array of 3: %s", trunc(refcbor.Describe(it)))
	}
	if k := it.Kids[0]; k.Major != 2 || !bytes.Equal(k.Content, refMagic) {
		return nil, fmt.Errorf("element 0 is not the byte string magic: %s", trunc(refcbor.Describe(k)))
	}
	if k := it.Kids[1]; k.Major != 2 || !bytes.Equal(k.Content, refVersion) {
		return nil, fmt.Errorf("element 1 is not the byte string 31620000: %s", trunc(refcbor.Describe(k)))
	}
	st := it.Kids[2]
	if st.Major != 4 {
		return nil, fmt.Errorf("element 2 is not an array")
	}
	var out []sigEntry
	for i, s := range st.Kids {
		if s.Major != 4 || len(s.Kids) != 2 || s.Kids[0].Major != 5 || s.Kids[1].Major != 2 {
			return nil, fmt.Errorf("signature %d is not [map, bstr]: %s", i, trunc(refcbor.Describe(s)))
		}
		e := sigEntry{attrs: map[string][]byte{}, sig: append([]byte(nil), s.Kids[1].Content...)}
		m := s.Kids[0].Kids
		for j := 0; j+1 < len(m); j += 2 {
			if m[j].Major != 3 || m[j+1].Major != 2 {
				return nil, fmt.Errorf("signature %d: attribute %d is not tstr => bstr", i, j/2)
			}
			if !utf8.Valid(m[j].Content) {
				return nil, fmt.Errorf("signature %d: attribute name is not UTF-8", i)
			}
			name := string(m[j].Content)
			if _, dup := e.attrs[name]; dup {
				return nil, fmt.Errorf("signature %d: duplicate attribute %q", i, name)
			}
			e.attrs[name] = append([]byte(nil), m[j+1].Content...)
		}
		out = append(out, e)
	}
	return out, nil
}

func trunc(s string) string {
	if len(s) > 300 {
		return s[:300] + "..."
	}
	return s
}

// verifyAll checks every signature of the decoded stack (0 = newest) over the recomputed data.
func verifyAll(sigs []sigEntry, hash []byte) (int, string) {
	for i, s := range sigs {
		pk, ok := s.attrs[pkAttr]
		if !ok {
			return i, "no ed25519PublicKey attribute"
		}
		if len(pk) != ed25519.PublicKeySize {
			return i, fmt.Sprintf("ed25519PublicKey attribute of %d bytes", len(pk))
		}
		before := refBlock(sigs[i+1:])
		data := refData(hash, before, refAttrs(s.attrs))
		if !ed25519.Verify(ed25519.PublicKey(pk), data, s.sig) {
			return i, fmt.Sprintf("Ed25519 verification failed under key %x over len64|SHA-512(file)|len64|block-before(%d bytes, %d older signatures)|len64|attributes(%d bytes)",
				pk, len(before), len(sigs)-i-1, len(refAttrs(s.attrs)))
		}
		// the library's own exported verifier (the check SignAndAddNewSignature relies on, also a
		// door of its own): yes for this triple, never yes for a neighbour of it
		if ok, err := integrityblock.VerifyEd25519Signature(ed25519.PublicKey(pk), s.sig, data); !ok || err != nil {
			return i, fmt.Sprintf("integrityblock.VerifyEd25519Signature refuses a signature that verifies (ok=%v err=%v)", ok, err)
		}
		flip := func(b []byte, at int) []byte { c := append([]byte{}, b...); c[at%len(c)] ^= 1 << uint(at%8); return c }
		for _, at := range []int{0, 31, 32, 63, len(data) - 1, len(data) / 2} {
			if ok, err := integrityblock.VerifyEd25519Signature(ed25519.PublicKey(pk), flip(s.sig, at), data); ok && err == nil {
				return i, fmt.Sprintf("integrityblock.VerifyEd25519Signature accepts the signature with bit %d of octet %d flipped", at%8, at%len(s.sig))
			}
			if ok, err := integrityblock.VerifyEd25519Signature(ed25519.PublicKey(pk), s.sig, flip(data, at)); ok && err == nil {
				return i, fmt.Sprintf("integrityblock.VerifyEd25519Signature accepts the signature over data with octet %d changed", at%len(data))
			}
			if ok, err := integrityblock.VerifyEd25519Signature(ed25519.PublicKey(flip(pk, at)), s.sig, data); ok && err == nil {
				return i, fmt.Sprintf("integrityblock.VerifyEd25519Signature accepts the signature under a key with octet %d changed", at%len(pk))
			}
		}
	}
	return -1, ""
}

func entriesEqual(a, b sigEntry) bool {
	if !bytes.Equal(a.sig, b.sig) || len(a.attrs) != len(b.attrs) {
		return false
	}
	for k, v := range a.attrs {
		w, ok := b.attrs[k]
		if !ok || !bytes.Equal(v, w) {
			return false
		}
	}
	return true
}

func snapshot(ib *integrityblock.IntegrityBlock) []sigEntry {
	var out []sigEntry
	for _, s := range ib.SignatureStack {
		e := sigEntry{attrs: map[string][]byte{}}
		if s != nil {
			e.sig = append([]byte(nil), s.Signature...)
			for k, v := range s.SignatureAttributes {
				e.attrs[k] = append([]byte(nil), v...)
			}
		}
		out = append(out, e)
	}
	return out
}

func stacksEqual(a, b []sigEntry) bool {
	if len(a) != len(b) {
		return false
	}
	for i := range a {
		if !entriesEqual(a[i], b[i]) {
			return false
		}
	}
	return true
}

// base32Lower is RFC 4648 base32 without padding, lower-case alphabet.
func base32Lower(b []byte) string {
	const alpha = "abcdefghijklmnopqrstuvwxyz234567"
	var out []byte
	var acc uint32
	bits := 0
	for _, x := range b {
		acc = acc<<8 | uint32(x)
		bits += 8
		for bits >= 5 {
			bits -= 5
			out = append(out, alpha[(acc>>uint(bits))&31])
		}
		acc &= 1<<uint(bits) - 1
	}
	if bits > 0 {
		out = append(out, alpha[(acc<<uint(5-bits))&31])
	}
	return string(out)
}

func refBundleID(pub []byte) string {
	return base32Lower(append(append([]byte(nil), pub...), 0x00, 0x01, 0x02))
}

// ---- input files -----------------------------------------------------------------------------

type FileSpec struct {
	Kind    string `json:"kind"`           // filler | testfile | bundle
	L       int    `json:"len,omitempty"`  // filler: bytes before the 8-byte length field; bundle: body length
	Tag     uint64 `json:"tag,omitempty"`  // filler seed
	NEx     int    `json:"n_ex,omitempty"` // bundle: number of exchanges
	Trailer string `json:"trailer"`        // correct | too-small | too-large | prefixed-block
	Arg     uint64 `json:"arg,omitempty"`  // too-small: value = total-1-(arg mod total); too-large: arg < 2^20 ? total+1+arg : arg
}

func repoDir() string {
	if d := os.Getenv("VERIF_REPO_DIR"); d != "" {
		return d
	}
	return "/repo"
}

// build returns the file content and the content of the unsigned bundle it was derived from.
func (f *FileSpec) build() (content, unsigned []byte, err error) {
	switch f.Kind {
	case "filler":
		if f.L < 0 || f.L > 1<<20 {
			return nil, nil, errors.New("length out of range")
		}
		unsigned = append(gen.Filler(f.L, f.Tag), be64(f.L+8)...)
	case "lookalike":
		// an UNSIGNED file (its trailing length equals its size) whose content looks like a signed
		// one: the integrity-block magic where a signed file has it (octets 2..9), a complete
		// empty block, the magic elsewhere, the bundle magic. "Any content" is in the domain.
		if f.L < 0 || f.L > 1<<20 {
			return nil, nil, errors.New("length out of range")
		}
		ib := []byte{0xF0, 0x9F, 0x96, 0x8B, 0xF0, 0x9F, 0x93, 0xA6}
		var pre []byte
		switch f.Tag % 6 {
		case 0:
			pre = append(append([]byte{0x83, 0x48}, ib...), 0x44, '1', 'b', 0, 0, 0x80)
		case 1:
			pre = append([]byte{0x85, 0x48}, ib...)
		case 2:
			pre = append([]byte{}, ib...)
		case 3:
			pre = append([]byte{0, 0}, ib...)
		case 4:
			pre = append(append([]byte{0x83, 0x48}, ib...), 0x44, '1', 'b', 0, 0, 0x81, 0x82, 0xa0, 0x40)
		default:
			pre = append([]byte{0x00, 0x83, 0x48}, ib...)
		}
		body := append(pre, gen.Filler(f.L, f.Tag)...)
		unsigned = append(body, be64(len(body)+8)...)
	case "testfile":
		unsigned, err = os.ReadFile(filepath.Join(repoDir(), "go/integrityblock/testfile.wbn"))
		if err != nil {
			return nil, nil, err
		}
	case "bundle":
		if f.NEx < 1 || f.NEx > 8 || f.L < 0 || f.L > 1<<17 {
			return nil, nil, errors.New("bundle parameters out of range")
		}
		s := &bundlekit.Spec{Version: "b2"}
		for i := 0; i < f.NEx; i++ {
			s.Exchanges = append(s.Exchanges, bundlekit.ExSpec{URL: fmt.Sprintf("https://a.example/r%d", i), Status: 200,
				Headers: []gen.HeaderKV{{Name: "Content-Type", Values: []string{"text/plain"}}}, BodyLen: f.L, BodyTag: f.Tag + uint64(i)})
		}
		var buf bytes.Buffer
		if _, err := bundlekit.Build(s).WriteTo(&buf); err != nil {
			return nil, nil, err
		}
		unsigned = buf.Bytes()
	default:
		return nil, nil, errors.New("unknown file kind")
	}
	total := uint64(len(unsigned))
	if total < 8 || binary.BigEndian.Uint64(unsigned[total-8:]) != total {
		return nil, nil, fmt.Errorf("base file of %d bytes does not end with its own length", total)
	}
	content = append([]byte(nil), unsigned...)
	switch f.Trailer {
	case "correct":
	case "too-small":
		binary.BigEndian.PutUint64(content[total-8:], total-1-(f.Arg%total))
	case "too-large":
		v := f.Arg
		if v < 1<<20 {
			v = total + 1 + f.Arg
		}
		if v <= total {
			return nil, nil, errors.New("too-large value not above the file size")
		}
		binary.BigEndian.PutUint64(content[total-8:], v)
	case "prefixed-block":
		// a genuinely signed bundle built by the reference: one signature by a fixed key
		pub, priv := gen.Ed25519FromSeed([]byte("c07-prefixed-block"))
		h := sha512.Sum512(unsigned)
		attrs := map[string][]byte{pkAttr: pub}
		sig := ed25519.Sign(priv, refData(h[:], refBlock(nil), refAttrs(attrs)))
		content = append(refBlock([]sigEntry{{attrs: attrs, sig: sig}}), unsigned...)
	default:
		return nil, nil, errors.New("unknown trailer mode")
	}
	return content, unsigned, nil
}

func tmpBase() string {
	if d := os.Getenv("VERIF_TMP"); d != "" {
		if os.MkdirAll(d, 0o755) == nil {
			return d
		}
	}
	return os.TempDir()
}

func skipF4() bool { return os.Getenv("VERIF_C07_SKIP_F4") == "1" }

// ---- signing strategies ----------------------------------------------------------------------

var errSignRefused = errors.New("c07: signing device refused")

// strat signs with priv, optionally damages the result, and reports pub as its public key.
type strat struct {
	priv  ed25519.PrivateKey
	pub   ed25519.PublicKey
	flip  int  // >= 0: flip this bit of the signature
	short bool // drop the last signature byte
	fail  bool
	calls int
}

func (s *strat) Sign(data []byte) ([]byte, error) {
	s.calls++
	if s.fail {
		return nil, errSignRefused
	}
	sig := ed25519.Sign(s.priv, data)
	if s.flip >= 0 {
		sig[(s.flip/8)%len(sig)] ^= 1 << uint(s.flip%8)
	}
	if s.short {
		sig = sig[:len(sig)-1]
	}
	return sig, nil
}

func (s *strat) GetPublicKey() (ed25519.PublicKey, error) { return s.pub, nil }

// ---- sub-check lib ---------------------------------------------------------------------------

type Attr struct {
	Name string `json:"name"`
	Len  int    `json:"len"`
	Tag  uint64 `json:"tag"`
}

type Step struct {
	Key      vh.B   `json:"key_seed"`
	Strategy string `json:"strategy"` // honest | honest-own | wrong-key | corrupt-sig | short-sig | sign-error
	Other    vh.B   `json:"other_seed,omitempty"`
	Flip     int    `json:"flip_bit,omitempty"`
	Extra    []Attr `json:"extra,omitempty"`
	// Reuse: an "honest" step uses the strategy OBJECT that an earlier honest step with the same
	// key created (one signer object adding several signatures), instead of a fresh one.
	Reuse bool `json:"reuse,omitempty"`
}

type LibCase struct {
	File    FileSpec `json:"file"`
	HashOff int      `json:"hash_offset"` // extra ComputeWebBundleSha512 call at this offset
	Steps   []Step   `json:"steps"`
	// Peek: the caller has already read this many octets from the opened file (to sniff the magic,
	// say) before handing it to the library: the file is the same file wherever its offset stands.
	Peek int `json:"peek,omitempty"`
}

func dishonest(s string) bool {
	return s == "wrong-key" || s == "corrupt-sig" || s == "short-sig" || s == "sign-error"
}

var libProp = vh.Define("C07", "lib", func(c LibCase, r *vh.R) {
	content, _, err := c.File.build()
	if err != nil {
		r.Skip = true
		return
	}
	// validate the history before touching the code under test
	for _, st := range c.Steps {
		switch st.Strategy {
		case "honest", "honest-own", "corrupt-sig", "short-sig", "sign-error":
		case "wrong-key":
			a, _ := gen.Ed25519FromSeed(st.Key)
			b, _ := gen.Ed25519FromSeed(st.Other)
			if bytes.Equal(a, b) {
				r.Skip = true
				return
			}
		default:
			r.Skip = true
			return
		}
		seen := map[string]bool{pkAttr: true}
		for _, a := range st.Extra {
			if seen[a.Name] || !utf8.ValidString(a.Name) || a.Len < 0 || a.Len > 1<<20 {
				r.Skip = true
				return
			}
			seen[a.Name] = true
		}
	}
	r.Class("file:" + c.File.Kind)
	r.Class("trailer:" + c.File.Trailer)
	if c.File.Kind == "filler" {
		switch c.File.L {
		case 0, 1, 7, 8, 9, 4095, 4096, 4097, 65535, 65536:
			r.Classf("L=%d", c.File.L)
		}
	}

	dir, err := os.MkdirTemp(tmpBase(), "c07-lib-")
	if err != nil {
		panic(err)
	}
	defer os.RemoveAll(dir)
	path := filepath.Join(dir, "in.wbn")
	if err := os.WriteFile(path, content, 0o644); err != nil {
		panic(err)
	}
	f, err := os.Open(path)
	if err != nil {
		panic(err)
	}
	defer f.Close()
	if c.Peek > 0 {
		if _, err := f.Seek(int64(c.Peek%(len(content)+1)), io.SeekStart); err != nil {
			panic(err)
		}
		r.Class("file-offset-advanced")
	}

	ib, offset, err := integrityblock.ObtainIntegrityBlock(f)
	switch c.File.Trailer {
	case "too-small", "prefixed-block":
		r.Class("already-signed-input")
		if err == nil {
			r.Failf("accepted-signed-input", "ObtainIntegrityBlock returned no error for a %d-byte file whose trailing length field says %d (the file already carries %d bytes in front of the bundle); offset=%d",
				len(content), binary.BigEndian.Uint64(content[len(content)-8:]), uint64(len(content))-binary.BigEndian.Uint64(content[len(content)-8:]), offset)
		}
		return
	case "too-large":
		r.Class("length-too-large")
		v := binary.BigEndian.Uint64(content[len(content)-8:])
		if v >= 1<<63 {
			r.Class("length-too-large:>=2^63")
		}
		if err == nil {
			r.Failf("accepted-oversize-length", "ObtainIntegrityBlock returned no error for a %d-byte file whose trailing length field says %d (> file size); offset=%d", len(content), v, offset)
		}
		return
	}
	if err != nil {
		r.Failf("refused-unsigned", "ObtainIntegrityBlock failed on an unsigned %d-byte file whose last 8 bytes state its length: %v", len(content), err)
		return
	}
	if ib == nil {
		r.Failf("refused-unsigned", "ObtainIntegrityBlock returned a nil block without an error")
		return
	}
	if offset != 0 {
		r.Failf("offset", "ObtainIntegrityBlock reports bundle offset %d for an unsigned file (the bundle starts at byte 0)", offset)
		return
	}
	if cb, err := ib.CborBytes(); err != nil || !bytes.Equal(cb, refBlock(nil)) {
		r.Failf("empty-block", "fresh block encodes to %x (err %v), want %x", cb, err, refBlock(nil))
		return
	}
	want := sha512.Sum512(content)
	hash, err := integrityblock.ComputeWebBundleSha512(f, offset)
	if err != nil {
		r.Failf("hash", "ComputeWebBundleSha512 failed: %v", err)
		return
	}
	if !bytes.Equal(hash, want[:]) {
		r.Failf("hash", "ComputeWebBundleSha512(file, %d) = %x, SHA-512 of the %d file bytes is %x", offset, hash, len(content), want[:])
		return
	}
	if c.HashOff > 0 && c.HashOff <= len(content) {
		w2 := sha512.Sum512(content[c.HashOff:])
		h2, err := integrityblock.ComputeWebBundleSha512(f, int64(c.HashOff))
		if err != nil || !bytes.Equal(h2, w2[:]) {
			r.Failf("hash-offset", "ComputeWebBundleSha512(file, %d) = %x (err %v), SHA-512 of the bytes from that offset is %x", c.HashOff, h2, err, w2[:])
			return
		}
		r.Class("hash-at-nonzero-offset")
	}

	signer := &integrityblock.IntegrityBlockSigner{WebBundleHash: hash, IntegrityBlock: ib}
	var model []sigEntry // expected stack, newest first
	strategyObjects := map[string]integrityblock.ISigningStrategy{}
	for i, st := range c.Steps {
		pubA, privA := gen.Ed25519FromSeed(st.Key)
		var strategy integrityblock.ISigningStrategy
		var own *strat
		switch st.Strategy {
		case "honest":
			if old, ok := strategyObjects[string(st.Key)]; ok && st.Reuse {
				strategy = old
				r.Class("strategy-object-reused")
			} else {
				strategy = integrityblock.NewParsedEd25519KeySigningStrategy(privA)
				strategyObjects[string(st.Key)] = strategy
			}
		case "honest-own":
			own = &strat{priv: privA, pub: pubA, flip: -1}
		case "wrong-key":
			pubB, _ := gen.Ed25519FromSeed(st.Other)
			own = &strat{priv: privA, pub: pubB, flip: -1}
		case "corrupt-sig":
			own = &strat{priv: privA, pub: pubA, flip: st.Flip & 511}
		case "short-sig":
			own = &strat{priv: privA, pub: pubA, flip: -1, short: true}
		case "sign-error":
			own = &strat{priv: privA, pub: pubA, flip: -1, fail: true}
		}
		if own != nil {
			strategy = own
		}
		signer.SigningStrategy = strategy
		pub, err := strategy.GetPublicKey()
		if err != nil {
			r.Failf("strategy", "step %d: GetPublicKey failed: %v", i, err)
			return
		}
		if st.Strategy == "honest" && !bytes.Equal(pub, pubA) {
			r.Failf("strategy", "step %d: ParsedEd25519KeySigningStrategy.GetPublicKey = %x, the key pair's public key is %x", i, pub, pubA)
			return
		}

		// Web Bundle ID of the key about to be recorded
		id := webbundleid.GetWebBundleId(pub)
		if wantID := refBundleID(pub); id != wantID || len(id) != 56 {
			r.Failf("bundle-id", "GetWebBundleId(%x) = %q, want lower-case unpadded base32(key|000102) = %q", []byte(pub), id, wantID)
			return
		}
		roomy := make([]byte, len(pub), 2*len(pub))
		copy(roomy, pub)
		if a, b := webbundleid.GetWebBundleId(roomy), webbundleid.GetWebBundleId(roomy); a != id || b != id {
			r.Failf("bundle-id", "GetWebBundleId on a key slice with spare capacity: %q then %q, want %q", a, b, id)
			return
		}

		attrs := integrityblock.GenerateSignatureAttributesWithPublicKey(pub)
		if len(attrs) != 1 || !bytes.Equal(attrs[pkAttr], pub) {
			r.Failf("attributes", "GenerateSignatureAttributesWithPublicKey(%x) = %v", []byte(pub), attrs)
			return
		}
		for _, a := range st.Extra {
			attrs[a.Name] = gen.Filler(a.Len, a.Tag)
			if bytes.Compare(refcbor.Tstr(a.Name), refcbor.Tstr(pkAttr)) < 0 {
				r.Class("extra-sorts-before-key")
			} else {
				r.Class("extra-sorts-after-key")
			}
			if len(a.Name) >= 24 {
				r.Class("extra-name>=24")
			}
			if a.Len >= 256 {
				r.Class("extra-value>=256")
			}
		}
		wantAttrs := sigEntry{attrs: map[string][]byte{}}
		for k, v := range attrs {
			wantAttrs.attrs[k] = append([]byte(nil), v...)
		}
		if len(st.Extra) > 0 {
			r.Class("extra-attrs")
			r.NT()
		}

		before := snapshot(ib)
		err = signer.SignAndAddNewSignature(pub, attrs)
		after := snapshot(ib)

		if dishonest(st.Strategy) {
			r.Class("dishonest-" + st.Strategy)
			r.NT()
			if err == nil {
				if st.Strategy != "sign-error" && skipF4() {
					// known finding F4 (verification result ignored): excluded on request; restore the
					// expected state so that the rest of the history is still explored
					r.Class("excluded-f4")
					var restored []*integrityblock.IntegritySignature
					for _, e := range before {
						restored = append(restored, &integrityblock.IntegritySignature{SignatureAttributes: integrityblock.SignatureAttributesMap(e.attrs), Signature: e.sig})
					}
					ib.SignatureStack = restored
					continue
				}
				r.Failf("dishonest-accepted", "step %d (%s): SignAndAddNewSignature returned nil although the signature obtained from the strategy does not verify under the public key %x being recorded; signature stack went from %d to %d entries",
					i, st.Strategy, []byte(pub), len(before), len(after))
				return
			}
			if !stacksEqual(before, after) {
				r.Failf("dishonest-added", "step %d (%s): SignAndAddNewSignature returned an error (%v) but the signature stack changed (%d -> %d entries)", i, st.Strategy, err, len(before), len(after))
				return
			}
			if !stacksEqual(after, model) {
				r.Failf("model-drift", "step %d: stack differs from the model after a refused step", i)
				return
			}
			continue
		}

		// honest step
		if err != nil {
			r.Failf("honest-refused", "step %d (%s): SignAndAddNewSignature failed with a matching key pair and %d extra attributes: %v", i, st.Strategy, len(st.Extra), err)
			return
		}
		if len(after) != len(model)+1 {
			r.Failf("stack-size", "step %d: stack has %d entries after a successful call, had %d", i, len(after), len(model))
			return
		}
		for j := range model {
			if !entriesEqual(after[j+1], model[j]) {
				pos := -1
				for k := range after {
					if entriesEqual(after[k], model[j]) {
						pos = k
					}
				}
				r.Failf("not-prepended", "step %d: older signature %d is not at index %d of the stack after the call (found at %d); the new signature must be index 0 and the older ones keep their order", i, j, j+1, pos)
				return
			}
		}
		if len(after[0].attrs) != len(wantAttrs.attrs) {
			r.Failf("attributes", "step %d: recorded attributes differ from the ones passed", i)
			return
		}
		for k, v := range wantAttrs.attrs {
			if w, ok := after[0].attrs[k]; !ok || !bytes.Equal(v, w) {
				r.Failf("attributes", "step %d: recorded attribute %q differs from the one passed", i, k)
				return
			}
		}
		model = append([]sigEntry{after[0]}, model...)
		if len(model) >= 2 {
			r.Class("history>=2")
			r.NT()
		}
		if len(model) == 4 {
			r.Class("history=4")
		}

		cb, err := ib.CborBytes()
		if err != nil {
			r.Failf("block-encode", "step %d: CborBytes failed: %v", i, err)
			return
		}
		dec, err := parseBlock(cb)
		if err != nil {
			r.Failf("block-shape", "step %d: block %x...: %v", i, cb[:min(len(cb), 64)], err)
			return
		}
		if err := refcbor.CheckDeterministic(cb, refcbor.Profile{}); err != nil {
			r.Failf("block-not-deterministic", "step %d: %v", i, err)
			return
		}
		if !stacksEqual(dec, model) {
			r.Failf("block-content", "step %d: the encoded block lists %d signatures that differ from the in-memory stack (%d)", i, len(dec), len(model))
			return
		}
		if !bytes.Equal(cb, refBlock(dec)) {
			r.Failf("block-not-deterministic", "step %d: the block is not the canonical encoding of its own content", i)
			return
		}
		if bad, why := verifyAll(dec, want[:]); bad >= 0 {
			r.Failf("signature-invalid", "after step %d: signature %d of %d (0 = newest): %s", i, bad, len(dec), why)
			return
		}
	}
	if own := len(model); own > 0 {
		r.Classf("signatures=%d", own)
	}
})

var specialNames = []string{"", "a", "ed25519PublicKex", "ed25519PublicKez", "ed25519PublicKe", "ed25519PublicKey2", "Ed25519PublicKey",
	"ed25519publickey", "é", "🖋📦", "zzzzzzzzzzzzzzzzzzzzzzz", "zzzzzzzzzzzzzzzzzzzzzzzz", "a\x00b", "ed25519PublicKeé"}

func genName(t *rapid.T) string {
	if rapid.IntRange(0, 2).Draw(t, "special") == 0 {
		return rapid.SampledFrom(specialNames).Draw(t, "name")
	}
	n := rapid.SampledFrom([]int{1, 2, 3, 15, 16, 17, 22, 23, 24, 25, 60, 63, 64, 65, 127, 128, 129, 255, 256}).Draw(t, "namelen")
	rs := rapid.SliceOfN(rapid.SampledFrom([]rune{'a', 'b', 'z', 'A', '0', '_', 'é', 'ß', '€', '🖋', 0}), 0, n).Draw(t, "runes")
	var b []byte
	for _, x := range rs {
		if len(b)+utf8.RuneLen(x) > n {
			break
		}
		b = utf8.AppendRune(b, x)
	}
	for len(b) < n {
		b = append(b, 'x')
	}
	return string(b)
}

var fileLens = []int{0, 1, 7, 8, 9, 4095, 4096, 4097, 65535, 65536}

func genFile(t *rapid.T, negatives bool) FileSpec {
	f := FileSpec{Trailer: "correct"}
	switch k := rapid.IntRange(0, 27).Draw(t, "filekind"); {
	case k < 20: // rapid favours small draws: the common shape comes first
		f.Kind = "filler"
		if rapid.Bool().Draw(t, "boundary") {
			f.L = rapid.SampledFrom(fileLens).Draw(t, "len")
		} else {
			f.L = rapid.IntRange(0, 65536).Draw(t, "len")
		}
		f.Tag = rapid.Uint64Range(0, 1000).Draw(t, "tag")
	case k < 23:
		f.Kind = "bundle"
		f.NEx = rapid.IntRange(1, 3).Draw(t, "nex")
		f.L = rapid.SampledFrom([]int{0, 1, 23, 24, 255, 256, 4096, 20000}).Draw(t, "bodylen")
		f.Tag = rapid.Uint64Range(0, 1000).Draw(t, "tag")
	case k < 25:
		f.Kind = "testfile"
	default:
		f.Kind = "lookalike"
		f.L = rapid.SampledFrom([]int{0, 1, 8, 100, 4096}).Draw(t, "len")
		f.Tag = rapid.Uint64Range(0, 1000).Draw(t, "tag")
	}
	if !negatives {
		return f
	}
	switch k := rapid.IntRange(0, 19).Draw(t, "trailer"); {
	case k < 15:
	case k < 17:
		f.Trailer = "too-small"
		if rapid.Bool().Draw(t, "small-near") {
			f.Arg = rapid.SampledFrom([]uint64{0, 7, 8}).Draw(t, "arg")
		} else {
			f.Arg = rapid.Uint64Range(0, 1<<17).Draw(t, "arg")
		}
	case k < 19:
		f.Trailer = "too-large"
		if rapid.Bool().Draw(t, "large-near") {
			f.Arg = rapid.SampledFrom([]uint64{0, 6, 7, 8, 254, 65535}).Draw(t, "arg")
		} else {
			f.Arg = rapid.SampledFrom([]uint64{1 << 31, 1 << 32, 1<<63 - 1, 1 << 63, 1<<63 + 1, 1<<64 - 8, 1<<64 - 1}).Draw(t, "arg")
		}
	default:
		f.Trailer = "prefixed-block"
	}
	return f
}

func genSeed(t *rapid.T, label string) vh.B {
	return vh.B(rapid.SliceOfN(rapid.Byte(), 1, 3).Draw(t, label))
}

func TestPropLib(t *testing.T) { libProp.Rapid(t, genPropLib) }

// TestConcLib: batches of cases evaluated at the same time on separate goroutines (vh.Prop.Concurrent).
func TestConcLib(t *testing.T) { libProp.Concurrent(t, genPropLib, 8, 3) }

func genPropLib(t *rapid.T) LibCase {
	c := LibCase{File: genFile(t, true), Peek: rapid.SampledFrom([]int{0, 0, 0, 1, 8, 64, 1 << 30}).Draw(t, "peek")}
	if c.File.Trailer != "correct" {
		return c
	}
	if rapid.IntRange(0, 3).Draw(t, "hashoff") == 0 {
		c.HashOff = rapid.IntRange(1, 16).Draw(t, "off")
	}
	n := rapid.IntRange(1, 4).Draw(t, "steps")
	for i := 0; i < n; i++ {
		st := Step{Key: genSeed(t, "key")}
		if i > 0 && rapid.IntRange(0, 2).Draw(t, "samekey") == 0 {
			st.Key = append(vh.B{}, c.Steps[rapid.IntRange(0, i-1).Draw(t, "whichkey")].Key...)
			st.Reuse = rapid.IntRange(0, 3).Draw(t, "reuse") > 0
		}
		switch k := rapid.IntRange(0, 19).Draw(t, "strategy"); {
		case k < 9:
			st.Strategy = "honest"
		case k < 12:
			st.Strategy = "honest-own"
		case k < 15:
			st.Strategy = "wrong-key"
			st.Other = append(append(vh.B{}, st.Key...), rapid.Byte().Draw(t, "other"))
		case k < 17:
			st.Strategy = "corrupt-sig"
			st.Flip = rapid.IntRange(0, 511).Draw(t, "flip")
		case k < 18:
			st.Strategy = "short-sig"
		default:
			st.Strategy = "sign-error"
		}
		if rapid.Bool().Draw(t, "has-extra") {
			ne := rapid.IntRange(1, 3).Draw(t, "nextra")
			seen := map[string]bool{pkAttr: true}
			for j := 0; j < ne; j++ {
				name := genName(t)
				if seen[name] {
					continue
				}
				seen[name] = true
				st.Extra = append(st.Extra, Attr{Name: name, Len: rapid.SampledFrom([]int{0, 1, 23, 24, 255, 256, 32, 63, 64, 65, 127, 128, 129, 512, 513, 4096, 4097, 65536}).Draw(t, "vlen"), Tag: rapid.Uint64Range(0, 99).Draw(t, "vtag")})
			}
		}
		c.Steps = append(c.Steps, st)
	}
	return c
}

// ---- sub-check cli ---------------------------------------------------------------------------

type CliCase struct {
	File FileSpec `json:"file"`
	Key  vh.B     `json:"key_seed"`
	Mode string   `json:"mode"` // sign | resign (the output of a first run is signed again)
}

var (
	idWord  = regexp.MustCompile(`^[a-z2-7]{56}$`)
	anyWord = regexp.MustCompile(`[A-Za-z0-9=]+`)
)

// extractID returns the only 56-character lower-case base32 word on stdout.
func extractID(out []byte) (string, int) {
	var found []string
	for _, w := range anyWord.FindAll(out, -1) {
		if idWord.Match(w) {
			found = append(found, string(w))
		}
	}
	if len(found) == 1 {
		return found[0], 1
	}
	return "", len(found)
}

type cliResult struct {
	exit           int // -1: killed / not an exit status
	stdout, stderr []byte
	err            error // spawn problems only
}

// staleOutputs: every second tool invocation finds a LONGER stale file already sitting at its
// "-o" path (left over from an earlier run): tools must replace it, not overwrite its beginning.
var staleCounter int

func plantStaleOutput(dir string, args []string) {
	for i := 0; i+1 < len(args); i++ {
		if args[i] != "-o" || args[i+1] == "-" {
			continue
		}
		p := args[i+1]
		if !filepath.IsAbs(p) {
			p = filepath.Join(dir, p)
		}
		if _, err := os.Stat(p); err == nil {
			continue // the case itself put a file there
		}
		staleCounter++
		if staleCounter%2 == 0 {
			stale := bytes.Repeat([]byte("STALE-OUTPUT-FROM-AN-EARLIER-RUN "), 4096) // 132 KiB, ends with junk (not a valid length field)
			os.WriteFile(p, stale, 0o644)
		}
	}
}

func runCLI(dir string, args ...string) cliResult {
	plantStaleOutput(dir, args)
	bin := filepath.Join(os.Getenv("VERIF_CLI"), "sign-bundle")
	ctx, cancel := context.WithTimeout(context.Background(), 120*time.Second)
	defer cancel()
	cmd := exec.CommandContext(ctx, bin, args...)
	cmd.Dir = dir
	var so, se bytes.Buffer
	cmd.Stdout, cmd.Stderr = &so, &se
	err := cmd.Run()
	res := cliResult{stdout: so.Bytes(), stderr: se.Bytes()}
	if err == nil {
		return res
	}
	var ee *exec.ExitError
	if errors.As(err, &ee) && ctx.Err() == nil {
		res.exit = ee.ExitCode()
		return res
	}
	res.exit = -1
	res.err = err
	return res
}

func tail(b []byte) string {
	if len(b) > 400 {
		b = b[len(b)-400:]
	}
	return string(b)
}

var cliProp = vh.Define("C07", "cli", func(c CliCase, r *vh.R) {
	content, _, err := c.File.build()
	if err != nil || (c.Mode != "sign" && c.Mode != "resign") {
		r.Skip = true
		return
	}
	r.NT() // every executed pipeline counts
	r.Class("file:" + c.File.Kind)
	dir, err := os.MkdirTemp(tmpBase(), "c07-cli-")
	if err != nil {
		panic(err)
	}
	defer os.RemoveAll(dir)
	pub, priv := gen.Ed25519FromSeed(c.Key)
	must := func(err error) {
		if err != nil {
			panic(err)
		}
	}
	must(os.WriteFile(filepath.Join(dir, "in.wbn"), content, 0o644))
	must(os.WriteFile(filepath.Join(dir, "key.pem"), gen.KeyPKCS8PEM(priv), 0o600))
	must(os.WriteFile(filepath.Join(dir, "pub.pem"), gen.PublicKeyPEM(pub), 0o644))

	res := runCLI(dir, "integrity-block", "-i", "in.wbn", "-o", "out.wbn", "-privateKey", "key.pem")
	if res.err != nil {
		r.Failf("cli-spawn", "sign-bundle did not run to an exit status: %v", res.err)
		return
	}
	if c.File.Trailer != "correct" {
		switch c.File.Trailer {
		case "too-large":
			r.Class("length-too-large")
		default:
			r.Class("already-signed-input")
			r.Class("already-signed:" + c.File.Trailer)
		}
		if res.exit == 0 {
			r.Failf("cli-accepted-bad-input", "sign-bundle integrity-block exited 0 on a %d-byte input with trailer mode %q (trailing length field %d)", len(content), c.File.Trailer, binary.BigEndian.Uint64(content[len(content)-8:]))
			return
		}
		r.Classf("refused-exit-%d", res.exit)
		return
	}
	if res.exit != 0 {
		r.Failf("cli-refused-unsigned", "sign-bundle integrity-block exited %d on an unsigned %d-byte file whose last 8 bytes state its length; stderr: %s", res.exit, len(content), tail(res.stderr))
		return
	}
	out, err := os.ReadFile(filepath.Join(dir, "out.wbn"))
	if err != nil {
		r.Failf("cli-no-output", "exit 0 but the output file cannot be read: %v", err)
		return
	}
	it, err := refcbor.Decode(out, 0)
	if err != nil {
		r.Failf("cli-block-shape", "output (%d bytes) does not start with a well-formed CBOR item: %v", len(out), err)
		return
	}
	block, rest := out[:it.End], out[it.End:]
	if !bytes.Equal(rest, content) {
		d := 0
		for d < len(rest) && d < len(content) && rest[d] == content[d] {
			d++
		}
		r.Failf("cli-bundle-touched", "output after the %d-byte leading CBOR item has %d bytes, the input has %d; first difference at input offset %d", len(block), len(rest), len(content), d)
		return
	}
	dec, err := parseBlock(block)
	if err != nil {
		r.Failf("cli-block-shape", "leading item of the output: %v", err)
		return
	}
	if err := refcbor.CheckDeterministic(block, refcbor.Profile{}); err != nil {
		r.Failf("cli-block-not-deterministic", "%v", err)
		return
	}
	if len(dec) != 1 || len(dec[0].attrs) != 1 || !bytes.Equal(dec[0].attrs[pkAttr], pub) {
		r.Failf("cli-block-content", "block lists %d signatures; want exactly one whose only attribute is ed25519PublicKey = %x", len(dec), []byte(pub))
		return
	}
	if !bytes.Equal(block, refBlock(dec)) {
		r.Failf("cli-block-not-deterministic", "the block is not the canonical encoding of its own content")
		return
	}
	h := sha512.Sum512(content)
	if bad, why := verifyAll(dec, h[:]); bad >= 0 {
		r.Failf("cli-signature-invalid", "signature %d: %s", bad, why)
		return
	}
	wantID := refBundleID(pub)
	if id, n := extractID(res.stdout); n != 1 || id != wantID {
		r.Failf("cli-bundle-id", "integrity-block printed %d candidate IDs (%q); want exactly %q; stdout: %s", n, id, wantID, tail(res.stdout))
		return
	}
	for _, args := range [][]string{{"dump-id", "-privateKey", "key.pem"}, {"dump-id", "-publicKey", "pub.pem"}} {
		d := runCLI(dir, args...)
		if d.err != nil {
			r.Failf("cli-spawn", "sign-bundle %v did not run to an exit status: %v", args, d.err)
			return
		}
		id, n := extractID(d.stdout)
		if d.exit != 0 || n != 1 || id != wantID {
			r.Failf("cli-bundle-id", "sign-bundle %v: exit %d, %d candidate IDs (%q); want exit 0 and %q; stdout: %s", args, d.exit, n, id, wantID, tail(d.stdout))
			return
		}
	}
	r.Class("signed-ok")
	if c.Mode != "resign" {
		return
	}
	r.Class("already-signed-input")
	r.Class("already-signed:own-output")
	res2 := runCLI(dir, "integrity-block", "-i", "out.wbn", "-o", "out2.wbn", "-privateKey", "key.pem")
	if res2.err != nil {
		r.Failf("cli-spawn", "sign-bundle did not run to an exit status: %v", res2.err)
		return
	}
	if res2.exit == 0 {
		r.Failf("cli-accepted-bad-input", "sign-bundle integrity-block exited 0 when given its own signed output (%d-byte block + %d-byte bundle) as input", len(block), len(content))
		return
	}
	r.Classf("refused-exit-%d", res2.exit)
})

// TestCLILookalikes: the six look-alike contents (see FileSpec kind "lookalike") through the
// command-line signer, signed once and signed again.
func TestCLILookalikes(t *testing.T) {
	if os.Getenv("VERIF_CLI") == "" {
		t.Fatalf("sign-bundle binary not available (VERIF_CLI unset)")
	}
	for tag := uint64(0); tag < 6; tag++ {
		for _, mode := range []string{"sign", "resign"} {
			if !cliProp.One(t, CliCase{Key: vh.B{byte(tag), 7}, Mode: mode, File: FileSpec{Kind: "lookalike", L: 50, Tag: tag, Trailer: "correct"}}) {
				return
			}
		}
	}
}

func TestPropCLI(t *testing.T) {
	bin := filepath.Join(os.Getenv("VERIF_CLI"), "sign-bundle")
	if st, err := os.Stat(bin); os.Getenv("VERIF_CLI") == "" || err != nil || st.IsDir() {
		t.Fatalf("sign-bundle binary not available (VERIF_CLI=%q): %v", os.Getenv("VERIF_CLI"), err)
	}
	cliProp.Rapid(t, func(t *rapid.T) CliCase {
		c := CliCase{Key: genSeed(t, "key"), Mode: "sign"}
		switch k := rapid.IntRange(0, 9).Draw(t, "mode"); {
		case k < 4:
			c.File = genFile(t, false)
		case k < 6:
			c.File = genFile(t, false)
			c.Mode = "resign"
		default:
			c.File = genFile(t, false)
			c.File.Trailer = rapid.SampledFrom([]string{"too-large", "too-large", "too-small", "prefixed-block"}).Draw(t, "neg")
			switch c.File.Trailer {
			case "too-large":
				c.File.Arg = rapid.SampledFrom([]uint64{0, 7, 65535, 1 << 32, 1<<63 - 1, 1 << 63, 1<<64 - 1}).Draw(t, "arg")
			case "too-small":
				c.File.Arg = rapid.SampledFrom([]uint64{0, 7, 8, 100, 70000}).Draw(t, "arg")
			}
		}
		return c
	})
}
