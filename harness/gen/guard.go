package gen

import (
	"fmt"
	"sync"

	"github.com/WICG/webpackage/go/verifh/vh"
)

// Guarded inputs (enabled by the purity check C18 only): every byte slice handed out by Filler
// gets 96 octets of spare capacity behind its length, filled with a sentinel, and a checksum
// of its content. After each evaluated case all of them are checked: code under test that
// appends to a caller's slice (and thereby writes behind it), or that edits the content in
// place, has modified an input it was only given to read.

const guardLen = 96

type guarded struct {
	buf []byte // len = n + guardLen
	n   int
	sum uint64
}

var (
	guardsOn bool
	guardMu  sync.Mutex
	guards   []*guarded
)

func checksum(b []byte) uint64 {
	h := uint64(1469598103934665603)
	for _, x := range b {
		h = (h ^ uint64(x)) * 1099511628211
	}
	return h
}

// EnableGuards switches guarded allocation on and registers the check with the harness runtime.
func EnableGuards() {
	if guardsOn {
		return
	}
	guardsOn = true
	vh.PostEval = append(vh.PostEval, func() (string, string) {
		guardMu.Lock()
		gs := guards
		guards = nil
		guardMu.Unlock()
		for _, g := range gs {
			for i := g.n; i < len(g.buf); i++ {
				if g.buf[i] != 0xA5 {
					return "input-slice-overrun", fmt.Sprintf("an input byte slice of %d octets handed to the code under test had spare capacity behind it; octet %d behind its end was overwritten (0x%02x): the code appended to (or wrote past) a caller's slice", g.n, i-g.n, g.buf[i])
				}
			}
			if checksum(g.buf[:g.n]) != g.sum {
				return "input-modified", fmt.Sprintf("the content of an input byte slice of %d octets was modified in place by the code under test", g.n)
			}
		}
		return "", ""
	})
}

func guardedAlloc(n int) []byte {
	buf := make([]byte, n+guardLen)
	for i := n; i < len(buf); i++ {
		buf[i] = 0xA5
	}
	return buf
}

func register(buf []byte, n int) {
	g := &guarded{buf: buf, n: n, sum: checksum(buf[:n])}
	guardMu.Lock()
	guards = append(guards, g)
	guardMu.Unlock()
}

// Reseal recomputes the checksum of a guarded slice after the harness itself edited its content.
func Reseal(b []byte) {
	if !guardsOn || len(b) == 0 {
		return
	}
	guardMu.Lock()
	defer guardMu.Unlock()
	for _, g := range guards {
		if g.n == len(b) && g.n > 0 && &g.buf[0] == &b[0] {
			g.sum = checksum(b)
		}
	}
}
