// Package gen holds the generators and fixtures shared by the property packages.
package gen

import (
	"crypto/ecdsa"
	"crypto/ed25519"
	"crypto/elliptic"
	"crypto/rand"
	"crypto/sha256"
	"crypto/x509"
	"crypto/x509/pkix"
	"encoding/pem"
	"fmt"
	"math/big"
	"sync"
	"time"
)

// CertFixture is one end-entity certificate with its key and issuing chain.
type CertFixture struct {
	Name  string
	Curve string // "P-256" / "P-384"
	Key   *ecdsa.PrivateKey
	Leaf  *x509.Certificate
	Chain []*x509.Certificate // leaf first, then the issuing CA
	Hosts []string
}

var (
	fixOnce sync.Once
	fix     []*CertFixture
	caKey   *ecdsa.PrivateKey
	caCert  *x509.Certificate
)

func must[T any](v T, err error) T {
	if err != nil {
		panic(err)
	}
	return v
}

func newCA() {
	caKey = must(ecdsa.GenerateKey(elliptic.P256(), rand.Reader))
	tmpl := &x509.Certificate{
		SerialNumber:          big.NewInt(1),
		Subject:               pkix.Name{CommonName: "verif test CA"},
		NotBefore:             time.Unix(1500000000, 0),
		NotAfter:              time.Unix(4000000000, 0),
		IsCA:                  true,
		KeyUsage:              x509.KeyUsageCertSign,
		BasicConstraintsValid: true,
	}
	der := must(x509.CreateCertificate(rand.Reader, tmpl, tmpl, &caKey.PublicKey, caKey))
	caCert = must(x509.ParseCertificate(der))
}

func newLeaf(name string, curve elliptic.Curve, key *ecdsa.PrivateKey, serial int64, hosts []string, padding int) *CertFixture {
	if key == nil {
		key = must(ecdsa.GenerateKey(curve, rand.Reader))
	}
	org := ""
	for i := 0; i < padding; i++ {
		org += "x"
	}
	tmpl := &x509.Certificate{
		SerialNumber: big.NewInt(serial),
		Subject:      pkix.Name{CommonName: hosts[0], Organization: []string{"verif" + org}},
		NotBefore:    time.Unix(1500000000, 0),
		NotAfter:     time.Unix(4000000000, 0),
		DNSNames:     hosts,
		KeyUsage:     x509.KeyUsageDigitalSignature,
	}
	der := must(x509.CreateCertificate(rand.Reader, tmpl, caCert, &key.PublicKey, caKey))
	leaf := must(x509.ParseCertificate(der))
	cn := "P-256"
	if key.Curve == elliptic.P384() {
		cn = "P-384"
	}
	return &CertFixture{Name: name, Curve: cn, Key: key, Leaf: leaf, Chain: []*x509.Certificate{leaf, caCert}, Hosts: hosts}
}

// Fixtures returns the process-wide certificate fixtures (created once per process):
//
//	0: P-256, a.example + www.a.example
//	1: P-384, b.example
//	2: P-256, c.example (unrelated key)
//	3: P-256, a.example, SAME KEY as 0 but a different certificate
//	4: P-384, a.example (another key for the same host)
//	5: P-256, *.w.example + a.example + b.example + c.example (multi-host)
func Fixtures() []*CertFixture {
	fixOnce.Do(func() {
		newCA()
		f0 := newLeaf("p256-a", elliptic.P256(), nil, 10, []string{"a.example", "www.a.example"}, 0)
		f1 := newLeaf("p384-b", elliptic.P384(), nil, 11, []string{"b.example"}, 3)
		f2 := newLeaf("p256-c", elliptic.P256(), nil, 12, []string{"c.example"}, 40)
		f3 := newLeaf("p256-a-samekey", elliptic.P256(), f0.Key, 13, []string{"a.example"}, 7)
		f4 := newLeaf("p384-a", elliptic.P384(), nil, 14, []string{"a.example"}, 0)
		f5 := newLeaf("p256-multi", elliptic.P256(), nil, 15, []string{"*.w.example", "a.example", "b.example", "c.example"}, 120)
		fix = []*CertFixture{f0, f1, f2, f3, f4, f5}
	})
	return fix
}

// CA returns the issuing CA certificate.
func CA() *x509.Certificate { Fixtures(); return caCert }

// CertSha256 is SHA-256 over the DER certificate.
func CertSha256(c *x509.Certificate) []byte {
	s := sha256.Sum256(c.Raw)
	return s[:]
}

// PEM helpers (used by the command-line checks).

func CertsPEM(certs []*x509.Certificate) []byte {
	var out []byte
	for _, c := range certs {
		out = append(out, pem.EncodeToMemory(&pem.Block{Type: "CERTIFICATE", Bytes: c.Raw})...)
	}
	return out
}

func ECKeySEC1PEM(k *ecdsa.PrivateKey) []byte {
	der := must(x509.MarshalECPrivateKey(k))
	return pem.EncodeToMemory(&pem.Block{Type: "EC PRIVATE KEY", Bytes: der})
}

func KeyPKCS8PEM(k any) []byte {
	der := must(x509.MarshalPKCS8PrivateKey(k))
	return pem.EncodeToMemory(&pem.Block{Type: "PRIVATE KEY", Bytes: der})
}

func PublicKeyPEM(k any) []byte {
	der := must(x509.MarshalPKIXPublicKey(k))
	return pem.EncodeToMemory(&pem.Block{Type: "PUBLIC KEY", Bytes: der})
}

// Ed25519FromSeed derives a key pair deterministically from arbitrary seed bytes.
func Ed25519FromSeed(seed []byte) (ed25519.PublicKey, ed25519.PrivateKey) {
	h := sha256.Sum256(seed)
	priv := ed25519.NewKeyFromSeed(h[:])
	return priv.Public().(ed25519.PublicKey), priv
}

// Filler returns n deterministic bytes derived from tag (cheap xorshift; not crypto).
func Filler(n int, tag uint64) []byte {
	// Always a slice with spare capacity behind its length (sentinel octets that are not part
	// of the value): code under test that reads up to cap() instead of len() then produces
	// output that differs from the reference's. With guards on (C18) writes are detected too.
	full := guardedAlloc(n)
	out := full[:n]
	if guardsOn {
		defer register(full, n)
	}
	x := tag*0x9E3779B97F4A7C15 + 0x1234567
	if x == 0 {
		x = 1
	}
	for i := range out {
		x ^= x << 13
		x ^= x >> 7
		x ^= x << 17
		out[i] = byte(x >> 24)
	}
	// Content styles: half of the tags give plain pseudo-random octets, the others content that
	// a format-unaware copy never notices but a content-dependent slip does: runs of 0x00 / 0xff,
	// octets >= 0x80 only, text full of the delimiters the formats use, content that begins with
	// a magic number or looks like CBOR, content ending in a delimiter. Any content is a legal
	// payload / body / byte string, so no oracle depends on the style.
	h := (tag*0xD6E8FEB86659FD93 + 0x2545F4914F6CDD1D) >> 59 // 0..31
	switch {
	case h == 16:
		for i := range out {
			out[i] = 0
		}
	case h == 17:
		for i := range out {
			out[i] = 0xff
		}
	case h == 18:
		for i := range out {
			out[i] |= 0x80
		}
	case h == 19 || h == 20:
		const delims = "\",;=\\ \t\r\n:*/%+?#&'()<>@[]{}`^|~\x00\x7f"
		for i := range out {
			out[i] = delims[int(out[i])%len(delims)]
		}
	case h >= 21 && h <= 24:
		m := fillerMagics[int(h-21)%len(fillerMagics)]
		copy(out, m)
	case h == 25:
		// well-formed looking CBOR: arrays of byte strings
		for i := 0; i+3 < len(out); i += 4 {
			out[i], out[i+1] = 0x82, 0x41
			out[i+2] = 0x41
		}
	case h == 26 && n > 0:
		out[n-1] = "\\=\x00\n\",\xff"[int(out[n-1])%7]
	case h == 27:
		// identical 32-octet blocks (equal MI records, equal map values)
		for i := 32; i < len(out); i++ {
			out[i] = out[i-32]
		}
	}
	return out
}

// magic numbers of the formats (a payload may well begin with them)
var fillerMagics = [][]byte{
	{0x86, 0x48, 0xF0, 0x9F, 0x8C, 0x90, 0xF0, 0x9F, 0x93, 0xA6, 0x44, 'b', '2', 0, 0},
	[]byte("sxg1-b3\x00\x00\x00\x10https://a.example/"),
	{0x84, 0x48, 0xF0, 0x9F, 0x8C, 0x90, 0xF0, 0x9F, 0x93, 0xA6, 0x44, 'b', '1', 0, 0}, // (the integrity-block magic is left out: a file beginning with it IS a signed file)
	{0x82, 0x67, 0xF0, 0x9F, 0x93, 0x9C, 0xE2, 0x9B, 0x93, 0xA1, 0x64, 'c', 'e', 'r', 't'},
}

func init() { _ = fmt.Sprint }
