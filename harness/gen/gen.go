package gen

import (
	"bufio"
	"bytes"
	"io"
	"net/http"
	"os"
	"sort"
	"strings"
	"sync"

	"pgregory.net/rapid"
)

// HeaderKV is one header field as the caller adds it (name in the caller's letter case).
type HeaderKV struct {
	Name   string   `json:"name"`
	Values []string `json:"values"`
	// Raw: stored under the name exactly as written (direct map assignment, e.g. a map literal
	// with a non-canonical key) instead of through Header.Add. Only used for harmless names
	// that the verifiers never look up with Header.Get.
	Raw bool `json:"raw,omitempty"`
	// Force: stored under the exact name even if another key folds to the same lower-case name
	// (two map keys differing only in letter case; the encoders must refuse or at least behave
	// deterministically). Used by C18 only.
	Force bool `json:"force,omitempty"`
	// NoValues: the map holds the key with NO values (1: a nil slice, 2: an empty non-nil slice),
	// as `h["Set-Cookie"] = nil` leaves it. The serializers emit such a field with an empty
	// value, so it is part of the exchange. Values is ignored. Used by C09.
	NoValues int `json:"no_values,omitempty"`
}

// PlainReader hands out b through a reader that implements nothing but Read (like a file, pipe
// or socket: no Len, ReadByte or WriteTo), at most chunk bytes per call; with eofWithData the
// final bytes are returned together with io.EOF, which io.Reader allows.
type PlainReader struct {
	B           []byte
	Chunk       int
	EOFWithData bool
}

func (p *PlainReader) Read(dst []byte) (int, error) {
	if len(p.B) == 0 {
		return 0, io.EOF
	}
	n := len(dst)
	if p.Chunk > 0 && n > p.Chunk {
		n = p.Chunk
	}
	n = copy(dst[:n], p.B)
	p.B = p.B[n:]
	if p.EOFWithData && len(p.B) == 0 && n > 0 {
		return n, io.EOF
	}
	return n, nil
}

// Source returns a bytes.Reader (mode 0) or a PlainReader (mode>0: chunk size = mode, odd modes
// also return the last bytes together with io.EOF).
func Source(b []byte, mode int) io.Reader {
	if mode == SourceSeekAdvanced {
		// a seekable reader that has ALREADY been read up to where the input begins (a container
		// with a preamble, an earlier item consumed): the input is what the reader has left
		pre := Filler(61, uint64(len(b))+5)
		br := bytes.NewReader(append(append([]byte{}, pre...), b...))
		br.Seek(int64(len(pre)), io.SeekStart)
		return br
	}
	if mode == SourceFile || mode == SourceFileAdvanced {
		pre := 0
		if mode == SourceFileAdvanced {
			pre = 61
		}
		if f := fileSource(b, pre); f != nil {
			return f
		}
		return bytes.NewReader(b)
	}
	if mode == SourcePipe {
		if f := pipeSource(b); f != nil {
			return f
		}
		return &PlainReader{B: append([]byte{}, b...), Chunk: 4096}
	}
	if mode == SourceBufio {
		// a *bufio.Reader with the smallest buffer (Peek / Discard / ReadSlice are tempting fast paths)
		return bufio.NewReaderSize(&PlainReader{B: append([]byte{}, b...), Chunk: 1 << 20}, 16)
	}
	if mode == SourceBuffer {
		backing := append(make([]byte, 0, len(b)+32), b...)
		bb := bytes.NewBuffer(backing)
		bufBacking.Store(bb, backing[:cap(backing)])
		return bb
	}
	if mode <= 0 {
		return bytes.NewReader(b)
	}
	return &PlainReader{B: append([]byte{}, b...), Chunk: mode, EOFWithData: mode%2 == 1}
}

// SourceBuffer is the Source mode for a *bytes.Buffer over a slice of the caller (the reader kind
// whose Next method hands out slices of the underlying array). After the read the caller calls
// Recycle: it reuses that array, and what the code under test returned must not change.
const SourceBuffer = -100

// SourceSeekAdvanced, SourceBufio: see Source.
const (
	SourceSeekAdvanced = -101
	SourceBufio        = -102
)

// SourceFile, SourceFileAdvanced, SourcePipe: the input arrives as an *os.File - a regular file
// at offset 0, a regular file whose offset has been advanced past a preamble, the read end of a
// pipe (Stat().Size() is 0, Seek fails, reads are short). Concrete-type fast paths for files
// (size from Stat, ReadAt, mmap-like whole-file reads) must behave like any other reader.
// Recycle closes them.
const (
	SourceFile         = -103
	SourceFileAdvanced = -104
	SourcePipe         = -105
)

var (
	srcDirOnce sync.Once
	srcDir     string
)

func fileSource(b []byte, pre int) *os.File {
	srcDirOnce.Do(func() { srcDir, _ = os.MkdirTemp("", "verif-src-") })
	f, err := os.CreateTemp(srcDir, "in-")
	if err != nil {
		return nil
	}
	os.Remove(f.Name()) // the open descriptor keeps the (now nameless) file alive
	if pre > 0 {
		f.Write(Filler(pre, uint64(len(b))+5))
	}
	if _, err := f.Write(b); err != nil {
		f.Close()
		return nil
	}
	if _, err := f.Seek(int64(pre), io.SeekStart); err != nil {
		f.Close()
		return nil
	}
	return f
}

func pipeSource(b []byte) *os.File {
	r, w, err := os.Pipe()
	if err != nil {
		return nil
	}
	data := append([]byte{}, b...)
	go func() {
		w.Write(data) // returns with an error once the read end is closed (Recycle or finalizer)
		w.Close()
	}()
	return r
}

var bufBacking sync.Map // *bytes.Buffer -> its backing array

// Recycle overwrites the array behind a reader made by Source(b, SourceBuffer); a no-op for
// every other reader.
func Recycle(r io.Reader) {
	if f, ok := r.(*os.File); ok {
		f.Close()
		return
	}
	bb, ok := r.(*bytes.Buffer)
	if !ok {
		return
	}
	if v, ok := bufBacking.LoadAndDelete(bb); ok {
		full := v.([]byte)
		for i := range full {
			full[i] ^= 0x5A
		}
	}
}

// SourceModeOf picks a reader mode as a pure function of the bytes (about 40% plain readers), for
// checks whose Case types carry no explicit mode.
func SourceModeOf(b []byte) int {
	h := len(b)
	for i, x := range b {
		if i > 64 {
			break
		}
		h = h*31 + int(x)
	}
	if h < 0 {
		h = -h
	}
	return []int{0, 0, SourceSeekAdvanced, SourceBufio, SourceBuffer, SourceBuffer, 1, 2, 7, 512, 4096, 4097, SourceFile, SourceFileAdvanced, SourcePipe, SourcePipe}[h%16]
}

// DrawSourceMode draws a reader mode for Source.
func DrawSourceMode(t *rapid.T, label string) int {
	return rapid.SampledFrom([]int{0, 0, SourceBuffer, SourceSeekAdvanced, SourceBufio, 1, 2, 7, 512, 4096, 1 << 20, 1<<20 + 1, SourceFile, SourceFileAdvanced, SourcePipe}).Draw(t, label)
}

// BuildHeader inserts the fields with http.Header.Add (the repository's own calling
// convention: canonical keys).
func BuildHeader(kvs []HeaderKV) http.Header {
	h := http.Header{}
	keyOf := map[string]string{} // folded name -> map key in use (never two keys for one folded name)
	for _, kv := range kvs {
		if kv.NoValues > 0 {
			key := http.CanonicalHeaderKey(kv.Name)
			if kv.Raw {
				key = kv.Name
			}
			if _, dup := keyOf[strings.ToLower(kv.Name)]; !dup {
				keyOf[strings.ToLower(kv.Name)] = key
				h[key] = map[int][]string{1: nil, 2: {}}[kv.NoValues]
			}
			continue
		}
		if len(kv.Values) == 0 {
			continue
		}
		if kv.Force {
			h[kv.Name] = append(h[kv.Name], kv.Values...)
			continue
		}
		f := strings.ToLower(kv.Name)
		key, seen := keyOf[f]
		if !seen {
			key = http.CanonicalHeaderKey(kv.Name)
			if kv.Raw {
				key = kv.Name
			}
			keyOf[f] = key
		}
		h[key] = append(h[key], kv.Values...)
	}
	return h
}

// Normalize is the model of "names case-folded, repeated values comma-joined".
func Normalize(h http.Header) map[string]string {
	out := map[string]string{}
	for k, vs := range h {
		out[strings.ToLower(k)] = strings.Join(vs, ",")
	}
	return out
}

// NormalizeKVs is Normalize computed from the caller-side list, independently of http.Header
// (values of names that fold to the same lower-case name are joined in insertion order).
func NormalizeKVs(kvs []HeaderKV) map[string]string {
	parts := map[string][]string{}
	for _, kv := range kvs {
		k := strings.ToLower(kv.Name)
		if len(kv.Values) == 0 {
			continue
		}
		parts[k] = append(parts[k], kv.Values...)
	}
	out := map[string]string{}
	for k, vs := range parts {
		out[k] = strings.Join(vs, ",")
	}
	return out
}

func MapsEqual(a, b map[string]string) bool {
	if len(a) != len(b) {
		return false
	}
	for k, v := range a {
		if w, ok := b[k]; !ok || w != v {
			return false
		}
	}
	return true
}

func SortedKeys(m map[string]string) []string {
	ks := make([]string, 0, len(m))
	for k := range m {
		ks = append(ks, k)
	}
	sort.Strings(ks)
	return ks
}

// Banned names: never generated as "harmless" headers (they change verification verdicts or
// are added by the code under test).
var reserved = map[string]bool{
	"digest": true, "mi-draft2": true, "content-encoding": true, "signature": true,
	"variants": true, "variant-key": true, "content-type": true, "cache-control": true, "expires": true,
	// uncached / stateful response headers
	"connection": true, "keep-alive": true, "proxy-connection": true, "trailer": true, "transfer-encoding": true, "upgrade": true,
	"authentication-control": true, "authentication-info": true, "clear-site-data": true, "optional-www-authenticate": true,
	"proxy-authenticate": true, "proxy-authentication-info": true, "public-key-pins": true, "sec-websocket-accept": true,
	"set-cookie": true, "set-cookie2": true, "setprofile": true, "strict-transport-security": true, "www-authenticate": true,
	// stateful request headers
	"authorization": true, "cookie": true, "cookie2": true, "proxy-authorization": true, "sec-websocket-key": true,
}

var namePool = []string{"X-Foo", "x-bar", "Vary", "ETag", "Link", "X-A", "Accept-Ranges", "aGe", "SERVER", "x-long-header-name-for-size", "Content-Language", "Last-Modified", "x-b1", "X-B1", "Foo"}

// HeaderName draws a valid field-name token in random letter case that is not reserved.
func HeaderName(t *rapid.T, label string) string {
	for i := 0; i < 20; i++ {
		var n string
		if rapid.IntRange(0, 2).Draw(t, label+"-pool") > 0 {
			n = rapid.SampledFrom(namePool).Draw(t, label)
		} else {
			n = rapid.StringMatching(`[A-Za-z][A-Za-z0-9\-]{0,14}`).Draw(t, label)
		}
		if !reserved[strings.ToLower(n)] {
			return n
		}
	}
	return "X-Fallback"
}

// FieldValue draws an ASCII field value (may be empty, may carry inner/outer spaces).
func FieldValue(t *rapid.T, label string) string {
	switch rapid.IntRange(0, 9).Draw(t, label+"-kind") {
	case 0:
		return ""
	case 1:
		ws := []string{" ", " ", "\t", "  ", ""}
		return rapid.SampledFrom(ws).Draw(t, label+"-lead") + rapid.StringMatching(`[a-z0-9]{0,8}`).Draw(t, label) + rapid.SampledFrom(ws).Draw(t, label+"-trail")
	case 2:
		return rapid.StringMatching(`[ -~]{0,40}`).Draw(t, label)
	case 3:
		// value in a chosen CBOR length class
		n := rapid.SampledFrom([]int{22, 23, 24, 25, 254, 255, 256, 257}).Draw(t, label+"-len")
		return strings.Repeat("v", n)
	case 4:
		if rapid.IntRange(0, 2).Draw(t, label+"-impl") == 0 {
			return strings.Repeat("w", ImplLen(t, label+"-impllen", 4097))
		}
	}
	return rapid.StringMatching(`[a-zA-Z0-9=;/. _\-]{1,24}`).Draw(t, label)
}

// Headers draws 0..max harmless header fields (1–3 values each).
func Headers(t *rapid.T, label string, max int) []HeaderKV {
	n := rapid.IntRange(0, max).Draw(t, label+"-n")
	var out []HeaderKV
	folded := map[string]bool{}
	rawFolded := map[string]bool{}
	for i := 0; i < n; i++ {
		kv := HeaderKV{Name: HeaderName(t, label+"-name")}
		f := strings.ToLower(kv.Name)
		// a raw (non-canonical) map key must not share its folded name with another entry:
		// two map keys folding to one name are a duplicate CBOR key, which the encoders refuse
		if rawFolded[f] {
			continue
		}
		if !folded[f] && rapid.IntRange(0, 3).Draw(t, label+"-raw") == 0 {
			kv.Raw = true
			kv.Name = rapid.SampledFrom([]string{strings.ToLower(kv.Name), strings.ToUpper(kv.Name), kv.Name}).Draw(t, label+"-rawcase")
			rawFolded[f] = true
		}
		folded[f] = true
		nv := 1
		if rapid.IntRange(0, 3).Draw(t, label+"-multi") == 0 {
			nv = rapid.IntRange(2, 3).Draw(t, label+"-nv")
		}
		for j := 0; j < nv; j++ {
			kv.Values = append(kv.Values, FieldValue(t, label+"-val"))
		}
		out = append(out, kv)
	}
	return out
}

// Hosts used in generated URLs (fixture certificates cover a/b/c.example).
var Hosts = []string{"a.example", "b.example", "c.example", "www.a.example", "x.w.example", "other.test"}

// PathQuery draws a URL path (+ optional query) with escapes and metacharacters that survive
// url.Parse(...).String() unchanged or not — callers must not assume idempotence.
func PathQuery(t *rapid.T, label string) string {
	segs := rapid.IntRange(0, 3).Draw(t, label+"-segs")
	p := ""
	for i := 0; i < segs; i++ {
		p += "/" + rapid.SampledFrom([]string{"a", "index.html", "dir", "a%20b", "%41", "x.y", "~u", "a+b", "a;b", "a=b", "@", "%2F", "é", "%C3%A9", "a:b", "-", "_", "!$&'()*,"}).Draw(t, label+"-seg")
	}
	if segs == 0 || rapid.IntRange(0, 3).Draw(t, label+"-slash") == 0 {
		p += "/"
	}
	if rapid.IntRange(0, 2).Draw(t, label+"-q") == 0 {
		p += "?" + rapid.SampledFrom([]string{"", "a=b", "q=1&r=2", "x=%20", "a=b?c", "k=v/w", "%3D=1"}).Draw(t, label+"-query")
	}
	return p
}

// HTTPSURL draws an absolute https URL string on the given host.
func HTTPSURL(t *rapid.T, label, host string) string {
	port := ""
	if rapid.IntRange(0, 5).Draw(t, label+"-port") == 0 {
		port = rapid.SampledFrom([]string{":443", ":8443", ":1"}).Draw(t, label+"-portv")
	}
	return "https://" + host + port + PathQuery(t, label)
}

// LenNear draws a payload length relative to a record size: 0, 1, k*rs-1, k*rs, k*rs+1, or random.
func LenNear(t *rapid.T, label string, rs, maxLen int) int {
	var n int
	switch rapid.IntRange(0, 7).Draw(t, label+"-kind") {
	case 0:
		n = 0
	case 1:
		n = 1
	case 2, 3, 4:
		k := rapid.IntRange(1, 4).Draw(t, label+"-k")
		d := rapid.IntRange(-1, 1).Draw(t, label+"-d")
		n = k*rs + d
	default:
		n = rapid.IntRange(0, 3*rs+2).Draw(t, label+"-n")
	}
	if n < 0 {
		n = 0
	}
	if n > maxLen {
		n = maxLen
	}
	return n
}

// ImplLens: lengths around powers of two. The format has no boundary there, but implementations
// do (inline buffers, chunk sizes, pool classes): 64, 128, 512, 4 KiB ...
var ImplLens = []int{15, 16, 17, 31, 32, 33, 62, 63, 64, 65, 66, 127, 128, 129, 511, 512, 513, 1023, 1024, 1025, 4095, 4096, 4097}

// ImplLen draws one of ImplLens not above max.
func ImplLen(t *rapid.T, label string, max int) int {
	n := rapid.SampledFrom(ImplLens).Draw(t, label)
	if n > max {
		n = max
	}
	return n
}

// RecordSize draws an MI record size in 1..16384 biased to the edges.
func RecordSize(t *rapid.T, label string) int {
	switch rapid.IntRange(0, 5).Draw(t, label+"-kind") {
	case 0:
		return rapid.SampledFrom([]int{1, 2, 16, 4096, 16383, 16384}).Draw(t, label)
	case 1:
		return rapid.IntRange(1, 16384).Draw(t, label)
	}
	return rapid.IntRange(1, 64).Draw(t, label)
}
