package gen

import (
	"time"
)

// Instant returns the instant (sec, nsec) of the Unix epoch as a time.Time in one of several Go
// representations of the SAME instant: UTC, fixed zones east and west of Greenwich (one of them
// with an odd offset), the process's local zone, and a value carrying a monotonic clock reading.
// The properties speak about instants ("time t", "date", "expires"), so every representation
// must behave alike. The representation is a pure function of the instant (replays are stable).
func Instant(sec, nsec int64) time.Time {
	t := time.Unix(sec, nsec)
	h := uint64(sec)*0x9E3779B97F4A7C15 + uint64(nsec)*0xC2B2AE3D27D4EB4F
	switch (h >> 33) % 8 {
	case 0:
		return t.UTC()
	case 1:
		return t.In(time.FixedZone("east", 5*3600+45*60))
	case 2:
		return t.In(time.FixedZone("west", -11*3600))
	case 3:
		return t.In(time.FixedZone("odd", 12*3600+34*60+56))
	case 4:
		// a value with a monotonic reading (only time.Now() creates one); Add keeps it. Used only
		// where the distance is representable and the wall clock reading comes out exact.
		now := time.Now()
		d := t.Sub(now)
		if d > -200*365*24*time.Hour && d < 200*365*24*time.Hour {
			m := now.Add(d)
			if m.Equal(t) && m.Unix() == sec && int64(m.Nanosecond()) == t.UnixNano()-t.Unix()*1e9 {
				return m
			}
		}
		return t
	}
	return t // time.Local, as time.Unix returns it
}
