// Package c08: the bytes of signed exchanges (signed message, Signature header, header CBOR,
// file layout, header integrity) are what the specification prescribes, recomputed by refsxg.
package c08

import (
	"bytes"
	"crypto/ecdsa"
	"crypto/rand"
	"crypto/sha256"
	"crypto/sha512"
	"crypto/x509"
	"encoding/base64"
	"fmt"
	"net/url"
	"regexp"
	"strings"
	"testing"
	"time"

	"github.com/WICG/webpackage/go/internal/signingalgorithm"
	"github.com/WICG/webpackage/go/signedexchange"
	"github.com/WICG/webpackage/go/verifh/gen"
	"github.com/WICG/webpackage/go/verifh/ref/refsxg"
	"github.com/WICG/webpackage/go/verifh/sxgkit"
	"github.com/WICG/webpackage/go/verifh/vh"
	"pgregory.net/rapid"
)

func TestMain(m *testing.M)   { vh.Main(m) }
func TestReplay(t *testing.T) { vh.Replay(t) }
func TestCorpus(t *testing.T) { vh.Corpus(t) }

type Case struct {
	Spec     sxgkit.Spec `json:"spec"`
	ChainLen int         `json:"chain_len"` // certificates handed to the signer (1..3)
	// RawValidity (reverse sub-check only): the other implementation wrote the validity URL in a
	// valid spelling that Go's url.Parse(...).String() would not reproduce ("empty-fragment": a
	// trailing '#'; "upper-scheme": HTTPS://; "empty-port": host followed by ':'). The signed
	// message holds the bytes of the Signature header's validity-url, whatever their spelling.
	RawValidity string `json:"raw_validity,omitempty"`
}

func digestFor(key *ecdsa.PrivateKey, msg []byte) []byte {
	if key.Curve.Params().BitSize == 384 {
		h := sha512.Sum384(msg)
		return h[:]
	}
	h := sha256.Sum256(msg)
	return h[:]
}

// expectedCanon computes the logical exchange from the spec without going through http.Header.
func expectedCanon(s *sxgkit.Spec, e *signedexchange.Exchange) (sxgkit.Canon, string) {
	c := sxgkit.Canon{Version: s.Version, URL: s.URL, Status: s.Status, Res: gen.NormalizeKVs(s.ResHeaders)}
	if s.Version != "1b3" {
		c.Method = s.Method
		c.Req = gen.NormalizeKVs(s.ReqHeaders)
	}
	// MiEncodePayload adds the content encoding and the integrity header
	dname, ce := "digest", "mi-sha256-03"
	if s.Version == "1b1" {
		dname, ce = "mi-draft2", "mi-sha256-draft2"
	}
	c.Res["content-encoding"] = ce
	dv := ""
	for k, vs := range e.ResponseHeaders {
		if strings.ToLower(k) == dname {
			dv = strings.Join(vs, ",")
		}
	}
	c.Res[dname] = dv
	return c, dv
}

var sigRe = regexp.MustCompile(`;sig=\*([A-Za-z0-9+/=]*)\*`)

var forward = vh.Define("C08", "forward", func(c Case, r *vh.R) {
	s := &c.Spec
	r.Class(s.Version)
	f := gen.Fixtures()[s.Fixture]
	e := sxgkit.New(s)
	if err := e.MiEncodePayload(s.RecordSize); err != nil {
		r.Failf("mi-error", "MiEncodePayload: %v", err)
		return
	}
	sg, err := sxgkit.Signer(s)
	if err != nil {
		r.Skip = true
		return
	}
	chain := []*x509.Certificate{f.Leaf, gen.CA(), gen.CA()}[:c.ChainLen]
	sg.Certs = chain
	canon, dv := expectedCanon(s, e)
	if dv == "" {
		r.Failf("no-digest", "MiEncodePayload did not add the integrity header")
		return
	}
	re := canon.RefExchange()
	refHdr := refsxg.HeadersCBOR(re)
	if len(refHdr) >= 256 {
		r.NT()
		r.Class("headers>=256B")
	}
	if len(s.ResHeaders)+len(s.ReqHeaders) >= 24 {
		r.NT()
		r.Class(">=24-headers")
	}
	if len(refHdr) >= 65536 {
		r.Class("headers>=64KiB")
	}

	// 1. header CBOR
	var hb bytes.Buffer
	if err := e.DumpExchangeHeaders(&hb); err != nil {
		r.Failf("dump-headers-error", "DumpExchangeHeaders: %v", err)
		return
	}
	if !bytes.Equal(hb.Bytes(), refHdr) {
		r.Failf("header-cbor", "header CBOR differs from the specification's canonical serialisation\n got  %x\n want %x", trunc(hb.Bytes()), trunc(refHdr))
		return
	}
	// 2. header integrity
	hi, err := e.ComputeHeaderIntegrity()
	if err != nil || hi != refsxg.HeaderIntegrity(refHdr) {
		r.Failf("header-integrity", "ComputeHeaderIntegrity = %q, %v; want %q", hi, err, refsxg.HeaderIntegrity(refHdr))
		return
	}
	// 3. signed message
	vu := mustURL(s.ValidityURL).String()
	cu := mustURL(s.CertURL).String()
	certSha := gen.CertSha256(f.Leaf)
	refMsg := refsxg.SignedMessage(re, certSha, vu, s.Date, s.Expires)
	var mb bytes.Buffer
	if err := e.DumpSignedMessage(&mb, sg); err != nil {
		r.Failf("dump-message-error", "DumpSignedMessage: %v", err)
		return
	}
	if !bytes.Equal(mb.Bytes(), refMsg) {
		r.Failf("signed-message", "signed message differs from the specification\n got  %x\n want %x", trunc(mb.Bytes()), trunc(refMsg))
		return
	}
	// 4. Signature header
	if err := e.AddSignatureHeader(sg); err != nil {
		r.Failf("sign-error", "AddSignatureHeader: %v", err)
		return
	}
	var sig []byte
	if s.Mock {
		h := sha256.Sum256(refMsg)
		sig = h[:]
	} else {
		m := sigRe.FindStringSubmatch(e.SignatureHeaderValue)
		if m == nil {
			r.Failf("signature-header", "no sig parameter in %q", e.SignatureHeaderValue)
			return
		}
		sig, err = base64.StdEncoding.DecodeString(m[1])
		if err != nil {
			r.Failf("signature-header", "sig parameter is not base64: %v", err)
			return
		}
		if !ecdsa.VerifyASN1(&f.Key.PublicKey, digestFor(f.Key, refMsg), sig) {
			r.Failf("signature-invalid", "the sig parameter does not verify (crypto/ecdsa, %s) over the specification's message", f.Curve)
			return
		}
	}
	wantSig := refsxg.SignatureHeader(refsxg.SigParams{Label: "label", Sig: sig, Integrity: refsxg.IntegrityID(s.Version), CertURL: cu,
		CertSha256: certSha, ValidityURL: vu, Date: s.Date, Expires: s.Expires})
	if e.SignatureHeaderValue != wantSig {
		r.Failf("signature-header", "Signature header differs\n got  %s\n want %s", e.SignatureHeaderValue, wantSig)
		return
	}
	// 5. file layout
	var fb bytes.Buffer
	werr := e.Write(&fb)
	fits := true
	if s.Version != "1b1" && (len(s.URL) > 65535 || len(wantSig) > 16384 || len(refHdr) > 524288) {
		fits = false
	}
	if fits {
		if werr != nil {
			r.Failf("write-error", "Write: %v", werr)
			return
		}
		want := refsxg.File(s.Version, s.URL, wantSig, refHdr, e.Payload)
		if !bytes.Equal(fb.Bytes(), want) {
			r.Failf("file-layout", "file differs from the specified layout (got %d bytes, want %d): first difference at %d", fb.Len(), len(want), firstDiff(fb.Bytes(), want))
			return
		}
	}
	if s.Date == 0 || s.Date >= 1<<31 {
		r.Class("extreme-date")
	}
})

func firstDiff(a, b []byte) int {
	for i := 0; i < len(a) && i < len(b); i++ {
		if a[i] != b[i] {
			return i
		}
	}
	return min(len(a), len(b))
}

func trunc(b []byte) []byte {
	if len(b) > 400 {
		return b[:400]
	}
	return b
}

func mustURL(s string) *url.URL {
	u, err := url.Parse(s)
	if err != nil {
		panic(err)
	}
	return u
}

// reverse: an exchange assembled entirely by the reference implementation and signed with
// crypto/ecdsa must be accepted by ReadExchange + Verify.
var reverse = vh.Define("C08", "reverse", func(c Case, r *vh.R) {
	s := &c.Spec
	r.Class(s.Version)
	f := gen.Fixtures()[s.Fixture]
	// payload encoding: taken from the library's MI encoder (C14 decides MI conformance)
	tmp := sxgkit.New(s)
	if err := tmp.MiEncodePayload(s.RecordSize); err != nil {
		r.Failf("mi-error", "MiEncodePayload: %v", err)
		return
	}
	canon, _ := expectedCanon(s, tmp)
	re := canon.RefExchange()
	hdr := refsxg.HeadersCBOR(re)
	vu := mustURL(s.ValidityURL).String()
	switch c.RawValidity {
	case "empty-fragment":
		if !strings.Contains(vu, "#") {
			vu += "#"
		}
	case "upper-scheme":
		vu = "HTTPS" + strings.TrimPrefix(vu, "https")
	}
	if c.RawValidity != "" {
		r.Class("validity-url-spelling-not-a-go-fixpoint")
	}
	certSha := gen.CertSha256(f.Leaf)
	msg := refsxg.SignedMessage(re, certSha, vu, s.Date, s.Expires)
	sig, err := ecdsa.SignASN1(rand.Reader, f.Key, digestFor(f.Key, msg))
	if err != nil {
		panic(err)
	}
	sh := refsxg.SignatureHeader(refsxg.SigParams{Label: "sig1", Sig: sig, Integrity: refsxg.IntegrityID(s.Version), CertURL: s.CertURL,
		CertSha256: certSha, ValidityURL: vu, Date: s.Date, Expires: s.Expires})
	file := refsxg.File(s.Version, s.URL, sh, hdr, tmp.Payload)
	e, err := signedexchange.ReadExchange(bytes.NewReader(file))
	if err != nil {
		r.Failf("reference-file-rejected", "ReadExchange rejects a file built from the specification: %v", err)
		return
	}
	mid := s.Date + (s.Expires-s.Date)/2
	p, ok, lg := sxgkit.VerifyLog(e, mid, sxgkit.Fetcher(s.Fixture))
	if !ok {
		r.Failf("reference-signature-rejected", "Verify rejects an exchange signed over the specification's message with crypto/ecdsa: %s", lg)
		return
	}
	if !bytes.Equal(p, s.Payload()) {
		r.Failf("reference-payload", "Verify returned a different payload")
		return
	}
	r.NT()
	if len(hdr) >= 256 {
		r.Class("headers>=256B")
	}
})

func wideHeaders(t *rapid.T, label string, max int) []gen.HeaderKV {
	n := rapid.IntRange(0, max).Draw(t, label+"-n")
	var out []gen.HeaderKV
	for i := 0; i < n; i++ {
		name := fmt.Sprintf("X-H%d", i)
		if rapid.IntRange(0, 2).Draw(t, label+"-pool") == 0 {
			name = gen.HeaderName(t, label+"-name")
		}
		kv := gen.HeaderKV{Name: name, Values: []string{gen.FieldValue(t, label+"-v")}}
		if rapid.IntRange(0, 5).Draw(t, label+"-two") == 0 {
			kv.Values = append(kv.Values, gen.FieldValue(t, label+"-v2"))
		}
		out = append(out, kv)
	}
	return out
}

func genCase(t *rapid.T, conforming bool) Case {
	s := sxgkit.GenSpec(t)
	if s.PayloadLen > 3000 {
		s.PayloadLen %= 3000
	}
	c := Case{Spec: *s, ChainLen: rapid.IntRange(1, 3).Draw(t, "chainlen")}
	// wider header sets (every CBOR length class for the map header and for values)
	if rapid.IntRange(0, 2).Draw(t, "wide") == 0 {
		c.Spec.ResHeaders = append(c.Spec.ResHeaders, wideHeaders(t, "wres", 40)...)
		if s.Version != "1b3" {
			c.Spec.ReqHeaders = append(c.Spec.ReqHeaders, wideHeaders(t, "wreq", 30)...)
		}
	}
	if rapid.IntRange(0, 15).Draw(t, "huge") == 0 {
		c.Spec.ResHeaders = append(c.Spec.ResHeaders, gen.HeaderKV{Name: "X-Huge", Values: []string{strings.Repeat("z", rapid.SampledFrom([]int{65535, 65536, 70000}).Draw(t, "hugelen"))}})
	}
	if !conforming {
		c.Spec.Mock = rapid.Bool().Draw(t, "mock")
		c.Spec.Status = rapid.SampledFrom([]int{100, 200, 204, 301, 404, 500, 599, 999, 0, 1000}).Draw(t, "anystatus")
		if s.Version != "1b3" {
			c.Spec.Method = rapid.SampledFrom([]string{"GET", "HEAD", "POST", "PATCH", "OPTIONS"}).Draw(t, "anymethod")
		}
		switch rapid.IntRange(0, 5).Draw(t, "datekind") {
		case 0:
			c.Spec.Date = rapid.SampledFrom([]int64{0, 1, 1<<31 - 1, 1 << 31, 1<<32 - 1, 1 << 32, 1 << 62}).Draw(t, "xdate")
			c.Spec.Expires = c.Spec.Date + rapid.Int64Range(0, 604800).Draw(t, "xlife")
		}
	}
	return c
}

func TestPropForward(t *testing.T) {
	forward.Rapid(t, func(t *rapid.T) Case { return genCase(t, false) })
}

// TestConcForward: batches of cases evaluated at the same time on separate goroutines (vh.Prop.Concurrent).
func TestConcForward(t *testing.T) {
	forward.Concurrent(t, func(t *rapid.T) Case { return genCase(t, false) }, 8, 3)
}

func TestPropReverse(t *testing.T) { reverse.Rapid(t, genPropReverse) }

// TestConcReverse: batches of cases evaluated at the same time on separate goroutines (vh.Prop.Concurrent).
func TestConcReverse(t *testing.T) { reverse.Concurrent(t, genPropReverse, 8, 3) }

func genPropReverse(t *rapid.T) Case {
	c := genCase(t, true)
	c.RawValidity = rapid.SampledFrom([]string{"", "", "empty-fragment", "upper-scheme"}).Draw(t, "rawvalidity")
	return c
}

var _ = time.Now
var _ signingalgorithm.SigningAlgorithm

// ---- signer reuse: one Signer object signs exchange A, is then re-pointed at another
// certificate for the SAME key (fixtures 0 and 3 share a key: certificate renewal) with other
// dates / URLs, and signs exchange B. B's bytes must be what the specification prescribes for
// the signer's CURRENT fields (no state may be carried over from the first signing).

type ReuseCase struct {
	A, B Case `json:"-"`
	SA   sxgkit.Spec `json:"a"`
	SB   sxgkit.Spec `json:"b"`
	// Refused: a signing attempt that the library refuses, made with the same Signer between the
	// two signings ("" none; validity-nonascii / certurl-nonascii: a URL whose raw query holds a
	// non-ASCII character cannot be written as a structured-header string, so the Signature header
	// serialisation stops half-way; certurl-scheme: refused before anything is serialised).
	Refused string `json:"refused,omitempty"`
}

var reuse = vh.Define("C08", "signer-reuse", func(c ReuseCase, r *vh.R) {
	sa, sb := c.SA, c.SB
	sa.Fixture, sb.Fixture = 0, 3 // same key, different certificates
	if c.SA.Fixture == 3 {
		sa.Fixture, sb.Fixture = 3, 0
	}
	sa.Mock, sb.Mock = false, false
	ea := sxgkit.New(&sa)
	eb := sxgkit.New(&sb)
	if err := ea.MiEncodePayload(sa.RecordSize); err != nil {
		r.Failf("mi-error", "%v", err)
		return
	}
	if err := eb.MiEncodePayload(sb.RecordSize); err != nil {
		r.Failf("mi-error", "%v", err)
		return
	}
	sg, err := sxgkit.Signer(&sa)
	if err != nil {
		r.Skip = true
		return
	}
	if err := ea.AddSignatureHeader(sg); err != nil {
		r.Failf("sign-error", "first signing: %v", err)
		return
	}
	if c.Refused != "" {
		ex := sxgkit.New(&sa)
		if err := ex.MiEncodePayload(sa.RecordSize); err == nil {
			keepV, keepC := sg.ValidityUrl, sg.CertUrl
			switch c.Refused {
			case "validity-nonascii":
				sg.ValidityUrl = mustURL("https://a.example/validity?v=\u00e9")
			case "certurl-nonascii":
				sg.CertUrl = mustURL("https://a.example/cert?c=\u00e9")
			case "certurl-scheme":
				sg.CertUrl = mustURL("http://a.example/cert")
			}
			if err := ex.AddSignatureHeader(sg); err != nil {
				r.Class("refused-signing-between")
			}
			sg.ValidityUrl, sg.CertUrl = keepV, keepC
		}
	}
	// re-point the same Signer object
	fb := gen.Fixtures()[sb.Fixture]
	sg.Certs = fb.Chain
	sg.Date = gen.Instant(sb.Date, 0)
	sg.Expires = gen.Instant(sb.Expires, 0)
	sg.ValidityUrl = mustURL(sb.ValidityURL)
	sg.CertUrl = mustURL(sb.CertURL)
	if err := eb.AddSignatureHeader(sg); err != nil {
		r.Failf("sign-error", "second signing with the re-pointed signer: %v", err)
		return
	}
	canon, _ := expectedCanon(&sb, eb)
	re := canon.RefExchange()
	vu := mustURL(sb.ValidityURL).String()
	certSha := gen.CertSha256(fb.Leaf)
	refMsg := refsxg.SignedMessage(re, certSha, vu, sb.Date, sb.Expires)
	var mb bytes.Buffer
	if err := eb.DumpSignedMessage(&mb, sg); err != nil || !bytes.Equal(mb.Bytes(), refMsg) {
		r.Failf("signed-message", "DumpSignedMessage after re-pointing the signer differs from the specification (err %v)", err)
		return
	}
	m := sigRe.FindStringSubmatch(eb.SignatureHeaderValue)
	if m == nil {
		r.Failf("signature-header", "no sig parameter in %q", eb.SignatureHeaderValue)
		return
	}
	sig, err := base64.StdEncoding.DecodeString(m[1])
	if err != nil {
		r.Failf("signature-header", "sig parameter is not base64")
		return
	}
	if !ecdsa.VerifyASN1(&fb.Key.PublicKey, digestFor(fb.Key, refMsg), sig) {
		r.Failf("signature-invalid", "second signature of a reused Signer does not verify over the specification's message for the signer's CURRENT certificate / dates / URLs (state carried over from the first signing?)")
		return
	}
	want := refsxg.SignatureHeader(refsxg.SigParams{Label: "label", Sig: sig, Integrity: refsxg.IntegrityID(sb.Version), CertURL: mustURL(sb.CertURL).String(),
		CertSha256: certSha, ValidityURL: vu, Date: sb.Date, Expires: sb.Expires})
	if eb.SignatureHeaderValue != want {
		r.Failf("signature-header", "Signature header of the second exchange differs\n got  %s\n want %s", eb.SignatureHeaderValue, want)
		return
	}
	// and the result must verify against the CURRENT certificate
	if p, ok, lg := sxgkit.VerifyLog(eb, sb.Date+(sb.Expires-sb.Date)/2, sxgkit.Fetcher(sb.Fixture)); !ok || !bytes.Equal(p, sb.Payload()) {
		r.Failf("reused-signer-output-rejected", "exchange signed by the re-pointed signer does not verify against its current certificate: %s", lg)
		return
	}
	r.NT()
	r.Class(sb.Version)
})

func TestPropSignerReuse(t *testing.T) {
	reuse.Rapid(t, func(t *rapid.T) ReuseCase {
		a := genCase(t, true)
		b := genCase(t, true)
		a.Spec.Fixture = rapid.SampledFrom([]int{0, 3}).Draw(t, "firstfixture")
		return ReuseCase{SA: a.Spec, SB: b.Spec, Refused: rapid.SampledFrom([]string{"", "validity-nonascii", "validity-nonascii", "certurl-nonascii", "certurl-scheme"}).Draw(t, "refused")}
	})
}
