PLAN = dict(
    id="C08", pkg="c08", level="exploration",
    rule=("forward: generated exchange specs (versions x URLs x validity URLs incl. 255/256-byte lengths x dates incl. 0, 2^31, 2^32, 2^62 x 0..45 "
          "headers with values in every CBOR length class incl. 64 KiB x any status x methods x signer chains of 1..3 certificates, mock or real ECDSA); "
          "DumpExchangeHeaders, ComputeHeaderIntegrity, DumpSignedMessage, the Signature header and Write output are compared byte for byte with refsxg "
          "(with real ECDSA the sig parameter is verified by crypto/ecdsa over the REFERENCE message, SHA-256 for P-256 / SHA-384 for P-384). "
          "reverse: a file assembled entirely by refsxg and signed with ecdsa.SignASN1 must be accepted by ReadExchange + Verify and return the payload. "
          "signer-reuse: one Signer object signs exchange A, is re-pointed at another certificate for the same key with other dates / URLs, (in between, in 4 cases of 5, the same Signer makes a signing attempt that the library refuses: a validity / certificate URL that cannot be written as a structured-header string, or a non-https certificate URL), then signs exchange B, whose bytes must be the specification's for the signer's current fields. Non-trivial: header CBOR >= 256 bytes or >= 24 headers (forward); every reverse case."),
    assumptions=TRUSTED + ["the Digest / MI-Draft2 header value is taken from the library's MI encoder (its conformance is property C14)",
                           "signers have at least one certificate"],
    technique="rapid-generated exchanges, differential against an independent re-implementation of the signed-exchange spec, in both directions",
    level_text=("Differential testing against refsxg, an implementation written from the draft text that shares no code with the repository, in both "
                "directions (library output == reference bytes; reference-built file accepted by the library), so an error made identically in the "
                "signer and the verifier is still visible."),
    level_note=NOTE_BASE,
    runs=[
        dict(name="conc", run="^(TestConcReverse|TestConcForward)$", checks=(40, 2000), shards=(2, 8), timeout=(400, 3600), race=True),
        dict(name="forward", run="^(TestPropForward|TestCorpus)$", checks=(1500, 150000), shards=(1, 16), timeout=(300, 3600)),
        dict(name="reuse", run="^TestPropSignerReuse$", checks=(400, 20000), shards=(1, 8), timeout=(300, 3600)),
        dict(name="reverse", run="^TestPropReverse$", checks=(800, 75000), shards=(1, 16), timeout=(300, 3600)),
    ],
    require=[("forward", "headers>=256B"), ("forward", ">=24-headers"), ("forward", "headers>=64KiB"), ("forward", "extreme-date"), ("forward", "1b1"), ("reverse", "1b1")],
)
