// Package c19: fault enumeration of write failures. For every serializer of the repository
// (bundle writer, signed exchange writer, exchange header dump, signed message dump, cert chain
// writer, MI encoder, CBOR encoder call sequences) and a set of fixed + rapid-generated
// artifacts: the fault-free output O is recorded, then the serializer is run again against a
// destination that fails after accepting k bytes, for EVERY k in [0, len(O)], every fault mode
// and destinations with and without io.ReaderFrom.
//
// Oracle (exactly the property): k < len(O) => non-nil error; the bytes the destination accepted
// are a prefix of O; the bundle writer's returned count == bytes accepted; k == len(O) (control)
// => success, accepted == O, count == len(O).
package c19

import (
	"bytes"
	"errors"
	"fmt"
	"github.com/WICG/webpackage/go/bundle"
	"hash/fnv"
	"io"
	"runtime"
	"sort"
	"strings"
	"sync"
	"testing"

	"github.com/WICG/webpackage/go/internal/cbor"
	"github.com/WICG/webpackage/go/signedexchange/certurl"
	"github.com/WICG/webpackage/go/signedexchange/mice"
	"github.com/WICG/webpackage/go/verifh/bundlekit"
	"github.com/WICG/webpackage/go/verifh/gen"
	"github.com/WICG/webpackage/go/verifh/sxgkit"
	"github.com/WICG/webpackage/go/verifh/vh"
	"pgregory.net/rapid"
)

func TestMain(m *testing.M)   { vh.Main(m) }
func TestReplay(t *testing.T) { vh.Replay(t) }
func TestCorpus(t *testing.T) { vh.Corpus(t) }

const sub = "fault"

// ---- artifacts ---------------------------------------------------------------------------

// SxgSpec is a signed exchange built through sxgkit (Mock signing: deterministic bytes).
// Raw: the exchange is neither MI-encoded nor signed (NewExchange + a literal Signature value);
// this is how an exchange with an EMPTY payload is obtained for 1b1 (draft-02 MI never encodes
// to an empty body), needed so that the header block is the last non-empty write.
type SxgSpec struct {
	Spec   sxgkit.Spec `json:"spec"`
	Raw    bool        `json:"raw,omitempty"`
	RawSig string      `json:"raw_sig,omitempty"`
}

// ChainItem: Cert = fixture index (leaf certificate) or -1 for the CA certificate.
type ChainItem struct {
	Cert    int `json:"cert"`
	OCSPLen int `json:"ocsp_len"` // -1 absent (must be >= 0 for item 0, -1 for the others)
	SCTLen  int `json:"sct_len"`  // -1 absent
}

type MISpec struct {
	Draft      string `json:"draft"` // "02" "03"
	RecordSize int    `json:"record_size"`
	PayloadLen int    `json:"payload_len"`
	PayloadTag uint64 `json:"payload_tag"`
}

// Call is one call on a cbor.Encoder.
type Call struct {
	Op      string  `json:"op"` // uint int bytes text array bool map
	U       uint64  `json:"u,omitempty"`
	I       int64   `json:"i,omitempty"`
	Len     int     `json:"len,omitempty"` // bytes: content length; array: number of items
	Tag     uint64  `json:"tag,omitempty"`
	S       string  `json:"s,omitempty"`
	B       bool    `json:"b,omitempty"`
	Entries []Entry `json:"entries,omitempty"`
}

type Entry struct {
	Key string `json:"key"` // text string key (unique within the map)
	Val Call   `json:"val"` // any op but map
}

// Art is one fixed artifact of one serializer.
type Art struct {
	Serializer string          `json:"serializer"` // bundle sxg-write sxg-headers sxg-signedmsg certchain mice cbor
	Bundle     *bundlekit.Spec `json:"bundle,omitempty"`
	Sxg        *SxgSpec        `json:"sxg,omitempty"`
	Chain      []ChainItem     `json:"chain,omitempty"`
	MI         *MISpec         `json:"mi,omitempty"`
	CBOR       []Call          `json:"cbor,omitempty"`
	// Sampled: the output is too large to try every position (cost is quadratic); positions are
	// the deterministic sample of faultPositions().
	Sampled bool `json:"sampled,omitempty"`
	// Appended (bundles): see open
	Appended bool `json:"appended,omitempty"`
	// Thin: artifact of a count sweep (one of very many): a small deterministic sample of fault
	// positions - the first 10, the last 48, every 509th, +-1 around multiples of 512 and 4096 -
	// and only the private error value.
	Thin bool `json:"thin,omitempty"`
}

// faultPositions: every k for ordinary artifacts; for Sampled ones the first and last 300
// positions, +-2 around every multiple of 4 KiB and around every power of two, and a stride of 997
// in between (so every chunk of >= 1 KiB of the output, in particular the last one, is hit).
func faultPositions(n int, sampled bool, thin ...bool) []int {
	if len(thin) > 0 && thin[0] {
		set := map[int]bool{n: true}
		add := func(k int) {
			if k >= 0 && k <= n {
				set[k] = true
			}
		}
		for k := 0; k < 10; k++ {
			add(k)
		}
		for k := 0; k < 48; k++ {
			add(n - k)
		}
		for k := 0; k <= n; k += 509 {
			add(k)
		}
		for k := 512; k <= n+1; k += 512 {
			add(k - 1)
			add(k)
			add(k + 1)
		}
		ks := make([]int, 0, len(set))
		for k := range set {
			ks = append(ks, k)
		}
		sort.Ints(ks)
		return ks
	}
	if !sampled {
		ks := make([]int, n+1)
		for i := range ks {
			ks[i] = i
		}
		return ks
	}
	set := map[int]bool{n: true}
	add := func(k int) {
		if k >= 0 && k <= n {
			set[k] = true
		}
	}
	for k := 0; k < 300; k++ {
		add(k)
		add(n - k)
	}
	for k := 0; k <= n; k += 997 {
		add(k)
	}
	for k := 4096; k <= n+2; k += 4096 {
		for d := -2; d <= 2; d++ {
			add(k + d)
		}
	}
	for k := 1; k <= n+2; k *= 2 {
		for d := -2; d <= 2; d++ {
			add(k + d)
			add(n - k + d)
		}
	}
	ks := make([]int, 0, len(set))
	for k := range set {
		ks = append(ks, k)
	}
	sort.Ints(ks)
	return ks
}

// Case = artifact + one fault. The certificate fixtures are created per process (random keys,
// DER lengths vary by a few bytes), so for artifacts containing certificates len(O) can differ
// between the run that found a case and its replay: OutLen records len(O) of the finding run
// and the replay additionally tries the fault position at the same distance from the END.
type Case struct {
	Art
	K              int    `json:"k"`
	OutLen         int    `json:"out_len,omitempty"`
	Mode           string `json:"mode"` // reject short reject-transient
	SinkReaderFrom bool   `json:"sink_readerfrom"`
	// ErrKind: the error VALUE the destination fails with: "" = a private sentinel, or one of the
	// standard library's values that code may be tempted to treat as "not really an error":
	// "eof" io.EOF, "short-write" io.ErrShortWrite, "closed-pipe" io.ErrClosedPipe, "unexpected-eof"
	// io.ErrUnexpectedEOF.
	ErrKind string `json:"err_kind,omitempty"`
}

var errKinds = []string{"", "eof", "short-write", "closed-pipe", "unexpected-eof"}

func errOfKind(k string) (error, bool) {
	switch k {
	case "":
		return errInjected, true
	case "eof":
		return io.EOF, true
	case "short-write":
		return io.ErrShortWrite, true
	case "closed-pipe":
		return io.ErrClosedPipe, true
	case "unexpected-eof":
		return io.ErrUnexpectedEOF, true
	}
	return nil, false
}

// runFn runs the serializer once over the (fixed) artifact.
type runFn func(w io.Writer) (count int64, hasCount bool, err error)

func applyCall(enc *cbor.Encoder, c *Call) error {
	switch c.Op {
	case "uint":
		return enc.EncodeUint(c.U)
	case "int":
		return enc.EncodeInt(c.I)
	case "bytes":
		return enc.EncodeByteString(gen.Filler(c.Len, c.Tag))
	case "text":
		return enc.EncodeTextString(c.S)
	case "array":
		return enc.EncodeArrayHeader(c.Len)
	case "bool":
		return enc.EncodeBool(c.B)
	case "map":
		mes := make([]*cbor.MapEntryEncoder, 0, len(c.Entries))
		for i := range c.Entries {
			e := &c.Entries[i]
			mes = append(mes, cbor.GenerateMapEntry(func(keyE *cbor.Encoder, valueE *cbor.Encoder) {
				keyE.EncodeTextString(e.Key)
				if e.Val.Op == "map" {
					panic("c19: nested map in a case")
				}
				applyCall(valueE, &e.Val)
			}))
		}
		return enc.EncodeMap(mes)
	}
	panic("c19: unknown cbor op " + c.Op)
}

// open builds the artifact once and returns the re-runnable serializer plus its variant class
// ("bundle:b1", "sxg-write:1b3", "mice:draft03", ...).
func open(a *Art) (run runFn, variant string, err error) {
	defer func() {
		if e := recover(); e != nil {
			err = fmt.Errorf("building the artifact panicked: %v", e)
		}
	}()
	switch a.Serializer {
	case "bundle":
		if a.Bundle == nil {
			return nil, "", errors.New("bundle spec missing")
		}
		b := bundlekit.Build(a.Bundle)
		if a.Appended {
			// the destination is a bundle.CountingWriter that has already carried other data: the
			// count WriteTo returns is the number of bytes of THIS bundle that were accepted
			prefix := gen.Filler(41, 77)
			return func(w io.Writer) (int64, bool, error) {
				cw := bundle.NewCountingWriter(w)
				pn, err := cw.Write(prefix)
				if err != nil {
					return int64(pn), true, err
				}
				n, err := b.WriteTo(cw)
				return int64(pn) + n, true, err
			}, "bundle:" + a.Bundle.Version, nil
		}
		return func(w io.Writer) (int64, bool, error) {
			n, err := b.WriteTo(w)
			return n, true, err
		}, "bundle:" + a.Bundle.Version, nil
	case "sxg-write", "sxg-headers", "sxg-signedmsg":
		if a.Sxg == nil {
			return nil, "", errors.New("sxg spec missing")
		}
		sp := a.Sxg.Spec // copy
		variant = a.Serializer + ":" + sp.Version
		if a.Sxg.Raw {
			if a.Serializer == "sxg-signedmsg" {
				return nil, "", errors.New("raw exchanges are not used with DumpSignedMessage")
			}
			e := sxgkit.New(&sp)
			e.SignatureHeaderValue = a.Sxg.RawSig
			if a.Serializer == "sxg-write" {
				return func(w io.Writer) (int64, bool, error) { return 0, false, e.Write(w) }, variant, nil
			}
			return func(w io.Writer) (int64, bool, error) { return 0, false, e.DumpExchangeHeaders(w) }, variant, nil
		}
		e, sg, err := sxgkit.Build(&sp)
		if err != nil {
			return nil, "", err
		}
		switch a.Serializer {
		case "sxg-write":
			return func(w io.Writer) (int64, bool, error) { return 0, false, e.Write(w) }, variant, nil
		case "sxg-headers":
			return func(w io.Writer) (int64, bool, error) { return 0, false, e.DumpExchangeHeaders(w) }, variant, nil
		}
		return func(w io.Writer) (int64, bool, error) { return 0, false, e.DumpSignedMessage(w, sg) }, variant, nil
	case "certchain":
		if len(a.Chain) == 0 {
			return nil, "", errors.New("empty chain")
		}
		var cc certurl.CertChain
		for i, it := range a.Chain {
			ac := &certurl.AugmentedCertificate{}
			if it.Cert < 0 {
				ac.Cert = gen.CA()
			} else {
				ac.Cert = gen.Fixtures()[it.Cert].Leaf
			}
			if it.OCSPLen >= 0 {
				ac.OCSPResponse = gen.Filler(it.OCSPLen, uint64(500+i))
			}
			if it.SCTLen >= 0 {
				ac.SCTList = gen.Filler(it.SCTLen, uint64(600+i))
			}
			cc = append(cc, ac)
		}
		return func(w io.Writer) (int64, bool, error) { return 0, false, cc.Write(w) }, fmt.Sprintf("certchain:%d", len(cc)), nil
	case "mice":
		if a.MI == nil {
			return nil, "", errors.New("mi spec missing")
		}
		var enc mice.Encoding
		switch a.MI.Draft {
		case "02":
			enc = mice.Draft02Encoding
		case "03":
			enc = mice.Draft03Encoding
		default:
			return nil, "", errors.New("unknown MI draft " + a.MI.Draft)
		}
		if a.MI.RecordSize < 1 {
			return nil, "", errors.New("record size < 1")
		}
		payload := gen.Filler(a.MI.PayloadLen, a.MI.PayloadTag)
		rs := a.MI.RecordSize
		return func(w io.Writer) (int64, bool, error) {
			_, err := enc.Encode(w, payload, rs)
			return 0, false, err
		}, "mice:draft" + a.MI.Draft, nil
	case "cbor":
		calls := a.CBOR
		return func(w io.Writer) (int64, bool, error) {
			// the sequence's error is the first error returned by any call (a caller stops there)
			enc := cbor.NewEncoder(w)
			for i := range calls {
				if err := applyCall(enc, &calls[i]); err != nil {
					return 0, false, err
				}
			}
			return 0, false, nil
		}, "cbor", nil
	}
	return nil, "", errors.New("unknown serializer " + a.Serializer)
}

// ---- sinks -------------------------------------------------------------------------------

var errInjected = errors.New("c19: injected write failure")

const (
	mReject    = iota // sticky: the write that does not fit returns (0, err); later non-empty writes fail too
	mShort            // the write that does not fit accepts the remaining capacity and returns (room, err)
	mTransient        // ENOSPC-like: a write that does not fit returns (0, err); smaller later writes still fit
)

var modeNames = []string{"reject", "short", "reject-transient"}

func modeOf(s string) (int, bool) {
	for i, n := range modeNames {
		if n == s {
			return i, true
		}
	}
	return 0, false
}

// recSink records everything (fault-free baseline). Write-only on purpose.
type recSink struct{ got []byte }

func (s *recSink) Write(p []byte) (int, error) { s.got = append(s.got, p...); return len(p), nil }

// faultSink has capacity cap. Write(p) with len(p) <= remaining capacity is accepted fully
// (so an empty write always succeeds); otherwise the fault is delivered according to mode.
// The accepted bytes are compared with the expected output on the fly (bad = first deviating
// offset) instead of being stored; rec additionally stores them (single-case diagnostics).
type faultSink struct {
	want    []byte
	cap     int
	mode    int
	n       int
	failed  bool
	bad     int
	rec     bool
	got     []byte
	rfCalls int
	err     error // what a failing Write returns
}

func (s *faultSink) take(p []byte) {
	if s.bad < 0 {
		end := s.n + len(p)
		if end > len(s.want) || !bytes.Equal(s.want[s.n:end], p) {
			i := 0
			for i < len(p) && s.n+i < len(s.want) && s.want[s.n+i] == p[i] {
				i++
			}
			s.bad = s.n + i
		}
	}
	if s.rec {
		s.got = append(s.got, p...)
	}
	s.n += len(p)
}

func (s *faultSink) Write(p []byte) (int, error) {
	if len(p) == 0 {
		return 0, nil
	}
	if s.failed && s.mode != mTransient {
		return 0, s.err
	}
	room := s.cap - s.n
	if len(p) <= room {
		s.take(p)
		return len(p), nil
	}
	s.failed = true
	if s.mode == mShort && room > 0 {
		s.take(p[:room])
		return room, s.err
	}
	return 0, s.err
}

// rfSink additionally implements io.ReaderFrom (like *os.File, *bytes.Buffer, *bufio.Writer):
// the data it reads is subject to the same capacity rule, chunk by chunk.
type rfSink struct{ *faultSink }

func (s rfSink) ReadFrom(r io.Reader) (int64, error) {
	s.rfCalls++
	var n int64
	buf := make([]byte, 4096)
	for {
		k, err := r.Read(buf)
		if k > 0 {
			w, werr := s.Write(buf[:k])
			n += int64(w)
			if werr != nil {
				return n, werr
			}
		}
		if err == io.EOF {
			return n, nil
		}
		if err != nil {
			return n, err
		}
	}
}

// ---- oracle ------------------------------------------------------------------------------

type verdict struct{ kind, msg string }

func hexAround(b []byte, at int) string {
	lo, hi := at-8, at+8
	if lo < 0 {
		lo = 0
	}
	if hi > len(b) {
		hi = len(b)
	}
	if lo >= hi {
		return "(none)"
	}
	return fmt.Sprintf("%x (bytes %d..%d)", b[lo:hi], lo, hi)
}

// baseline produces the fault-free output twice and insists that it is reproducible.
func baseline(run runFn) (O []byte, v *verdict) {
	defer func() {
		if e := recover(); e != nil {
			v = &verdict{"baseline-failed", fmt.Sprintf("the serializer panicked on a destination that never fails: %v", e)}
		}
	}()
	var outs [2][]byte
	for i := range outs {
		s := &recSink{}
		n, has, err := run(s)
		if err != nil {
			return nil, &verdict{"baseline-failed", fmt.Sprintf("the serializer failed on a destination that never fails (run %d): %v", i+1, err)}
		}
		if has && n != int64(len(s.got)) {
			return nil, &verdict{"count", fmt.Sprintf("fault-free run: returned count %d but the destination received %d bytes", n, len(s.got))}
		}
		outs[i] = s.got
	}
	if !bytes.Equal(outs[0], outs[1]) {
		return nil, &verdict{"nondeterministic-output", fmt.Sprintf("two fault-free runs over the same artifact gave different outputs (%d vs %d bytes): the prefix oracle is undefined", len(outs[0]), len(outs[1]))}
	}
	if outs[0] == nil {
		outs[0] = []byte{}
	}
	return outs[0], nil
}

// evalFault runs the serializer against a sink of capacity k and judges the outcome.
func evalFault(run runFn, O []byte, k, mode int, rf, rec bool, errKind string) (v *verdict, s *faultSink) {
	ferr, _ := errOfKind(errKind)
	s = &faultSink{want: O, cap: k, mode: mode, bad: -1, rec: rec, err: ferr}
	var w io.Writer = s
	if rf {
		w = rfSink{s}
	}
	var count int64
	var has bool
	var err error
	func() {
		defer func() {
			if e := recover(); e != nil {
				v = &verdict{"panic", fmt.Sprintf("serializer panicked with a destination failing after %d bytes (mode %s): %v", k, modeNames[mode], e)}
			}
		}()
		count, has, err = run(w)
	}()
	if v != nil {
		return v, s
	}
	desc := fmt.Sprintf("destination capacity k=%d of len(O)=%d, mode=%s, readerfrom=%v, failing with %q: serializer returned err=%v", k, len(O), modeNames[mode], rf, ferr, err)
	if has {
		desc += fmt.Sprintf(" count=%d", count)
	}
	desc += fmt.Sprintf("; destination accepted %d bytes", s.n)
	if s.bad >= 0 {
		what := "a byte that differs from the fault-free output"
		if s.bad >= len(O) {
			what = "bytes beyond the end of the fault-free output"
		}
		exp := hexAround(O, s.bad)
		got := ""
		if rec {
			got = "; accepted around it: " + hexAround(s.got, s.bad)
		}
		return &verdict{"not-prefix", fmt.Sprintf("%s. The accepted bytes are NOT a prefix of the fault-free output: at offset %d the destination accepted %s (the serializer kept writing after a failed write). expected around it: %s%s", desc, s.bad, what, exp, got)}, s
	}
	if has && count != int64(s.n) {
		return &verdict{"count", fmt.Sprintf("%s. The returned count differs from what the destination accepted", desc)}, s
	}
	if k < len(O) {
		if err == nil {
			return &verdict{"success-on-partial-output", fmt.Sprintf("%s. Success was reported although only %d of %d bytes reached the destination", desc, s.n, len(O))}, s
		}
		return nil, s
	}
	// control: nothing fails
	if err != nil {
		return &verdict{"control-failed", fmt.Sprintf("%s. The destination had room for the whole output and never failed", desc)}, s
	}
	if s.n != len(O) {
		return &verdict{"control-short", fmt.Sprintf("%s. No fault was injected but the output is incomplete", desc)}, s
	}
	return nil, s
}

var prop = vh.Define("C19", sub, func(c Case, r *vh.R) {
	mode, ok := modeOf(c.Mode)
	if _, known := errOfKind(c.ErrKind); !known {
		ok = false
	}
	if !ok || c.K < 0 {
		r.Failf("bad-case", "unknown mode %q or negative k", c.Mode)
		return
	}
	run, variant, err := open(&c.Art)
	if err != nil {
		r.Failf("baseline-failed", "cannot build the artifact: %v", err)
		return
	}
	O, v := baseline(run)
	if v != nil {
		r.Failf(v.kind, "%s", v.msg)
		return
	}
	ks := []int{c.K}
	if c.OutLen > 0 && c.OutLen != len(O) {
		// certificates differ between processes: also try the same distance from the end
		if k2 := len(O) - (c.OutLen - c.K); k2 >= 0 && k2 != c.K {
			ks = append(ks, k2)
		}
	}
	r.Class("ser:" + c.Serializer)
	r.Class(variant)
	r.Class("mode-" + c.Mode)
	if c.ErrKind != "" {
		r.Class("fails-with:" + c.ErrKind)
	}
	if c.SinkReaderFrom {
		r.Class("sink-readerfrom")
	} else {
		r.Class("sink-plain")
	}
	if len(O) > 32*1024+1 {
		r.Class("artifact>32KiB")
	}
	for _, k := range ks {
		if k < len(O) {
			r.NT()
		} else {
			r.Class("control-k=len")
		}
		// fresh artifact for every evaluation on this path
		run, _, err := open(&c.Art)
		if err != nil {
			r.Failf("baseline-failed", "cannot build the artifact: %v", err)
			return
		}
		if v, _ := evalFault(run, O, k, mode, c.SinkReaderFrom, true, c.ErrKind); v != nil {
			r.Failf(v.kind, "%s %s: %s", c.Serializer, variant, v.msg)
			return
		}
	}
})

// ---- enumeration -------------------------------------------------------------------------

type tally struct {
	mu          sync.Mutex
	artifacts   int
	evaluations int64
}

// enumerate runs every (k, mode, sink) for one artifact. Returns false after reporting a violation.
func enumerate(t *testing.T, a Art, tl *tally) bool {
	report := func(c Case, v *verdict) bool {
		if prop.One(t, c) {
			// p.One rebuilt everything from the Case and the property held there
			t.Errorf("c19: the enumeration saw %s (%s) for serializer %s k=%d mode=%s readerfrom=%v but the same case evaluated from scratch holds: "+
				"a faulted run changed the state of the shared artifact", v.kind, v.msg, a.Serializer, c.K, c.Mode, c.SinkReaderFrom)
		}
		return false
	}
	run, variant, err := open(&a)
	if err != nil {
		return report(Case{Art: a, Mode: "reject"}, &verdict{"baseline-failed", err.Error()})
	}
	O, v := baseline(run)
	if v != nil {
		return report(Case{Art: a, Mode: "reject"}, v)
	}
	classes := map[string]int64{}
	var evals, nt int64
	big := len(O) > 32*1024+1
	for pass, ek := range errKinds {
		for _, rf := range []bool{false, true} {
			for mode := range modeNames {
				if ek != "" && (mode == mTransient || rf != (pass%2 == 0)) {
					continue // the standard error values: sticky and short-write faults, one kind of destination each
				}
				if a.Thin && ek != "" {
					continue
				}
				var rfInvoked int64
				ks := faultPositions(len(O), a.Sampled, a.Thin)
				for _, k := range ks {
					v, s := evalFault(run, O, k, mode, rf, false, ek)
					if v != nil {
						return report(Case{Art: a, K: k, OutLen: len(O), Mode: modeNames[mode], SinkReaderFrom: rf, ErrKind: ek}, v)
					}
					if s.rfCalls > 0 {
						rfInvoked++
					}
				}
				n := int64(len(ks))
				evals += n
				nt += n - 1
				classes["mode-"+modeNames[mode]] += n
				if ek != "" {
					classes["fails-with:"+ek] += n
				}
				if rf {
					classes["sink-readerfrom"] += n
					classes["readfrom-invoked"] += rfInvoked
				} else {
					classes["sink-plain"] += n
				}
				classes["control-k=len"]++
			}
		}
	}
	classes["ser:"+a.Serializer] = evals
	classes[variant] = evals
	if big {
		classes["artifact>32KiB"] = evals
	}
	if a.Thin {
		classes["count-sweep-thin-positions"] = evals
	}
	if a.Sampled {
		classes["artifact>64KiB-sampled-positions"] = evals
		if len(O) > 1<<20 {
			classes["artifact>1MiB-sampled-positions"] = evals
		}
	}
	classes["artifacts"] = 1
	// the artifact object was shared by all runs: it must still produce O
	O2, v := baseline(run)
	if v != nil || !bytes.Equal(O, O2) {
		t.Errorf("c19: serializer %s: after the faulted runs the shared artifact no longer produces the fault-free output (harness precondition)", a.Serializer)
		return false
	}
	var sample any
	if len(O) > 0 {
		sample = Case{Art: a, K: len(O) / 2, OutLen: len(O), Mode: "short", SinkReaderFrom: false}
	}
	vh.Bulk(sub, evals, nt, classes, sample)
	tl.mu.Lock()
	tl.artifacts++
	tl.evaluations += evals
	tl.mu.Unlock()
	return true
}

// runAll de-duplicates the artifacts (so that the distinct count is exact), keeps this shard's
// share and enumerates them on a few goroutines.
func runAll(t *testing.T, arts []Art) {
	seen := map[uint64]bool{}
	var uniq []Art
	for _, a := range arts {
		fp := vh.Fingerprint(a)
		if !seen[fp] {
			seen[fp] = true
			uniq = append(uniq, a)
		}
	}
	si, sn := vh.Shard()
	var mine []Art
	for i, a := range uniq {
		if i%sn == si {
			mine = append(mine, a)
		}
	}
	workers := vh.Scale(4, 2)
	if n := runtime.GOMAXPROCS(0); workers > n {
		workers = n
	}
	var (
		wg     sync.WaitGroup
		next   int
		mu     sync.Mutex
		failed bool
		tl     tally
	)
	for w := 0; w < workers; w++ {
		wg.Add(1)
		go func() {
			defer wg.Done()
			for {
				mu.Lock()
				if failed || next >= len(mine) {
					mu.Unlock()
					return
				}
				a := mine[next]
				next++
				mu.Unlock()
				if !enumerate(t, a, &tl) {
					mu.Lock()
					failed = true
					mu.Unlock()
					return
				}
			}
		}()
	}
	wg.Wait()
	vh.Exhaustive(sub, "per artifact: every fault position k in [0, len(fault-free output)] x {reject, short, reject-transient} x {Write-only sink, sink with io.ReaderFrom}")
	t.Logf("c19: %d artifacts (of %d distinct, shard %d/%d), %d evaluations", tl.artifacts, len(uniq), si, sn, tl.evaluations)
}

// ---- generators --------------------------------------------------------------------------

func exampleSeed(label string, i int) int {
	h := fnv.New64a()
	fmt.Fprintf(h, "%d/%s/%d", vh.Seed(), label, i)
	return int(h.Sum64() >> 1)
}

// generated draws n artifacts; gen receives the artifact's index so that variants rotate.
func generated(label string, n int, g func(t *rapid.T, i int) Art) []Art {
	var out []Art
	for i := 0; i < n; i++ {
		i := i
		out = append(out, rapid.Custom(func(t *rapid.T) Art { return g(t, i) }).Example(exampleSeed(label, i)))
	}
	return out
}

// sizes: quick keeps the generated artifacts small, thorough allows ~4x
func budget() int { return vh.Scale(6000, 20000) }

func genBundle(t *rapid.T, i int) Art {
	want := []string{"b1", "b2"}[i%2]
	var s *bundlekit.Spec
	for try := 0; ; try++ {
		s = bundlekit.Gen(t)
		if must, _ := s.WriteMustFail(); !must && s.Version == want {
			break
		}
		if try > 200 {
			panic("c19: bundlekit.Gen never produced a writable " + want + " bundle")
		}
	}
	// keep the enumeration cheap: the shapes stay, the bulk shrinks
	lim := budget()
	for j := range s.Exchanges {
		e := &s.Exchanges[j]
		if e.BodyLen > lim/2 {
			e.BodyLen = lim/4 + e.BodyLen%(lim/4)
		}
		for h := range e.Headers {
			for v := range e.Headers[h].Values {
				if x := e.Headers[h].Values[v]; len(x) > 600 {
					e.Headers[h].Values[v] = x[:300+len(x)%300]
				}
			}
		}
	}
	total := 0
	for j := range s.Exchanges {
		total += s.Exchanges[j].BodyLen
	}
	if total > lim {
		for j := range s.Exchanges {
			s.Exchanges[j].BodyLen = s.Exchanges[j].BodyLen * lim / total
		}
	}
	if s.Sigs != nil {
		for j := range s.Sigs.Vouched {
			if s.Sigs.Vouched[j].SignedLen > 600 {
				s.Sigs.Vouched[j].SignedLen = 300 + s.Sigs.Vouched[j].SignedLen%300
			}
		}
	}
	return Art{Serializer: "bundle", Bundle: s}
}

func miEncodedLen(plen, rs int) int {
	if plen == 0 {
		return 8
	}
	n := (plen + rs - 1) / rs
	return 8 + plen + 32*(n-1)
}

func genSxg(serializer string) func(t *rapid.T, i int) Art {
	return func(t *rapid.T, i int) Art {
		s := sxgkit.GenSpec(t)
		s.Version = []string{"1b1", "1b2", "1b3"}[i%3]
		if s.Version == "1b3" {
			s.Method = "GET"
			s.ReqHeaders = nil
		}
		s.Mock = true
		for miEncodedLen(s.PayloadLen, s.RecordSize) > budget() {
			s.PayloadLen /= 2
		}
		return Art{Serializer: serializer, Sxg: &SxgSpec{Spec: *s}}
	}
}

func genChain(t *rapid.T, i int) Art {
	n := 1 + i%3
	var items []ChainItem
	for j := 0; j < n; j++ {
		it := ChainItem{Cert: rapid.SampledFrom([]int{0, 1, 2, 3, 4, 5, -1}).Draw(t, "cert"), OCSPLen: -1, SCTLen: -1}
		if j == 0 {
			it.OCSPLen = rapid.SampledFrom([]int{0, 1, 23, 24, 255, 256, 1000}).Draw(t, "ocsp")
		}
		if rapid.Bool().Draw(t, "hassct") {
			it.SCTLen = rapid.SampledFrom([]int{0, 1, 23, 24, 255, 256, 700}).Draw(t, "sct")
		}
		items = append(items, it)
	}
	return Art{Serializer: "certchain", Chain: items}
}

func genMI(t *rapid.T, i int) Art {
	m := &MISpec{Draft: []string{"02", "03"}[i%2], PayloadTag: rapid.Uint64().Draw(t, "tag")}
	m.RecordSize = gen.RecordSize(t, "rs")
	m.PayloadLen = gen.LenNear(t, "plen", m.RecordSize, 4*budget())
	for miEncodedLen(m.PayloadLen, m.RecordSize) > budget() {
		m.PayloadLen /= 2
	}
	return Art{Serializer: "mice", MI: m}
}

var (
	uintEdges  = []uint64{0, 1, 23, 24, 255, 256, 65535, 65536, 1<<32 - 1, 1 << 32, 1<<63 - 1, 1 << 63, 1<<64 - 1}
	intEdges   = []int64{0, 23, 24, -1, -24, -25, -256, -257, -65536, -65537, -1 << 32, -1<<32 - 1, -1 << 63, 1<<63 - 1}
	lenEdges   = []int{0, 1, 23, 24, 255, 256, 257, 1000, 64, 65, 128, 129, 512, 513}
	textValues = []string{"", "a", "hello", "é", "日本語", strings.Repeat("t", 23), strings.Repeat("t", 24), strings.Repeat("x", 256), "\U0001F4DC⛓"}
)

func genScalar(t *rapid.T, label string, ops []string) Call {
	c := Call{Op: rapid.SampledFrom(ops).Draw(t, label+"-op")}
	switch c.Op {
	case "uint":
		if rapid.Bool().Draw(t, label+"-edge") {
			c.U = rapid.SampledFrom(uintEdges).Draw(t, label+"-u")
		} else {
			c.U = rapid.Uint64().Draw(t, label+"-u")
		}
	case "int":
		if rapid.Bool().Draw(t, label+"-edge") {
			c.I = rapid.SampledFrom(intEdges).Draw(t, label+"-i")
		} else {
			c.I = rapid.Int64().Draw(t, label+"-i")
		}
	case "bytes":
		if rapid.IntRange(0, 2).Draw(t, label+"-edge") > 0 {
			c.Len = rapid.SampledFrom(lenEdges).Draw(t, label+"-len")
		} else {
			c.Len = rapid.IntRange(0, 600).Draw(t, label+"-len")
		}
		c.Tag = rapid.Uint64Range(1, 1000).Draw(t, label+"-tag")
	case "text":
		c.S = rapid.SampledFrom(textValues).Draw(t, label+"-s")
	case "array":
		c.Len = rapid.SampledFrom([]int{0, 1, 2, 23, 24, 255, 256, 65536}).Draw(t, label+"-n")
	case "bool":
		c.B = rapid.Bool().Draw(t, label+"-b")
	}
	return c
}

// lastOps: the final call of generated sequence i is lastOps[i%7], so that for every encoder
// method there are artifacts where its write is the last one (an ignored error there is success).
var lastOps = []string{"map", "bytes", "text", "bool", "uint", "int", "array"}

func genMap(t *rapid.T) Call {
	m := Call{Op: "map"}
	ne := rapid.IntRange(2, 6).Draw(t, "nentries")
	if rapid.IntRange(0, 5).Draw(t, "smallmap") == 0 {
		ne = rapid.IntRange(0, 1).Draw(t, "nentries-small")
	}
	for e := 0; e < ne; e++ {
		key := fmt.Sprintf("%s%d", rapid.SampledFrom([]string{"k", "key-", "", "a-rather-long-map-key-over-23-bytes-", "é"}).Draw(t, "keyprefix"), e)
		m.Entries = append(m.Entries, Entry{Key: key, Val: genScalar(t, "val", []string{"uint", "int", "bytes", "bytes", "text", "bool", "array"})})
	}
	return m
}

func genCBOR(t *rapid.T, i int) Art {
	n := rapid.IntRange(1, 8).Draw(t, "ncalls")
	var calls []Call
	for j := 0; j < n; j++ {
		if j == n-1 {
			if op := lastOps[i%len(lastOps)]; op == "map" {
				calls = append(calls, genMap(t))
			} else {
				calls = append(calls, genScalar(t, "last", []string{op}))
			}
			continue
		}
		if rapid.IntRange(0, 3).Draw(t, "map") == 0 {
			calls = append(calls, genMap(t))
			continue
		}
		calls = append(calls, genScalar(t, "call", []string{"uint", "int", "bytes", "text", "array", "bool"}))
	}
	return Art{Serializer: "cbor", CBOR: calls}
}

// ---- fixed artifacts ---------------------------------------------------------------------

func kv(n string, v ...string) gen.HeaderKV { return gen.HeaderKV{Name: n, Values: v} }

func fixedBundles() []Art {
	b1 := &bundlekit.Spec{Version: "b1", Primary: "https://a.example/", Manifest: "https://a.example/manifest.json",
		Exchanges: []bundlekit.ExSpec{
			{URL: "https://a.example/", Status: 200, Headers: []gen.HeaderKV{kv("Content-Type", "text/html")}, BodyLen: 300, BodyTag: 1},
			{URL: "https://a.example/script.js", Status: 200, Headers: []gen.HeaderKV{kv("Content-Type", "text/javascript"), kv("X-Foo", "a", "b")}, BodyLen: 25, BodyTag: 2},
			{URL: "https://a.example/empty", Status: 404, BodyLen: 0, BodyTag: 3},
		},
		Sigs: &bundlekit.SigSpec{Authorities: []bundlekit.AuthSpec{{Fixture: 0, OCSPLen: 24, SCTLen: -1}},
			Vouched: []bundlekit.VouchedSpec{{Authority: 0, SigLen: 72, SignedLen: 100}}},
	}
	b2 := &bundlekit.Spec{Version: "b2", Primary: "https://a.example/index.html?q=1",
		Exchanges: []bundlekit.ExSpec{
			{URL: "https://a.example/index.html?q=1", Status: 200, Headers: []gen.HeaderKV{kv("Content-Type", "text/html")}, BodyLen: 257, BodyTag: 4},
			{URL: "/rel/path", Status: 200, Headers: []gen.HeaderKV{kv("Content-Type", "text/plain")}, BodyLen: 1, BodyTag: 5},
		},
	}
	// b2 without a primary URL and without exchanges: the smallest output
	b2min := &bundlekit.Spec{Version: "b2"}
	return []Art{{Serializer: "bundle", Bundle: b1}, {Serializer: "bundle", Bundle: b2}, {Serializer: "bundle", Bundle: b2min},
		{Serializer: "bundle", Bundle: b1, Appended: true}, {Serializer: "bundle", Bundle: b2, Appended: true}}
}

func bigBundle(ver string, body int) Art {
	s := &bundlekit.Spec{Version: ver, Primary: "https://a.example/big",
		Exchanges: []bundlekit.ExSpec{
			{URL: "https://a.example/big", Status: 200, Headers: []gen.HeaderKV{kv("Content-Type", "application/octet-stream")}, BodyLen: body, BodyTag: 7},
			{URL: "https://a.example/small", Status: 200, Headers: []gen.HeaderKV{kv("Content-Type", "text/plain")}, BodyLen: 40, BodyTag: 8},
		},
	}
	return Art{Serializer: "bundle", Bundle: s}
}

func sxgSpec(ver string, plen, rs int) sxgkit.Spec {
	s := sxgkit.Spec{Version: ver, URL: "https://a.example/index.html", Method: "GET", Status: 200,
		ResHeaders: []gen.HeaderKV{kv("Content-Type", "text/html; charset=utf-8"), kv("X-Foo", "bar", "baz"), kv("Vary", strings.Repeat("v", 256))},
		PayloadLen: plen, PayloadTag: 11, RecordSize: rs, Fixture: 0, Date: 1_600_000_000, Expires: 1_600_000_000 + 3600,
		ValidityURL: "https://a.example/validity", CertURL: "https://cert.example/cert.cbor", Mock: true}
	if ver != "1b3" {
		s.ReqHeaders = []gen.HeaderKV{kv("Accept", "*/*")}
	}
	return s
}

func fixedSxg(serializer string) []Art {
	var out []Art
	for _, ver := range []string{"1b1", "1b2", "1b3"} {
		out = append(out, Art{Serializer: serializer, Sxg: &SxgSpec{Spec: sxgSpec(ver, 100, 16)}})
		// empty payload: for 1b2/1b3 the MI encoding of nothing is empty, so the header block
		// is the last non-empty write of Exchange.Write
		out = append(out, Art{Serializer: serializer, Sxg: &SxgSpec{Spec: sxgSpec(ver, 0, 4096)}})
		if serializer != "sxg-signedmsg" {
			// raw (unsigned, not MI-encoded) exchange with an empty payload, also for 1b1
			out = append(out, Art{Serializer: serializer, Sxg: &SxgSpec{Spec: sxgSpec(ver, 0, 4096), Raw: true, RawSig: "label;sig=*AAAA*"}})
			// every combination of the optional parts being ABSENT: no Signature header value at all
			// (an exchange written before it is signed; sigLength 0 reads back fine), with and
			// without payload octets
			out = append(out, Art{Serializer: serializer, Sxg: &SxgSpec{Spec: sxgSpec(ver, 0, 4096), Raw: true, RawSig: ""}},
				Art{Serializer: serializer, Sxg: &SxgSpec{Spec: sxgSpec(ver, 7, 4096), Raw: true, RawSig: ""}},
				Art{Serializer: serializer, Sxg: &SxgSpec{Spec: sxgSpec(ver, 7, 4096), Raw: true, RawSig: "label;sig=*AAAA*"}})
		}
	}
	return out
}

func fixedChains() []Art {
	return []Art{
		{Serializer: "certchain", Chain: []ChainItem{{Cert: 0, OCSPLen: 10, SCTLen: -1}, {Cert: -1, OCSPLen: -1, SCTLen: -1}}},
		{Serializer: "certchain", Chain: []ChainItem{{Cert: 1, OCSPLen: 300, SCTLen: 50}, {Cert: 5, OCSPLen: -1, SCTLen: 24}, {Cert: -1, OCSPLen: -1, SCTLen: -1}}},
		{Serializer: "certchain", Chain: []ChainItem{{Cert: 2, OCSPLen: 0, SCTLen: 0}}},
	}
}

func fixedMI() []Art {
	return []Art{
		{Serializer: "mice", MI: &MISpec{Draft: "02", RecordSize: 16, PayloadLen: 100, PayloadTag: 21}},
		{Serializer: "mice", MI: &MISpec{Draft: "03", RecordSize: 7, PayloadLen: 50, PayloadTag: 22}},
		{Serializer: "mice", MI: &MISpec{Draft: "02", RecordSize: 4096, PayloadLen: 0, PayloadTag: 23}}, // 8 bytes + an empty record
		{Serializer: "mice", MI: &MISpec{Draft: "03", RecordSize: 4096, PayloadLen: 0, PayloadTag: 24}}, // empty output: control only
		{Serializer: "mice", MI: &MISpec{Draft: "03", RecordSize: 4096, PayloadLen: 4096, PayloadTag: 25}},
		{Serializer: "mice", MI: &MISpec{Draft: "02", RecordSize: 1, PayloadLen: 5, PayloadTag: 26}},
	}
}

func fixedCBOR() []Art {
	m := Call{Op: "map", Entries: []Entry{
		{Key: "cert", Val: Call{Op: "bytes", Len: 300, Tag: 31}},
		{Key: "ocsp", Val: Call{Op: "bytes", Len: 24, Tag: 32}},
		{Key: "n", Val: Call{Op: "uint", U: 65536}},
		{Key: "s", Val: Call{Op: "text", S: "value"}},
	}}
	return []Art{
		{Serializer: "cbor", CBOR: []Call{{Op: "uint", U: 500}, {Op: "text", S: "hello"}, {Op: "array", Len: 3}, {Op: "bool", B: true}, {Op: "int", I: -500}, m}},
		{Serializer: "cbor", CBOR: []Call{m, {Op: "uint", U: 1<<64 - 1}, {Op: "bytes", Len: 300, Tag: 33}}},
		{Serializer: "cbor", CBOR: []Call{{Op: "array", Len: 2}, {Op: "bytes", Len: 0, Tag: 1}, {Op: "text", S: strings.Repeat("x", 256)}}},
		{Serializer: "cbor", CBOR: []Call{{Op: "array", Len: 3}, {Op: "int", I: -65537}, {Op: "bool", B: false}, {Op: "bool", B: true}}},
		{Serializer: "cbor", CBOR: []Call{{Op: "text", S: "n"}, {Op: "uint", U: 1 << 32}}},
	}
}

// ---- tests (one process each in the run plan) ----------------------------------------------

func nGen(quick, thorough int) int { return vh.Scale(quick, thorough) }

func TestFaultBundle(t *testing.T) {
	arts := fixedBundles()
	arts = append(arts, generated("bundle", nGen(12, 160), genBundle)...)
	runAll(t, arts)
}

func TestFaultSxgWrite(t *testing.T) {
	arts := fixedSxg("sxg-write")
	arts = append(arts, generated("sxg-write", nGen(15, 180), genSxg("sxg-write"))...)
	runAll(t, arts)
}

func TestFaultSxgDump(t *testing.T) {
	arts := fixedSxg("sxg-headers")
	arts = append(arts, fixedSxg("sxg-signedmsg")...)
	arts = append(arts, generated("sxg-headers", nGen(9, 120), genSxg("sxg-headers"))...)
	arts = append(arts, generated("sxg-signedmsg", nGen(9, 120), genSxg("sxg-signedmsg"))...)
	runAll(t, arts)
}

func TestFaultEncoders(t *testing.T) {
	arts := fixedChains()
	arts = append(arts, fixedMI()...)
	arts = append(arts, fixedCBOR()...)
	arts = append(arts, generated("certchain", nGen(6, 60), genChain)...)
	arts = append(arts, generated("mice", nGen(8, 120), genMI)...)
	arts = append(arts, generated("cbor", nGen(14, 210), genCBOR)...)
	runAll(t, arts)
}

// TestFaultCounts: one dimension at a time, EVERY count 0..130 (thorough: ..1100) and a few
// larger ones - MI records, CBOR array items / map entries / top-level items, exchanges of a
// bundle, header fields of a response, of a signed exchange, elements of a certificate chain -
// each artifact with a thin sample of fault positions (see Art.Thin). A batching or buffering
// path that an implementation switches to above SOME number of items (and that loses an error
// there) is met whatever that number is, as long as it lies in the swept range.
func TestFaultCounts(t *testing.T) {
	var ns []int
	for n := 0; n <= vh.Scale(130, 1100); n++ {
		ns = append(ns, n)
	}
	ns = append(ns, 150, 200, 256, 257, 300, 400, 500, 512, 1000, 1024, 1100)
	if vh.Thorough() {
		ns = append(ns, 2000, 4096, 4097, 10000)
	}
	var arts []Art
	thin := func(a Art) { a.Thin = true; arts = append(arts, a) }
	hdrs := func(n int) []gen.HeaderKV {
		var h []gen.HeaderKV
		for i := 0; i < n; i++ {
			h = append(h, kv(fmt.Sprintf("X-H%04d", i), "v"))
		}
		return h
	}
	for _, n := range ns {
		thin(Art{Serializer: "mice", MI: &MISpec{Draft: []string{"02", "03"}[n%2], RecordSize: 16, PayloadLen: 16 * n, PayloadTag: 61}})
		thin(Art{Serializer: "mice", MI: &MISpec{Draft: []string{"03", "02"}[n%2], RecordSize: 1, PayloadLen: n, PayloadTag: 62}})
		arr := []Call{{Op: "array", Len: n}}
		var seq []Call
		var ents []Entry
		for i := 0; i < n; i++ {
			arr = append(arr, Call{Op: "uint", U: uint64(i)})
			seq = append(seq, Call{Op: "text", S: "s"})
			ents = append(ents, Entry{Key: fmt.Sprintf("k%05d", i), Val: Call{Op: "uint", U: 1}})
		}
		thin(Art{Serializer: "cbor", CBOR: arr})
		thin(Art{Serializer: "cbor", CBOR: seq})
		thin(Art{Serializer: "cbor", CBOR: []Call{{Op: "map", Entries: ents}}})
		if n <= 300 || n == 1000 {
			b := &bundlekit.Spec{Version: []string{"b2", "b1"}[n%2], Primary: "https://a.example/e0"}
			for i := 0; i < n; i++ {
				b.Exchanges = append(b.Exchanges, bundlekit.ExSpec{URL: fmt.Sprintf("https://a.example/e%d", i), Status: 200, BodyLen: 1, BodyTag: uint64(i)})
			}
			thin(Art{Serializer: "bundle", Bundle: b})
			b2 := &bundlekit.Spec{Version: []string{"b1", "b2"}[n%2], Primary: "https://a.example/", Exchanges: []bundlekit.ExSpec{{URL: "https://a.example/", Status: 200, Headers: hdrs(n), BodyLen: 3, BodyTag: 5}}}
			thin(Art{Serializer: "bundle", Bundle: b2})
			sp := sxgSpec([]string{"1b3", "1b1", "1b2"}[n%3], 20, 16)
			sp.ResHeaders = append([]gen.HeaderKV{kv("Content-Type", "text/html")}, hdrs(n)...)
			thin(Art{Serializer: "sxg-write", Sxg: &SxgSpec{Spec: sp}})
			thin(Art{Serializer: "sxg-signedmsg", Sxg: &SxgSpec{Spec: sp}})
		}
		if n >= 1 && n <= 40 {
			ch := []ChainItem{{Cert: 0, OCSPLen: 5, SCTLen: -1}}
			for i := 1; i < n; i++ {
				ch = append(ch, ChainItem{Cert: -1, OCSPLen: -1, SCTLen: -1})
			}
			thin(Art{Serializer: "certchain", Chain: ch})
		}
	}
	runAll(t, arts)
}

// Artifacts larger than 32 KiB + 1 (the chunk size of io.Copy's fallback loop and of
// CountingWriter.ReadFrom).
func TestFaultBig(t *testing.T) {
	arts := []Art{
		bigBundle("b2", 33000),
		{Serializer: "sxg-write", Sxg: &SxgSpec{Spec: sxgSpec("1b3", 33000, 4096)}},
	}
	// above 64 KiB and 1 MiB (chunked copy loops): positions sampled, the large value LAST in the output
	huge := func(a Art) Art { a.Sampled = true; return a }
	arts = append(arts,
		huge(Art{Serializer: "cbor", CBOR: []Call{{Op: "uint", U: 7}, {Op: "bytes", Len: 65536 + 300, Tag: 51}}}),
		huge(Art{Serializer: "certchain", Chain: []ChainItem{{Cert: 0, OCSPLen: 80000, SCTLen: -1}}}),
		huge(Art{Serializer: "sxg-write", Sxg: &SxgSpec{Spec: sxgSpec("1b3", 70000, 16384)}}),
		huge(Art{Serializer: "mice", MI: &MISpec{Draft: "03", RecordSize: 16384, PayloadLen: 140000, PayloadTag: 43}}),
		huge(bigBundle("b2", 140000)),
	)
	if vh.Thorough() {
		arts = append(arts,
			huge(Art{Serializer: "cbor", CBOR: []Call{{Op: "text", S: strings.Repeat("t", 1<<20+5)}}}),
			huge(Art{Serializer: "cbor", CBOR: []Call{{Op: "map", Entries: []Entry{{Key: "a", Val: Call{Op: "uint", U: 1}}, {Key: "zz", Val: Call{Op: "bytes", Len: 1<<20 + 70000, Tag: 52}}}}}}),
			huge(Art{Serializer: "certchain", Chain: []ChainItem{{Cert: 1, OCSPLen: 1<<20 + 1, SCTLen: 70000}, {Cert: -1, OCSPLen: -1, SCTLen: 66000}}}),
			huge(Art{Serializer: "sxg-write", Sxg: &SxgSpec{Spec: sxgSpec("1b1", 1<<20+100, 16384)}}),
			huge(Art{Serializer: "mice", MI: &MISpec{Draft: "02", RecordSize: 1 << 16, PayloadLen: 1<<20 + 3, PayloadTag: 44}}),
			huge(bigBundle("b1", 1<<20+70000)),
		)
	}
	if vh.Thorough() {
		arts = append(arts,
			bigBundle("b1", 34000),
			bigBundle("b2", 66000),
			Art{Serializer: "sxg-write", Sxg: &SxgSpec{Spec: sxgSpec("1b1", 33000, 16384)}},
			Art{Serializer: "sxg-write", Sxg: &SxgSpec{Spec: sxgSpec("1b2", 40000, 1000)}},
			Art{Serializer: "mice", MI: &MISpec{Draft: "03", RecordSize: 16384, PayloadLen: 33000, PayloadTag: 41}},
			Art{Serializer: "mice", MI: &MISpec{Draft: "02", RecordSize: 4096, PayloadLen: 33000, PayloadTag: 42}},
		)
	}
	runAll(t, arts)
}
