PLAN = dict(
    id="C19", pkg="c19", level="fault_enumeration",
    rule=("fault: for each serializer (bundle.Bundle.WriteTo b1/b2, Exchange.Write 1b1/1b2/1b3, Exchange.DumpExchangeHeaders, Exchange.DumpSignedMessage, "
          "certurl.CertChain.Write with 1-3 certificates, mice Encode draft-02/draft-03, call sequences on cbor.Encoder) and each artifact (fixed + "
          "rapid-generated, de-duplicated; at least one bundle and one exchange above 32 KiB+1): the fault-free output O is recorded twice (must be "
          "reproducible), then the serializer runs against a destination of capacity k for EVERY k in [0, len(O)] x fault mode {reject: the write that "
          "does not fit returns (0, err) and the destination keeps failing; short: it accepts the remaining capacity and returns (n, err); "
          "reject-transient: as reject but later writes that fit are still accepted (disk-full semantics)} x {Write-only destination, destination "
          "implementing io.ReaderFrom under the same capacity rule}; the failing destination returns a private sentinel error and, in further passes over the same positions, io.EOF, io.ErrShortWrite, io.ErrClosedPipe and io.ErrUnexpectedEOF (error values that code may mistake for a normal end). Artifacts above 64 KiB (quick: CBOR byte string, cert chain with an 80000-byte OCSP "
          "response, exchange, MI stream, bundle; thorough also above 1 MiB), whose large value comes LAST in the output, are too costly for every k "
          "(quadratic): there k runs over the first and last 300 positions, +-2 around every multiple of 4 KiB and every power of two (from both ends) "
          "and a stride of 997 (class artifact>64KiB-sampled-positions). Oracle: k < len(O) => non-nil error; accepted bytes are a prefix of O; bundle "
          "WriteTo count == accepted bytes; k == len(O) (control) => success, accepted == O, count == len(O). evaluations = sum of fault positions x modes "
          "x destinations; non-trivial: k < len(O) (a real fault), distinct by (artifact, k, mode, destination) by construction of the enumeration."),
    assumptions=TRUSTED + ["a zero-length Write always succeeds on the faulty destination (it never exceeds the remaining capacity)",
                           "certificate fixtures are created per process: artifacts containing certificates have process-specific bytes (O is recomputed in every process)"],
    technique="exhaustive fault injection at every output byte position with three fault modes and two destination kinds, differential against the fault-free output",
    level_text=("Every failure position of every explored artifact up to 64 KiB is enumerated (no sampling over k; for the few larger artifacts a fixed dense sample of positions), for every fault mode and both destination kinds; "
                "the artifacts are a finite sample of each serializer's inputs (fixed edge shapes + rapid-generated specs). A dropped error check is "
                "visible when a fault position falls into the unchecked write and either nothing non-empty is written afterwards (success on partial "
                "output) or a later smaller write still fits (reject-transient: accepted bytes are no longer a prefix)."),
    level_note=NOTE_BASE,
    runs=[
        dict(name="bundle", run="^TestFaultBundle$", timeout=(300, 900), shards=(1, 8)),
        dict(name="sxgw", run="^TestFaultSxgWrite$", timeout=(300, 900), shards=(1, 8)),
        dict(name="sxgd", run="^TestFaultSxgDump$", timeout=(300, 900), shards=(1, 8)),
        dict(name="enc", run="^(TestFaultEncoders|TestCorpus)$", timeout=(300, 900), shards=(1, 8)),
        dict(name="big", run="^TestFaultBig$", timeout=(300, 900), shards=(1, 8)),
        dict(name="counts", run="^TestFaultCounts$", timeout=(300, 1800), shards=(4, 16)),
    ],
    require=[("fault", "count-sweep-thin-positions"), ("fault", "artifact>64KiB-sampled-positions"), ("fault", "ser:bundle"), ("fault", "bundle:b1"), ("fault", "bundle:b2"),
             ("fault", "ser:sxg-write"), ("fault", "sxg-write:1b1"), ("fault", "sxg-write:1b2"), ("fault", "sxg-write:1b3"),
             ("fault", "ser:sxg-headers"), ("fault", "ser:sxg-signedmsg"), ("fault", "ser:certchain"), ("fault", "certchain:1"), ("fault", "certchain:3"),
             ("fault", "ser:mice"), ("fault", "mice:draft02"), ("fault", "mice:draft03"), ("fault", "ser:cbor"),
             ("fault", "control-k=len"), ("fault", "sink-readerfrom"), ("fault", "sink-plain"),
             ("fault", "fails-with:eof"), ("fault", "fails-with:short-write"), ("fault", "fails-with:closed-pipe"), ("fault", "mode-short"), ("fault", "mode-reject"), ("fault", "mode-reject-transient"), ("fault", "artifact>32KiB")],
)
