PLAN = dict(
    id="C02", pkg="c02", level="exploration",
    rule=("roundtrip: a generated policy-conforming exchange spec (version x fixture certificate P-256/P-384 x MI record size 1..16384 x payload length "
          "relative to the record size x harmless headers in any letter case, multi-valued, empty/OWS values x URL shapes), optionally with "
          "Cache-Control/Expires/Content-Type spread over several field values, or stretched so that the URL / Signature header / header block length "
          "lands exactly on a format limit (65535/65536, 16384/16385, 524288/524289, thorough: 2^24-1/2^24); one case in four is signed by a Signer object that has already signed an unrelated exchange of a drawn format version (other URLs, dates). Oracle: Write succeeds iff every length fits; "
          "independent layout parse (refsxg) yields the same fields; ReadExchange returns identical version/URL/method/status/normalised headers/"
          "Signature/payload; Verify verdict at date, mid, expires, date-1, expires+1 identical before and after, success returns the original payload and "
          "The written file is also read in parts: ReadExchangePrologue, then the payload from the SAME reader (any gen.Source kind), must give the same exchange. "
          "only inside the window; conforming specs must verify inside the window. Non-trivial: >=2 header fields with one multi-valued, or a length "
          "within 1 of a limit."),
    assumptions=TRUSTED + ["URLs are https (the format requires it)", "header maps are built with http.Header.Add (canonical keys), as every caller in the repository does"],
    technique="rapid-generated exchanges + enumerated length-limit cases; round-trip oracle plus independent layout parser; verdict-invariance metamorphic relation",
    level_text=("Random exploration of the exchange space with boundary-biased generators plus an enumerated set of cases that sit exactly on each length "
                "limit of the format; the oracle is a round trip cross-checked by an independent parser of the file layout and header CBOR, so an error "
                "shared by reader and writer is still visible."),
    level_note=NOTE_BASE,
    runs=[
        dict(name="conc", run="^(TestConcRoundTrip)$", checks=(15, 1000), shards=(2, 8), timeout=(400, 3600), race=True),
        dict(name="limits", run="^(TestLimits|TestCorpus)$", timeout=(300, 3600)),
        dict(name="rt", run="^TestPropRoundTrip$", checks=(1200, 150000), shards=(1, 16), timeout=(300, 3600)),
    ],
    require=[("roundtrip", "at-limit"), ("roundtrip", "over-limit"), ("roundtrip", "multi-valued"), ("roundtrip", "1b1"), ("roundtrip", "1b3"), ("roundtrip", "plain-reader")],
)
