// Package c02: signed exchange survives sign -> write -> read -> verify unchanged; writes that do
// not fit the format's length fields or limits fail.
package c02

import (
	"bytes"
	"fmt"
	"io"
	"strings"
	"testing"

	"github.com/WICG/webpackage/go/signedexchange"
	"github.com/WICG/webpackage/go/verifh/gen"
	"github.com/WICG/webpackage/go/verifh/ref/refsxg"
	"github.com/WICG/webpackage/go/verifh/sxgkit"
	"github.com/WICG/webpackage/go/verifh/vh"
	"pgregory.net/rapid"
)

func TestMain(m *testing.M)   { vh.Main(m) }
func TestReplay(t *testing.T) { vh.Replay(t) }
func TestCorpus(t *testing.T) { vh.Corpus(t) }

// Case: a spec plus optional size stretching to reach a format limit.
type Case struct {
	Spec sxgkit.Spec `json:"spec"`
	// Stretch: pad one field so that a length lands exactly on Target.
	Stretch string `json:"stretch,omitempty"` // "", "url", "sig", "headers"
	Target  int    `json:"target,omitempty"`
	// ExtraCC adds Cache-Control / Expires style fields that may make the exchange
	// non-cacheable: then only "same verdict before and after" is required.
	Conforming bool `json:"conforming"`
	ReadMode   int  `json:"read_mode,omitempty"` // how the written file is handed to ReadExchange (gen.Source)
	// Colliding: the header map holds two (or three) keys that differ only in letter case, among
	// enough other fields that they are rarely neighbours in map iteration order. The library may
	// refuse to sign or write such an exchange; what it agrees to sign and write must read back
	// and verify like any other.
	Colliding bool `json:"colliding,omitempty"`
	// PresetDigest: the response handed to the library ALREADY carries the integrity header of its
	// version under this spelling of the name (a re-signed exchange, a proxy that kept the field),
	// or, with "twice", MiEncodePayload is simply called a second time. The library may refuse;
	// whatever it goes on to sign and write must still verify.
	PresetDigest string `json:"preset_digest,omitempty"`
	// UsedSigner: format version of an unrelated exchange that the SAME Signer object signed before
	// ("" = fresh signer).
	UsedSigner string `json:"used_signer,omitempty"`
}

const (
	maxSig = 16384
	maxHdr = 524288
)

func headersLen(s *sxgkit.Spec, e *signedexchange.Exchange) int {
	return len(refsxg.HeadersCBOR(sxgkit.CanonOf(e).RefExchange()))
}

// applyStretch pads the chosen field; returns false if the target cannot be met.
func applyStretch(c *Case) bool {
	s := &c.Spec
	switch c.Stretch {
	case "url":
		if len(s.URL) > c.Target {
			return false
		}
		// pad the path; keep the query (if any) at the end
		u, q := s.URL, ""
		if i := strings.IndexByte(u, '?'); i >= 0 {
			u, q = s.URL[:i], s.URL[i:]
		}
		s.URL = u + strings.Repeat("p", c.Target-len(s.URL)) + q
	case "headers":
		// pad one header value until the header CBOR has exactly Target bytes
		name := "X-Pad"
		s.ResHeaders = append(s.ResHeaders, gen.HeaderKV{Name: name, Values: []string{""}})
		idx := len(s.ResHeaders) - 1
		probe := func(n int) int {
			s.ResHeaders[idx].Values[0] = strings.Repeat("h", n)
			e := sxgkit.New(s)
			// the Digest/Content-Encoding headers are added by MiEncodePayload
			if err := e.MiEncodePayload(s.RecordSize); err != nil {
				return -1
			}
			return headersLen(s, e)
		}
		base := probe(0)
		if base < 0 || base > c.Target {
			return false
		}
		n := c.Target - base
		for i := 0; i < 12; i++ {
			got := probe(n)
			if got == c.Target {
				return true
			}
			n += c.Target - got
			if n < 0 {
				return false
			}
		}
		return false
	case "sig":
		// the Signature header grows with cert-url; pad it after a first build
		e, _, err := sxgkit.Build(s)
		if err != nil {
			return false
		}
		cur := len(e.SignatureHeaderValue)
		// ECDSA signatures vary in length by a few bytes between runs: use the mock algorithm
		if !s.Mock {
			return false
		}
		if cur > c.Target {
			return false
		}
		s.CertURL += strings.Repeat("c", c.Target-cur)
	}
	return true
}

var prop = vh.Define("C02", "roundtrip", func(c Case, r *vh.R) {
	if c.Stretch != "" {
		if !applyStretch(&c) {
			r.Skip = true
			return
		}
	}
	s := &c.Spec
	r.Class(s.Version)
	if c.PresetDigest != "" {
		r.Class("digest-header-present-before-encoding")
		e0 := sxgkit.New(s)
		if c.PresetDigest != "twice" {
			e0.ResponseHeaders.Add(c.PresetDigest, "mi-sha256-03=AAAAAAAAAAAAAAAAAAAAAAAAAAAAAAAAAAAAAAAAAAA=")
		} else if err := e0.MiEncodePayload(s.RecordSize); err != nil {
			r.Failf("sign-error", "MiEncodePayload: %v", err)
			return
		}
		if err := e0.MiEncodePayload(s.RecordSize); err != nil {
			r.Class("refused-digest-header-present")
			return
		}
		sg, err := sxgkit.Signer(s)
		if err != nil {
			r.Skip = true
			return
		}
		if err := e0.AddSignatureHeader(sg); err != nil {
			r.Class("refused-digest-header-present")
			return
		}
		var buf bytes.Buffer
		if err := e0.Write(&buf); err != nil {
			r.Class("refused-digest-header-present")
			return
		}
		src1 := gen.Source(buf.Bytes(), gen.SourceModeOf(buf.Bytes()))
		e1, err := signedexchange.ReadExchange(src1)
		gen.Recycle(src1)
		if err != nil {
			r.Failf("read-error", "the library signed and wrote an exchange whose integrity header was present before encoding (%s); ReadExchange: %v", c.PresetDigest, err)
			return
		}
		mid := s.Date + (s.Expires-s.Date)/2
		if _, ok, lg := sxgkit.VerifyLog(e1, mid, sxgkit.Fetcher(s.Fixture)); !ok {
			r.Failf("verify-rejects-own-output", "the library agreed to encode, sign and write an exchange whose integrity header was present before encoding (%s), but what it wrote does not verify: %s", c.PresetDigest, lg)
		}
		return
	}
	e, _, err := sxgkit.Build(s)
	if c.UsedSigner != "" {
		e, _, err = sxgkit.BuildWithUsedSigner(s, c.UsedSigner)
		r.Class("used-signer")
	}
	if c.Colliding {
		r.Class("colliding-header-keys")
		if err != nil {
			r.Class("colliding-refused-at-signing")
			return
		}
	}
	if err != nil {
		r.Failf("sign-error", "library refused to sign a well-formed exchange: %v", err)
		return
	}
	orig := sxgkit.CanonOf(e)
	payload := s.Payload()
	fetch := sxgkit.Fetcher(s.Fixture)
	times := []int64{s.Date, s.Date + (s.Expires-s.Date)/2, s.Expires, s.Date - 1, s.Expires + 1, s.Date, s.Expires - 1, s.Date - 1, s.Expires}
	// sub-second parts: "every instant of [date, expires]", not every whole second
	nsecs := []int64{0, 0, 0, 0, 0, 1, 999_999_999, 999_999_999, 1}
	inside := func(i int) bool {
		t, ns := times[i], nsecs[i]
		return t >= s.Date && (t < s.Expires || (t == s.Expires && ns == 0))
	}

	type verdict struct {
		ok bool
		p  []byte
	}
	before := make([]verdict, len(times))
	for i, t := range times {
		p, ok := sxgkit.Verify(e, t, nsecs[i], fetch)
		before[i] = verdict{ok, p}
	}

	// ---- write
	hl := len(refsxg.HeadersCBOR(orig.RefExchange()))
	sl := len(e.SignatureHeaderValue)
	ul := len(e.RequestURI)
	fits := true
	why := ""
	if s.Version == "1b1" {
		if sl >= 1<<24 || hl >= 1<<24 {
			fits, why = false, "3-byte length field overflow"
		}
	} else {
		if ul > 65535 {
			fits, why = false, "URL longer than the 2-byte length field"
		}
		if sl > maxSig {
			fits, why = false, "Signature header above 16384"
		}
		if hl > maxHdr {
			fits, why = false, "header block above 524288"
		}
	}
	near := func(v, lim int) bool { return v >= lim-1 && v <= lim+1 }
	if near(ul, 65535) || near(ul, 65536) || near(sl, maxSig) || near(hl, maxHdr) || near(sl, 1<<24) || near(hl, 1<<24) {
		r.NT()
		r.Class("at-limit")
	}
	var buf bytes.Buffer
	werr := e.Write(&buf)
	if !fits {
		r.Class("over-limit")
		if werr == nil {
			// a file was emitted although a length does not fit; show that it reads back differently
			_, rerr := signedexchange.ReadExchange(gen.Source(buf.Bytes(), gen.SourceModeOf(buf.Bytes())))
			r.Failf("write-accepted-oversize", "Write succeeded although %s (url=%d sig=%d headers=%d bytes); reading the file back: err=%v", why, ul, sl, hl, rerr)
		}
		return
	}
	if werr != nil && c.Colliding {
		r.Class("colliding-refused-at-write")
		return
	}
	if werr != nil {
		r.Failf("write-error", "Write failed inside all limits (url=%d sig=%d headers=%d): %v", ul, sl, hl, werr)
		return
	}
	file := buf.Bytes()

	// ---- independent layout parse
	pf, err := refsxg.ParseFile(file)
	if err != nil {
		r.Failf("layout", "independent layout parser rejects the written file: %v", err)
		return
	}
	if pf.Version != s.Version || pf.Signature != e.SignatureHeaderValue || !bytes.Equal(pf.Payload, e.Payload) {
		r.Failf("layout", "layout fields differ: version %s/%s sigEqual=%v payloadEqual=%v", pf.Version, s.Version, pf.Signature == e.SignatureHeaderValue, bytes.Equal(pf.Payload, e.Payload))
		return
	}
	if s.Version != "1b1" && pf.URL != e.RequestURI {
		r.Failf("layout", "fallback URL field %q (len %d) != request URL (len %d)", trunc(pf.URL), len(pf.URL), len(e.RequestURI))
		return
	}
	dh, err := refsxg.DecodeHeaders(s.Version, pf.Headers)
	if err != nil {
		r.Failf("layout", "header block is not the expected CBOR: %v", err)
		return
	}
	want := orig.RefExchange()
	if dh.Status != want.Status || !gen.MapsEqual(dh.ResHeaders, want.ResHeaders) ||
		(s.Version != "1b3" && (dh.Method != want.Method || !gen.MapsEqual(dh.ReqHeaders, want.ReqHeaders))) ||
		(s.Version == "1b1" && dh.URL != want.URL) {
		r.Failf("layout", "header block content differs from the exchange: got %+v want %+v", dh, want)
		return
	}

	// ---- read back
	if c.ReadMode > 0 {
		r.Class("plain-reader")
	}
	src2 := gen.Source(file, c.ReadMode)
	e2, err := signedexchange.ReadExchange(src2)
	gen.Recycle(src2)
	if err != nil {
		r.Failf("read-error", "ReadExchange rejects the written file (url=%d sig=%d headers=%d): %v", ul, sl, hl, err)
		return
	}
	got := sxgkit.CanonOf(e2)
	wantCanon := orig
	if s.Version == "1b3" {
		if e2.RequestMethod != "GET" {
			r.Failf("read-differs", "1b3 exchange read back with method %q", e2.RequestMethod)
			return
		}
	}
	if !got.Equal(wantCanon) {
		r.Failf("read-differs", "read back %v\nwritten   %v", got, wantCanon)
		return
	}
	if e2.SignatureHeaderValue != e.SignatureHeaderValue {
		r.Failf("read-differs", "Signature header differs after round trip")
		return
	}
	if !bytes.Equal(e2.Payload, e.Payload) {
		r.Failf("read-differs", "payload bytes differ after round trip (%d vs %d)", len(e2.Payload), len(e.Payload))
		return
	}

	// ---- the other door: the file read in parts. ReadExchange is "prologue, then the rest of the
	// reader is the payload"; a caller who streams the payload does the same by hand with the
	// exported ReadExchangePrologue, so the prologue call must take exactly the prologue's octets
	// from ANY reader and what follows in that reader must be the payload.
	{
		src3 := gen.Source(file, c.ReadMode)
		e3, err := signedexchange.ReadExchangePrologue(src3)
		if err != nil {
			gen.Recycle(src3)
			r.Failf("read-error", "ReadExchangePrologue rejects a file that ReadExchange accepts: %v", err)
			return
		}
		rest, rerr := io.ReadAll(src3)
		gen.Recycle(src3)
		if rerr != nil {
			r.Failf("read-error", "reading the payload behind ReadExchangePrologue: %v", rerr)
			return
		}
		if !bytes.Equal(rest, e.Payload) {
			r.Failf("read-differs", "read in parts: after ReadExchangePrologue the reader holds %d octets, the written payload has %d (first difference at %d)", len(rest), len(e.Payload), firstDiff(rest, e.Payload))
			return
		}
		e3.Payload = rest
		if g3 := sxgkit.CanonOf(e3); !g3.Equal(wantCanon) || e3.SignatureHeaderValue != e.SignatureHeaderValue {
			r.Failf("read-differs", "read in parts: %v\nwritten       %v", g3, wantCanon)
			return
		}
		r.Class("read-in-parts")
	}

	// ---- verdicts (payloads obtained before the write are judged only now, after other
	// exchanges have been verified in between: a returned payload must not alias reused state)
	sxgkit.Disturb()
	after := make([]verdict, len(times))
	for i, t := range times {
		p, ok := sxgkit.Verify(e2, t, nsecs[i], fetch)
		after[i] = verdict{ok, p}
	}
	sxgkit.Disturb()
	for i, t := range times {
		p, ok := after[i].p, after[i].ok
		if ok != before[i].ok {
			_, _, lg := sxgkit.VerifyLog(e2, t, fetch)
			r.Failf("verdict-changed", "Verify at t=%d (date=%d expires=%d): before write %v, after read %v; log after: %s", t, s.Date, s.Expires, before[i].ok, ok, lg)
			return
		}
		inside := inside(i)
		if ok {
			if !bytes.Equal(p, payload) || !bytes.Equal(before[i].p, payload) {
				r.Failf("payload-changed", "Verify at t=%d returned a payload different from the original un-encoded payload", t)
				return
			}
			if !inside {
				r.Failf("window", "Verify succeeded at t=%d.%09d outside [%d,%d]", t, nsecs[i], s.Date, s.Expires)
				return
			}
		} else if inside && c.Conforming {
			_, _, lg := sxgkit.VerifyLog(e2, t, fetch)
			r.Failf("verify-rejects-own-output", "conforming exchange does not verify at t=%d.%09d in [%d,%d]: %s", t, nsecs[i], s.Date, s.Expires, lg)
			return
		}
	}
	multi := false
	for _, kv := range append(append([]gen.HeaderKV{}, s.ResHeaders...), s.ReqHeaders...) {
		if len(kv.Values) > 1 {
			multi = true
		}
	}
	if multi {
		r.Class("multi-valued")
	}
	if multi && len(s.ResHeaders)+len(s.ReqHeaders) >= 2 {
		r.NT()
	}
	if !c.Conforming {
		r.Class("nonconforming-variant")
	}
})

func trunc(s string) string {
	if len(s) > 80 {
		return s[:80] + "..."
	}
	return s
}

// ccValues are Cache-Control / Expires / Content-Type variations spread over several field
// values; they may make a 1b3 exchange unacceptable, which is fine here: the property only
// demands the same verdict before and after the round trip.
func variantHeaders(t *rapid.T) []gen.HeaderKV {
	var out []gen.HeaderKV
	dirs := []string{"max-age=100", "no-store", "private", "public", "no-cache", "s-maxage=5", "must-revalidate", "NO-STORE", " no-store", "Private"}
	n := rapid.IntRange(1, 3).Draw(t, "ccn")
	kv := gen.HeaderKV{Name: rapid.SampledFrom([]string{"Cache-Control", "cache-control"}).Draw(t, "ccname")}
	for i := 0; i < n; i++ {
		v := rapid.SampledFrom(dirs).Draw(t, "ccdir")
		if rapid.IntRange(0, 2).Draw(t, "ccjoin") == 0 {
			v += ", " + rapid.SampledFrom(dirs).Draw(t, "ccdir2")
		}
		kv.Values = append(kv.Values, v)
	}
	out = append(out, kv)
	if rapid.Bool().Draw(t, "expires") {
		out = append(out, gen.HeaderKV{Name: "Expires", Values: rapid.SliceOfN(rapid.SampledFrom([]string{"", "Thu, 01 Dec 2044 16:00:00 GMT", "0"}), 1, 2).Draw(t, "expvals")})
	}
	return out
}

func TestPropRoundTrip(t *testing.T) { prop.Rapid(t, genPropRoundTrip) }

// TestConcRoundTrip: batches of cases evaluated at the same time on separate goroutines (vh.Prop.Concurrent).
func TestConcRoundTrip(t *testing.T) { prop.Concurrent(t, genPropRoundTrip, 8, 3) }

func genPropRoundTrip(t *rapid.T) Case {
	s := sxgkit.GenSpec(t)
	c := Case{Spec: *s, Conforming: true, ReadMode: gen.DrawSourceMode(t, "readmode")}
	if rapid.IntRange(0, 3).Draw(t, "usedsigner") == 0 {
		c.UsedSigner = rapid.SampledFrom([]string{"1b1", "1b2", "1b3"}).Draw(t, "priorversion")
	}
	switch rapid.IntRange(0, 9).Draw(t, "variant") {
	case 0, 1:
		c.Spec.ResHeaders = append(c.Spec.ResHeaders, variantHeaders(t)...)
		c.Conforming = false
	case 2:
		// an extra value for Content-Type (multi-valued)
		c.Spec.ResHeaders = append(c.Spec.ResHeaders, gen.HeaderKV{Name: "content-TYPE", Values: []string{"text/plain"}})
	case 4:
		if c.Spec.Version == "1b1" {
			c.PresetDigest = rapid.SampledFrom([]string{"MI-Draft2", "Mi-Draft2", "mi-draft2", "twice"}).Draw(t, "presetdigest")
		} else {
			c.PresetDigest = rapid.SampledFrom([]string{"Digest", "digest", "DIGEST", "twice"}).Draw(t, "presetdigest")
		}
	case 3:
		c.Colliding = true
		for i := 0; i < 8; i++ {
			c.Spec.ResHeaders = append(c.Spec.ResHeaders, gen.HeaderKV{Name: fmt.Sprintf("X-Pad-%d", i), Values: []string{"p"}})
		}
		c.Spec.ResHeaders = append(c.Spec.ResHeaders, gen.HeaderKV{Name: "X-Variant", Values: []string{"a"}, Force: true}, gen.HeaderKV{Name: "x-variant", Values: []string{"b"}, Force: true})
		if rapid.Bool().Draw(t, "third") {
			c.Spec.ResHeaders = append(c.Spec.ResHeaders, gen.HeaderKV{Name: "X-VARIANT", Values: []string{"c"}, Force: true})
		}
	}
	return c
}

// limitCases enumerates the cases at the format limits.
func limitCases() []Case {
	var out []Case
	base := func(v string) sxgkit.Spec {
		return sxgkit.Spec{Version: v, URL: "https://a.example/x", Method: "GET", Status: 200,
			ResHeaders: []gen.HeaderKV{{Name: "Content-Type", Values: []string{"text/html"}}, {Name: "X-Two", Values: []string{"a", "b"}}},
			PayloadLen: 100, PayloadTag: 7, RecordSize: 64, Fixture: 0, Date: 1_600_000_000, Expires: 1_600_000_000 + 3600,
			ValidityURL: "https://a.example/v", CertURL: "https://cert.example/c", Mock: false}
	}
	for _, v := range []string{"1b2", "1b3"} {
		for _, n := range []int{65534, 65535, 65536, 65537, 70000} {
			out = append(out, Case{Spec: base(v), Stretch: "url", Target: n, Conforming: true})
		}
		for _, n := range []int{maxHdr - 1, maxHdr, maxHdr + 1} {
			out = append(out, Case{Spec: base(v), Stretch: "headers", Target: n, Conforming: true})
		}
		for _, n := range []int{maxSig - 1, maxSig, maxSig + 1} {
			sp := base(v)
			sp.Mock = true
			out = append(out, Case{Spec: sp, Stretch: "sig", Target: n, Conforming: false})
		}
	}
	// 1b1 has no URL field and no spec limits, only the 3-byte fields
	for _, n := range []int{65535, 65536, maxHdr + 1} {
		out = append(out, Case{Spec: base("1b1"), Stretch: "headers", Target: n, Conforming: true})
	}
	if vh.Thorough() {
		for _, n := range []int{1<<24 - 1, 1 << 24, 1<<24 + 1} {
			out = append(out, Case{Spec: base("1b1"), Stretch: "headers", Target: n, Conforming: true})
			sp := base("1b1")
			sp.Mock = true
			out = append(out, Case{Spec: sp, Stretch: "sig", Target: n, Conforming: false})
		}
	}
	return out
}

func TestLimits(t *testing.T) {
	for _, c := range limitCases() {
		if !prop.One(t, c) {
			return
		}
	}
}

func firstDiff(a, b []byte) int {
	n := len(a)
	if len(b) < n {
		n = len(b)
	}
	for i := 0; i < n; i++ {
		if a[i] != b[i] {
			return i
		}
	}
	return n
}
