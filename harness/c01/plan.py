PLAN = dict(
    id="C01", pkg="c01", level="exploration",
    rule=("tamper: a generated, really signed exchange (version x P-256/P-384 fixture x MI record size x payload length relative to the record size x "
          "header sets x URL) plus ONE mutation: serialized (bit flip / insert / delete / truncate / append / set byte at a position drawn per region: "
          "magic, length fields, URL, Signature header, header CBOR, record-size field, records+proofs), in-memory field edit (URL, status, header "
          "add/remove/edit/split/case, method, request header, encoded payload flip/truncate-at-record-boundary/extend), Signature parameter edit "
          "(date/expires +-1 and +-7d, integrity, validity-url, cert-sha256 full/suffix/truncated, sig flip/high-S/trailing byte, dropped parameter, "
          "label, cert-url, duplicated item, bogus first item), certificate substitution (other key, same key in another certificate, chain order swapped, "
          "foreign certificate with matching cert-sha256), or a verification instant at/around date and expires incl. +-1ns. Exhaustive part: every single "
          "bit of small serialized files (thorough: also every deletion and truncation, 18 base files). Oracle (metamorphic): the untampered base verifies; "
          "if ReadExchange+Verify succeed then canon(version,URL,method,request headers,status,response headers)==signed, returned payload==signed payload, "
          "t inside the signed window, an accepted Signature item carries the signed date/expires and SHA-256 of the fetched leaf, fetched leaf key == signer key. "
          "Sub-check sigalg (signingalgorithm signer / verifier called directly): 1200 signatures per fixture key (P-256 / P-384), each must verify under crypto/ecdsa with the hash the spec fixes AND under the verifier; edited signatures (message bit, signature bit, trailing octet, r+n, swapped r/s, long-form length, superfluous leading zero, another key) must not verify. "
          "Non-trivial: a mutation that changes signed content / a signed parameter / the key / the instant (everything except class none, benign label/"
          "cert-url/high-S/duplicate edits); distinct by case fingerprint."),
    assumptions=TRUSTED + ["collision resistance of SHA-256 and unforgeability of ECDSA (the search looks for logic errors)",
                           "header maps are built with http.Header.Add (canonical keys)"],
    technique="rapid structure-aware tamper generation + exhaustive single-bit flips of small files; metamorphic oracle 'accepted implies unchanged signed content'",
    level_text=("Exploration with a per-region mutation generator (so small regions such as length fields are not starved) and complete single-bit-flip sweeps of "
                "small files of each version; the oracle never demands rejection of a mutant whose signed content is unchanged, so it cannot raise an alarm on a "
                "benign re-encoding."),
    level_note=NOTE_BASE,
    runs=[
        dict(name="conc", run="^(TestConcTamper)$", checks=(40, 2000), shards=(2, 8), timeout=(400, 3600), race=True),
        dict(name="flips", run="^(TestExhaustiveFlips|TestFieldSweep|TestSigAlg|TestCorpus)$", shards=(3, 16), timeout=(300, 3600)),
        dict(name="tamper", run="^TestPropTamper$", checks=(2500, 200000), shards=(2, 16), timeout=(300, 3600)),
    ],
    require=[("tamper", "rejected-at-read"), ("tamper", "rejected-at-verify"), ("tamper", "accepted-benign"), ("tamper", "mut:fetcher"),
             ("tamper", "region:siglen"), ("tamper", "region:rsfield"), ("tamper", "time:expires+1ns")],
)
