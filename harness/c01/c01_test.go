// Package c01: a verified signed exchange is exactly what the key holder signed — any mutation
// that changes URL / status / headers / (method, request headers) / payload, the signed window
// or the key can never make verification succeed.
package c01

import (
	"bytes"
	"crypto/ecdsa"
	"crypto/elliptic"
	"encoding/asn1"
	"errors"
	"fmt"
	"math/big"
	"net/http"
	"strings"
	"testing"

	"github.com/WICG/webpackage/go/signedexchange"
	"github.com/WICG/webpackage/go/signedexchange/certurl"
	"github.com/WICG/webpackage/go/signedexchange/structuredheader"
	"github.com/WICG/webpackage/go/verifh/gen"
	"github.com/WICG/webpackage/go/verifh/ref/refsxg"
	"github.com/WICG/webpackage/go/verifh/sxgkit"
	"github.com/WICG/webpackage/go/verifh/vh"
	"pgregory.net/rapid"
)

func TestMain(m *testing.M)   { vh.Main(m) }
func TestReplay(t *testing.T) { vh.Replay(t) }
func TestCorpus(t *testing.T) { vh.Corpus(t) }

type Mut struct {
	Class   string `json:"class"`
	Region  string `json:"region,omitempty"` // serialized mutations: magic urllen url siglen hdrlen sig headers rsfield payload
	Pos     int    `json:"pos,omitempty"`    // index inside the region (taken modulo its length)
	Bit     int    `json:"bit,omitempty"`
	Byte    byte   `json:"byte,omitempty"`
	N       int    `json:"n,omitempty"`
	Name    string `json:"name,omitempty"`
	Value   string `json:"value,omitempty"`
	Param   string `json:"param,omitempty"`
	Variant string `json:"variant,omitempty"`
	Fixture int    `json:"fixture,omitempty"`
	Shift   int64  `json:"shift,omitempty"` // window-shift: seconds added to date, expires and the verification instant
}

type Case struct {
	Spec sxgkit.Spec `json:"spec"`
	Mut  Mut         `json:"mut"`
	// verification instant relative to the signed window
	Time string `json:"time"` // mid date date-1 date+1 expires expires-1 expires+1 date-1ns expires+1ns
	// Parsed: field-level mutations are applied to the object that ReadExchange returned for the
	// written file (what a client holds), not to the object the signer built: anything the parser
	// keeps beside the public fields must not stand in for them at verification.
	Parsed bool `json:"parsed,omitempty"`
	// SigCopies > 1: the Signature header lists the valid signature that many times (labels
	// label, label2, ...), so the verifier, which tries the members in turn, meets a valid one
	// more than once: whatever it learns while handling one member must not help the next.
	SigCopies int `json:"sig_copies,omitempty"`
}

func instant(s *sxgkit.Spec, sel string) (sec, nsec int64) {
	switch sel {
	case "date":
		return s.Date, 0
	case "date-1":
		return s.Date - 1, 0
	case "date+1":
		return s.Date + 1, 0
	case "expires":
		return s.Expires, 0
	case "expires-1":
		return s.Expires - 1, 0
	case "expires+1":
		return s.Expires + 1, 0
	case "date-1ns":
		return s.Date - 1, 999_999_999
	case "expires+1ns":
		return s.Expires, 1
	case "date+1ns":
		return s.Date, 1
	}
	return s.Date + (s.Expires-s.Date)/2, 0
}

func insideWindow(s *sxgkit.Spec, sec, nsec int64) bool {
	if sec < s.Date {
		return false
	}
	if sec > s.Expires || (sec == s.Expires && nsec > 0) {
		return false
	}
	return true
}

type region struct {
	name       string
	start, end int
}

func regions(file []byte, version string) []region {
	pf, err := refsxg.ParseFile(file)
	if err != nil {
		return []region{{"magic", 0, len(file)}}
	}
	var rs []region
	pos := 0
	add := func(n string, l int) {
		if l > 0 {
			rs = append(rs, region{n, pos, pos + l})
		}
		pos += l
	}
	add("magic", 8)
	if version != "1b1" {
		add("urllen", 2)
		add("url", len(pf.URL))
	}
	add("siglen", 3)
	add("hdrlen", 3)
	add("sig", len(pf.Signature))
	add("headers", len(pf.Headers))
	if len(pf.Payload) >= 8 {
		add("rsfield", 8)
		add("payload", len(pf.Payload)-8)
	} else {
		add("payload", len(pf.Payload))
	}
	return rs
}

func findRegion(rs []region, name string) region {
	for _, r := range rs {
		if r.name == name {
			return r
		}
	}
	return rs[len(rs)-1]
}

// highS maps an ECDSA signature (r,s) to (r, n-s): a different encoding of an equally valid signature.
func highS(sig []byte, curve elliptic.Curve) []byte {
	var v struct{ R, S *big.Int }
	if rest, err := asn1.Unmarshal(sig, &v); err != nil || len(rest) != 0 {
		return sig
	}
	v.S = new(big.Int).Sub(curve.Params().N, v.S)
	out, err := asn1.Marshal(v)
	if err != nil {
		return sig
	}
	return out
}

func chainCBOR(certs []int) []byte {
	fx := gen.Fixtures()
	cc := certurl.CertChain{}
	for i, c := range certs {
		ac := &certurl.AugmentedCertificate{}
		if c < 0 {
			ac.Cert = gen.CA()
		} else {
			ac.Cert = fx[c].Leaf
		}
		if i == 0 {
			ac.OCSPResponse = []byte("ocsp")
		}
		cc = append(cc, ac)
	}
	var buf bytes.Buffer
	if err := cc.Write(&buf); err != nil {
		panic(err)
	}
	return buf.Bytes()
}

var prop = vh.Define("C01", "tamper", func(c Case, r *vh.R) { check(c, r) })

func check(c Case, r *vh.R) {
	s := &c.Spec
	e, _, err := sxgkit.Build(s)
	if err != nil {
		r.Failf("sign-error", "library refused to sign a well-formed exchange: %v", err)
		return
	}
	if c.SigCopies > 1 && c.SigCopies <= 4 && c.Mut.Class != "sig-param" && c.Mut.Class != "fetcher" {
		members := []string{e.SignatureHeaderValue}
		for k := 2; k <= c.SigCopies; k++ {
			members = append(members, strings.Replace(e.SignatureHeaderValue, "label;", fmt.Sprintf("label%d;", k), 1))
		}
		e.SignatureHeaderValue = strings.Join(members, ", ")
		r.Class("several-valid-signatures")
	}
	orig := sxgkit.CanonOf(e)
	payload := s.Payload()
	signedValidity := ""
	if pl, err := structuredheader.ParseParameterisedList(e.SignatureHeaderValue); err == nil && len(pl) >= 1 {
		signedValidity, _ = pl[0].Params["validity-url"].(string)
	}
	signer := gen.Fixtures()[s.Fixture]
	fetchedLeaf := signer.Leaf
	fetch := sxgkit.Fetcher(s.Fixture)

	// the untampered exchange must verify (two-sided check, guards against a vacuous oracle)
	msec, _ := instant(s, "mid")
	if p, ok, lg := sxgkit.VerifyLog(e, msec, fetch); !ok || !bytes.Equal(p, payload) {
		r.Failf("base-rejected", "untampered exchange does not verify at mid-window (ok=%v payloadEqual=%v): %s", ok, bytes.Equal(p, payload), lg)
		return
	}

	m := c.Mut
	r.Class("mut:" + m.Class)
	r.Class(s.Version)
	target := e
	if c.Parsed && !strings.HasPrefix(m.Class, "ser-") {
		var buf bytes.Buffer
		if err := e.Write(&buf); err != nil {
			r.Failf("write-error", "Write failed: %v", err)
			return
		}
		psrc := gen.Source(buf.Bytes(), gen.SourceModeOf(buf.Bytes()))
		pe, err := signedexchange.ReadExchange(psrc)
		gen.Recycle(psrc)
		if err != nil {
			r.Failf("read-error", "ReadExchange rejects the library's own output: %v", err)
			return
		}
		target = pe
		r.Class("mutated-after-parsing")
	}
	changed := false // does the mutation change canon / signed parameter / key / put t outside the window?
	noCert := false  // the certificate fetch fails or returns nothing that holds a leaf certificate
	rejectedAtRead := false

	switch {
	case strings.HasPrefix(m.Class, "ser-"):
		var buf bytes.Buffer
		if err := e.Write(&buf); err != nil {
			r.Failf("write-error", "Write failed: %v", err)
			return
		}
		file := buf.Bytes()
		rg := findRegion(regions(file, s.Version), m.Region)
		r.Class("region:" + rg.name)
		off := rg.start
		if rg.end > rg.start {
			off = rg.start + ((m.Pos%(rg.end-rg.start))+(rg.end-rg.start))%(rg.end-rg.start)
		}
		mut := append([]byte{}, file...)
		switch m.Class {
		case "ser-flip":
			mut[off] ^= 1 << uint(m.Bit&7)
		case "ser-insert":
			mut = append(append(append([]byte{}, file[:off]...), m.Byte), file[off:]...)
		case "ser-delete":
			mut = append(append([]byte{}, file[:off]...), file[off+1:]...)
		case "ser-truncate":
			mut = mut[:off]
		case "ser-append":
			mut = append(mut, bytes.Repeat([]byte{m.Byte}, 1+m.N%40)...)
		case "ser-setbyte":
			mut[off] = m.Byte
		}
		msrc := gen.Source(mut, gen.SourceModeOf(mut))
		e2, err := signedexchange.ReadExchange(msrc)
		gen.Recycle(msrc)
		if err != nil {
			rejectedAtRead = true
		} else {
			target = e2
		}
		changed = true // decided after the fact through canon comparison
	case m.Class == "none":
	case m.Class == "url":
		target.RequestURI = mutateURL(target.RequestURI, m.Variant)
		changed = true
	case m.Class == "status":
		target.ResponseStatus = m.N
		changed = true
	case m.Class == "hdr-add":
		target.ResponseHeaders.Add(m.Name, m.Value)
		changed = true
	case m.Class == "hdr-remove":
		k := pickNamed(target.ResponseHeaders, m.Pos, m.Name)
		delete(target.ResponseHeaders, k)
		changed = true
	case m.Class == "hdr-edit":
		k := pickNamed(target.ResponseHeaders, m.Pos, m.Name)
		vs := target.ResponseHeaders[k]
		vs[0] = vs[0] + m.Value
		changed = true
	case m.Class == "hdr-split":
		// one value "a" becomes two values "a","b" (joined "a,b")
		k := pickNamed(target.ResponseHeaders, m.Pos, m.Name)
		target.ResponseHeaders[k] = append(target.ResponseHeaders[k], m.Value)
		changed = true
	case m.Class == "hdr-case":
		// same content under a non-canonical map key: canon unchanged (benign)
		k := pickKey(target.ResponseHeaders, m.Pos)
		vs := target.ResponseHeaders[k]
		delete(target.ResponseHeaders, k)
		target.ResponseHeaders[strings.ToUpper(k)] = vs
	case m.Class == "method":
		target.RequestMethod = m.Value
		changed = s.Version != "1b3"
	case m.Class == "reqhdr-add":
		if target.RequestHeaders == nil {
			target.RequestHeaders = http.Header{}
		}
		target.RequestHeaders.Add(m.Name, m.Value)
		changed = s.Version != "1b3"
	case m.Class == "payload-flip":
		if len(target.Payload) == 0 {
			target.Payload = []byte{m.Byte}
		} else {
			i := ((m.Pos % len(target.Payload)) + len(target.Payload)) % len(target.Payload)
			target.Payload = append([]byte{}, target.Payload...)
			target.Payload[i] ^= 1 << uint(m.Bit&7)
		}
		changed = true
	case m.Class == "payload-trunc":
		n := len(target.Payload)
		if n > 0 {
			cut := 1 + m.N%n
			if m.Variant == "record" && s.RecordSize+32 < n {
				cut = (n - 8) % (s.RecordSize + 32) // drop the final (short) record exactly
				if cut == 0 {
					cut = s.RecordSize + 32
				}
			}
			target.Payload = target.Payload[:n-cut]
		} else {
			target.Payload = nil
		}
		changed = true
	case m.Class == "payload-extend":
		target.Payload = append(append([]byte{}, target.Payload...), bytes.Repeat([]byte{m.Byte}, 1+m.N%70)...)
		changed = true
	case m.Class == "sig-param":
		pl, err := structuredheader.ParseParameterisedList(target.SignatureHeaderValue)
		if err != nil || len(pl) != 1 {
			r.Failf("harness", "cannot parse the library's own Signature header: %v", err)
			return
		}
		it := pl[0]
		switch m.Param {
		case "date", "expires":
			it.Params[structuredheader.Key(m.Param)] = it.Params[structuredheader.Key(m.Param)].(int64) + int64(m.N)
			changed = m.N != 0
		case "window-shift":
			// date AND expires moved by the same amount (the instant is moved along below)
			it.Params["date"] = it.Params["date"].(int64) + m.Shift
			it.Params["expires"] = it.Params["expires"].(int64) + m.Shift
			changed = m.Shift != 0
		case "integrity":
			it.Params["integrity"] = m.Value
			changed = true
		case "validity-url":
			it.Params["validity-url"] = it.Params["validity-url"].(string) + m.Value
			changed = m.Value != ""
		case "cert-sha256":
			h := append([]byte{}, it.Params["cert-sha256"].([]byte)...)
			if m.Variant == "suffix" {
				h[len(h)-1] ^= 1
			} else if m.Variant == "truncate" {
				h = h[:16]
			} else {
				for i := range h {
					h[i] ^= 0x5a
				}
			}
			it.Params["cert-sha256"] = h
			changed = true
		case "sig":
			sg := append([]byte{}, it.Params["sig"].([]byte)...)
			switch m.Variant {
			case "high-s":
				curve := elliptic.P256()
				if signer.Curve == "P-384" {
					curve = elliptic.P384()
				}
				sg = highS(sg, curve) // equally valid: benign
			case "trailing":
				sg = append(sg, 0)
				changed = true
			default:
				i := ((m.Pos % len(sg)) + len(sg)) % len(sg)
				sg[i] ^= 1 << uint(m.Bit&7)
				changed = true
			}
			it.Params["sig"] = sg
		case "drop":
			delete(it.Params, structuredheader.Key(m.Value))
			changed = m.Value != "cert-url" || true
		case "label":
			it.Label = "other"
		case "cert-url":
			it.Params["cert-url"] = "https://elsewhere.example/x"
		case "duplicate":
			pl = append(pl, it)
		case "prepend-bogus":
			bogus := structuredheader.ParameterisedIdentifier{Label: "bogus", Params: structuredheader.Parameters{"sig": []byte{1}}}
			pl = structuredheader.ParameterisedList{bogus, it}
		}
		if m.Param != "duplicate" && m.Param != "prepend-bogus" {
			pl[0] = it
		}
		hv, err := pl.String()
		if err != nil {
			r.Failf("harness", "cannot re-serialise Signature header: %v", err)
			return
		}
		target.SignatureHeaderValue = hv
	case m.Class == "fetcher":
		var b []byte
		r.Class("fetcher:" + m.Variant)
		switch m.Variant {
		case "other-key":
			b = chainCBOR([]int{m.Fixture, -1})
			fetchedLeaf = gen.Fixtures()[m.Fixture].Leaf
		case "swapped":
			b = chainCBOR([]int{-1, s.Fixture})
			fetchedLeaf = gen.CA()
		case "other-key+sha":
			// foreign certificate AND the cert-sha256 parameter rewritten to match it
			b = chainCBOR([]int{m.Fixture, -1})
			fetchedLeaf = gen.Fixtures()[m.Fixture].Leaf
			pl, _ := structuredheader.ParseParameterisedList(target.SignatureHeaderValue)
			pl[0].Params["cert-sha256"] = gen.CertSha256(fetchedLeaf)
			target.SignatureHeaderValue, _ = pl.String()
		case "error", "empty", "garbage", "truncated", "only-issuer":
			// the fetch fails, or what it returns holds no leaf certificate for this signature:
			// there is no key to verify under, so nothing may be accepted (a verifier must not
			// treat a failed secondary step as "nothing to check")
			noCert = true
			switch m.Variant {
			case "garbage":
				b = gen.Filler(16+m.Fixture*37, uint64(m.Fixture)+1)
			case "truncated":
				full := chainCBOR([]int{s.Fixture, -1})
				b = full[:(1+m.Fixture*131)%len(full)]
			case "only-issuer":
				b = chainCBOR([]int{-1})
			}
		}
		fetch = func(string) ([]byte, error) { return b, nil }
		if m.Variant == "error" {
			fetch = func(string) ([]byte, error) { return nil, errors.New("injected: certificate fetch failed") }
		}
		changed = true
	case m.Class == "time":
	default:
		r.Failf("harness", "unknown mutation class %q", m.Class)
		return
	}

	sec, nsec := instant(s, c.Time)
	r.Class("time:" + c.Time)
	inWin := insideWindow(s, sec, nsec)
	if m.Class == "sig-param" && m.Param == "window-shift" {
		sec += m.Shift // verify inside the SHIFTED window: outside the signed one unless the shift is tiny
		inWin = insideWindow(s, sec, nsec)
	}
	if !inWin {
		changed = true
	}

	if rejectedAtRead {
		r.Class("rejected-at-read")
		r.NT()
		return
	}
	got, ok := sxgkit.Verify(target, sec, nsec, fetch)
	sxgkit.Disturb() // the returned payload is judged after unrelated verifications
	if ok && noCert {
		r.Failf("accepted-without-certificate", "verification succeeded although the certificate fetch gave no usable leaf certificate (mutation %+v)", m)
		return
	}
	if !ok {
		r.Class("rejected-at-verify")
		if changed {
			r.NT()
		}
		if c.Mut.Class == "none" || (c.Mut.Class == "time" && inWin) {
			// not tampered with, inside the window: must verify (the other direction)
			_, _, lg := sxgkit.VerifyLog(target, sec, fetch)
			r.Failf("untampered-rejected", "exchange with unchanged content rejected at %s (in window): %s", c.Time, lg)
		}
		return
	}
	// Accepted: everything the property lists must be what was signed.
	after := sxgkit.CanonOf(target)
	if !after.Equal(orig) {
		r.Failf("accepted-tampered", "verification succeeded although the exchange differs from what was signed\n mutation %+v\n signed   %v\n accepted %v", m, orig, after)
		return
	}
	if !bytes.Equal(got, payload) {
		r.Failf("accepted-tampered-payload", "verification succeeded but returned %d payload bytes that differ from the %d signed ones (mutation %+v)", len(got), len(payload), m)
		return
	}
	if !inWin {
		r.Failf("accepted-outside-window", "verification succeeded at t=%d.%09d outside the signed window [%d,%d] (mutation %+v)", sec, nsec, s.Date, s.Expires, m)
		return
	}
	// signed parameters of the accepted signature: date / expires must be the signed ones
	if pl, err := structuredheader.ParseParameterisedList(target.SignatureHeaderValue); err == nil {
		acceptedAny := false
		for _, it := range pl {
			d, _ := it.Params["date"].(int64)
			x, _ := it.Params["expires"].(int64)
			h, _ := it.Params["cert-sha256"].([]byte)
			vu, _ := it.Params["validity-url"].(string)
			if d == s.Date && x == s.Expires && bytes.Equal(h, gen.CertSha256(fetchedLeaf)) && vu == signedValidity {
				acceptedAny = true
			}
		}
		if !acceptedAny {
			r.Failf("accepted-edited-signature-parameters", "verification succeeded although no Signature item carries the signed date/expires/validity-url and the fetched certificate's hash (mutation %+v)", m)
			return
		}
	}
	pk, _ := fetchedLeaf.PublicKey.(*ecdsa.PublicKey)
	if pk == nil || !pk.Equal(&signer.Key.PublicKey) {
		r.Failf("accepted-foreign-key", "verification succeeded with a certificate whose key is not the signer's (mutation %+v)", m)
		return
	}
	if m.Class == "sig-param" && m.Param == "sig" && m.Variant == "trailing" {
		// anchored mechanism of the property: "strict DER parse of the ECDSA signature, trailing data refused"
		r.Failf("accepted-trailing-der", "verification succeeded for a signature value followed by a trailing byte (mutation %+v)", m)
		return
	}
	r.Class("accepted-benign")
	if m.Class != "none" && m.Class != "time" {
		r.Class("benign:" + m.Class + ":" + m.Param + m.Region)
	}
}

// formatNames are header names to which the format, the verifier or HTTP itself gives a meaning
// (the envelope's own Signature field, the integrity headers, what the acceptance policy reads):
// as INNER fields of the signed response / request they are ordinary signed content.
var formatNames = []string{"Signature", "signature", "SIGNATURE", "Digest", "MI", "Content-Encoding", "Content-Type", "Cache-Control", "Link", "Date", "Expires",
	"Host", "Content-Length", "Variants", "Variant-Key", "Accept-Signature", "Signed-Headers", "Vary"}

// pickNamed: the key spelled like name (any letter case) if the map has one, else pickKey.
func pickNamed(h http.Header, pos int, name string) string {
	if name != "" {
		for k := range h {
			if strings.EqualFold(k, name) {
				return k
			}
		}
	}
	return pickKey(h, pos)
}

func pickKey(h http.Header, pos int) string {
	ks := make([]string, 0, len(h))
	for k := range h {
		ks = append(ks, k)
	}
	// deterministic order
	for i := 1; i < len(ks); i++ {
		for j := i; j > 0 && ks[j] < ks[j-1]; j-- {
			ks[j], ks[j-1] = ks[j-1], ks[j]
		}
	}
	if len(ks) == 0 {
		return "X-None"
	}
	return ks[((pos%len(ks))+len(ks))%len(ks)]
}

func mutateURL(u, variant string) string {
	switch variant {
	case "path":
		return u + "x"
	case "host":
		return strings.Replace(u, "https://", "https://evil-", 1)
	case "case":
		return strings.Replace(u, "https://", "HTTPS://", 1)
	case "trailing-q":
		return u + "?"
	}
	return u + "/"
}

var serRegions = []string{"magic", "urllen", "url", "siglen", "hdrlen", "sig", "headers", "rsfield", "payload"}

func genMut(t *rapid.T, s *sxgkit.Spec) (Mut, string) {
	tm := "mid"
	cls := rapid.SampledFrom([]string{
		"ser-flip", "ser-flip", "ser-insert", "ser-delete", "ser-truncate", "ser-append", "ser-setbyte",
		"url", "status", "hdr-add", "hdr-remove", "hdr-edit", "hdr-split", "hdr-case", "method", "reqhdr-add",
		"payload-flip", "payload-trunc", "payload-extend",
		"sig-param", "sig-param", "sig-param", "fetcher", "time", "time", "none",
	}).Draw(t, "class")
	m := Mut{Class: cls}
	switch {
	case strings.HasPrefix(cls, "ser-"):
		m.Region = rapid.SampledFrom(serRegions).Draw(t, "region")
		m.Pos = rapid.IntRange(0, 1<<20).Draw(t, "pos")
		if rapid.IntRange(0, 3).Draw(t, "edge") == 0 {
			m.Pos = rapid.SampledFrom([]int{0, 1, -1, -2}).Draw(t, "edgepos")
		}
		m.Bit = rapid.IntRange(0, 7).Draw(t, "bit")
		m.Byte = rapid.Byte().Draw(t, "byte")
		m.N = rapid.IntRange(0, 100).Draw(t, "n")
	case cls == "url":
		m.Variant = rapid.SampledFrom([]string{"path", "host", "case", "trailing-q", "slash"}).Draw(t, "variant")
	case cls == "status":
		m.N = rapid.SampledFrom([]int{201, 404, 0, 2000, s.Status + 1}).Draw(t, "status")
		if m.N == s.Status {
			m.N = s.Status + 100
		}
	case cls == "hdr-add" || cls == "reqhdr-add":
		m.Name = gen.HeaderName(t, "newname")
		if rapid.IntRange(0, 3).Draw(t, "pseudo") == 0 {
			// names in pseudo-header style: the decoders give meaning to :status / :method / :url only
			// and hand every other ":name" to the caller as an ordinary field, so it must be signed
			m.Name = rapid.SampledFrom([]string{":x-injected", ":authority", ":path", ":scheme", ":status", ":method", ":url", ":"}).Draw(t, "pseudoname")
		} else if rapid.IntRange(0, 2).Draw(t, "formatname") == 0 {
			m.Name = rapid.SampledFrom(formatNames).Draw(t, "fname")
		}
		m.Value = rapid.SampledFrom([]string{"", "x", "a,b"}).Draw(t, "newval")
	case cls == "hdr-remove" || cls == "hdr-case":
		m.Pos = rapid.IntRange(0, 10).Draw(t, "pos")
	case cls == "hdr-edit" || cls == "hdr-split":
		m.Pos = rapid.IntRange(0, 10).Draw(t, "pos")
		m.Value = rapid.SampledFrom([]string{"x", " ", ",", "b"}).Draw(t, "suffix")
	case cls == "method":
		m.Value = rapid.SampledFrom([]string{"HEAD", "POST", "get", "GET "}).Draw(t, "method")
		if m.Value == s.Method {
			m.Value = "PUT"
		}
	case strings.HasPrefix(cls, "payload-"):
		m.Pos = rapid.IntRange(0, 1<<20).Draw(t, "pos")
		m.Bit = rapid.IntRange(0, 7).Draw(t, "bit")
		m.Byte = rapid.Byte().Draw(t, "byte")
		m.N = rapid.IntRange(0, 1<<16).Draw(t, "n")
		m.Variant = rapid.SampledFrom([]string{"", "record"}).Draw(t, "variant")
	case cls == "sig-param":
		m.Param = rapid.SampledFrom([]string{"date", "expires", "window-shift", "window-shift", "integrity", "validity-url", "cert-sha256", "sig", "sig", "drop", "label", "cert-url", "duplicate", "prepend-bogus"}).Draw(t, "param")
		switch m.Param {
		case "window-shift":
			m.Shift = rapid.SampledFrom([]int64{1 << 32, -(1 << 32), 3 << 32, 1 << 31, 1 << 33, 1 << 40, 1 << 16, 1 << 24, 86400 * 365, 604800, 1, -1, 256, 65536}).Draw(t, "shift")
			if s.Date+m.Shift < 0 {
				m.Shift = -m.Shift
			}
		case "date", "expires":
			m.N = rapid.SampledFrom([]int{-1, 1, -604800, 604800}).Draw(t, "delta")
		case "integrity":
			m.Value = rapid.SampledFrom([]string{"mi-draft2", "digest/mi-sha256-03", "digest/mi-sha256", ""}).Draw(t, "integrity")
			if m.Value == refsxg.IntegrityID(s.Version) {
				m.Value = "junk"
			}
		case "validity-url":
			m.Value = rapid.SampledFrom([]string{"x", "?", "/"}).Draw(t, "vsuffix")
		case "cert-sha256":
			m.Variant = rapid.SampledFrom([]string{"all", "suffix", "truncate"}).Draw(t, "variant")
		case "sig":
			m.Variant = rapid.SampledFrom([]string{"flip", "flip", "high-s", "trailing"}).Draw(t, "variant")
			m.Pos = rapid.IntRange(0, 200).Draw(t, "pos")
			m.Bit = rapid.IntRange(0, 7).Draw(t, "bit")
		case "drop":
			m.Value = rapid.SampledFrom([]string{"sig", "integrity", "cert-url", "cert-sha256", "validity-url", "date", "expires"}).Draw(t, "dropped")
		}
	case cls == "fetcher":
		m.Variant = rapid.SampledFrom([]string{"other-key", "swapped", "other-key+sha", "error", "empty", "garbage", "truncated", "only-issuer"}).Draw(t, "variant")
		cands := []int{2, 3, 1, 4}
		m.Fixture = rapid.SampledFrom(cands).Draw(t, "fixture")
		if m.Fixture == s.Fixture {
			m.Fixture = 2
		}
	case cls == "time":
		tm = rapid.SampledFrom([]string{"date", "date-1", "date+1", "expires", "expires-1", "expires+1", "date-1ns", "expires+1ns", "date+1ns", "mid"}).Draw(t, "time")
	}
	return m, tm
}

func TestPropTamper(t *testing.T) { prop.Rapid(t, genPropTamper) }

// TestConcTamper: batches of cases evaluated at the same time on separate goroutines (vh.Prop.Concurrent).
func TestConcTamper(t *testing.T) { prop.Concurrent(t, genPropTamper, 8, 3) }

func genPropTamper(t *rapid.T) Case {
	s := sxgkit.GenSpec(t)
	// keep payloads moderate: tamper search benefits from many small cases
	if s.PayloadLen > 5000 {
		s.PayloadLen = s.PayloadLen % 5000
	}
	if s.Expires-s.Date < 4 {
		s.Expires = s.Date + 4 // room for date+1 / expires-1 instants
	}
	m, tm := genMut(t, s)
	if s.Fixture == 5 && m.Class == "fetcher" && m.Fixture == 3 {
		m.Fixture = 2
	}
	return Case{Spec: *s, Mut: m, Time: tm, Parsed: rapid.Bool().Draw(t, "parsed"), SigCopies: rapid.SampledFrom([]int{0, 0, 0, 2, 3}).Draw(t, "sigcopies")}
}

// exhaustive single-bit flips (and in thorough: truncations, deletions) of small base files
func baseSpecs() []sxgkit.Spec {
	var out []sxgkit.Spec
	for _, v := range []string{"1b1", "1b2", "1b3"} {
		for _, fx := range []int{0, 1} {
			for _, lay := range []struct{ rs, n int }{{16, 40}, {16, 32}, {4096, 0}} {
				sp := sxgkit.Spec{Version: v, URL: "https://a.example/p?q=1", Method: "GET", Status: 200,
					ResHeaders: []gen.HeaderKV{{Name: "Content-Type", Values: []string{"text/html"}}, {Name: "X-Foo", Values: []string{"a", "b"}}},
					PayloadLen: lay.n, PayloadTag: 5, RecordSize: lay.rs, Fixture: fx, Date: 1_700_000_000, Expires: 1_700_000_000 + 86400,
					ValidityURL: "https://a.example/v", CertURL: "https://c.example/c"}
				if v != "1b3" {
					sp.ReqHeaders = []gen.HeaderKV{{Name: "Accept", Values: []string{"*/*"}}}
				}
				out = append(out, sp)
			}
		}
	}
	return out
}

// TestFieldSweep: every name of formatNames (and two ordinary ones) as an inner response field
// and, for b1/b2, as an inner request field: added to a signed exchange that lacks it, and -
// in an exchange signed WITH it - edited and removed; in memory and on the object read back
// from the file.
func TestFieldSweep(t *testing.T) {
	total := 0
	for _, v := range []string{"1b1", "1b2", "1b3"} {
		for fx, name := range append([]string{"X-Ordinary", "x-lower"}, formatNames...) {
			for _, parsed := range []bool{false, true} {
				sp := sxgkit.Spec{Version: v, URL: "https://a.example/p?q=1", Method: "GET", Status: 200,
					ResHeaders: []gen.HeaderKV{{Name: "Content-Type", Values: []string{"text/html"}}, {Name: "X-Foo", Values: []string{"a"}}},
					PayloadLen: 40, PayloadTag: 5, RecordSize: 16, Fixture: fx % 2, Date: 1_700_000_000, Expires: 1_700_000_000 + 86400,
					ValidityURL: "https://a.example/v", CertURL: "https://c.example/c"}
				muts := []Mut{{Class: "hdr-add", Name: name, Value: "injected"}}
				if v != "1b3" {
					muts = append(muts, Mut{Class: "reqhdr-add", Name: name, Value: "injected"})
				}
				for _, m := range muts {
					total++
					if !prop.One(t, Case{Spec: sp, Mut: m, Time: "mid", Parsed: parsed}) {
						return
					}
				}
				if strings.EqualFold(name, "Content-Type") || strings.EqualFold(name, "Content-Encoding") || strings.EqualFold(name, "Digest") || strings.EqualFold(name, "MI") {
					continue // set by the builder itself
				}
				with := sp
				with.ResHeaders = append(append([]gen.HeaderKV{}, sp.ResHeaders...), gen.HeaderKV{Name: name, Values: []string{"signed-value"}})
				for _, m := range []Mut{{Class: "hdr-edit", Name: name, Value: "x"}, {Class: "hdr-remove", Name: name}, {Class: "hdr-split", Name: name, Value: "b"}, {Class: "none"}} {
					total++
					if !prop.One(t, Case{Spec: with, Mut: m, Time: "mid", Parsed: parsed}) {
						return
					}
				}
			}
		}
	}
	// the certificate fetch: every way of not delivering the signer's certificate x version x
	// object built / object parsed x one or several copies of the signature
	for _, v := range []string{"1b1", "1b2", "1b3"} {
		for fi, variant := range []string{"error", "empty", "garbage", "truncated", "only-issuer", "other-key", "swapped", "other-key+sha"} {
			for k := 0; k < 6; k++ {
				sp := sxgkit.Spec{Version: v, URL: "https://a.example/p?q=1", Method: "GET", Status: 200,
					ResHeaders: []gen.HeaderKV{{Name: "Content-Type", Values: []string{"text/html"}}},
					PayloadLen: 40, PayloadTag: 5, RecordSize: 16, Fixture: k % 2, Date: 1_700_000_000, Expires: 1_700_000_000 + 86400,
					ValidityURL: "https://a.example/v", CertURL: "https://c.example/c"}
				total++
				if !prop.One(t, Case{Spec: sp, Mut: Mut{Class: "fetcher", Variant: variant, Fixture: 2 + (fi+k)%3}, Time: "mid", Parsed: k%2 == 1, SigCopies: 1 + k/2}) {
					return
				}
			}
		}
	}
	// signature parameters: every kind of edit, with validity and certificate URLs of lengths
	// around 255 / 256 and in the kilobytes (an edit in the tail of a long URL must count)
	for _, v := range []string{"1b1", "1b2", "1b3"} {
		for _, n := range []int{30, 254, 255, 256, 257, 1000, 8000} {
			pad := strings.Repeat("v", n)
			sp := sxgkit.Spec{Version: v, URL: "https://a.example/p?q=1", Method: "GET", Status: 200,
				ResHeaders: []gen.HeaderKV{{Name: "Content-Type", Values: []string{"text/html"}}},
				PayloadLen: 40, PayloadTag: 5, RecordSize: 16, Fixture: n % 2, Date: 1_700_000_000, Expires: 1_700_000_000 + 86400,
				ValidityURL: "https://a.example/" + pad[:n-18], CertURL: "https://c.example/" + pad[:n-18]}
			muts := []Mut{{Class: "none"}}
			for _, prm := range []string{"date", "expires", "integrity", "validity-url", "cert-url", "label"} {
				muts = append(muts, Mut{Class: "sig-param", Param: prm, Value: "x", N: 1})
			}
			muts = append(muts, Mut{Class: "sig-param", Param: "cert-sha256", Variant: "suffix"}, Mut{Class: "sig-param", Param: "cert-sha256", Variant: "truncate"},
				Mut{Class: "sig-param", Param: "sig", Variant: "flip", Pos: 9, Bit: 1}, Mut{Class: "sig-param", Param: "sig", Variant: "trailing"})
			for _, m := range muts {
				total++
				if !prop.One(t, Case{Spec: sp, Mut: m, Time: "mid"}) {
					return
				}
			}
		}
	}
	vh.Count("tamper", "field-sweep-cases", int64(total))
}

func TestExhaustiveFlips(t *testing.T) {
	specs := baseSpecs()
	sel := []int{0, 7, 14} // quick: one per version, alternating layouts / curves
	if vh.Thorough() {
		sel = nil
		for i := range specs {
			sel = append(sel, i)
		}
	}
	si, sn := vh.Shard()
	total := 0
	for k, idx := range sel {
		if k%sn != si {
			continue
		}
		sp := specs[idx]
		e, _, err := sxgkit.Build(&sp)
		if err != nil {
			t.Fatalf("build: %v", err)
		}
		var buf bytes.Buffer
		if err := e.Write(&buf); err != nil {
			t.Fatal(err)
		}
		n := buf.Len()
		// The Case re-signs on every evaluation (ECDSA is randomised, the signature length can
		// vary by a byte or two); positions are region-relative so every bit of every region is
		// visited for the lengths of this build.
		for _, rg := range regions(buf.Bytes(), sp.Version) {
			for pos := 0; pos < rg.end-rg.start; pos++ {
				for bit := 0; bit < 8; bit++ {
					total++
					if !prop.One(t, Case{Spec: sp, Mut: Mut{Class: "ser-flip", Region: rg.name, Pos: pos, Bit: bit}, Time: "mid"}) {
						return
					}
				}
				if vh.Thorough() {
					if !prop.One(t, Case{Spec: sp, Mut: Mut{Class: "ser-delete", Region: rg.name, Pos: pos}, Time: "mid"}) ||
						!prop.One(t, Case{Spec: sp, Mut: Mut{Class: "ser-truncate", Region: rg.name, Pos: pos}, Time: "mid"}) {
						return
					}
				}
			}
		}
		_ = n
	}
	vh.Count("tamper", "exhaustive-flip-cases", int64(total))
	_ = fmt.Sprint
}
