package c01

import (
	"crypto"
	"crypto/ecdsa"
	"crypto/rand"
	"crypto/sha256"
	"crypto/sha512"
	"encoding/asn1"
	"math/big"
	"testing"

	"github.com/WICG/webpackage/go/internal/signingalgorithm"
	"github.com/WICG/webpackage/go/verifh/gen"
	"github.com/WICG/webpackage/go/verifh/vh"
)

// The signature primitive behind Exchange.Verify and the bundle-signature verifier has a door of
// its own (signingalgorithm.SigningAlgorithmForPrivateKey / VerifierForPublicKey). The spec fixes
// ecdsa_secp256r1_sha256 and ecdsa_secp384r1_sha384 with the DER Ecdsa-Sig-Value; a signature the
// key holder made must verify EVERY time (ECDSA signatures are randomised: r and s with leading
// zero octets are shorter in DER), and nothing but such a signature may verify.
type SigAlgCase struct {
	Fixture int    `json:"fixture"`
	Msg     vh.B   `json:"msg"`
	Reps    int    `json:"reps"`
	Edit    string `json:"edit"` // "", "msg-bit", "trailing", "other-key", "r+n", "long-form-length", "leading-zero", "swap-rs", "sig-bit"
	At      int    `json:"at"`
}

func stdVerify(pub *ecdsa.PublicKey, msg, sig []byte) bool {
	var d []byte
	if pub.Curve.Params().BitSize == 384 {
		h := sha512.Sum384(msg)
		d = h[:]
	} else {
		h := sha256.Sum256(msg)
		d = h[:]
	}
	return ecdsa.VerifyASN1(pub, d, sig)
}

var sigAlgProp = vh.Define("C01", "sigalg", func(c SigAlgCase, r *vh.R) {
	fx := gen.Fixtures()
	if c.Fixture < 0 || c.Fixture >= len(fx) || c.Reps < 1 || c.Reps > 100000 {
		r.Skip = true
		return
	}
	f := fx[c.Fixture]
	r.Class(f.Curve)
	alg, err := signingalgorithm.SigningAlgorithmForPrivateKey(crypto.PrivateKey(f.Key), rand.Reader)
	if err != nil {
		r.Failf("sigalg", "SigningAlgorithmForPrivateKey refuses a %s key: %v", f.Curve, err)
		return
	}
	ver, err := signingalgorithm.VerifierForPublicKey(crypto.PublicKey(&f.Key.PublicKey))
	if err != nil {
		r.Failf("sigalg", "VerifierForPublicKey refuses a %s key: %v", f.Curve, err)
		return
	}
	var sig []byte
	short := 0
	for i := 0; i < c.Reps; i++ {
		sig, err = alg.Sign(c.Msg)
		if err != nil {
			r.Failf("sigalg", "Sign: %v", err)
			return
		}
		if !stdVerify(&f.Key.PublicKey, c.Msg, sig) {
			r.Failf("sigalg", "signature %x made for a %s key does not verify as ecdsa over SHA-%d (DER Ecdsa-Sig-Value)", sig, f.Curve, f.Key.Curve.Params().BitSize)
			return
		}
		if ok, verr := ver.Verify(c.Msg, sig); !ok || verr != nil {
			r.Failf("sigalg", "Verifier refuses a genuine %d-octet signature %x of its own key (ok=%v err=%v), repetition %d", len(sig), sig, ok, verr, i)
			return
		}
		if len(sig) < 2*((f.Key.Curve.Params().BitSize+7)/8)+6 {
			short++
		}
	}
	if short > 0 {
		r.Class("short-signature-seen")
	}
	if c.Reps >= 50 {
		r.NT()
	}
	if c.Edit == "" {
		return
	}
	r.Class("edit:" + c.Edit)
	r.NT()
	msg, bad := append([]byte{}, c.Msg...), append([]byte{}, sig...)
	pub := &f.Key.PublicKey
	var v struct{ R, S *big.Int }
	asn1.Unmarshal(sig, &v)
	n := f.Key.Curve.Params().N
	switch c.Edit {
	case "msg-bit":
		if len(msg) == 0 {
			msg = []byte{0}
		} else {
			msg[c.At%len(msg)] ^= 1 << uint(c.At%8)
		}
	case "sig-bit":
		bad[c.At%len(bad)] ^= 1 << uint(c.At%8)
	case "trailing":
		bad = append(bad, byte(c.At))
	case "other-key":
		o := fx[(c.Fixture+1+c.At%(len(fx)-1))%len(fx)]
		if o.Key.PublicKey.Equal(pub) || o.Curve != f.Curve {
			return
		}
		ver, _ = signingalgorithm.VerifierForPublicKey(crypto.PublicKey(&o.Key.PublicKey))
		pub = &o.Key.PublicKey
	case "r+n": // r + n is the same residue, outside [1, n-1]
		bad, _ = asn1.Marshal(struct{ R, S *big.Int }{new(big.Int).Add(v.R, n), v.S})
	case "swap-rs":
		bad, _ = asn1.Marshal(struct{ R, S *big.Int }{v.S, v.R})
	case "long-form-length": // 30 81 LL ...: not DER for a length below 128
		if len(sig) < 2 || sig[1] >= 0x80 {
			return
		}
		bad = append([]byte{0x30, 0x81, sig[1]}, sig[2:]...)
	case "leading-zero": // a superfluous 00 in front of r: not a minimal INTEGER
		if len(sig) < 4 || sig[1] >= 0x7f || sig[3] >= 0x7f {
			return
		}
		bad = append([]byte{0x30, sig[1] + 1, 0x02, sig[3] + 1, 0x00}, sig[4:]...)
	}
	ok, _ := ver.Verify(msg, bad)
	if ok && (!stdVerify(pub, msg, bad) || c.Edit == "trailing" || c.Edit == "long-form-length" || c.Edit == "leading-zero" || c.Edit == "r+n") {
		r.Failf("sigalg", "Verifier accepts an altered signature (edit %s at %d): %x over a %d-octet message", c.Edit, c.At, bad, len(msg))
	}
})

func TestSigAlg(t *testing.T) {
	n := 0
	fx := gen.Fixtures()
	reps := vh.Scale(1200, 20000) // leading-zero r or s: about one signature in 128 is a short one
	shard, shards := vh.Shard()
	for i := range fx {
		mine := i%shards == shard // a few fixtures per process ...
		if shards > len(fx) {
			mine = shard%len(fx) == i // ... or several processes per fixture (more fresh signatures)
		}
		if i == 3 || !mine { // 3: same key as fixture 0
			continue
		}
		n++
		if !sigAlgProp.One(t, SigAlgCase{Fixture: i, Msg: gen.Filler(40+i, uint64(i)), Reps: reps}) {
			return
		}
		for _, l := range []int{0, 1, 55, 56, 63, 64, 65, 119, 120, 1000} {
			for _, e := range []string{"msg-bit", "trailing", "other-key", "r+n", "long-form-length", "leading-zero", "swap-rs", "sig-bit"} {
				for at := 0; at < 12; at++ {
					n++
					if !sigAlgProp.One(t, SigAlgCase{Fixture: i, Msg: gen.Filler(l, uint64(n)), Reps: 1, Edit: e, At: at*7 + l}) {
						return
					}
				}
			}
		}
	}
	vh.Count("sigalg", "cases", int64(n))
}
