package refmice

import (
	"bytes"
	"encoding/hex"
	"testing"
)

// The example vectors of draft-thomson-http-mice-02/-03 section 4 (single record, and three
// records of 16 octets with the two intermediate proofs shown in the drafts) adjudicate the
// reference implementation against the specification text.
func TestDraftExamples(t *testing.T) {
	msg := []byte("When I grow up, I want to be a watermelon")

	s, h := Encode(3, msg, 0x29)
	if h != "mi-sha256-03=dcRDgR2GM35DluAV13PzgnG6+pvQwPywfFvAu1UeFrs=" {
		t.Errorf("draft 03 single record: %s", h)
	}
	if !bytes.Equal(s, append([]byte{0, 0, 0, 0, 0, 0, 0, 0x29}, msg...)) {
		t.Errorf("draft 03 single record stream %x", s)
	}
	if _, h = Encode(2, msg, 0x29); h != "mi-sha256-draft2=dcRDgR2GM35DluAV13PzgnG6-pvQwPywfFvAu1UeFrs" {
		t.Errorf("draft 02 single record: %s", h)
	}

	s, h = Encode(3, msg, 16)
	if h != "mi-sha256-03=IVa9shfs0nyKEhHqtB3WVNANJ2Njm5KjQLjRtnbkYJ4=" {
		t.Errorf("draft 03 multi record: %s", h)
	}
	if len(s) != 113 {
		t.Fatalf("draft 03 multi record stream length %d", len(s))
	}
	if got := b64(s[24:56], alphabetStd, true); got != "OElbplJlPK+Rv6JNK6p5/515IaoPoZo+2elWL7OQ60A=" {
		t.Errorf("proof(1) = %s", got)
	}
	if got := b64(s[72:104], alphabetStd, true); got != "iPMpmgExHPrbEX3/RvwP4d16fWlK4l++p75PUu/KyN0=" {
		t.Errorf("proof(2) = %s", got)
	}
	if !bytes.Equal(s[8:24], msg[:16]) || !bytes.Equal(s[56:72], msg[16:32]) || !bytes.Equal(s[104:], msg[32:]) {
		t.Errorf("records misplaced: %x", s)
	}
	s2, h := Encode(2, msg, 16)
	if h != "mi-sha256-draft2=IVa9shfs0nyKEhHqtB3WVNANJ2Njm5KjQLjRtnbkYJ4" || !bytes.Equal(s, s2) {
		t.Errorf("draft 02 multi record: %s", h)
	}

	// empty payloads: SHA-256(0x00) = 6e340b9c...
	s, h = Encode(3, nil, 16)
	if len(s) != 0 || h != "mi-sha256-03=bjQLnP+zepicpUTmu3gKLHiQHT+zNzh2hRGjBhevoB0=" {
		t.Errorf("draft 03 empty: %x %s", s, h)
	}
	s, h = Encode(2, nil, 16)
	if hex.EncodeToString(s) != "0000000000000010" || h != "mi-sha256-draft2=bjQLnP-zepicpUTmu3gKLHiQHT-zNzh2hRGjBhevoB0" {
		t.Errorf("draft 02 empty: %x %s", s, h)
	}
	if hex.EncodeToString(Proof0(3, nil, 1)) != "6e340b9cffb37a989ca544e6bb780a2c78901d3fb33738768511a30617afa01d" {
		t.Errorf("SHA-256(0x00) wrong")
	}
	ue, re := UnitEnds(3, len(msg), 16)
	if len(ue) != 2 || ue[0] != 56 || ue[1] != 104 || re[0] != 24 || re[1] != 72 {
		t.Errorf("UnitEnds %v %v", ue, re)
	}
}
