// Package refmice is an independent reference implementation of Merkle Integrity Content
// Encoding (draft-thomson-http-mice-02 and -03), written directly from the drafts'
// *recursive* definition of the integrity proofs. It shares no code with the repository
// under test and imports nothing from it.
//
// Definition used (draft section 2, "proof(r)"):
//
//	the payload is cut into records of rs octets, the last one holding the 1..rs
//	remaining octets;
//	proof(last record) = SHA-256(record || 0x00)
//	proof(record i)    = SHA-256(record_i || proof(record i+1) || 0x01)
//	stream             = rs as 8-octet big-endian integer,
//	                     record_0, proof(1), record_1, proof(2), ..., last record
//
// proof(0) is not part of the stream; it travels in the digest header.
//
// Empty payload: draft 03 - the encoding is the empty message (no record-size prefix);
// draft 02 - the record-size prefix followed by a single empty record. In both drafts the
// proof is SHA-256(0x00).
package refmice

import (
	"crypto/sha256"
	"fmt"
)

// ProofLen is the size of one integrity proof.
const ProofLen = 32

// Records cuts payload into the records the given draft hashes: ceil(len/rs) records for a
// non-empty payload; for an empty payload one empty record in draft 02 and none in draft 03.
func Records(draft int, payload []byte, rs int) [][]byte {
	checkArgs(draft, rs)
	var recs [][]byte
	for rest := payload; len(rest) > 0; {
		n := rs
		if n > len(rest) {
			n = len(rest)
		}
		recs = append(recs, rest[:n])
		rest = rest[n:]
	}
	if len(recs) == 0 && draft == 2 {
		recs = [][]byte{{}}
	}
	return recs
}

// RecordsEmptyFinal is the OTHER cut draft 02 allows for a payload that is a non-zero multiple
// of rs: all records full-sized, followed by an empty final record (draft 02 lets the final
// record hold 0..rs octets; the repository's decoder has a branch for it, its encoder never
// produces it). The proofs - and therefore the digest - differ from those of Records.
func RecordsEmptyFinal(payload []byte, rs int) [][]byte {
	return append(Records(2, payload, rs), []byte{})
}

// ProofsOf evaluates the recursive definition over an explicit list of records.
func ProofsOf(recs [][]byte) [][]byte {
	if len(recs) == 0 {
		return [][]byte{digest([]byte{0x00})}
	}
	memo := make([][]byte, len(recs))
	proof(recs, 0, memo)
	return memo
}

// EncodeRecords lays out the stream for an explicit list of records.
func EncodeRecords(draft int, recs [][]byte, rs int) (stream []byte, header string) {
	proofs := ProofsOf(recs)
	if len(recs) > 0 {
		stream = be64(uint64(rs))
		for i, rec := range recs {
			stream = append(stream, rec...)
			if i+1 < len(recs) {
				stream = append(stream, proofs[i+1]...)
			}
		}
	}
	return stream, Header(draft, proofs[0])
}

func checkArgs(draft, rs int) {
	if draft != 2 && draft != 3 {
		panic(fmt.Sprintf("refmice: unknown draft %d", draft))
	}
	if rs < 1 {
		panic(fmt.Sprintf("refmice: record size %d", rs))
	}
}

func digest(parts ...[]byte) []byte {
	h := sha256.New()
	for _, p := range parts {
		h.Write(p)
	}
	return h.Sum(nil)
}

// proof is the draft's recursive definition, evaluated literally; memo[i] keeps proof(i) so
// that Encode can lay the stream out afterwards.
func proof(recs [][]byte, i int, memo [][]byte) []byte {
	if i == len(recs)-1 {
		memo[i] = digest(recs[i], []byte{0x00})
	} else {
		memo[i] = digest(recs[i], proof(recs, i+1, memo), []byte{0x01})
	}
	return memo[i]
}

// Proofs returns proof(0..n-1) for the records of payload. For the empty draft-03 payload
// (no records) it returns the single special-case proof SHA-256(0x00).
func Proofs(draft int, payload []byte, rs int) [][]byte {
	recs := Records(draft, payload, rs)
	if len(recs) == 0 {
		return [][]byte{digest([]byte{0x00})}
	}
	memo := make([][]byte, len(recs))
	proof(recs, 0, memo)
	return memo
}

// Proof0 is the top-level integrity proof of payload.
func Proof0(draft int, payload []byte, rs int) []byte {
	return Proofs(draft, payload, rs)[0]
}

// Encode returns the content-encoded stream and the digest header value.
func Encode(draft int, payload []byte, rs int) (stream []byte, header string) {
	recs := Records(draft, payload, rs)
	proofs := Proofs(draft, payload, rs)
	if len(recs) > 0 {
		stream = be64(uint64(rs))
		for i, rec := range recs {
			stream = append(stream, rec...)
			if i+1 < len(recs) {
				stream = append(stream, proofs[i+1]...)
			}
		}
	}
	return stream, Header(draft, proofs[0])
}

func be64(v uint64) []byte {
	out := make([]byte, 8)
	for i := 7; i >= 0; i-- {
		out[i] = byte(v & 0xff)
		v >>= 8
	}
	return out
}

// Algorithm is the digest-algorithm / content-coding token of the draft.
func Algorithm(draft int) string {
	switch draft {
	case 2:
		return "mi-sha256-draft2"
	case 3:
		return "mi-sha256-03"
	}
	panic(fmt.Sprintf("refmice: unknown draft %d", draft))
}

// HeaderName is the HTTP header field that carries the top-level proof.
func HeaderName(draft int) string {
	if draft == 2 {
		return "MI-Draft2"
	}
	return "Digest"
}

// Header formats the header value for a top-level proof: draft 02 uses base64url without
// padding (RFC 7515 appendix C), draft 03 uses RFC 3230 Digest syntax, i.e. standard base64
// with padding.
func Header(draft int, proof0 []byte) string {
	switch draft {
	case 2:
		return Algorithm(2) + "=" + b64(proof0, alphabetURL, false)
	case 3:
		return Algorithm(3) + "=" + b64(proof0, alphabetStd, true)
	}
	panic(fmt.Sprintf("refmice: unknown draft %d", draft))
}

const (
	alphabetStd = "ABCDEFGHIJKLMNOPQRSTUVWXYZabcdefghijklmnopqrstuvwxyz0123456789+/"
	alphabetURL = "ABCDEFGHIJKLMNOPQRSTUVWXYZabcdefghijklmnopqrstuvwxyz0123456789-_"
)

// b64 is RFC 4648 base64 written out by hand (6 bits at a time).
func b64(in []byte, alphabet string, pad bool) string {
	var out []byte
	var acc uint
	bits := 0
	for _, c := range in {
		acc = acc<<8 | uint(c)
		bits += 8
		for bits >= 6 {
			bits -= 6
			out = append(out, alphabet[(acc>>uint(bits))&0x3f])
		}
	}
	if bits > 0 {
		out = append(out, alphabet[(acc<<uint(6-bits))&0x3f])
	}
	for pad && len(out)%4 != 0 {
		out = append(out, '=')
	}
	return string(out)
}

// UnitEnds returns, for the honest stream of a payload of payloadLen octets, the stream
// offsets at which a "record || proof of the next record" unit ends (these are the points
// where the decoder has consumed whole units: 8 + k*(rs+32), 1 <= k <= records-1), and the
// offsets just after the octets of a non-final record (8 + k*(rs+32) + rs, 0 <= k <= records-2),
// where a truncated stream looks exactly like one whose last record is full-sized.
func UnitEnds(draft int, payloadLen, rs int) (unitEnds, recordEnds []int) {
	checkArgs(draft, rs)
	n := (payloadLen + rs - 1) / rs
	for k := 0; k+1 < n; k++ {
		recordEnds = append(recordEnds, 8+k*(rs+ProofLen)+rs)
		unitEnds = append(unitEnds, 8+(k+1)*(rs+ProofLen))
	}
	return
}
