// Package refsxg re-implements, from the text of draft-yasskin-http-origin-signed-responses
// (the versions the repository targets: 1b1, 1b2, 1b3), the byte formats of signed
// exchanges: header CBOR, signed message, Signature header, file layout, header integrity.
// It uses nothing from the repository under test.
package refsxg

import (
	"crypto/sha256"
	"encoding/base64"
	"encoding/binary"
	"errors"
	"fmt"
	"sort"
	"strconv"
	"strings"

	"github.com/WICG/webpackage/go/verifh/ref/refcbor"
)

// Exchange is the logical content of a signed exchange.
type Exchange struct {
	Version    string            // "1b1" "1b2" "1b3"
	URL        string            // request / fallback URL
	Method     string            // 1b1/1b2 only
	ReqHeaders map[string]string // lower-cased name -> comma-joined value (1b1/1b2 only)
	Status     int
	ResHeaders map[string]string // lower-cased name -> comma-joined value
}

func headerMap(pseudo map[string]string, hs map[string]string) []byte {
	var kvs []refcbor.KV
	for k, v := range pseudo {
		kvs = append(kvs, refcbor.KV{K: refcbor.Bstr([]byte(k)), V: refcbor.Bstr([]byte(v))})
	}
	for k, v := range hs {
		kvs = append(kvs, refcbor.KV{K: refcbor.Bstr([]byte(k)), V: refcbor.Bstr([]byte(v))})
	}
	// "canonical serialization": RFC 7049 section 3.9 (length-first, then bytewise)
	return refcbor.MapLengthFirst(kvs)
}

// HeadersCBOR is the "CBOR representation of exchange's headers" (section 3.4 / 3.2 of the
// respective drafts).
func HeadersCBOR(e *Exchange) []byte {
	res := headerMap(map[string]string{":status": strconv.Itoa(e.Status)}, e.ResHeaders)
	switch e.Version {
	case "1b1":
		req := headerMap(map[string]string{":method": e.Method, ":url": e.URL}, e.ReqHeaders)
		return refcbor.Arr(req, res)
	case "1b2":
		req := headerMap(map[string]string{":method": e.Method}, e.ReqHeaders)
		return refcbor.Arr(req, res)
	case "1b3":
		return res
	}
	panic("refsxg: version " + e.Version)
}

func ContextString(version string) string {
	return "HTTP Exchange 1 " + version[1:] // "HTTP Exchange 1 b3"
}

func be8(n uint64) []byte {
	var b [8]byte
	binary.BigEndian.PutUint64(b[:], n)
	return b[:]
}

func cborInt(n int64) []byte {
	if n >= 0 {
		return refcbor.Uint(uint64(n))
	}
	return refcbor.NegInt(uint64(-(n + 1)))
}

// SignedMessage is the byte string that is signed (signature validity, step "message").
func SignedMessage(e *Exchange, certSha256 []byte, validityURL string, date, expires int64) []byte {
	msg := []byte(strings.Repeat(" ", 64))
	msg = append(msg, ContextString(e.Version)...)
	msg = append(msg, 0)
	hdr := HeadersCBOR(e)
	if e.Version == "1b1" {
		var kvs []refcbor.KV
		if certSha256 != nil {
			kvs = append(kvs, refcbor.KV{K: refcbor.Tstr("cert-sha256"), V: refcbor.Bstr(certSha256)})
		}
		kvs = append(kvs,
			refcbor.KV{K: refcbor.Tstr("validity-url"), V: refcbor.Bstr([]byte(validityURL))},
			refcbor.KV{K: refcbor.Tstr("date"), V: cborInt(date)},
			refcbor.KV{K: refcbor.Tstr("expires"), V: cborInt(expires)},
			refcbor.KV{K: refcbor.Tstr("headers"), V: hdr},
		)
		return append(msg, refcbor.MapLengthFirst(kvs)...)
	}
	// 1b2 / 1b3
	if certSha256 != nil {
		msg = append(msg, 32)
		msg = append(msg, certSha256...)
	} else {
		msg = append(msg, 0)
	}
	msg = append(msg, be8(uint64(len(validityURL)))...)
	msg = append(msg, validityURL...)
	msg = append(msg, be8(uint64(date))...)
	msg = append(msg, be8(uint64(expires))...)
	msg = append(msg, be8(uint64(len(e.URL)))...)
	msg = append(msg, e.URL...)
	msg = append(msg, be8(uint64(len(hdr)))...)
	msg = append(msg, hdr...)
	return msg
}

// IntegrityID is the value of the "integrity" signature parameter per version.
func IntegrityID(version string) string {
	if version == "1b1" {
		return "mi-draft2"
	}
	return "digest/mi-sha256-03"
}

func shString(s string) string {
	var b strings.Builder
	b.WriteByte('"')
	for i := 0; i < len(s); i++ {
		if s[i] == '"' || s[i] == '\\' {
			b.WriteByte('\\')
		}
		b.WriteByte(s[i])
	}
	b.WriteByte('"')
	return b.String()
}

func shBytes(p []byte) string { return "*" + base64.StdEncoding.EncodeToString(p) + "*" }

// SigParams are the parameters of one Signature header member.
type SigParams struct {
	Label       string
	Sig         []byte
	Integrity   string
	CertURL     string
	CertSha256  []byte
	ValidityURL string
	Date        int64
	Expires     int64
}

// SignatureHeader serialises one member as a parameterised identifier with the parameters
// in lexicographic key order (header-structure draft-09 section 4.1.4).
func SignatureHeader(p SigParams) string {
	params := map[string]string{
		"sig":          shBytes(p.Sig),
		"integrity":    shString(p.Integrity),
		"cert-url":     shString(p.CertURL),
		"cert-sha256":  shBytes(p.CertSha256),
		"validity-url": shString(p.ValidityURL),
		"date":         strconv.FormatInt(p.Date, 10),
		"expires":      strconv.FormatInt(p.Expires, 10),
	}
	keys := make([]string, 0, len(params))
	for k := range params {
		keys = append(keys, k)
	}
	sort.Strings(keys)
	out := p.Label
	for _, k := range keys {
		out += ";" + k + "=" + params[k]
	}
	return out
}

// Magic returns the 8-byte file signature.
func Magic(version string) []byte { return []byte("sxg1-" + version[1:] + "\x00") }

func be(n, width int) []byte {
	out := make([]byte, width)
	for i := width - 1; i >= 0; i-- {
		out[i] = byte(n)
		n >>= 8
	}
	return out
}

// File assembles the application/signed-exchange layout.
func File(version, url, signature string, headers, payload []byte) []byte {
	out := append([]byte{}, Magic(version)...)
	if version != "1b1" {
		out = append(out, be(len(url), 2)...)
		out = append(out, url...)
	}
	out = append(out, be(len(signature), 3)...)
	out = append(out, be(len(headers), 3)...)
	out = append(out, signature...)
	out = append(out, headers...)
	out = append(out, payload...)
	return out
}

// Parsed is the result of the independent layout parse.
type Parsed struct {
	Version   string
	URL       string // "" for 1b1 (the URL lives in the header CBOR)
	Signature string
	Headers   []byte
	Payload   []byte
}

// ParseFile splits a file by the layout rules only (no CBOR interpretation).
func ParseFile(b []byte) (*Parsed, error) {
	if len(b) < 8 {
		return nil, errors.New("refsxg: short magic")
	}
	m := string(b[:8])
	var p Parsed
	switch m {
	case "sxg1-b1\x00", "sxg1-b2\x00", "sxg1-b3\x00":
		p.Version = "1" + m[5:7]
	default:
		return nil, fmt.Errorf("refsxg: bad magic %q", m)
	}
	pos := 8
	if p.Version != "1b1" {
		if len(b) < pos+2 {
			return nil, errors.New("refsxg: short url length")
		}
		n := int(b[pos])<<8 | int(b[pos+1])
		pos += 2
		if len(b) < pos+n {
			return nil, errors.New("refsxg: short url")
		}
		p.URL = string(b[pos : pos+n])
		pos += n
	}
	if len(b) < pos+6 {
		return nil, errors.New("refsxg: short length fields")
	}
	sl := int(b[pos])<<16 | int(b[pos+1])<<8 | int(b[pos+2])
	hl := int(b[pos+3])<<16 | int(b[pos+4])<<8 | int(b[pos+5])
	pos += 6
	if len(b) < pos+sl+hl {
		return nil, errors.New("refsxg: short signature/headers")
	}
	p.Signature = string(b[pos : pos+sl])
	pos += sl
	p.Headers = b[pos : pos+hl]
	pos += hl
	p.Payload = b[pos:]
	return &p, nil
}

// HeaderIntegrity is "sha256-" + base64(SHA-256(header CBOR)).
func HeaderIntegrity(headers []byte) string {
	s := sha256.Sum256(headers)
	return "sha256-" + base64.StdEncoding.EncodeToString(s[:])
}

// DecodeHeaders interprets header CBOR generically (any well-formed encoding) and returns
// the pseudo fields and header maps. Used to compare the reader's view with the bytes.
func DecodeHeaders(version string, hdr []byte) (*Exchange, error) {
	it, err := refcbor.Decode(hdr, 0)
	if err != nil {
		return nil, err
	}
	if it.End != len(hdr) {
		return nil, errors.New("refsxg: trailing bytes after header CBOR")
	}
	e := &Exchange{Version: version, ReqHeaders: map[string]string{}, ResHeaders: map[string]string{}}
	readMap := func(m *refcbor.Item, into map[string]string) (map[string]string, error) {
		if m.Major != 5 {
			return nil, errors.New("refsxg: header map expected")
		}
		pseudo := map[string]string{}
		for i := 0; i+1 < len(m.Kids); i += 2 {
			k, v := m.Kids[i], m.Kids[i+1]
			if k.Major != 2 || v.Major != 2 {
				return nil, errors.New("refsxg: header map entries must be byte strings")
			}
			ks := string(k.Content)
			if strings.HasPrefix(ks, ":") {
				pseudo[ks] = string(v.Content)
			} else {
				into[ks] = string(v.Content)
			}
		}
		return pseudo, nil
	}
	res := it
	if version != "1b3" {
		if it.Major != 4 || len(it.Kids) != 2 {
			return nil, errors.New("refsxg: [request, response] array expected")
		}
		ps, err := readMap(it.Kids[0], e.ReqHeaders)
		if err != nil {
			return nil, err
		}
		e.Method = ps[":method"]
		e.URL = ps[":url"]
		res = it.Kids[1]
	}
	ps, err := readMap(res, e.ResHeaders)
	if err != nil {
		return nil, err
	}
	st, err := strconv.Atoi(ps[":status"])
	if err != nil {
		return nil, errors.New("refsxg: bad :status")
	}
	e.Status = st
	return e, nil
}
