// Package refcbor is an independent reference implementation of the parts of RFC 8949
// the harness needs: a generic well-formedness decoder for definite-length items, a
// core-deterministic-encoding judge, a tiny encoder and a layout walker for
// structure-aware mutation. It shares no code with the repository under test.
package refcbor

import (
	"bytes"
	"errors"
	"fmt"
	"sort"
)

// Item is one decoded data item together with its byte span in the input.
type Item struct {
	Major   int     // 0..7
	AI      int     // additional information 0..27
	Arg     uint64  // the argument (value, length or count)
	Content []byte  // payload of byte/text strings (aliases the input)
	Kids    []*Item // array elements; map: k0,v0,k1,v1,...; tag: the tagged item
	Start   int     // offset of the initial byte
	HeadEnd int     // offset just after the head (initial byte + argument bytes)
	End     int     // offset just after the whole item
}

var (
	ErrTruncated  = errors.New("refcbor: truncated")
	ErrReserved   = errors.New("refcbor: reserved additional information 28..30")
	ErrIndefinite = errors.New("refcbor: indefinite length / break")
	ErrDepth      = errors.New("refcbor: nesting too deep")
)

const maxDepth = 100000

// Head parses the head at b[off:].
func Head(b []byte, off int) (major, ai int, arg uint64, headEnd int, err error) {
	if off >= len(b) {
		return 0, 0, 0, off, ErrTruncated
	}
	ib := b[off]
	major = int(ib >> 5)
	ai = int(ib & 0x1f)
	switch {
	case ai < 24:
		return major, ai, uint64(ai), off + 1, nil
	case ai >= 28 && ai <= 30:
		return major, ai, 0, off + 1, ErrReserved
	case ai == 31:
		return major, ai, 0, off + 1, ErrIndefinite
	}
	w := 1 << uint(ai-24) // 1,2,4,8
	if len(b)-(off+1) < w {
		return major, ai, 0, off + 1, ErrTruncated
	}
	for i := 0; i < w; i++ {
		arg = arg<<8 | uint64(b[off+1+i])
	}
	return major, ai, arg, off + 1 + w, nil
}

// Decode decodes exactly one well-formed definite-length item starting at off.
func Decode(b []byte, off int) (*Item, error) { return decode(b, off, 0) }

func decode(b []byte, off, depth int) (*Item, error) {
	if depth > maxDepth {
		return nil, ErrDepth
	}
	major, ai, arg, he, err := Head(b, off)
	if err != nil {
		return nil, err
	}
	it := &Item{Major: major, AI: ai, Arg: arg, Start: off, HeadEnd: he, End: he}
	rem := uint64(len(b) - he)
	switch major {
	case 0, 1:
	case 2, 3:
		if arg > rem {
			return nil, ErrTruncated
		}
		it.Content = b[he : he+int(arg)]
		it.End = he + int(arg)
	case 4, 5:
		n := arg
		if major == 5 {
			if arg > rem { // each pair needs at least two bytes; cheap early exit, avoids overflow of 2*arg
				return nil, ErrTruncated
			}
			n = 2 * arg
		}
		if n > rem {
			return nil, ErrTruncated
		}
		pos := he
		for i := uint64(0); i < n; i++ {
			k, err := decode(b, pos, depth+1)
			if err != nil {
				return nil, err
			}
			it.Kids = append(it.Kids, k)
			pos = k.End
		}
		it.End = pos
	case 6:
		k, err := decode(b, he, depth+1)
		if err != nil {
			return nil, err
		}
		it.Kids = []*Item{k}
		it.End = k.End
	case 7:
		if ai == 24 && arg < 32 {
			return nil, fmt.Errorf("refcbor: two-byte simple value < 32")
		}
	}
	return it, nil
}

// DecodeAll decodes a sequence of items that must tile b exactly.
func DecodeAll(b []byte) ([]*Item, error) {
	var out []*Item
	pos := 0
	for pos < len(b) {
		it, err := Decode(b, pos)
		if err != nil {
			return out, err
		}
		out = append(out, it)
		pos = it.End
	}
	return out, nil
}

// ShortestAI returns the additional-information value of the shortest head for arg.
func ShortestAI(arg uint64) int {
	switch {
	case arg < 24:
		return int(arg)
	case arg <= 0xff:
		return 24
	case arg <= 0xffff:
		return 25
	case arg <= 0xffffffff:
		return 26
	}
	return 27
}

// Judge options.
type Profile struct {
	AllowNegInt bool // major 1
	AllowSimple bool // major 7 simple values (bools)
}

// CheckDeterministic reports why the sequence b is not in RFC 8949 section 4.2.1 core
// deterministic form restricted to unsigned ints, byte/text strings, arrays and maps
// (plus what the profile allows). nil means deterministic.
func CheckDeterministic(b []byte, p Profile) error {
	items, err := DecodeAll(b)
	if err != nil {
		return err
	}
	for _, it := range items {
		if err := judge(b, it, p); err != nil {
			return err
		}
	}
	return nil
}

// IsCoreDeterministic is CheckDeterministic with the strict profile of property C13.
func IsCoreDeterministic(b []byte) bool { return CheckDeterministic(b, Profile{}) == nil }

func judge(b []byte, it *Item, p Profile) error {
	switch it.Major {
	case 0, 2, 3, 4, 5:
	case 1:
		if !p.AllowNegInt {
			return fmt.Errorf("refcbor: negative integer at %d not in subset", it.Start)
		}
	case 7:
		if !p.AllowSimple || it.AI >= 24 {
			return fmt.Errorf("refcbor: major type 7 at %d not in subset", it.Start)
		}
		return nil
	default:
		return fmt.Errorf("refcbor: major type %d at %d not in subset", it.Major, it.Start)
	}
	if it.AI != ShortestAI(it.Arg) {
		return fmt.Errorf("refcbor: non-shortest head at %d (ai %d for %d)", it.Start, it.AI, it.Arg)
	}
	for _, k := range it.Kids {
		if err := judge(b, k, p); err != nil {
			return err
		}
	}
	if it.Major == 5 {
		for i := 2; i < len(it.Kids); i += 2 {
			prev, cur := it.Kids[i-2], it.Kids[i]
			if bytes.Compare(b[prev.Start:prev.End], b[cur.Start:cur.End]) >= 0 {
				return fmt.Errorf("refcbor: map keys at %d and %d not strictly ascending", prev.Start, cur.Start)
			}
		}
	}
	return nil
}

// ---------------------------------------------------------------------------------------
// Encoder (values are built as byte slices)

// HeadW encodes a head with an explicit argument width w in {0,1,2,4,8}; w=0 requires arg<24.
func HeadW(major int, arg uint64, w int) []byte {
	ib := byte(major << 5)
	switch w {
	case 0:
		return []byte{ib | byte(arg)}
	case 1:
		return []byte{ib | 24, byte(arg)}
	case 2:
		return []byte{ib | 25, byte(arg >> 8), byte(arg)}
	case 4:
		return []byte{ib | 26, byte(arg >> 24), byte(arg >> 16), byte(arg >> 8), byte(arg)}
	case 8:
		return []byte{ib | 27, byte(arg >> 56), byte(arg >> 48), byte(arg >> 40), byte(arg >> 32), byte(arg >> 24), byte(arg >> 16), byte(arg >> 8), byte(arg)}
	}
	panic("refcbor: bad width")
}

// MinWidth is the width of the shortest head for arg.
func MinWidth(arg uint64) int {
	switch ShortestAI(arg) {
	case 24:
		return 1
	case 25:
		return 2
	case 26:
		return 4
	case 27:
		return 8
	}
	return 0
}

// HeadS encodes the shortest head.
func HeadS(major int, arg uint64) []byte { return HeadW(major, arg, MinWidth(arg)) }

func Uint(n uint64) []byte { return HeadS(0, n) }
func NegInt(n uint64) []byte { // encodes -1-n
	return HeadS(1, n)
}
func Bstr(p []byte) []byte { return append(HeadS(2, uint64(len(p))), p...) }
func Tstr(s string) []byte { return append(HeadS(3, uint64(len(s))), s...) }
func Bool(v bool) []byte {
	if v {
		return []byte{0xf5}
	}
	return []byte{0xf4}
}
func Arr(items ...[]byte) []byte {
	out := HeadS(4, uint64(len(items)))
	for _, it := range items {
		out = append(out, it...)
	}
	return out
}

// KV is one encoded map entry.
type KV struct{ K, V []byte }

// MapBytewise emits a map with entries sorted by the bytewise order of the encoded keys
// (RFC 8949 section 4.2.1).
func MapBytewise(kvs []KV) []byte {
	s := append([]KV(nil), kvs...)
	sort.SliceStable(s, func(i, j int) bool { return bytes.Compare(s[i].K, s[j].K) < 0 })
	return mapRaw(s)
}

// MapLengthFirst emits a map sorted by RFC 7049 section 3.9 (shorter keys first, then
// bytewise). For keys of one major type this coincides with MapBytewise.
func MapLengthFirst(kvs []KV) []byte {
	s := append([]KV(nil), kvs...)
	sort.SliceStable(s, func(i, j int) bool {
		if len(s[i].K) != len(s[j].K) {
			return len(s[i].K) < len(s[j].K)
		}
		return bytes.Compare(s[i].K, s[j].K) < 0
	})
	return mapRaw(s)
}

// MapRaw emits entries in the given order.
func MapRaw(kvs []KV) []byte { return mapRaw(kvs) }

func mapRaw(s []KV) []byte {
	out := HeadS(5, uint64(len(s)))
	for _, e := range s {
		out = append(out, e.K...)
		out = append(out, e.V...)
	}
	return out
}

// ---------------------------------------------------------------------------------------
// Layout walking / structure-aware rewriting

// Walk lists every item of the tree in pre-order.
func Walk(it *Item) []*Item {
	out := []*Item{it}
	for _, k := range it.Kids {
		out = append(out, Walk(k)...)
	}
	return out
}

// RewriteHead returns a copy of b in which the head of it is replaced by a head with the
// same major type, argument newArg and width w (w<0: shortest). Nothing else is adjusted.
func RewriteHead(b []byte, it *Item, newArg uint64, w int) []byte {
	if w < 0 {
		w = MinWidth(newArg)
	}
	if w == 0 && newArg >= 24 {
		w = MinWidth(newArg)
	}
	h := HeadW(it.Major, newArg, w)
	out := make([]byte, 0, len(b)+9)
	out = append(out, b[:it.Start]...)
	out = append(out, h...)
	out = append(out, b[it.HeadEnd:]...)
	return out
}

// Describe renders an item tree compactly (for diagnostics).
func Describe(it *Item) string {
	switch it.Major {
	case 0:
		return fmt.Sprintf("%d", it.Arg)
	case 1:
		return fmt.Sprintf("-1-%d", it.Arg)
	case 2:
		return fmt.Sprintf("h'%x'", it.Content)
	case 3:
		return fmt.Sprintf("%q", it.Content)
	case 4:
		s := "["
		for i, k := range it.Kids {
			if i > 0 {
				s += ", "
			}
			s += Describe(k)
		}
		return s + "]"
	case 5:
		s := "{"
		for i := 0; i+1 < len(it.Kids); i += 2 {
			if i > 0 {
				s += ", "
			}
			s += Describe(it.Kids[i]) + ": " + Describe(it.Kids[i+1])
		}
		return s + "}"
	case 6:
		return fmt.Sprintf("%d(%s)", it.Arg, Describe(it.Kids[0]))
	}
	return fmt.Sprintf("simple(%d)", it.Arg)
}
