package refbundle

import (
	"encoding/binary"
	"fmt"

	"github.com/WICG/webpackage/go/verifh/ref/refcbor"
)

// The assembler builds bundle files byte by byte from a description, optionally with every
// length / count / offset field written as an 8-byte argument ("wide": still well-formed, and
// the repository's reader accepts non-shortest heads). Every such field is recorded as a Slot,
// so a structure-aware mutator can overwrite exactly one field with any 64-bit value without
// moving any other byte.

type AsmResp struct {
	Fields  []HeaderField `json:"fields"` // header map entries in file order, incl. :status
	BodyLen int           `json:"body_len"`
	BodyTag uint64        `json:"body_tag"`
	// RawHeaders, when non-empty, replaces the encoded header map bytes (hex in JSON via []byte base64 is avoided: keep small)
}

type AsmIndex struct {
	URL      string `json:"url"`
	Variants string `json:"variants,omitempty"` // b1 variants-value
	Resps    []int  `json:"resps"`              // indices into Asm.Resps (one location each)
}

type AsmSection struct {
	Name string `json:"name"`
	Kind string `json:"kind"` // index responses primary manifest signatures raw
	Text string `json:"text,omitempty"`
	// raw: a byte string item of RawLen bytes; when Decoy >= 0 the content starts with a copy of response Decoy
	RawLen int `json:"raw_len,omitempty"`
	Decoy  int `json:"decoy"` // -1 none
}

type Asm struct {
	Version   string       `json:"version"` // b1 b2
	HeaderURL string       `json:"header_url,omitempty"`
	Sections  []AsmSection `json:"sections"`
	Index     []AsmIndex   `json:"index"`
	Resps     []AsmResp    `json:"resps"`
	Wide      bool         `json:"wide"`
}

type Slot struct {
	Name  string
	Off   int // offset of the head's initial byte
	Width int // argument bytes (0 = direct value in the initial byte)
	Major int
	Value uint64
}

type builder struct {
	b     []byte
	slots []Slot
	wide  bool
}

func (w *builder) head(name string, major int, v uint64) {
	width := refcbor.MinWidth(v)
	if w.wide {
		width = 8
	}
	w.slots = append(w.slots, Slot{Name: name, Off: len(w.b), Width: width, Major: major, Value: v})
	w.b = append(w.b, refcbor.HeadW(major, v, width)...)
}

func (w *builder) narrow(name string, major int, v uint64) {
	w.slots = append(w.slots, Slot{Name: name, Off: len(w.b), Width: 0, Major: major, Value: v})
	w.b = append(w.b, refcbor.HeadW(major, v, 0)...)
}

func (w *builder) raw(p []byte) { w.b = append(w.b, p...) }

func (w *builder) sub(name string, s *builder) {
	base := len(w.b)
	for _, sl := range s.slots {
		sl.Off += base
		if name != "" {
			sl.Name = name + sl.Name
		}
		w.slots = append(w.slots, sl)
	}
	w.b = append(w.b, s.b...)
}

func filler(n int, tag uint64) []byte {
	out := make([]byte, n)
	x := tag*0x9E3779B97F4A7C15 + 0x1234567
	if x == 0 {
		x = 1
	}
	for i := range out {
		x ^= x << 13
		x ^= x >> 7
		x ^= x << 17
		out[i] = byte(x >> 24)
	}
	return out
}

// respBytes encodes one response item; the array head stays the single byte 0x82.
func respBytes(r *AsmResp, wide bool, name string) *builder {
	hm := &builder{wide: wide}
	hm.head(".hdrmap.count", 5, uint64(len(r.Fields)))
	for j, f := range r.Fields {
		hm.head(fmt.Sprintf(".h[%d].klen", j), 2, uint64(len(f.Name)))
		hm.raw([]byte(f.Name))
		hm.head(fmt.Sprintf(".h[%d].vlen", j), 2, uint64(len(f.Value)))
		hm.raw([]byte(f.Value))
	}
	out := &builder{wide: wide}
	out.narrow(".arr", 4, 2)
	out.head(".hdrlen", 2, uint64(len(hm.b)))
	out.sub("", hm)
	out.head(".bodylen", 2, uint64(r.BodyLen))
	out.raw(filler(r.BodyLen, r.BodyTag))
	for i := range out.slots {
		out.slots[i].Name = name + out.slots[i].Name
	}
	return out
}

// Assemble returns the file and its slots. The honest values make a valid bundle whenever the
// description is sensible (index, responses last, ...).
func Assemble(a *Asm) ([]byte, []Slot) {
	wide := a.Wide
	// responses section
	resp := &builder{wide: wide}
	resp.head("responses.count", 4, uint64(len(a.Resps)))
	type span struct{ off, length int }
	spans := make([]span, len(a.Resps))
	respItems := make([][]byte, len(a.Resps))
	for i := range a.Resps {
		rb := respBytes(&a.Resps[i], wide, fmt.Sprintf("resp[%d]", i))
		spans[i] = span{len(resp.b), len(rb.b)}
		respItems[i] = rb.b
		resp.sub("", rb)
	}
	// index section
	idx := &builder{wide: wide}
	idx.head("index.count", 5, uint64(len(a.Index)))
	for i, e := range a.Index {
		idx.head(fmt.Sprintf("index[%d].urllen", i), 3, uint64(len(e.URL)))
		idx.raw([]byte(e.URL))
		n := 2 * len(e.Resps)
		if a.Version == "b1" {
			n++
		}
		idx.head(fmt.Sprintf("index[%d].arr", i), 4, uint64(n))
		if a.Version == "b1" {
			idx.head(fmt.Sprintf("index[%d].varlen", i), 2, uint64(len(e.Variants)))
			idx.raw([]byte(e.Variants))
		}
		for j, ri := range e.Resps {
			sp := span{}
			if ri >= 0 && ri < len(spans) {
				sp = spans[ri]
			}
			idx.head(fmt.Sprintf("index[%d].off[%d]", i, j), 0, uint64(sp.off))
			idx.head(fmt.Sprintf("index[%d].len[%d]", i, j), 0, uint64(sp.length))
		}
	}
	// other sections
	secs := make([]*builder, len(a.Sections))
	for i, s := range a.Sections {
		switch s.Kind {
		case "index":
			secs[i] = idx
		case "responses":
			secs[i] = resp
		case "primary", "manifest":
			sb := &builder{wide: wide}
			sb.head(s.Kind+".len", 3, uint64(len(s.Text)))
			sb.raw([]byte(s.Text))
			secs[i] = sb
		case "signatures":
			sb := &builder{wide: wide}
			sb.narrow("signatures.arr", 4, 2)
			sb.narrow("signatures.auth.count", 4, 0)
			sb.narrow("signatures.vs.count", 4, 0)
			secs[i] = sb
		default: // raw
			content := filler(s.RawLen, uint64(i+77))
			if s.Decoy >= 0 && s.Decoy < len(respItems) {
				d := respItems[s.Decoy]
				if len(content) < len(d) {
					content = make([]byte, len(d))
				}
				copy(content, d)
			}
			sb := &builder{wide: wide}
			sb.head(fmt.Sprintf("raw[%d].len", i), 2, uint64(len(content)))
			sb.raw(content)
			secs[i] = sb
		}
	}
	// section table
	tbl := &builder{wide: wide}
	tbl.head("sl.count", 4, uint64(2*len(a.Sections)))
	for i, s := range a.Sections {
		tbl.head(fmt.Sprintf("sl[%d].namelen", i), 3, uint64(len(s.Name)))
		tbl.raw([]byte(s.Name))
		tbl.head(fmt.Sprintf("sl[%d].len", i), 0, uint64(len(secs[i].b)))
	}
	file := &builder{wide: wide}
	if a.Version == "b1" {
		file.narrow("toplevel.count", 4, 6)
	} else {
		file.narrow("toplevel.count", 4, 5)
	}
	file.raw([]byte{0x48})
	file.raw(magic)
	file.raw([]byte{0x44, 'b', a.Version[1], 0, 0})
	if a.Version == "b1" {
		file.head("hdrurl.len", 3, uint64(len(a.HeaderURL)))
		file.raw([]byte(a.HeaderURL))
	}
	file.head("sl.len", 2, uint64(len(tbl.b)))
	file.sub("", tbl)
	file.head("sections.count", 4, uint64(len(a.Sections)))
	for i := range secs {
		// a section used twice (e.g. duplicated index) must not alias slots
		cp := &builder{b: secs[i].b, slots: append([]Slot{}, secs[i].slots...)}
		if i > 0 {
			for j := 0; j < i; j++ {
				if secs[j] == secs[i] {
					for k := range cp.slots {
						cp.slots[k].Name = fmt.Sprintf("dup%d.", i) + cp.slots[k].Name
					}
					break
				}
			}
		}
		file.sub("", cp)
	}
	total := len(file.b) + 9
	file.raw([]byte{0x48})
	var l [8]byte
	binary.BigEndian.PutUint64(l[:], uint64(total))
	file.raw(l[:])
	return file.b, file.slots
}

// Patch overwrites the value of one slot in place (the width never changes; values that do
// not fit the width are reduced modulo 2^(8*width), direct slots modulo 24).
func Patch(file []byte, s Slot, v uint64) []byte {
	out := append([]byte{}, file...)
	switch s.Width {
	case 0:
		out[s.Off] = byte(s.Major<<5) | byte(v%24)
	default:
		for i := s.Width - 1; i >= 0; i-- {
			out[s.Off+1+i] = byte(v)
			v >>= 8
		}
	}
	return out
}

// SectionAbs returns the absolute offset of section i's first byte and of the responses section.
func SectionAbs(file []byte, a *Asm, slots []Slot) (starts []int, sectionsStart int) {
	for _, s := range slots {
		if s.Name == "sections.count" {
			sectionsStart = s.Off + 1 + s.Width
		}
	}
	pos := sectionsStart
	for _, s := range slots {
		if len(s.Name) > 3 && s.Name[:3] == "sl[" && s.Name[len(s.Name)-4:] == ".len" {
			starts = append(starts, pos)
			pos += int(s.Value)
		}
	}
	return starts, sectionsStart
}
