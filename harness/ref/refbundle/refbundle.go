// Package refbundle is an independent parser of the Web Bundle formats b1 / b2
// (draft-yasskin-wpack-bundled-exchanges / draft-ietf-wpack-bundled-responses), written
// from the format description and sharing no code with the repository under test.
//
//	Lenient(b): what a reader may promise for arbitrary bytes: MustReject / Extract / Unspecified.
//	Strict(b):  the judge for writer output: canonical form, exact tiling, trailing length.
package refbundle

import (
	"strings"
	"bytes"
	"encoding/binary"
	"fmt"
	"math/bits"

	"github.com/WICG/webpackage/go/verifh/ref/refcbor"
)

var magic = []byte{0xf0, 0x9f, 0x8c, 0x90, 0xf0, 0x9f, 0x93, 0xa6}

type Section struct {
	Name   string
	Length uint64
	Start  uint64 // absolute offset (valid only if !Overflow)
	InFile bool   // start+length <= file size, no overflow
}

type Loc struct{ Offset, Length uint64 }

type IndexEntry struct {
	RawURL   string
	Variants []byte
	Locs     []Loc
}

// HeaderField is one entry of a response's header map in file order.
type HeaderField struct{ Name, Value string }

type Response struct {
	Fields []HeaderField // all map entries incl. pseudo fields, in file order
	Body   []byte
	Start  int
	End    int
}

// StatusValue is the format's reading of a :status value: exactly three ASCII digits (no sign,
// no blanks, no other digits), as a number.
func StatusValue(st string) (int, bool) {
	if len(st) != 3 {
		return 0, false
	}
	n := 0
	for i := 0; i < 3; i++ {
		if st[i] < '0' || st[i] > '9' {
			return 0, false
		}
		n = n*10 + int(st[i]-'0')
	}
	return n, true
}

// Status returns the :status pseudo field ("" if missing, "dup" marker if repeated).
func (r *Response) Status() (string, int) {
	n := 0
	v := ""
	for _, f := range r.Fields {
		if f.Name == ":status" {
			n++
			v = f.Value
		}
	}
	return v, n
}

// Exchange is one (index entry location, response) pair in index order.
type Exchange struct {
	RawURL string
	Resp   *Response
}

type Parsed struct {
	Version       string
	HeaderURL     string // b1 primary/fallback URL field
	Sections      []Section
	SectionsStart int
	Index         []IndexEntry
	Exchanges     []Exchange
	PrimaryURL    string // "primary" section (b2)
	ManifestURL   string
	HasPrimary    bool
	HasManifest   bool
	SigSection    *refcbor.Item
	TopCount      uint64
}

type Verdict int

const (
	Extract Verdict = iota
	MustReject
	Unspecified
)

type Result struct {
	Verdict Verdict
	Reason  string
	P       *Parsed
}

func reject(f string, a ...any) Result {
	return Result{Verdict: MustReject, Reason: fmt.Sprintf(f, a...)}
}
func unspec(f string, a ...any) Result {
	return Result{Verdict: Unspecified, Reason: fmt.Sprintf(f, a...)}
}

// item decodes one generic item that must lie completely inside b[:limit].
func item(b []byte, off, limit int) (*refcbor.Item, error) {
	if off > limit || limit > len(b) {
		return nil, refcbor.ErrTruncated
	}
	it, err := refcbor.Decode(b[:limit], off)
	if err != nil {
		return nil, err
	}
	return it, nil
}

// Lenient interprets arbitrary bytes the way the property C05 allows a reader to.
func Lenient(b []byte) Result {
	p := &Parsed{}
	if len(b) < 15 {
		return reject("shorter than magic+version")
	}
	if b[1] != 0x48 || !bytes.Equal(b[2:10], magic) {
		return reject("bad magic")
	}
	ver := b[10:15]
	switch {
	case b[0] == 0x86 && bytes.Equal(ver, []byte{0x44, 'b', '1', 0, 0}):
		p.Version = "b1"
		p.TopCount = 6
	case b[0] == 0x85 && bytes.Equal(ver, []byte{0x44, 'b', '2', 0, 0}):
		p.Version = "b2"
		p.TopCount = 5
	default:
		return reject("unsupported version / array arity")
	}
	pos := 15
	if p.Version == "b1" {
		it, err := item(b, pos, len(b))
		if err != nil || it.Major != 3 {
			return reject("primary URL field is not a complete text string")
		}
		p.HeaderURL = string(it.Content)
		pos = it.End
	}
	sl, err := item(b, pos, len(b))
	if err != nil || sl.Major != 2 {
		return reject("section-lengths is not a complete byte string")
	}
	pos = sl.End
	tbl, err := refcbor.Decode(sl.Content, 0)
	if err != nil || tbl.Major != 4 {
		return reject("section-lengths does not hold a complete array")
	}
	if tbl.End != len(sl.Content) || len(tbl.Kids)%2 != 0 {
		return unspec("section-lengths has trailing bytes or an odd element count")
	}
	if len(sl.Content) >= 8192 {
		return unspec("section-lengths above the reader's size cap")
	}
	seen := map[string]bool{}
	for i := 0; i < len(tbl.Kids); i += 2 {
		n, l := tbl.Kids[i], tbl.Kids[i+1]
		if n.Major != 3 || l.Major != 0 {
			return reject("section table entry %d is not (tstr, uint)", i/2)
		}
		name := string(n.Content)
		if seen[name] {
			return reject("duplicate section name %q", name)
		}
		seen[name] = true
		p.Sections = append(p.Sections, Section{Name: name, Length: l.Arg})
	}
	major, _, cnt, he, herr := refcbor.Head(b, pos)
	if herr != nil || major != 4 {
		return reject("sections array head missing")
	}
	if cnt != uint64(len(p.Sections)) {
		return reject("sections array has %d elements, table lists %d", cnt, len(p.Sections))
	}
	p.SectionsStart = he
	// absolute placement with explicit overflow tracking
	cur := uint64(he)
	over := false
	for i := range p.Sections {
		s := &p.Sections[i]
		s.Start = cur
		end, c := bits.Add64(cur, s.Length, 0)
		if c != 0 {
			over = true
		}
		s.InFile = !over && end <= uint64(len(b))
		cur = end
	}
	find := func(name string) *Section {
		for i := range p.Sections {
			if p.Sections[i].Name == name {
				return &p.Sections[i]
			}
		}
		return nil
	}
	for i := range p.Sections {
		if !p.Sections[i].InFile {
			return reject("section %q (length %d) does not fit in the file / overflows", p.Sections[i].Name, p.Sections[i].Length)
		}
	}
	resp := find("responses")
	if resp == nil {
		return reject("no responses section")
	}
	if p.Sections[len(p.Sections)-1].Name != "responses" {
		return unspec("responses section is not last")
	}
	if s := find("primary"); s != nil {
		it, err := item(b, int(s.Start), int(s.Start+s.Length))
		if err != nil || it.Major != 3 {
			return reject("primary section is not a complete text string")
		}
		p.PrimaryURL, p.HasPrimary = string(it.Content), true
	}
	if s := find("manifest"); s != nil {
		it, err := item(b, int(s.Start), int(s.Start+s.Length))
		if err != nil || it.Major != 3 {
			return reject("manifest section is not a complete text string")
		}
		p.ManifestURL, p.HasManifest = string(it.Content), true
	}
	if s := find("signatures"); s != nil {
		it, err := item(b, int(s.Start), int(s.Start+s.Length))
		if err != nil {
			return reject("signatures section is not a complete item")
		}
		p.SigSection = it
	}
	idx := find("index")
	if idx != nil {
		it, err := item(b, int(idx.Start), int(idx.Start+idx.Length))
		if err != nil || it.Major != 5 {
			return reject("index section is not a complete map")
		}
		for i := 0; i+1 < len(it.Kids); i += 2 {
			k, v := it.Kids[i], it.Kids[i+1]
			if k.Major != 3 || v.Major != 4 {
				return reject("index entry %d is not tstr => array", i/2)
			}
			e := IndexEntry{RawURL: string(k.Content)}
			vals := v.Kids
			if p.Version == "b1" {
				if len(vals) < 3 || len(vals)%2 != 1 || vals[0].Major != 2 {
					return reject("b1 index value must be [bstr, (uint,uint)+]")
				}
				e.Variants = vals[0].Content
				vals = vals[1:]
				if len(e.Variants) == 0 && len(vals) != 2 {
					return reject("b1 index value without variants must hold one location")
				}
			} else if len(vals) != 2 {
				return reject("b2 index value must be [offset, length]")
			}
			for j := 0; j+1 < len(vals); j += 2 {
				if vals[j].Major != 0 || vals[j+1].Major != 0 {
					return reject("index location is not (uint, uint)")
				}
				l := Loc{vals[j].Arg, vals[j+1].Arg}
				end, c := bits.Add64(l.Offset, l.Length, 0)
				if c != 0 || end > resp.Length {
					return reject("index entry %q location (%d,%d) outside the responses section (%d bytes)", e.RawURL, l.Offset, l.Length, resp.Length)
				}
				e.Locs = append(e.Locs, l)
			}
			p.Index = append(p.Index, e)
		}
	}
	for _, e := range p.Index {
		for _, l := range e.Locs {
			start := int(resp.Start + l.Offset)
			end := start + int(l.Length)
			r, why := parseResponse(b, start, end)
			if r == nil {
				return reject("response for %q at [%d,%d): %s", e.RawURL, start, end, why)
			}
			p.Exchanges = append(p.Exchanges, Exchange{RawURL: e.RawURL, Resp: r})
		}
	}
	return Result{Verdict: Extract, P: p}
}

func parseResponse(b []byte, start, end int) (*Response, string) {
	if start >= end {
		return nil, "empty span"
	}
	it, err := item(b, start, end)
	if err != nil {
		return nil, "not a complete item inside its span: " + err.Error()
	}
	if it.End != end {
		return nil, "item does not fill its span"
	}
	if it.Major != 4 || len(it.Kids) != 2 || it.Kids[0].Major != 2 || it.Kids[1].Major != 2 {
		return nil, "not [bstr, bstr]"
	}
	hm, err := refcbor.Decode(it.Kids[0].Content, 0)
	if err != nil || hm.Major != 5 {
		return nil, "headers are not a complete map"
	}
	r := &Response{Body: it.Kids[1].Content, Start: start, End: end}
	for i := 0; i+1 < len(hm.Kids); i += 2 {
		k, v := hm.Kids[i], hm.Kids[i+1]
		if k.Major != 2 || v.Major != 2 {
			return nil, "header map entries are not byte strings"
		}
		r.Fields = append(r.Fields, HeaderField{string(k.Content), string(v.Content)})
	}
	return r, ""
}

// ---------------------------------------------------------------------------------------

// Strict judges writer output: nil means a well-formed canonical self-consistent bundle.
// It returns the lenient parse for content comparison.
func Strict(b []byte) (*Parsed, error) {
	res := Lenient(b)
	if res.Verdict != Extract {
		return nil, fmt.Errorf("not extractable: %s", res.Reason)
	}
	p := res.P
	// whole file = exactly one canonical CBOR item
	top, err := refcbor.Decode(b, 0)
	if err != nil {
		return p, fmt.Errorf("file is not one well-formed CBOR item: %v", err)
	}
	if top.End != len(b) {
		return p, fmt.Errorf("trailing bytes after the top-level array (%d of %d)", top.End, len(b))
	}
	if top.Major != 4 || top.Arg != p.TopCount {
		return p, fmt.Errorf("top-level array arity %d", top.Arg)
	}
	if err := refcbor.CheckDeterministic(b, refcbor.Profile{}); err != nil {
		return p, fmt.Errorf("file is not canonical CBOR: %v", err)
	}
	kids := top.Kids
	n := len(kids)
	// trailing length
	last := kids[n-1]
	if last.Major != 2 || len(last.Content) != 8 {
		return p, fmt.Errorf("trailing length is not an 8-byte byte string")
	}
	if binary.BigEndian.Uint64(last.Content) != uint64(len(b)) {
		return p, fmt.Errorf("trailing length %d != file size %d", binary.BigEndian.Uint64(last.Content), len(b))
	}
	// section table canonical, sections tile
	slItem := kids[n-3]
	if slItem.Major != 2 {
		return p, fmt.Errorf("section-lengths missing")
	}
	if err := refcbor.CheckDeterministic(slItem.Content, refcbor.Profile{}); err != nil {
		return p, fmt.Errorf("section-lengths not canonical: %v", err)
	}
	secs := kids[n-2]
	if secs.Major != 4 || len(secs.Kids) != len(p.Sections) {
		return p, fmt.Errorf("sections array arity")
	}
	for i, s := range p.Sections {
		k := secs.Kids[i]
		if uint64(k.Start) != s.Start || uint64(k.End-k.Start) != s.Length {
			return p, fmt.Errorf("section %q: table says [%d,+%d) but item %d spans [%d,%d)", s.Name, s.Start, s.Length, i, k.Start, k.End)
		}
	}
	if p.Sections[len(p.Sections)-1].Name != "responses" {
		return p, fmt.Errorf("responses is not the last section")
	}
	if p.Sections[0].Name != "index" {
		// not required by the format, but every known section must be known
	}
	for _, s := range p.Sections {
		switch s.Name {
		case "index", "responses", "primary", "manifest", "signatures", "critical":
		default:
			return p, fmt.Errorf("writer emitted unknown section %q", s.Name)
		}
	}
	// responses array tiles; index entries each delimit exactly one element
	var respItem *refcbor.Item
	for i, s := range p.Sections {
		if s.Name == "responses" {
			respItem = secs.Kids[i]
		}
	}
	if respItem.Major != 4 {
		return p, fmt.Errorf("responses section is not an array")
	}
	spans := map[[2]int]bool{}
	for _, k := range respItem.Kids {
		if k.Major != 4 || len(k.Kids) != 2 || k.Kids[0].Major != 2 || k.Kids[1].Major != 2 {
			return p, fmt.Errorf("response at %d is not [bstr, bstr]", k.Start)
		}
		spans[[2]int{k.Start, k.End}] = true
		if err := refcbor.CheckDeterministic(k.Kids[0].Content, refcbor.Profile{}); err != nil {
			return p, fmt.Errorf("response header map at %d not canonical: %v", k.Start, err)
		}
	}
	used := map[[2]int]bool{}
	for _, ex := range p.Exchanges {
		sp := [2]int{ex.Resp.Start, ex.Resp.End}
		if !spans[sp] {
			return p, fmt.Errorf("index entry %q [%d,%d) does not delimit exactly one element of the responses array", ex.RawURL, sp[0], sp[1])
		}
		used[sp] = true
		st, cnt := ex.Resp.Status()
		if cnt != 1 || len(st) != 3 {
			return p, fmt.Errorf("response for %q: :status %q (count %d)", ex.RawURL, st, cnt)
		}
		if _, ok := StatusValue(st); !ok {
			return p, fmt.Errorf("response for %q: :status %q is not three ASCII digits", ex.RawURL, st)
		}
	}
	if len(used) != len(spans) {
		return p, fmt.Errorf("%d responses in the responses array, %d referenced by the index", len(spans), len(used))
	}
	// b1: an index value with a variants-value lists one location per possible Variant-Key, i.e.
	// the product of the numbers of available values of its axes (draft: "the number of
	// location pairs must equal the number of possible keys")
	for _, e := range p.Index {
		if p.Version != "b1" || len(e.Variants) == 0 {
			continue
		}
		keys, ok := PossibleKeys(string(e.Variants))
		if !ok {
			return p, fmt.Errorf("index entry %q: variants-value %q is not a list of axes with available values", e.RawURL, e.Variants)
		}
		if keys != len(e.Locs) {
			return p, fmt.Errorf("index entry %q: variants-value %q has %d possible key(s) but the entry lists %d location(s)", e.RawURL, e.Variants, keys, len(e.Locs))
		}
	}
	return p, nil
}

// PossibleKeys counts the possible Variant-Keys of a Variants value "axis;v1;v2, axis2;w1": the
// product of the numbers of available values (an axis without values makes it 0).
func PossibleKeys(variants string) (int, bool) {
	n := 1
	for _, member := range strings.Split(variants, ",") {
		parts := strings.Split(strings.TrimSpace(member), ";")
		if len(parts) == 0 || strings.TrimSpace(parts[0]) == "" {
			return 0, false
		}
		n *= len(parts) - 1
	}
	return n, true
}
