// Package refsh is an independent reference recogniser/parser for the subset of
// draft-ietf-httpbis-header-structure-09 ("Structured Headers for HTTP") that the
// repository's structuredheader package documents: Parameterised Lists and Lists of Lists
// whose items are Integers, Strings, Tokens and Byte Sequences (no Floats, no Booleans).
//
// It shares no code with the repository under test and is written in a different style:
// an index-based scanner over an immutable input, one function per grammar production,
// each returning (value, next index, verdict).
//
// The answer is THREE-valued:
//
//	Accept       the input is in the grammar subset; Value holds the parsed value
//	Reject       every reading of the draft (ABNF and parsing algorithm) refuses the input
//	Unspecified  the draft's algorithm and "the subset the package implements" can
//	             legitimately differ; callers must not compare verdicts
//
// Unspecified is returned for
//   - integers written with more than 19 digits (the draft fails them, a subset parser
//     built on a 64-bit conversion may not), with a redundant leading zero ("007"), or
//     whose magnitude does not fit int64;
//   - a number followed by "." (a Float in the draft, unsupported by the subset);
//   - an item starting with "?" (a Boolean in the draft, unsupported by the subset);
//   - byte sequences whose base64 text consists of alphabet characters and "=" only but is
//     not the canonical padded or unpadded encoding of some byte string: partial or
//     misplaced padding ("*YQ=*"), a dangling single character ("*Y*"), non-zero trailing
//     bits ("*YR==*"). The draft leaves strictness about these to the base64 library.
//
// Grammar summary (draft-09 sections 3 and 4.2; OWS = *( SP / HTAB )):
//
//	header      = OWS ( param-list / list-list ) OWS
//	param-list  = param-id *( OWS "," OWS param-id )
//	param-id    = token *( OWS ";" OWS key [ "=" item ] )        ; duplicate keys fail
//	list-list   = inner *( OWS "," OWS inner )
//	inner       = item *( OWS ";" OWS item )
//	item        = integer / string / token / byte-seq
//	integer     = ["-"] 1*19DIGIT
//	string      = DQUOTE *( %x20-21 / %x23-5B / %x5D-7E / "\" ( DQUOTE / "\" ) ) DQUOTE
//	token       = ALPHA *( ALPHA / DIGIT / "_" / "-" / "." / ":" / "%" / "*" / "/" )
//	key         = lcalpha *( lcalpha / DIGIT / "_" / "-" )
//	byte-seq    = "*" *( ALPHA / DIGIT / "+" / "/" / "=" ) "*"
//
// Section 4.2.11 step 6: "If b64_content contains a character not included in ALPHA, DIGIT,
// "+", "/" and "=", fail parsing" - this is a definite Reject, also for CR and LF (the result
// then carries CRLFInBytes so that callers can classify it).
package refsh

// Verdict is the three-valued answer.
type Verdict uint8

const (
	Accept Verdict = iota
	Reject
	Unspecified
)

func (v Verdict) String() string {
	switch v {
	case Accept:
		return "accept"
	case Reject:
		return "reject"
	}
	return "unspecified"
}

// Kind tags an Item.
type Kind uint8

const (
	None    Kind = iota // value-less parameter
	Integer             // Int
	String              // Text
	Token               // Text
	Bytes               // Bin
)

// Item is one parsed item.
type Item struct {
	Kind Kind
	Int  int64
	Text string
	Bin  []byte
}

// Param is one parameter of a parameterised identifier, in textual order.
type Param struct {
	Key   string
	Value Item // Kind == None when the parameter has no value
}

// Member is one parameterised identifier.
type Member struct {
	Label  string
	Params []Param
}

// Value is a parsed header of either type.
type Value struct {
	PL []Member
	LL [][]Item
}

// Result is the outcome of one reference parse.
type Result struct {
	Verdict Verdict
	// Pos is the number of characters the scanner had consumed when it stopped: the
	// length of the input on Accept, otherwise the index of the offending character
	// (the length of the input when more input was needed).
	Pos int
	// Why explains a Reject / Unspecified verdict.
	Why string
	// CRLFInBytes: the scanner met CR or LF between the "*" delimiters of a byte sequence.
	CRLFInBytes bool
	Value
}

// ------------------------------------------------------------------------------ scanner

type scanner struct {
	src  string
	why  string
	pos  int
	crlf bool
}

func (s *scanner) stop(v Verdict, at int, why string) Verdict {
	s.why = why
	s.pos = at
	return v
}

func isDigit(c byte) bool   { return '0' <= c && c <= '9' }
func isLower(c byte) bool   { return 'a' <= c && c <= 'z' }
func isLetter(c byte) bool  { return isLower(c) || ('A' <= c && c <= 'Z') }
func isKeyTail(c byte) bool { return isLower(c) || isDigit(c) || c == '_' || c == '-' }
func isTokenTail(c byte) bool {
	if isLetter(c) || isDigit(c) {
		return true
	}
	switch c {
	case '_', '-', '.', ':', '%', '*', '/':
		return true
	}
	return false
}

// sextet returns the base64 value of c, or -1.
func sextet(c byte) int {
	switch {
	case 'A' <= c && c <= 'Z':
		return int(c - 'A')
	case 'a' <= c && c <= 'z':
		return int(c-'a') + 26
	case '0' <= c && c <= '9':
		return int(c-'0') + 52
	case c == '+':
		return 62
	case c == '/':
		return 63
	}
	return -1
}

// ows skips optional whitespace starting at i.
func (s *scanner) ows(i int) int {
	for i < len(s.src) && (s.src[i] == ' ' || s.src[i] == '\t') {
		i++
	}
	return i
}

// integer: precondition src[i] is "-" or a digit.
func (s *scanner) integer(i int) (int64, int, Verdict) {
	j := i
	neg := false
	if s.src[j] == '-' {
		neg = true
		j++
	}
	k := j
	for k < len(s.src) && isDigit(s.src[k]) {
		k++
	}
	nd := k - j
	if nd == 0 {
		// ABNF: ["-"] 1*DIGIT; algorithm: after removing "-", an empty input or a
		// non-digit first character fails parsing.
		return 0, j, s.stop(Reject, j, `"-" not followed by a digit`)
	}
	if k < len(s.src) && s.src[k] == '.' {
		return 0, k, s.stop(Unspecified, k, "number followed by '.': a Float in the draft, unsupported by the subset")
	}
	if nd > 19 {
		return 0, k, s.stop(Unspecified, j, "integer with more than 19 digits")
	}
	if nd > 1 && s.src[j] == '0' {
		return 0, k, s.stop(Unspecified, j, "integer with redundant leading zero")
	}
	var mag uint64 // nd <= 19 digits always fits (max 9999999999999999999 < 2^64)
	for p := j; p < k; p++ {
		mag = mag*10 + uint64(s.src[p]-'0')
	}
	if neg {
		if mag > 1<<63 {
			return 0, k, s.stop(Unspecified, j, "integer below the int64 range")
		}
		return int64(-mag), k, Accept // -(2^63) wraps to MinInt64 as intended
	}
	if mag > 1<<63-1 {
		return 0, k, s.stop(Unspecified, j, "integer above the int64 range")
	}
	return int64(mag), k, Accept
}

// str: precondition src[i] is DQUOTE.
func (s *scanner) str(i int) (string, int, Verdict) {
	var out []byte
	j := i + 1
	for {
		if j >= len(s.src) {
			return "", j, s.stop(Reject, j, "unterminated string")
		}
		c := s.src[j]
		switch {
		case c == '"':
			return string(out), j + 1, Accept
		case c == '\\':
			if j+1 >= len(s.src) {
				return "", j + 1, s.stop(Reject, j+1, "backslash at end of input")
			}
			d := s.src[j+1]
			if d != '"' && d != '\\' {
				return "", j + 1, s.stop(Reject, j+1, "escape other than \\\" and \\\\")
			}
			out = append(out, d)
			j += 2
		case c < 0x20 || c > 0x7e:
			return "", j, s.stop(Reject, j, "character outside %x20-7E in string")
		default:
			out = append(out, c)
			j++
		}
	}
}

// token: fails unless src[i] is ALPHA.
func (s *scanner) token(i int) (string, int, Verdict) {
	if i >= len(s.src) {
		return "", i, s.stop(Reject, i, "token expected, end of input")
	}
	if !isLetter(s.src[i]) {
		return "", i, s.stop(Reject, i, "token must start with ALPHA")
	}
	j := i + 1
	for j < len(s.src) && isTokenTail(s.src[j]) {
		j++
	}
	return s.src[i:j], j, Accept
}

// key: fails unless src[i] is lcalpha.
func (s *scanner) key(i int) (string, int, Verdict) {
	if i >= len(s.src) {
		return "", i, s.stop(Reject, i, "key expected, end of input")
	}
	if !isLower(s.src[i]) {
		return "", i, s.stop(Reject, i, "key must start with lcalpha")
	}
	j := i + 1
	for j < len(s.src) && isKeyTail(s.src[j]) {
		j++
	}
	return s.src[i:j], j, Accept
}

// byteSeq: precondition src[i] is "*".
func (s *scanner) byteSeq(i int) ([]byte, int, Verdict) {
	end := -1
	for j := i + 1; j < len(s.src); j++ {
		if s.src[j] == '*' {
			end = j
			break
		}
	}
	if end < 0 {
		return nil, len(s.src), s.stop(Reject, len(s.src), `byte sequence without closing "*"`)
	}
	body := s.src[i+1 : end]
	bad := -1
	for j := 0; j < len(body); j++ {
		c := body[j]
		if c == '\r' || c == '\n' {
			s.crlf = true
		}
		if sextet(c) < 0 && c != '=' && bad < 0 {
			bad = j
		}
	}
	if bad >= 0 {
		return nil, i + 1 + bad, s.stop(Reject, i+1+bad, `character outside ALPHA / DIGIT / "+" / "/" / "=" in byte sequence`)
	}
	// Only alphabet characters and "=" from here on: canonical or Unspecified.
	n := len(body)
	pad := 0
	for n > 0 && body[n-1] == '=' {
		n--
		pad++
	}
	for j := 0; j < n; j++ {
		if body[j] == '=' {
			return nil, end + 1, s.stop(Unspecified, i+1+j, `"=" before the end of the base64 text`)
		}
	}
	rem := n % 4
	switch {
	case rem == 0 && pad != 0,
		rem == 1,
		rem == 2 && pad != 0 && pad != 2,
		rem == 3 && pad != 0 && pad != 1:
		return nil, end + 1, s.stop(Unspecified, i+1, "base64 text with partial / superfluous padding or a dangling character")
	}
	out := make([]byte, 0, n/4*3+2)
	var acc uint32
	bits := 0
	for j := 0; j < n; j++ {
		acc = acc<<6 | uint32(sextet(body[j]))
		bits += 6
		if bits >= 8 {
			bits -= 8
			out = append(out, byte(acc>>uint(bits)))
			acc &= 1<<uint(bits) - 1
		}
	}
	if acc != 0 {
		return nil, end + 1, s.stop(Unspecified, i+1, "base64 text with non-zero trailing bits")
	}
	return out, end + 1, Accept
}

// item dispatches on the first character (section 4.2.7).
func (s *scanner) item(i int) (Item, int, Verdict) {
	if i >= len(s.src) {
		return Item{}, i, s.stop(Reject, i, "item expected, end of input")
	}
	c := s.src[i]
	switch {
	case c == '-' || isDigit(c):
		n, j, v := s.integer(i)
		return Item{Kind: Integer, Int: n}, j, v
	case c == '"':
		t, j, v := s.str(i)
		return Item{Kind: String, Text: t}, j, v
	case c == '*':
		b, j, v := s.byteSeq(i)
		return Item{Kind: Bytes, Bin: b}, j, v
	case isLetter(c):
		t, j, v := s.token(i)
		return Item{Kind: Token, Text: t}, j, v
	case c == '?':
		return Item{}, i, s.stop(Unspecified, i, "Boolean in the draft, unsupported by the subset")
	}
	return Item{}, i, s.stop(Reject, i, "no item starts with this character")
}

// member = token *( OWS ";" OWS key [ "=" item ] ); trailing OWS is consumed.
func (s *scanner) member(i int) (Member, int, Verdict) {
	label, i, v := s.token(i)
	if v != Accept {
		return Member{}, i, v
	}
	m := Member{Label: label}
	for {
		i = s.ows(i)
		if i >= len(s.src) || s.src[i] != ';' {
			return m, i, Accept
		}
		i = s.ows(i + 1)
		var k string
		k, i, v = s.key(i)
		if v != Accept {
			return Member{}, i, v
		}
		for _, p := range m.Params {
			if p.Key == k {
				return Member{}, i, s.stop(Reject, i, "duplicate parameter key")
			}
		}
		val := Item{Kind: None}
		if i < len(s.src) && s.src[i] == '=' {
			val, i, v = s.item(i + 1)
			if v != Accept {
				return Member{}, i, v
			}
		}
		m.Params = append(m.Params, Param{Key: k, Value: val})
	}
}

func (s *scanner) result(v Verdict, val Value) Result {
	r := Result{Verdict: v, Pos: s.pos, Why: s.why, CRLFInBytes: s.crlf}
	if v == Accept {
		r.Pos = len(s.src)
		r.Why = ""
		r.Value = val
	}
	return r
}

// ParseParameterisedList judges input as a Parameterised List header.
func ParseParameterisedList(input string) Result {
	s := &scanner{src: input}
	var out []Member
	i := s.ows(0)
	for i < len(input) {
		var m Member
		var v Verdict
		m, i, v = s.member(i)
		if v != Accept {
			return s.result(v, Value{})
		}
		out = append(out, m)
		if i >= len(input) { // member() consumed trailing OWS
			return s.result(Accept, Value{PL: out})
		}
		if input[i] != ',' {
			return s.result(s.stop(Reject, i, `"," expected between members`), Value{})
		}
		i = s.ows(i + 1)
	}
	return s.result(s.stop(Reject, i, "member expected, end of input (empty header or trailing comma)"), Value{})
}

// ParseListOfLists judges input as a List of Lists header.
func ParseListOfLists(input string) Result {
	s := &scanner{src: input}
	var outer [][]Item
	var inner []Item
	i := s.ows(0)
	for i < len(input) {
		var it Item
		var v Verdict
		it, i, v = s.item(i)
		if v != Accept {
			return s.result(v, Value{})
		}
		inner = append(inner, it)
		i = s.ows(i)
		if i >= len(input) {
			outer = append(outer, inner)
			return s.result(Accept, Value{LL: outer})
		}
		switch input[i] {
		case ',':
			outer = append(outer, inner)
			inner = nil
		case ';':
		default:
			return s.result(s.stop(Reject, i, `"," or ";" expected between items`), Value{})
		}
		i = s.ows(i + 1)
	}
	return s.result(s.stop(Reject, i, "item expected, end of input (empty header, empty inner list or trailing separator)"), Value{})
}

// ------------------------------------------------------------------------------ equality

// EqualItem compares two items semantically (a nil and an empty Bin are the same byte sequence).
func EqualItem(a, b Item) bool {
	if a.Kind != b.Kind {
		return false
	}
	switch a.Kind {
	case Integer:
		return a.Int == b.Int
	case String, Token:
		return a.Text == b.Text
	case Bytes:
		return string(a.Bin) == string(b.Bin)
	}
	return true
}

// EqualMember compares label and parameters; parameter order is not significant.
func EqualMember(a, b Member) bool {
	if a.Label != b.Label || len(a.Params) != len(b.Params) {
		return false
	}
outer:
	for _, p := range a.Params {
		for _, q := range b.Params {
			if p.Key == q.Key {
				if !EqualItem(p.Value, q.Value) {
					return false
				}
				continue outer
			}
		}
		return false
	}
	return true
}

// EqualValue compares two header values.
func EqualValue(a, b Value) bool {
	if len(a.PL) != len(b.PL) || len(a.LL) != len(b.LL) {
		return false
	}
	for i := range a.PL {
		if !EqualMember(a.PL[i], b.PL[i]) {
			return false
		}
	}
	for i := range a.LL {
		if len(a.LL[i]) != len(b.LL[i]) {
			return false
		}
		for j := range a.LL[i] {
			if !EqualItem(a.LL[i][j], b.LL[i][j]) {
				return false
			}
		}
	}
	return true
}

// KeysAscending reports whether the parameters of every member appear in strictly
// ascending byte order of their keys.
func KeysAscending(pl []Member) bool {
	for _, m := range pl {
		for i := 1; i < len(m.Params); i++ {
			if !(m.Params[i-1].Key < m.Params[i].Key) {
				return false
			}
		}
	}
	return true
}
