// Package c18: serializers are pure — the same logical input gives the same bytes whatever the
// map insertion order, call history or goroutine schedule, and concurrent use of shared
// read-only inputs causes no data race (the concurrent sub-check runs under -race).
package c18

import (
	"bytes"
	"crypto/ed25519"
	"crypto/x509"
	"fmt"
	"net/url"
	"sort"
	"strings"
	"sync"
	"testing"
	"time"

	"github.com/WICG/webpackage/go/bundle"
	"github.com/WICG/webpackage/go/bundle/signature"
	bversion "github.com/WICG/webpackage/go/bundle/version"
	"github.com/WICG/webpackage/go/integrityblock"
	"github.com/WICG/webpackage/go/integrityblock/webbundleid"
	"github.com/WICG/webpackage/go/signedexchange"
	"github.com/WICG/webpackage/go/signedexchange/certurl"
	"github.com/WICG/webpackage/go/signedexchange/mice"
	"github.com/WICG/webpackage/go/signedexchange/structuredheader"
	"github.com/WICG/webpackage/go/verifh/bundlekit"
	"github.com/WICG/webpackage/go/verifh/gen"
	"github.com/WICG/webpackage/go/verifh/sxgkit"
	"github.com/WICG/webpackage/go/verifh/vh"
	"pgregory.net/rapid"
)

func TestMain(m *testing.M) {
	gen.EnableGuards() // input slices get guarded spare capacity and a content checksum (see gen/guard.go)
	vh.Main(m)
}
func TestReplay(t *testing.T) { vh.Replay(t) }
func TestCorpus(t *testing.T) { vh.Corpus(t) }

// ---------------------------------------------------------------------------------------
// Logical inputs. Every Input can be built with a permutation seed that changes ONLY the
// insertion order of map-backed collections (never the order of values of one header name).

type Input struct {
	Kind   string          `json:"kind"` // bundle sxg subset certchain iblock sh-pl sh-ll mice bundleid
	Bundle *bundlekit.Spec `json:"bundle,omitempty"`
	Sxg    *sxgkit.Spec    `json:"sxg,omitempty"`
	Colliding bool         `json:"colliding,omitempty"` // header maps hold two keys differing only in letter case
	N      int             `json:"n,omitempty"`   // size parameter (entries / attributes / parameters)
	Tag    uint64          `json:"tag,omitempty"` // content seed
}

// permuteHeaders reorders header fields keeping the relative order of fields whose names fold
// to the same lower-case name (their values are joined in order, which is part of the content).
func permuteHeaders(kvs []gen.HeaderKV, seed uint64) []gen.HeaderKV {
	if seed == 0 || len(kvs) < 2 {
		return kvs
	}
	rank := map[string]uint64{}
	x := seed
	for _, kv := range kvs {
		k := strings.ToLower(kv.Name)
		if _, ok := rank[k]; !ok {
			x = x*6364136223846793005 + 1442695040888963407
			rank[k] = x >> 11
		}
	}
	out := append([]gen.HeaderKV{}, kvs...)
	sort.SliceStable(out, func(i, j int) bool { return rank[strings.ToLower(out[i].Name)] < rank[strings.ToLower(out[j].Name)] })
	return out
}

func shuffled(n int, seed uint64) []int {
	idx := make([]int, n)
	for i := range idx {
		idx[i] = i
	}
	x := seed | 1
	for i := n - 1; i > 0; i-- {
		x ^= x << 13
		x ^= x >> 7
		x ^= x << 17
		j := int(x % uint64(i+1))
		idx[i], idx[j] = idx[j], idx[i]
	}
	return idx
}

// A built object exposes the serializers that apply to it; each returns the output bytes.
type built struct {
	serializers map[string]func() ([]byte, error)
	verify      func() error // optional read-only verifier exercised in the concurrent sub-check
	// faulty: calls that FAIL or are REFUSED half-way (a destination writer failing after k bytes, a
	// value refused after part of it was serialised). They are "unrelated calls" of the property's
	// histories: whatever they leave behind must not show in any later output.
	faulty map[string]func(k int) error
}

// failAfter accepts k bytes, then fails (every second one with a short write).
type failAfter struct {
	k     int
	short bool
}

func (w *failAfter) Write(p []byte) (int, error) {
	if len(p) <= w.k {
		w.k -= len(p)
		return len(p), nil
	}
	n := 0
	if w.short {
		n = w.k
	}
	w.k = 0
	return n, fmt.Errorf("destination failed (injected by the harness)")
}

func build(in *Input, perm uint64) *built {
	b := &built{serializers: map[string]func() ([]byte, error){}, faulty: map[string]func(int) error{}}
	switch in.Kind {
	case "bundle":
		s := *in.Bundle
		s.Exchanges = append([]bundlekit.ExSpec{}, in.Bundle.Exchanges...)
		for i := range s.Exchanges {
			s.Exchanges[i].Headers = permuteHeaders(s.Exchanges[i].Headers, perm+uint64(i))
		}
		bb := bundlekit.Build(&s)
		b.serializers["bundle.WriteTo"] = func() ([]byte, error) {
			var buf bytes.Buffer
			_, err := bb.WriteTo(&buf)
			return buf.Bytes(), err
		}
		// the destination is a bundle.CountingWriter that has already carried other data (bundles
		// appended to one stream): the bytes of THIS bundle must not depend on what went before
		b.serializers["bundle.WriteTo -> CountingWriter with earlier data"] = func() ([]byte, error) {
			var buf bytes.Buffer
			cw := bundle.NewCountingWriter(&buf)
			prefix := gen.Filler(1+int(in.Tag%97), in.Tag)
			cw.Write(prefix)
			n, err := bb.WriteTo(cw)
			out := buf.Bytes()[len(prefix):]
			if err == nil && n != int64(len(out)) {
				return nil, fmt.Errorf("WriteTo returned %d, %d bytes were written for this bundle", n, len(out))
			}
			return out, err
		}
		b.faulty["bundle.WriteTo -> failing writer"] = func(k int) error { _, err := bb.WriteTo(&failAfter{k: k, short: k%2 == 1}); return err }
		if len(bb.Exchanges) > 0 {
			b.serializers["Response.EncodeHeader"] = func() ([]byte, error) { return bb.Exchanges[0].Response.EncodeHeader() }
		}
	case "sxg":
		s := *in.Sxg
		s.Mock = true
		s.ResHeaders = permuteHeaders(s.ResHeaders, perm)
		s.ReqHeaders = permuteHeaders(s.ReqHeaders, perm+1)
		e := sxgkit.New(&s)
		if err := e.MiEncodePayload(s.RecordSize); err != nil {
			panic(err)
		}
		sg, err := sxgkit.Signer(&s)
		if err != nil {
			panic(err)
		}
		if !in.Colliding {
			if err := e.AddSignatureHeader(sg); err != nil {
				panic(err)
			}
		}
		b.serializers["Exchange.Write"] = func() ([]byte, error) {
			var buf bytes.Buffer
			err := e.Write(&buf)
			return buf.Bytes(), err
		}
		b.faulty["Exchange.Write -> failing writer"] = func(k int) error { return e.Write(&failAfter{k: k, short: k%2 == 1}) }
		b.faulty["Exchange.DumpExchangeHeaders -> failing writer"] = func(k int) error { return e.DumpExchangeHeaders(&failAfter{k: k, short: k%2 == 1}) }
		b.faulty["AddSignatureHeader refused (URL not expressible as a structured-header string)"] = func(k int) error {
			e2 := *e
			sg2 := *sg
			if k%2 == 0 {
				sg2.ValidityUrl = mustURL("https://a.example/validity?v=\u00e9")
			} else {
				sg2.CertUrl = mustURL("https://a.example/cert?c=\u00e9")
			}
			return e2.AddSignatureHeader(&sg2)
		}
		b.serializers["Exchange.DumpExchangeHeaders"] = func() ([]byte, error) {
			var buf bytes.Buffer
			err := e.DumpExchangeHeaders(&buf)
			return buf.Bytes(), err
		}
		b.serializers["Exchange.DumpSignedMessage"] = func() ([]byte, error) {
			// a fresh Signer per call: Signers are mutable by design
			sg2 := *sg
			var buf bytes.Buffer
			err := e.DumpSignedMessage(&buf, &sg2)
			return buf.Bytes(), err
		}
		b.serializers["Exchange.ComputeHeaderIntegrity"] = func() ([]byte, error) {
			h, err := e.ComputeHeaderIntegrity()
			return []byte(h), err
		}
		b.serializers["Signature header (mock algorithm)"] = func() ([]byte, error) {
			e2 := *e
			sg2 := *sg
			if err := e2.AddSignatureHeader(&sg2); err != nil {
				return nil, err
			}
			return []byte(e2.SignatureHeaderValue), nil
		}
	case "subset":
		ss := &signature.SignedSubset{ValidityUrl: mustURL("https://a.example/v"), AuthSha256: gen.CertSha256(gen.Fixtures()[0].Leaf),
			Date: time.Unix(1_700_000_000, 0), Expires: time.Unix(1_700_003_600, 0), SubsetHashes: map[string]*signature.ResponseHashes{}}
		for _, i := range shuffled(in.N, perm) {
			ss.SubsetHashes[fmt.Sprintf("https://a.example/%d/%s", i, strings.Repeat("p", i%30))] = &signature.ResponseHashes{
				Hashes: []*signature.ResourceIntegrity{{HeaderSha256: gen.Filler(32, in.Tag+uint64(i)), PayloadIntegrityHeader: "digest/mi-sha256-03"}}}
		}
		b.serializers["SignedSubset.Encode"] = func() ([]byte, error) { return ss.Encode() }
		// the same serializer reached the way sign-bundle reaches it: a Signer to which exchanges are
		// offered one by one; offers it REFUSES (a response header that cannot be encoded, a URL that
		// it already holds) are not part of the logical input
		{
			f := gen.Fixtures()[0]
			cc, err := certurl.NewCertChain(f.Chain, []byte("ocsp"), nil)
			if err != nil {
				panic(err)
			}
			sgn, err := signature.NewSigner(bversion.VersionB2, cc, f.Key, mustURL("https://a.example/v"), time.Unix(1_700_000_000, 0), time.Hour)
			if err != nil {
				panic(err)
			}
			nEx := min(in.N, 12)
			mk := func(i int, tag uint64) *bundle.Exchange {
				return &bundle.Exchange{Request: bundle.Request{URL: mustURL(fmt.Sprintf("https://a.example/s/%d", i))},
					Response: bundle.Response{Status: 200, Header: map[string][]string{"Content-Type": {"text/plain"}, "X-I": {fmt.Sprint(i)}}, Body: gen.Filler(20+i, tag)}}
			}
			for _, i := range shuffled(nEx, perm) {
				ex := mk(i, in.Tag+uint64(i))
				id, err := ex.AddPayloadIntegrity(bversion.VersionB2, 16)
				if err != nil {
					panic(err)
				}
				if err := sgn.AddExchange(ex, id); err != nil {
					panic(err)
				}
			}
			b.serializers["Signer.AddExchange... -> SignedSubset.Encode"] = func() ([]byte, error) { return sgn.SignedSubset.Encode() }
			b.faulty["Signer.AddExchange refused (response header cannot be encoded)"] = func(k int) error {
				ex := mk(1000+k%7, uint64(k))
				ex.Response.Header["X-Bad-\u00e9"] = []string{"v"}
				return sgn.AddExchange(ex, "digest/mi-sha256-03")
			}
			if nEx > 0 {
				b.faulty["Signer.AddExchange refused (URL already added)"] = func(k int) error {
					ex := mk(k%nEx, uint64(k)+77)
					ex.Response.Status = 404
					return sgn.AddExchange(ex, "digest/mi-sha256-03")
				}
			}
		}
	case "certchain":
		fx := gen.Fixtures()
		certs := fx[int(in.Tag)%len(fx)].Chain
		cc, err := certurl.NewCertChain(certs, gen.Filler(in.N, in.Tag), gen.Filler(in.N/2, in.Tag+1))
		if err != nil {
			panic(err)
		}
		b.faulty["CertChain.Write -> failing writer"] = func(k int) error { return cc.Write(&failAfter{k: k, short: k%2 == 1}) }
		b.serializers["CertChain.Write"] = func() ([]byte, error) {
			var buf bytes.Buffer
			err := cc.Write(&buf)
			return buf.Bytes(), err
		}
	case "iblock":
		pub, _ := gen.Ed25519FromSeed([]byte{byte(in.Tag)})
		mk := func(k int, seed uint64) integrityblock.SignatureAttributesMap {
			m := integrityblock.SignatureAttributesMap{}
			names := []string{integrityblock.Ed25519publicKeyAttributeName, "a", "zz", "attribute-with-a-long-name-xxxxxxxxxxxxxxxx", "b1", "É"}
			for _, i := range shuffled(min(1+in.N, len(names)), seed+uint64(k)) {
				m[names[i]] = gen.Filler(3+i*7, in.Tag+uint64(i+k))
			}
			m[integrityblock.Ed25519publicKeyAttributeName] = []byte(pub)
			return m
		}
		ib := &integrityblock.IntegrityBlock{Magic: integrityblock.IntegrityBlockMagic, Version: integrityblock.VersionB1}
		for k := 0; k < 1+in.N%3; k++ {
			ib.SignatureStack = append(ib.SignatureStack, &integrityblock.IntegritySignature{SignatureAttributes: mk(k, perm), Signature: gen.Filler(64, in.Tag+uint64(k))})
		}
		attrs := mk(9, perm)
		b.serializers["IntegrityBlock.CborBytes"] = func() ([]byte, error) { return ib.CborBytes() }
		b.serializers["GenerateDataToBeSigned"] = func() ([]byte, error) {
			blk, err := ib.CborBytes()
			if err != nil {
				return nil, err
			}
			return integrityblock.GenerateDataToBeSigned(gen.Filler(64, in.Tag), blk, attrs)
		}
	case "sh-pl":
		var pl structuredheader.ParameterisedList
		for m := 0; m < 1+in.N%3; m++ {
			params := structuredheader.Parameters{}
			keys := []string{"sig", "integrity", "cert-url", "cert-sha256", "validity-url", "date", "expires", "a", "b", "a-b", "a1", "z_z"}
			for _, i := range shuffled(min(in.N, len(keys)), perm+uint64(m)) {
				switch i % 4 {
				case 0:
					params[structuredheader.Key(keys[i])] = gen.Filler(5+i, in.Tag)
				case 1:
					params[structuredheader.Key(keys[i])] = "str\"ing\\" + keys[i]
				case 2:
					params[structuredheader.Key(keys[i])] = int64(in.Tag%1000) - int64(i)
				case 3:
					params[structuredheader.Key(keys[i])] = structuredheader.Token("tok/" + keys[i])
				}
			}
			pl = append(pl, structuredheader.ParameterisedIdentifier{Label: structuredheader.Token(fmt.Sprintf("label%d", m)), Params: params})
		}
		b.faulty["ParameterisedList.String refused"] = func(k int) error {
			bad := append(structuredheader.ParameterisedList{}, pl...)
			bad = append(bad, structuredheader.ParameterisedIdentifier{Label: "last", Params: structuredheader.Parameters{"a": int64(k), "zz": []string{"unsupported type"}}})
			_, err := bad.String()
			if _, err2 := bad[len(bad)-1].String(); (err2 == nil) != (err == nil) {
				return fmt.Errorf("list refused: %v, member alone refused: %v", err, err2)
			}
			return err
		}
		// the spelling of a valid TOKEN used in this list ("tok/<key>", "label0") as a parameter KEY,
		// where '/' and digits-after-nothing are not allowed: the two grammars must not be confused
		b.faulty["ParameterisedList.String refused (a valid token's spelling used as a key)"] = func(k int) error {
			bad := structuredheader.ParameterisedList{{Label: "x", Params: structuredheader.Parameters{structuredheader.Key("tok/" + []string{"cert-sha256", "a", "z_z", "cert-sha256"}[k%4]): int64(1)}}}
			_, err := bad.String()
			return err
		}
		b.serializers["ParameterisedList.String"] = func() ([]byte, error) {
			s, err := pl.String()
			return []byte(s), err
		}
	case "sh-ll":
		ll := structuredheader.ListOfLists{}
		for i := 0; i < 1+in.N%4; i++ {
			ll = append(ll, []structuredheader.Item{structuredheader.Token("accept-language"), "en", int64(i), gen.Filler(i, in.Tag)})
		}
		b.faulty["ListOfLists.String refused"] = func(k int) error {
			bad := append(structuredheader.ListOfLists{}, ll...)
			bad = append(bad, []structuredheader.Item{structuredheader.Token("ok"), "not printable \x01"})
			_, err := bad.String()
			return err
		}
		b.serializers["ListOfLists.String"] = func() ([]byte, error) {
			s, err := ll.String()
			return []byte(s), err
		}
	case "mice":
		payload := gen.Filler(in.N*37, in.Tag)
		for _, enc := range []mice.Encoding{mice.Draft02Encoding, mice.Draft03Encoding} {
			enc := enc
			b.faulty["mice.Encode/"+string(enc)+" -> failing writer"] = func(k int) error { _, err := enc.Encode(&failAfter{k: k, short: k%2 == 1}, payload, 16); return err }
			b.serializers["mice.Encode/"+string(enc)] = func() ([]byte, error) {
				var buf bytes.Buffer
				dg, err := enc.Encode(&buf, payload, 16)
				return append(buf.Bytes(), dg...), err
			}
		}
	case "bundleid":
		pub, _ := gen.Ed25519FromSeed([]byte{byte(in.Tag), byte(in.N)})
		b.serializers["GetWebBundleId"] = func() ([]byte, error) { return []byte(webbundleid.GetWebBundleId(pub)), nil }
	default:
		panic("kind " + in.Kind)
	}
	if in.Colliding {
		for name, f := range b.serializers {
			f := f
			b.serializers[name] = func() ([]byte, error) {
				out, err := f()
				if err != nil {
					return []byte("error: " + err.Error()), nil
				}
				return out, nil
			}
		}
	}
	return b
}

func mustURL(s string) *url.URL {
	u, err := url.Parse(s)
	if err != nil {
		panic(err)
	}
	return u
}

func names(m map[string]func() ([]byte, error)) []string {
	var out []string
	for k := range m {
		out = append(out, k)
	}
	sort.Strings(out)
	return out
}

func genInput(t *rapid.T) Input { return genInputOf(t, "") }

// genInputOf draws an input of the given kind ("" = any).
func genInputOf(t *rapid.T, kind string) Input {
	if kind == "" {
		kind = rapid.SampledFrom([]string{"bundle", "bundle", "sxg", "sxg", "subset", "certchain", "iblock", "sh-pl", "sh-ll", "mice", "bundleid"}).Draw(t, "kind")
	}
	in := Input{Kind: kind, N: rapid.IntRange(0, 12).Draw(t, "n"), Tag: rapid.Uint64Range(0, 1<<32).Draw(t, "tag")}
	switch kind {
	case "bundle":
		for i := 0; i < 20; i++ {
			s := bundlekit.Gen(t)
			if must, _ := s.WriteMustFail(); !must {
				for j := range s.Exchanges {
					if s.Exchanges[j].BodyLen > 2000 {
						s.Exchanges[j].BodyLen %= 2000
					}
					// several header names so that insertion order matters
					s.Exchanges[j].Headers = append(s.Exchanges[j].Headers, gen.HeaderKV{Name: "X-One", Values: []string{"1"}}, gen.HeaderKV{Name: "a-two", Values: []string{"2", "3"}})
				}
				if len(s.Exchanges) > 0 && rapid.IntRange(0, 5).Draw(t, "bcollide") == 0 {
					in.Colliding = true
					s.Exchanges[0].Headers = append(s.Exchanges[0].Headers, gen.HeaderKV{Name: "Link", Values: []string{"<a>"}, Force: true}, gen.HeaderKV{Name: "link", Values: []string{"<b>"}, Force: true}, gen.HeaderKV{Name: "LINK", Values: []string{"<c>"}, Force: true})
				}
				in.Bundle = s
				return in
			}
		}
		in.Bundle = &bundlekit.Spec{Version: "b2", Exchanges: []bundlekit.ExSpec{{URL: "https://a.example/", Status: 200, Headers: []gen.HeaderKV{{Name: "A", Values: []string{"1"}}, {Name: "B", Values: []string{"2"}}, {Name: "C", Values: []string{"3"}}}}}}
	case "sxg":
		s := sxgkit.GenSpec(t)
		if s.PayloadLen > 1000 {
			s.PayloadLen %= 1000
		}
		s.ResHeaders = append(s.ResHeaders, gen.HeaderKV{Name: "X-One", Values: []string{"1"}}, gen.HeaderKV{Name: "a-two", Values: []string{"2"}}, gen.HeaderKV{Name: "Zed", Values: []string{"z"}})
		if rapid.IntRange(0, 4).Draw(t, "collide") == 0 {
			in.Colliding = true
			s.ResHeaders = append(s.ResHeaders, gen.HeaderKV{Name: "Link", Values: []string{"<a>"}, Force: true}, gen.HeaderKV{Name: "link", Values: []string{"<b>"}, Force: true}, gen.HeaderKV{Name: "LINK", Values: []string{"<c>"}, Force: true})
			if s.Version != "1b3" {
				s.ReqHeaders = append(s.ReqHeaders, gen.HeaderKV{Name: "Accept", Values: []string{"x"}, Force: true}, gen.HeaderKV{Name: "accept", Values: []string{"y"}, Force: true})
			}
		}
		in.Sxg = s
	}
	return in
}

// ---------------------------------------------------------------------------------------
// (a) permutations + repetition

type PermCase struct {
	In    Input    `json:"in"`
	Perms []uint64 `json:"perms"`
	Reps  int      `json:"reps"`
}

// sameBytesAcrossDestinations: serializers that are the same function into different kinds of
// destination must agree with each other, not only each with itself.
func sameBytesAcrossDestinations(b *built, r *vh.R) bool {
	f1, ok1 := b.serializers["bundle.WriteTo"]
	f2, ok2 := b.serializers["bundle.WriteTo -> CountingWriter with earlier data"]
	if !ok1 || !ok2 {
		return true
	}
	o1, e1 := f1()
	o2, e2 := f2()
	if (e1 == nil) != (e2 == nil) || (e1 == nil && !bytes.Equal(o1, o2)) {
		r.Failf("destination-dependent", "Bundle.WriteTo gives different results for a bytes.Buffer and for a CountingWriter that has already carried data: %d bytes (err %v) vs %d bytes (err %v), first difference at %d", len(o1), e1, len(o2), e2, firstDiff(o1, o2))
		return false
	}
	return true
}

var permProp = vh.Define("C18", "permutations", func(c PermCase, r *vh.R) {
	r.Class("kind:" + c.In.Kind)
	first := map[string][]byte{}
	for pi, perm := range append([]uint64{0}, c.Perms...) {
		obj := build(&c.In, perm)
		if !c.In.Colliding && !sameBytesAcrossDestinations(obj, r) {
			return
		}
		for _, name := range names(obj.serializers) {
			for rep := 0; rep < c.Reps; rep++ {
				out, err := obj.serializers[name]()
				if err != nil {
					if !c.In.Colliding {
						r.Failf("serializer-error", "%s failed on a valid input: %v", name, err)
						return
					}
					// header names differing only in letter case: refusing is fine, but the outcome
					// must be the same on every call
					out = []byte("error: " + err.Error())
					r.Class("stable-refusal")
				}
				if ref, ok := first[name]; !ok {
					first[name] = append([]byte{}, out...)
				} else if !bytes.Equal(ref, out) {
					r.Failf("not-pure", "%s: output of insertion order #%d, repetition %d differs from the first output (%d vs %d bytes, first difference at %d)\n first %x\n this  %x",
						name, pi, rep, len(out), len(ref), firstDiff(out, ref), head(ref), head(out))
					return
				}
			}
		}
	}
	if len(c.Perms) > 0 {
		r.NT()
	}
})

func head(b []byte) []byte {
	if len(b) > 120 {
		return b[:120]
	}
	return b
}

func firstDiff(a, b []byte) int {
	for i := 0; i < len(a) && i < len(b); i++ {
		if a[i] != b[i] {
			return i
		}
	}
	return min(len(a), len(b))
}

func genPermCase(t *rapid.T) PermCase {
	return PermCase{In: genInput(t), Perms: rapid.SliceOfN(rapid.Uint64Range(1, 1<<40), 1, 3).Draw(t, "perms"), Reps: 8}
}

func TestPropPermutations(t *testing.T) { permProp.Rapid(t, genPermCase) }

// TestConcPermutations: batches of 8 DIFFERENT inputs (other certificates, keys, payloads,
// versions) serialised at the same time on 8 goroutines, each compared with itself (see
// vh.Prop.Concurrent). TestPropConcurrent shares objects between goroutines; this one is about
// state shared between separate objects.
// TestConcSameKind: the 8 goroutines of a batch all work on inputs of ONE kind (signed exchanges
// with different certificates, or certificate chains, or MI encodings, ...) and call its
// serializers 60 times in a row: objects of the same type are the ones that share package-level
// state, and a narrow window needs many overlapping calls of the same function.
func TestConcSameKind(t *testing.T) {
	kinds := []string{"sxg", "sxg", "certchain", "subset", "mice", "sh-pl", "sh-ll", "iblock", "bundle", "bundleid"}
	turn := 0
	permProp.Concurrent(t, func(t *rapid.T) PermCase {
		k := kinds[(turn/4)%len(kinds)] // Concurrent draws 4 distinct cases per batch
		turn++
		c := PermCase{In: genInputOf(t, k), Perms: []uint64{rapid.Uint64Range(1, 1<<40).Draw(t, "perm")}, Reps: 60}
		if k == "bundle" {
			c.Reps = 8
		}
		return c
	}, 8, 1)
}

func TestConcPermutations(t *testing.T) {
	permProp.Concurrent(t, func(t *rapid.T) PermCase {
		c := genPermCase(t)
		c.Perms, c.Reps = c.Perms[:1], 3
		return c
	}, 8, 2)
}

// ---------------------------------------------------------------------------------------
// (b) interleaved call histories over a pool of objects

type HistCase struct {
	Pool  []Input `json:"pool"`
	Calls []int   `json:"calls"` // (object index, serializer index) packed as obj*16+ser
}

var histProp = vh.Define("C18", "history", func(c HistCase, r *vh.R) {
	objs := make([]*built, len(c.Pool))
	for i := range c.Pool {
		objs[i] = build(&c.Pool[i], uint64(i)*977)
		r.Class("kind:" + c.Pool[i].Kind)
	}
	first := map[string][]byte{}
	faults := 0
	refused := map[string]bool{} // outcome (refused or not) of each failing call, which must be stable too
	runFaulty := func(oi int, name string, k int, step int) bool {
		err := objs[oi].faulty[name](k)
		key := fmt.Sprintf("%d/%s/%d", oi, name, k)
		if was, ok := refused[key]; ok && was != (err != nil) {
			r.Failf("outcome-not-stable", "step %d: %q (k=%d) on object %d (%s) was %s before and is %s now (err: %v)", step, name, k, oi, c.Pool[oi].Kind, map[bool]string{true: "refused", false: "accepted"}[was], map[bool]string{true: "refused", false: "accepted"}[err != nil], err)
			return false
		}
		refused[key] = err != nil
		return true
	}
	for _, call := range c.Calls {
		if call >= 64 { // histories with failing calls: reference outputs are taken before the first of them
			if c.Calls[0]%2 == 1 {
				// ... and in every second such history each kind of failing call has ALREADY happened
				// once before anything was serialised successfully
				for oi := range objs {
					fs := make([]string, 0, len(objs[oi].faulty))
					for n := range objs[oi].faulty {
						fs = append(fs, n)
					}
					sort.Strings(fs)
					for _, n := range fs {
						for k := 0; k < 4; k++ {
							if !runFaulty(oi, n, k*k*7, -1) {
								return
							}
						}
					}
				}
				r.Class("failed-calls-before-first-success")
			}
			for oi := range objs {
				for _, name := range names(objs[oi].serializers) {
					out, err := objs[oi].serializers[name]()
					if err != nil {
						if !c.Pool[oi].Colliding {
							r.Failf("serializer-error", "%s failed: %v", name, err)
							return
						}
						out = []byte("error: " + err.Error())
					}
					first[fmt.Sprintf("%d/%s", oi, name)] = append([]byte{}, out...)
				}
			}
			break
		}
	}
	for step, call := range c.Calls {
		oi := (call / 16) % len(objs)
		if call >= 64 { // a failing / refused call on that object; its result is ignored
			fs := make([]string, 0, len(objs[oi].faulty))
			for n := range objs[oi].faulty {
				fs = append(fs, n)
			}
			if len(fs) == 0 {
				continue
			}
			sort.Strings(fs)
			k := call % 16
			if !runFaulty(oi, fs[k%len(fs)], (k%4)*(k%4)*7, step) {
				return
			}
			faults++
			continue
		}
		ns := names(objs[oi].serializers)
		name := ns[(call%16)%len(ns)]
		out, err := objs[oi].serializers[name]()
		if err != nil {
			if !c.Pool[oi].Colliding {
				r.Failf("serializer-error", "step %d: %s failed: %v", step, name, err)
				return
			}
			out = []byte("error: " + err.Error())
		}
		key := fmt.Sprintf("%d/%s", oi, name)
		if ref, ok := first[key]; !ok {
			first[key] = append([]byte{}, out...)
		} else if !bytes.Equal(ref, out) {
			r.Failf("not-pure", "step %d: %s on object %d (%s) returned different bytes than its first call (first difference at %d of %d/%d)", step, name, oi, c.Pool[oi].Kind, firstDiff(out, ref), len(out), len(ref))
			return
		}
	}
	if len(c.Calls) >= 4 && len(c.Pool) >= 2 {
		r.NT()
	}
	if faults > 0 {
		r.Class("with-failed-or-refused-calls")
	}
})

// TestFixedHistories: for every kind of object with fixed contents (the structured-header lists
// at every size 0..12), two fixed histories that do not depend on what the generator happens
// to draw: (a) every failing / refused call first, then every serializer three times; (b) every
// serializer, every failing call, every serializer again.
func TestFixedHistories(t *testing.T) {
	fixedSxg := &sxgkit.Spec{Version: "1b3", URL: "https://a.example/index.html", Method: "GET", Status: 200,
		ResHeaders: []gen.HeaderKV{{Name: "Content-Type", Values: []string{"text/html"}}, {Name: "X-One", Values: []string{"1"}}, {Name: "a-two", Values: []string{"2"}}},
		PayloadLen: 100, PayloadTag: 7, RecordSize: 16, Fixture: 0, Date: 1_700_000_000, Expires: 1_700_003_600, ValidityURL: "https://a.example/v", CertURL: "https://a.example/c"}
	fixedBundle := &bundlekit.Spec{Version: "b2", Exchanges: []bundlekit.ExSpec{{URL: "https://a.example/", Status: 200, BodyLen: 30, BodyTag: 1,
		Headers: []gen.HeaderKV{{Name: "A", Values: []string{"1"}}, {Name: "B", Values: []string{"2"}}, {Name: "C", Values: []string{"3"}}}}}}
	var inputs []Input
	for n := 0; n <= 12; n++ {
		inputs = append(inputs, Input{Kind: "sh-pl", N: n, Tag: uint64(n)}, Input{Kind: "sh-ll", N: n, Tag: uint64(n)})
	}
	for _, k := range []string{"subset", "certchain", "iblock", "mice", "bundleid"} {
		inputs = append(inputs, Input{Kind: k, N: 5, Tag: 3})
	}
	inputs = append(inputs, Input{Kind: "sxg", Sxg: fixedSxg}, Input{Kind: "bundle", Bundle: fixedBundle})
	for _, in := range inputs {
		// (a) calls[0] odd: all failing calls happen before the reference outputs are taken
		a := HistCase{Pool: []Input{in}, Calls: []int{65}}
		// (b) calls[0] even: reference outputs, then failing calls, then the serializers again
		b := HistCase{Pool: []Input{in}, Calls: []int{0}}
		for k := 0; k < 16; k++ {
			a.Calls = append(a.Calls, k, k, k)
			b.Calls = append(b.Calls, 64+k)
		}
		for k := 0; k < 16; k++ {
			b.Calls = append(b.Calls, k)
		}
		if !histProp.One(t, a) || !histProp.One(t, b) {
			return
		}
	}
}

func TestPropHistory(t *testing.T) {
	histProp.Rapid(t, func(t *rapid.T) HistCase {
		c := HistCase{}
		for i := rapid.IntRange(2, 4).Draw(t, "pool"); i > 0; i-- {
			c.Pool = append(c.Pool, genInput(t))
		}
		c.Calls = rapid.SliceOfN(rapid.IntRange(0, 111), 4, 24).Draw(t, "calls")
		return c
	})
}

// ---------------------------------------------------------------------------------------
// (c) goroutines over shared read-only inputs (run under -race)

type ConcCase struct {
	Pool       []Input `json:"pool"`
	Goroutines int     `json:"goroutines"`
	Plan       [][]int `json:"plan"`  // per goroutine: calls packed as obj*16+ser
	Start      []int   `json:"start"` // order in which goroutines are released
}

type shared struct {
	sxgFile   []byte
	exchange  *signedexchange.Exchange
	fetch     signedexchange.CertFetcher
	verifyAt  int64
	payload   []byte
	bundle    *bundle.Bundle // parsed, signed
	bundleRaw []byte
}

var (
	sharedOnce sync.Once
	sh         shared
)

// sharedInputs builds the read-only objects every goroutine uses: a parsed exchange with its
// certificate fetcher, and a parsed signed bundle.
func sharedInputs() *shared {
	sharedOnce.Do(func() {
		s := sxgkit.Spec{Version: "1b3", URL: "https://a.example/x", Method: "GET", Status: 200, PayloadLen: 100, PayloadTag: 1, RecordSize: 16, Fixture: 0,
			Date: 1_700_000_000, Expires: 1_700_003_600, ValidityURL: "https://a.example/v", CertURL: "https://c.example/c",
			ResHeaders: []gen.HeaderKV{{Name: "Content-Type", Values: []string{"text/html"}}, {Name: "X-A", Values: []string{"1"}}, {Name: "X-B", Values: []string{"2"}}}}
		e, _, err := sxgkit.Build(&s)
		if err != nil {
			panic(err)
		}
		var buf bytes.Buffer
		if err := e.Write(&buf); err != nil {
			panic(err)
		}
		sh.sxgFile = buf.Bytes()
		sh.exchange, err = signedexchange.ReadExchange(bytes.NewReader(sh.sxgFile))
		if err != nil {
			panic(err)
		}
		sh.fetch = sxgkit.Fetcher(0)
		sh.verifyAt = 1_700_000_100
		sh.payload = s.Payload()

		f := gen.Fixtures()[0]
		b := &bundle.Bundle{Version: bversion.VersionB2}
		cc, _ := certurl.NewCertChain(f.Chain, []byte("ocsp"), nil)
		sg, err := signature.NewSigner(b.Version, cc, f.Key, mustURL("https://a.example/v"), time.Unix(1_700_000_000, 0), time.Hour)
		if err != nil {
			panic(err)
		}
		for i := 0; i < 3; i++ {
			ex := &bundle.Exchange{Request: bundle.Request{URL: mustURL(fmt.Sprintf("https://a.example/%d", i))},
				Response: bundle.Response{Status: 200, Header: map[string][]string{"Content-Type": {"text/plain"}, "X-K": {"v"}}, Body: gen.Filler(50+i, uint64(i))}}
			id, _ := ex.AddPayloadIntegrity(b.Version, 16)
			sg.AddExchange(ex, id)
			b.Exchanges = append(b.Exchanges, ex)
		}
		b.Signatures, _ = sg.UpdateSignatures(nil)
		var bb bytes.Buffer
		if _, err := b.WriteTo(&bb); err != nil {
			panic(err)
		}
		sh.bundleRaw = bb.Bytes()
		sh.bundle, err = bundle.Read(bytes.NewReader(sh.bundleRaw))
		if err != nil {
			panic(err)
		}
	})
	return &sh
}

// sharedOps are read-only uses of the shared parsed objects; each returns bytes to compare.
var sharedOps = []struct {
	name string
	f    func(s *shared) ([]byte, error)
}{
	{"shared Exchange.Write", func(s *shared) ([]byte, error) {
		var buf bytes.Buffer
		err := s.exchange.Write(&buf)
		return buf.Bytes(), err
	}},
	{"shared Exchange.Verify", func(s *shared) ([]byte, error) {
		p, ok := sxgkit.Verify(s.exchange, s.verifyAt, 0, s.fetch)
		if !ok {
			return nil, fmt.Errorf("shared exchange does not verify")
		}
		return p, nil
	}},
	{"shared ReadExchange", func(s *shared) ([]byte, error) {
		e, err := signedexchange.ReadExchange(bytes.NewReader(s.sxgFile))
		if err != nil {
			return nil, err
		}
		var buf bytes.Buffer
		err = e.DumpExchangeHeaders(&buf)
		return buf.Bytes(), err
	}},
	{"shared Bundle.WriteTo", func(s *shared) ([]byte, error) {
		var buf bytes.Buffer
		_, err := s.bundle.WriteTo(&buf)
		return buf.Bytes(), err
	}},
	{"shared bundle verify", func(s *shared) ([]byte, error) {
		v, err := signature.NewVerifier(s.bundle.Signatures, time.Unix(1_700_000_100, 0), s.bundle.Version)
		if err != nil {
			return nil, err
		}
		var out []byte
		for _, e := range s.bundle.Exchanges {
			res, err := v.VerifyExchange(e)
			if err != nil || res == nil {
				return nil, fmt.Errorf("shared bundle exchange does not verify: %v", err)
			}
			out = append(out, res.VerifiedPayload...)
		}
		return out, nil
	}},
	{"shared bundle.Read", func(s *shared) ([]byte, error) {
		b, err := bundle.Read(bytes.NewReader(s.bundleRaw))
		if err != nil {
			return nil, err
		}
		var buf bytes.Buffer
		_, err = b.WriteTo(&buf)
		return buf.Bytes(), err
	}},
	{"version constants", func(s *shared) ([]byte, error) {
		var out []byte
		for _, v := range bversion.AllVersions {
			out = append(out, v.HeaderMagicBytes()...)
		}
		return out, nil
	}},
	{"stateful header tables", func(s *shared) ([]byte, error) {
		out := []byte{}
		for _, n := range []string{"Set-Cookie", "X-Harmless", "Authorization", "Trailer"} {
			out = append(out, fmt.Sprint(signedexchange.IsUncachedHeader(n), signedexchange.IsStatefulRequestHeader(n))...)
		}
		return out, nil
	}},
	{"shared key GetWebBundleId", func(s *shared) ([]byte, error) {
		return []byte(webbundleid.GetWebBundleId(sharedPub)), nil
	}},
}

var sharedPub = func() ed25519.PublicKey { p, _ := gen.Ed25519FromSeed([]byte("shared")); return p }()

var concProp = vh.Define("C18", "concurrent", func(c ConcCase, r *vh.R) {
	s := sharedInputs()
	objs := make([]*built, len(c.Pool))
	for i := range c.Pool {
		objs[i] = build(&c.Pool[i], uint64(i)*131)
	}
	type op struct {
		name string
		f    func() ([]byte, error)
	}
	resolve := func(call int) op {
		nshared := len(sharedOps)
		k := call % (len(objs)*16 + nshared*4)
		if k >= len(objs)*16 {
			so := sharedOps[(k-len(objs)*16)%nshared]
			return op{so.name, func() ([]byte, error) { return so.f(s) }}
		}
		oi := k / 16
		ns := names(objs[oi].serializers)
		name := ns[(k%16)%len(ns)]
		return op{fmt.Sprintf("%s on shared object %d", name, oi), objs[oi].serializers[name]}
	}
	// sequential baseline
	baseline := map[string][]byte{}
	for _, plan := range c.Plan {
		for _, call := range plan {
			o := resolve(call)
			if _, ok := baseline[o.name]; ok {
				continue
			}
			out, err := o.f()
			if err != nil {
				r.Failf("serializer-error", "sequential baseline: %s failed: %v", o.name, err)
				return
			}
			baseline[o.name] = append([]byte{}, out...)
		}
	}
	var wg sync.WaitGroup
	gates := make([]chan struct{}, len(c.Plan))
	errs := make([]string, len(c.Plan))
	for g := range c.Plan {
		gates[g] = make(chan struct{})
		gate := gates[g]
		wg.Add(1)
		go func(g int) {
			defer wg.Done()
			defer func() {
				if e := recover(); e != nil {
					errs[g] = fmt.Sprintf("goroutine %d panicked: %v", g, e)
				}
			}()
			<-gate
			for step, call := range c.Plan[g] {
				o := resolve(call)
				out, err := o.f()
				if err != nil {
					errs[g] = fmt.Sprintf("goroutine %d step %d: %s failed under concurrency: %v", g, step, o.name, err)
					return
				}
				if !bytes.Equal(out, baseline[o.name]) {
					errs[g] = fmt.Sprintf("goroutine %d step %d: %s returned bytes that differ from the sequential baseline (first difference at %d)", g, step, o.name, firstDiff(out, baseline[o.name]))
					return
				}
			}
		}(g)
	}
	released := make([]bool, len(gates))
	for _, g := range c.Start {
		if g >= 0 && g < len(gates) && !released[g] {
			close(gates[g])
			released[g] = true
		}
	}
	for g := range gates {
		if !released[g] {
			close(gates[g])
		}
	}
	wg.Wait()
	for _, e := range errs {
		if e != "" {
			r.Failf("not-pure-concurrent", "%s\nhistory: %+v", e, c.Plan)
			return
		}
	}
	r.NT()
	r.Classf("goroutines-%d", len(c.Plan))
})

func TestPropConcurrent(t *testing.T) {
	concProp.Rapid(t, func(t *rapid.T) ConcCase {
		c := ConcCase{Goroutines: rapid.SampledFrom([]int{8, 12, 16}).Draw(t, "n")}
		for i := rapid.IntRange(1, 3).Draw(t, "pool"); i > 0; i-- {
			c.Pool = append(c.Pool, genInput(t))
		}
		for g := 0; g < c.Goroutines; g++ {
			c.Plan = append(c.Plan, rapid.SliceOfN(rapid.IntRange(0, 1<<12), 3, 10).Draw(t, "plan"))
		}
		idx := make([]int, c.Goroutines)
		for i := range idx {
			idx[i] = i
		}
		c.Start = rapid.Permutation(idx).Draw(t, "start")
		return c
	})
}

// ---------------------------------------------------------------------------------------
// (d) first use: in a FRESH process (own run spec) the very first calls into every package
// happen concurrently — this is what exposes lazily initialised package-level state.

type FirstUseCase struct {
	Goroutines int `json:"goroutines"`
}

func firstUsePipeline() ([]byte, error) {
	var out []byte
	// header tables, version constants
	for _, n := range []string{"Set-Cookie", "X-Harmless", "Authorization", "Trailer", "keep-alive"} {
		out = append(out, fmt.Sprint(signedexchange.IsUncachedHeader(n), signedexchange.IsStatefulRequestHeader(n))...)
	}
	for _, v := range bversion.AllVersions {
		out = append(out, v.HeaderMagicBytes()...)
	}
	// signed exchange: sign (mock), write, read, dump
	for _, ver := range []string{"1b1", "1b2", "1b3"} {
		s := sxgkit.Spec{Version: ver, URL: "https://a.example/x", Method: "GET", Status: 200, PayloadLen: 60, PayloadTag: 2, RecordSize: 16, Fixture: 0, Mock: true,
			Date: 1_700_000_000, Expires: 1_700_003_600, ValidityURL: "https://a.example/v", CertURL: "https://c.example/c",
			ResHeaders: []gen.HeaderKV{{Name: "Content-Type", Values: []string{"text/html"}}, {Name: "X-A", Values: []string{"1"}}, {Name: "b", Values: []string{"2"}}}}
		e, _, err := sxgkit.Build(&s)
		if err != nil {
			return nil, err
		}
		var buf bytes.Buffer
		if err := e.Write(&buf); err != nil {
			return nil, err
		}
		e2, err := signedexchange.ReadExchange(bytes.NewReader(buf.Bytes()))
		if err != nil {
			return nil, err
		}
		sxgkit.Verify(e2, 1_700_000_100, 0, sxgkit.Fetcher(0)) // mock signature: rejected, but exercises the verifier
		out = append(out, buf.Bytes()...)
	}
	// real signature through the verifier
	{
		s := sxgkit.Spec{Version: "1b3", URL: "https://a.example/y", Method: "GET", Status: 200, PayloadLen: 10, PayloadTag: 2, RecordSize: 16, Fixture: 0,
			Date: 1_700_000_000, Expires: 1_700_003_600, ValidityURL: "https://a.example/v", CertURL: "https://c.example/c",
			ResHeaders: []gen.HeaderKV{{Name: "Content-Type", Values: []string{"text/html"}}}}
		e, _, err := sxgkit.Build(&s)
		if err != nil {
			return nil, err
		}
		p, ok := sxgkit.Verify(e, 1_700_000_100, 0, sxgkit.Fetcher(0))
		if !ok {
			return nil, fmt.Errorf("freshly signed exchange does not verify on first use")
		}
		out = append(out, p...)
	}
	// bundle write/read, structured headers, MI, cert chain, integrity block, bundle id
	bs := bundlekit.Spec{Version: "b1", Primary: "https://a.example/", Exchanges: []bundlekit.ExSpec{{URL: "https://a.example/", Status: 200, BodyLen: 30, BodyTag: 1,
		Headers: []gen.HeaderKV{{Name: "Content-Type", Values: []string{"text/plain"}}, {Name: "X-Z", Values: []string{"z"}}}}}}
	var bb bytes.Buffer
	if _, err := bundlekit.Build(&bs).WriteTo(&bb); err != nil {
		return nil, err
	}
	if _, err := bundle.Read(bytes.NewReader(bb.Bytes())); err != nil {
		return nil, err
	}
	out = append(out, bb.Bytes()...)
	pl, err := structuredheader.ParseParameterisedList(`label;sig=*AAAA*;date=1;a="x"`)
	if err != nil {
		return nil, err
	}
	str, err := pl.String()
	if err != nil {
		return nil, err
	}
	out = append(out, str...)
	var mb bytes.Buffer
	dg, err := mice.Draft03Encoding.Encode(&mb, gen.Filler(50, 3), 16)
	if err != nil {
		return nil, err
	}
	out = append(append(out, mb.Bytes()...), dg...)
	out = append(out, sxgkit.ChainCBOR(1)...)
	ib := &integrityblock.IntegrityBlock{Magic: integrityblock.IntegrityBlockMagic, Version: integrityblock.VersionB1}
	blk, err := ib.CborBytes()
	if err != nil {
		return nil, err
	}
	out = append(out, blk...)
	out = append(out, webbundleid.GetWebBundleId(sharedPub)...)
	return out, nil
}

var firstUseProp = vh.Define("C18", "first-use", func(c FirstUseCase, r *vh.R) {
	gen.Fixtures() // harness-side fixtures only (crypto/x509), nothing from the repository
	outs := make([][]byte, c.Goroutines)
	errs := make([]error, c.Goroutines)
	var wg sync.WaitGroup
	start := make(chan struct{})
	for g := 0; g < c.Goroutines; g++ {
		wg.Add(1)
		go func(g int) {
			defer wg.Done()
			defer func() {
				if e := recover(); e != nil {
					errs[g] = fmt.Errorf("panic: %v", e)
				}
			}()
			<-start
			outs[g], errs[g] = firstUsePipeline()
		}(g)
	}
	close(start)
	wg.Wait()
	for g := range outs {
		if errs[g] != nil {
			r.Failf("first-use-error", "goroutine %d: %v", g, errs[g])
			return
		}
		if !bytes.Equal(outs[g], outs[0]) {
			r.Failf("not-pure-concurrent", "goroutine %d produced different bytes than goroutine 0 on first concurrent use (first difference at %d)", g, firstDiff(outs[g], outs[0]))
			return
		}
	}
	r.NT()
})

func TestFirstUseConcurrent(t *testing.T) {
	// the first evaluation in this process is the interesting one; two more with other sizes
	for _, n := range []int{16, 8, 32} {
		if !firstUseProp.One(t, FirstUseCase{Goroutines: n}) {
			return
		}
	}
}

// ---------------------------------------------------------------------------------------
// (e) mutation histories: a serializer's output depends on the object's CURRENT fields only,
// never on the calls made earlier on the same object (hidden caches / snapshots).

type Edit struct {
	Kind  string `json:"kind"` // hdr-set hdr-add hdr-del status uri payload method
	Name  string `json:"name,omitempty"`
	Value string `json:"value,omitempty"`
	N     int    `json:"n,omitempty"`
}

type MutCase struct {
	Sxg   sxgkit.Spec `json:"sxg"`
	Edits []Edit      `json:"edits"`
	// WriteBetween: serialise the live object after every edit (so a cache filled by one call can
	// go stale before the next), not only at the end
	WriteBetween bool `json:"write_between"`
}

func cloneHeader(h map[string][]string) map[string][]string {
	out := make(map[string][]string, len(h))
	for k, v := range h {
		out[k] = append([]string{}, v...)
	}
	return out
}

func sxgOutputs(e *signedexchange.Exchange) map[string]string {
	out := map[string]string{}
	var wb bytes.Buffer
	if err := e.Write(&wb); err != nil {
		out["Write"] = "error: " + err.Error()
	} else {
		out["Write"] = wb.String()
	}
	var hb bytes.Buffer
	if err := e.DumpExchangeHeaders(&hb); err != nil {
		out["DumpExchangeHeaders"] = "error: " + err.Error()
	} else {
		out["DumpExchangeHeaders"] = hb.String()
	}
	if hi, err := e.ComputeHeaderIntegrity(); err != nil {
		out["ComputeHeaderIntegrity"] = "error: " + err.Error()
	} else {
		out["ComputeHeaderIntegrity"] = hi
	}
	return out
}

var mutProp = vh.Define("C18", "mutation-history", func(c MutCase, r *vh.R) {
	s := c.Sxg
	s.Mock = true
	live, _, err := sxgkit.Build(&s)
	if err != nil {
		r.Skip = true
		return
	}
	compare := func(step int) bool {
		fresh := signedexchange.NewExchange(live.Version, live.RequestURI, live.RequestMethod, cloneHeader(live.RequestHeaders), live.ResponseStatus, cloneHeader(live.ResponseHeaders), append([]byte{}, live.Payload...))
		fresh.SignatureHeaderValue = live.SignatureHeaderValue
		a, b := sxgOutputs(live), sxgOutputs(fresh)
		for k := range a {
			if a[k] != b[k] {
				r.Failf("history-dependent", "after edit %d (%+v) %s of the edited object differs from %s of a fresh object with identical fields (first difference at %d of %d/%d)", step, c.Edits[:step], k, k, firstDiff([]byte(a[k]), []byte(b[k])), len(a[k]), len(b[k]))
				return false
			}
		}
		return true
	}
	if !compare(0) {
		return
	}
	for i, ed := range c.Edits {
		switch ed.Kind {
		case "hdr-set":
			live.ResponseHeaders.Set(ed.Name, ed.Value)
		case "hdr-add":
			live.ResponseHeaders.Add(ed.Name, ed.Value)
		case "hdr-del":
			live.ResponseHeaders.Del(ed.Name)
		case "status":
			live.ResponseStatus = 200 + ed.N%300
		case "uri":
			live.RequestURI = live.RequestURI + ed.Value
		case "payload":
			live.Payload = append(append([]byte{}, live.Payload...), byte(ed.N))
		case "method":
			live.RequestMethod = ed.Value
		case "reqhdr-set":
			if live.RequestHeaders == nil {
				live.RequestHeaders = map[string][]string{}
			}
			live.RequestHeaders.Set(ed.Name, ed.Value)
		}
		r.Class("edit:" + ed.Kind)
		if c.WriteBetween || i == len(c.Edits)-1 {
			if !compare(i + 1) {
				return
			}
		}
	}
	if len(c.Edits) > 0 {
		r.NT()
	}
})

func TestPropMutationHistory(t *testing.T) {
	mutProp.Rapid(t, func(t *rapid.T) MutCase {
		s := sxgkit.GenSpec(t)
		if s.PayloadLen > 500 {
			s.PayloadLen %= 500
		}
		c := MutCase{Sxg: *s, WriteBetween: rapid.Bool().Draw(t, "between")}
		for i := rapid.IntRange(1, 5).Draw(t, "nedits"); i > 0; i-- {
			c.Edits = append(c.Edits, Edit{
				Kind:  rapid.SampledFrom([]string{"hdr-set", "hdr-set", "hdr-add", "hdr-del", "status", "uri", "payload", "method", "reqhdr-set"}).Draw(t, "ekind"),
				Name:  rapid.SampledFrom([]string{"X-New", "Content-Type", "x-one", "Vary", "Link"}).Draw(t, "ename"),
				Value: rapid.SampledFrom([]string{"v", "", "text/plain", "a,b", "x y"}).Draw(t, "evalue"),
				N:     rapid.IntRange(0, 1000).Draw(t, "en"),
			})
		}
		return c
	})
}

// ---------------------------------------------------------------------------------------
// (f) shared certificate chains: several bundles are signed with ONE CertChain value (then each
// counter-signed by its own second authority). Every bundle's bytes, once recorded, must stay
// what they were while the other bundles are signed — sequentially and from goroutines.

type SharedChainCase struct {
	ChainLen   int   `json:"chain_len"` // certificates in the shared chain (1..4); 3 gives len 3 / cap 4 when built by NewCertChain
	Second     []int `json:"second"`    // per bundle: fixture of the counter-signing authority
	Version    string `json:"version"`
	Concurrent bool  `json:"concurrent"`
}

var sharedChainProp = vh.Define("C18", "shared-chain", func(c SharedChainCase, r *vh.R) {
	f0 := gen.Fixtures()[0]
	certs := []*x509.Certificate{f0.Leaf, gen.CA(), gen.CA(), gen.CA()}[:c.ChainLen]
	shared, err := certurl.NewCertChain(certs, []byte("ocsp"), nil)
	if err != nil {
		panic(err)
	}
	sharedDER := make([][]byte, len(shared))
	for i, ac := range shared {
		sharedDER[i] = ac.Cert.Raw
	}
	ver, _ := bversion.Parse(c.Version)
	type signed struct {
		b     *bundle.Bundle
		bytes []byte
		want  [][]byte
	}
	outs := make([]*signed, len(c.Second))
	signOne := func(i int) error {
		b := &bundle.Bundle{Version: ver}
		if c.Version == "b1" {
			b.PrimaryURL = mustURL("https://a.example/0")
		}
		ex := &bundle.Exchange{Request: bundle.Request{URL: mustURL("https://a.example/0")},
			Response: bundle.Response{Status: 200, Header: map[string][]string{"Content-Type": {"text/plain"}}, Body: gen.Filler(40, uint64(i))}}
		b.Exchanges = []*bundle.Exchange{ex}
		s1, err := signature.NewSigner(ver, shared, f0.Key, mustURL("https://a.example/v"), time.Unix(1_700_000_000, 0), time.Hour)
		if err != nil {
			return err
		}
		id, err := ex.AddPayloadIntegrity(ver, 16)
		if err != nil {
			return err
		}
		if err := s1.AddExchange(ex, id); err != nil {
			return err
		}
		if b.Signatures, err = s1.UpdateSignatures(nil); err != nil {
			return err
		}
		f2 := gen.Fixtures()[c.Second[i]]
		own, _ := certurl.NewCertChain(f2.Chain[:1], []byte("ocsp2"), nil)
		s2, err := signature.NewSigner(ver, own, f2.Key, mustURL("https://a.example/v2"), time.Unix(1_700_000_000, 0), time.Hour)
		if err != nil {
			return err
		}
		if f2.Leaf.VerifyHostname("a.example") == nil {
			if err := s2.AddExchange(ex, id); err != nil {
				return err
			}
		}
		if b.Signatures, err = s2.UpdateSignatures(b.Signatures); err != nil {
			return err
		}
		var buf bytes.Buffer
		if _, err := b.WriteTo(&buf); err != nil {
			return err
		}
		outs[i] = &signed{b: b, bytes: append([]byte{}, buf.Bytes()...), want: append(append([][]byte{}, sharedDER...), f2.Leaf.Raw)}
		return nil
	}
	errs := make([]error, len(c.Second))
	if c.Concurrent {
		var wg sync.WaitGroup
		for i := range c.Second {
			wg.Add(1)
			go func(i int) { defer wg.Done(); errs[i] = signOne(i) }(i)
		}
		wg.Wait()
		r.Class("concurrent")
	} else {
		for i := range c.Second {
			errs[i] = signOne(i)
		}
		r.Class("sequential")
	}
	for i, e := range errs {
		if e != nil {
			r.Failf("sign-error", "bundle %d: %v", i, e)
			return
		}
	}
	// judged only now, after every bundle has been signed
	for i, o := range outs {
		var buf bytes.Buffer
		if _, err := o.b.WriteTo(&buf); err != nil {
			r.Failf("serializer-error", "bundle %d: %v", i, err)
			return
		}
		if !bytes.Equal(buf.Bytes(), o.bytes) {
			r.Failf("not-pure-shared-input", "bundle %d serialises differently after OTHER bundles were signed with the same certificate chain value (first difference at %d): signing wrote into shared state", i, firstDiff(buf.Bytes(), o.bytes))
			return
		}
		// How the authorities are laid out (all chain elements in order, or repeated certificates
		// listed once) is the signer's business; what must hold is that every authority is a
		// certificate this bundle's OWN signers supplied and that each vouched subset points at
		// its own signer's leaf.
		for j, ac := range o.b.Signatures.Authorities {
			own := false
			for _, w := range o.want {
				own = own || bytes.Equal(ac.Cert.Raw, w)
			}
			if !own {
				r.Failf("not-pure-shared-input", "bundle %d authority %d is not a certificate its own signers supplied (another bundle's signer overwrote it through the shared chain)", i, j)
				return
			}
		}
		// ... and it still verifies (C06: "stays true ... for any sequence of signers"): the exchange is
		// covered by the shared chain's leaf, and every vouched subset's signature checks out
		if ver, verr := signature.NewVerifier(o.b.Signatures, time.Unix(1_700_000_100, 0), o.b.Version); verr != nil {
			r.Failf("no-longer-verifies", "bundle %d verified when it was signed, but after OTHER bundles were signed with the same certificate chain value NewVerifier fails: %v", i, verr)
			return
		} else if res, xerr := ver.VerifyExchange(o.b.Exchanges[0]); xerr != nil || res == nil {
			r.Failf("no-longer-verifies", "bundle %d: after other bundles were signed with the same certificate chain value its exchange no longer verifies (result %v, error %v)", i, res, xerr)
			return
		}
		leaves := [][]byte{sharedDER[0], o.want[len(o.want)-1]}
		for k, vs := range o.b.Signatures.VouchedSubsets {
			if k >= len(leaves) || vs.Authority >= uint64(len(o.b.Signatures.Authorities)) || !bytes.Equal(o.b.Signatures.Authorities[vs.Authority].Cert.Raw, leaves[k]) {
				r.Failf("not-pure-shared-input", "bundle %d: vouched subset %d does not point at its own signer's leaf certificate", i, k)
				return
			}
		}
	}
	if len(shared) != c.ChainLen {
		r.Failf("shared-input-modified", "the shared chain changed length")
		return
	}
	for i, ac := range shared {
		if !bytes.Equal(ac.Cert.Raw, sharedDER[i]) {
			r.Failf("shared-input-modified", "certificate %d of the shared chain was replaced", i)
			return
		}
	}
	r.NT()
	r.Classf("chain-len-%d", c.ChainLen)
})

func TestPropSharedChain(t *testing.T) {
	sharedChainProp.Rapid(t, func(t *rapid.T) SharedChainCase {
		c := SharedChainCase{ChainLen: rapid.IntRange(1, 4).Draw(t, "chainlen"), Version: rapid.SampledFrom([]string{"b1", "b2"}).Draw(t, "version"), Concurrent: rapid.Bool().Draw(t, "concurrent")}
		for i := rapid.IntRange(2, 5).Draw(t, "nbundles"); i > 0; i-- {
			c.Second = append(c.Second, rapid.SampledFrom([]int{1, 2, 4, 5}).Draw(t, "second"))
		}
		return c
	})
}
