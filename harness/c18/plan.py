PLAN = dict(
    id="C18", pkg="c18", level="exploration",
    rule=("permutations: one logical input (bundle; signed exchange with the mock algorithm: Write, DumpExchangeHeaders, DumpSignedMessage, header integrity, Signature "
          "header; bundle SignedSubset; cert chain; integrity block and data-to-be-signed; parameterised list; list of lists; MI encoding; Web Bundle ID) built with 2-4 "
          "different insertion orders of its header / parameter / attribute / subset-hash maps and serialised 8 times each: all outputs byte-identical. history: a pool of "
          "2-4 objects and a drawn sequence of 4-24 interleaved serializer calls: every output equals the first output of that (object, serializer); about 40% of the drawn calls are FAILING or REFUSED calls on one of the objects (destination writer failing after k bytes, with and without a short write; a structured-header value or Signature header refused half-way), whose leftovers must not show in any later output (reference outputs are then taken before the first such call). concurrent (built with "
          "-race): 8-16 goroutines released in a drawn order, each running a drawn sequence of serializer and verifier calls over SHARED objects (generated objects, a parsed "
          "signed exchange with its certificate fetcher, a parsed signed bundle, version constants, the stateful-header tables, an Ed25519 key): outputs equal the sequential "
          "baseline and the race detector stays silent. mutation-history: a signed exchange object is edited step by step (headers, status, URL, payload, method) and after the edits Write / DumpExchangeHeaders / ComputeHeaderIntegrity of the edited object must equal those of a fresh object with identical fields (no hidden caches). shared-chain: 2-5 bundles are signed with ONE certificate chain value (1-4 certificates) and counter-signed by their own second authority, sequentially or from goroutines (race build); each bundle's bytes and authorities must stay what they were once all are signed, and the shared chain must be unchanged. first-use: in a fresh process (2-8 processes per run) the very first calls into every package are made by 16 goroutines at once (exposes lazily initialised package-level state). Non-trivial: >= 1 extra insertion order; >= 4 calls over >= 2 objects; every concurrent case."),
    assumptions=TRUSTED + ["each call that needs a Signer gets its own copy (Signers are mutable by design)", "keys and certificates are created the ordinary way (len == cap)",
                           "the harness does not own the Go scheduler: schedule coverage is what the race detector's happens-before analysis observes over the generated runs"],
    technique="rapid-generated insertion-order permutations, interleaved call histories and goroutine plans; byte-equality oracle; Go race detector",
    level_text=("Repetition and permutation attack map-order nondeterminism (each repetition re-rolls Go's randomised iteration), histories attack state leaking between calls, "
                "and the -race build attacks shared-state races; a race needing an interleaving the detector does not observe can escape (stated in DESIGN.md section 7)."),
    level_note=NOTE_BASE,
    runs=[
        dict(name="perm", run="^(TestPropPermutations|TestCorpus)$", checks=(600, 100000), shards=(1, 16), timeout=(300, 3600)),
        dict(name="mut", run="^TestPropMutationHistory$", checks=(500, 50000), shards=(1, 8), timeout=(300, 3600)),
        dict(name="hist", run="^(TestPropHistory|TestFixedHistories)$", checks=(400, 50000), shards=(1, 16), timeout=(300, 3600)),
        dict(name="firstuse", run="^TestFirstUseConcurrent$", shards=(2, 16), timeout=(300, 3600), race=True),
        dict(name="sharedchain", run="^TestPropSharedChain$", checks=(150, 5000), shards=(1, 4), timeout=(400, 3600), race=True),
        dict(name="conckind", run="^TestConcSameKind$", checks=(20, 1500), shards=(3, 8), timeout=(400, 3600), race=True),
        dict(name="concperm", run="^TestConcPermutations$", checks=(20, 1500), shards=(3, 8), timeout=(400, 3600), race=True),
        dict(name="conc", run="^TestPropConcurrent$", checks=(120, 15000), shards=(1, 4), timeout=(400, 3600), race=True),
    ],
    require=[("permutations", "kind:bundle"), ("permutations", "kind:sxg"), ("permutations", "kind:subset"), ("permutations", "kind:iblock"), ("permutations", "kind:sh-pl"),
             ("history", "kind:bundle"), ("concurrent", "goroutines-16")],
)
