// Package c03: bundle write -> read round trip preserves every exchange; variant sets come back
// in row-major order; incomplete/overlapping coverage is refused; re-serialising reaches a
// byte-identical fixpoint.
package c03

import (
	"bytes"
	"fmt"
	"net/url"
	"testing"

	"github.com/WICG/webpackage/go/bundle"
	"github.com/WICG/webpackage/go/verifh/bundlekit"
	"github.com/WICG/webpackage/go/verifh/gen"
	"github.com/WICG/webpackage/go/verifh/ref/refbundle"
	"github.com/WICG/webpackage/go/verifh/vh"
	"pgregory.net/rapid"
)

func init() { bundlekit.AllowCollide = true }

func TestMain(m *testing.M)   { vh.Main(m) }
func TestReplay(t *testing.T) { vh.Replay(t) }
func TestCorpus(t *testing.T) { vh.Corpus(t) }

type Case struct {
	Spec     bundlekit.Spec `json:"spec"`
	Cycles   int            `json:"cycles"` // extra write/read cycles (history)
	ReadMode int            `json:"read_mode,omitempty"`
}

func urlString(u *url.URL) string {
	if u == nil {
		return "<nil>"
	}
	return u.String()
}

func lenClass(n int) string {
	switch {
	case n < 24:
		return "0"
	case n < 256:
		return "1"
	case n < 65536:
		return "2"
	}
	return "4"
}

var prop = vh.Define("C03", "roundtrip", func(c Case, r *vh.R) {
	s := &c.Spec
	r.Class(s.Version)
	r.Classf("exchanges-%d", min(len(s.Exchanges), 9))
	b := bundlekit.Build(s)
	var buf bytes.Buffer
	_, werr := b.WriteTo(&buf)
	mustFail, why := s.WriteMustFail()
	if mustFail {
		r.Class("write-must-fail")
		r.NT()
		if werr == nil {
			r.Failf("write-accepted-invalid", "WriteTo succeeded although %s", why)
		}
		return
	}
	mayFail, _ := s.WriteMayFail()
	if mayFail {
		r.Class("write-may-fail")
	}
	if werr != nil {
		if mayFail {
			r.Class("write-refused-may-fail")
			return
		}
		r.Failf("write-error", "WriteTo failed on a valid bundle: %v", werr)
		return
	}
	x0 := append([]byte{}, buf.Bytes()...)
	if s.HasCollide() {
		// how a writer that accepts one field under two spellings folds them is not prescribed;
		// what it wrote must at least be a bundle its reader accepts
		r.Class("colliding-header-keys-accepted")
		if _, rerr := bundle.Read(bytes.NewReader(x0)); rerr != nil {
			r.Failf("written-unreadable", "WriteTo accepted a header map with one field under two spellings, but bundle.Read rejects the file: %v", rerr)
		}
		return
	}
	if c.ReadMode > 0 {
		r.Class("plain-reader")
	}
	rsrc := gen.Source(x0, c.ReadMode)
	rb, err := bundle.Read(rsrc)
	gen.Recycle(rsrc)
	if err != nil {
		r.Failf("read-error", "Read rejects the writer's output: %v", err)
		return
	}
	if v := compare(s, x0, rb); v != "" {
		r.Failf("roundtrip-differs", "%s", v)
		return
	}
	// history: x1 = W(R(x0)), x2 = W(R(x1)) ... must be a fixpoint from x1 on
	if s.HasMultiKey() {
		r.Class("fixpoint-skipped-multikey")
	} else {
		prev := x0
		cur := rb
		var xs [][]byte
		for i := 0; i < 1+c.Cycles; i++ {
			var wb bytes.Buffer
			if _, err := cur.WriteTo(&wb); err != nil {
				r.Failf("rewrite-error", "cycle %d: WriteTo of a bundle that was just read failed: %v", i+1, err)
				return
			}
			xs = append(xs, append([]byte{}, wb.Bytes()...))
			nsrc := gen.Source(wb.Bytes(), gen.SourceModeOf(wb.Bytes()))
			nb, err := bundle.Read(nsrc)
			gen.Recycle(nsrc)
			if err != nil {
				r.Failf("reread-error", "cycle %d: Read rejects re-serialised bundle: %v", i+1, err)
				return
			}
			if v := compare(s, wb.Bytes(), nb); v != "" {
				r.Failf("roundtrip-differs", "cycle %d: %s", i+1, v)
				return
			}
			prev = wb.Bytes()
			cur = nb
		}
		_ = prev
		for i := 1; i < len(xs); i++ {
			if !bytes.Equal(xs[i], xs[0]) {
				r.Failf("no-fixpoint", "re-serialisation %d differs from re-serialisation 1 (%d vs %d bytes, first difference at %d)", i+1, len(xs[i]), len(xs[0]), firstDiff(xs[i], xs[0]))
				return
			}
		}
		if len(xs) == 1 {
			// one more write to decide the fixpoint with a single cycle
			var wb bytes.Buffer
			if _, err := cur.WriteTo(&wb); err != nil {
				r.Failf("rewrite-error", "WriteTo of a re-read bundle failed: %v", err)
				return
			}
			if !bytes.Equal(wb.Bytes(), xs[0]) {
				r.Failf("no-fixpoint", "W(R(W(R(x)))) differs from W(R(x)) (first difference at %d)", firstDiff(wb.Bytes(), xs[0]))
				return
			}
		}
		r.Class("fixpoint-checked")
	}
	// the first read-back must still be what it was after all the later writes and reads
	// (nothing returned by the reader may alias state that later calls reuse)
	if v := compare(s, x0, rb); v != "" {
		r.Failf("result-changed-later", "the bundle read first changed while later bundles were written/read: %s", v)
		return
	}
	if len(s.Exchanges) >= 24 {
		r.Class("exchanges>=24")
	}
	boundary := false
	for i := range s.Exchanges {
		if cl := lenClass(s.Exchanges[i].BodyLen); cl != "0" {
			r.Class("body-head-w" + cl)
		}
		for _, d := range []int{23, 24, 255, 256, 65535, 65536} {
			if s.Exchanges[i].BodyLen == d {
				boundary = true
			}
		}
	}
	if len(s.Groups) > 0 {
		r.Class("variants")
		r.NT()
		if s.HasMultiKey() {
			r.Class("variants-multikey")
		}
	}
	if len(s.Exchanges) >= 2 && boundary {
		r.NT()
	}
	if s.Sigs != nil {
		r.Class("signatures")
	}
})

func firstDiff(a, b []byte) int {
	for i := 0; i < len(a) && i < len(b); i++ {
		if a[i] != b[i] {
			return i
		}
	}
	return min(len(a), len(b))
}

// compare checks a read-back bundle (and the bytes it was read from) against the model.
func compare(s *bundlekit.Spec, file []byte, rb *bundle.Bundle) string {
	if string(rb.Version) != s.Version {
		return fmt.Sprintf("version %q read back as %q", s.Version, rb.Version)
	}
	wantPrimary := "<nil>"
	if s.Primary != "" {
		u, _ := url.Parse(s.Primary)
		wantPrimary = u.String()
	}
	if urlString(rb.PrimaryURL) != wantPrimary {
		return fmt.Sprintf("primary URL %q read back as %q", wantPrimary, urlString(rb.PrimaryURL))
	}
	wantManifest := "<nil>"
	if s.Manifest != "" {
		u, _ := url.Parse(s.Manifest)
		wantManifest = u.String()
	}
	if urlString(rb.ManifestURL) != wantManifest {
		return fmt.Sprintf("manifest URL %q read back as %q", wantManifest, urlString(rb.ManifestURL))
	}
	// signatures
	if s.Sigs == nil {
		if rb.Signatures != nil {
			return "signatures section appeared"
		}
	} else {
		if rb.Signatures == nil {
			return "signatures section lost"
		}
		want := bundlekit.Build(&bundlekit.Spec{Version: s.Version, Primary: "https://a.example/", Sigs: s.Sigs}).Signatures
		if len(want.Authorities) != len(rb.Signatures.Authorities) || len(want.VouchedSubsets) != len(rb.Signatures.VouchedSubsets) {
			return fmt.Sprintf("signatures: %d authorities / %d subsets read back as %d / %d", len(want.Authorities), len(want.VouchedSubsets), len(rb.Signatures.Authorities), len(rb.Signatures.VouchedSubsets))
		}
		for i, a := range want.Authorities {
			g := rb.Signatures.Authorities[i]
			if !bytes.Equal(a.Cert.Raw, g.Cert.Raw) || !bytes.Equal(a.OCSPResponse, g.OCSPResponse) || !bytes.Equal(a.SCTList, g.SCTList) ||
				(a.OCSPResponse == nil) != (g.OCSPResponse == nil) || (a.SCTList == nil) != (g.SCTList == nil) {
				return fmt.Sprintf("authority %d differs after round trip", i)
			}
		}
		for i, v := range want.VouchedSubsets {
			g := rb.Signatures.VouchedSubsets[i]
			if v.Authority != g.Authority || !bytes.Equal(v.Sig, g.Sig) || !bytes.Equal(v.Signed, g.Signed) {
				return fmt.Sprintf("vouched subset %d differs after round trip (authority %d/%d)", i, v.Authority, g.Authority)
			}
		}
	}
	// exchanges: multiset keyed by URL, per-URL order = model order
	model := s.Model()
	got := map[string][]*bundle.Exchange{}
	var order []string
	for _, e := range rb.Exchanges {
		k := e.Request.URL.String()
		if _, ok := got[k]; !ok {
			order = append(order, k)
		}
		got[k] = append(got[k], e)
	}
	for k, want := range model {
		g := got[k]
		if len(g) != len(want) {
			return fmt.Sprintf("URL %q: %d responses written, %d read back", k, len(want), len(g))
		}
		for i := range want {
			if g[i].Response.Status != want[i].Status {
				return fmt.Sprintf("URL %q response %d: status %d read back as %d", k, i, want[i].Status, g[i].Response.Status)
			}
			if !gen.MapsEqual(gen.Normalize(g[i].Response.Header), want[i].Headers) {
				return fmt.Sprintf("URL %q response %d: headers %v read back as %v", k, i, want[i].Headers, gen.Normalize(g[i].Response.Header))
			}
			if !bytes.Equal(g[i].Response.Body, want[i].Body) {
				return fmt.Sprintf("URL %q response %d: body of %d bytes read back as %d bytes (first difference at %d)", k, i, len(want[i].Body), len(g[i].Response.Body), firstDiff(g[i].Response.Body, want[i].Body))
			}
		}
	}
	for k := range got {
		if _, ok := model[k]; !ok {
			return fmt.Sprintf("URL %q read back but never written", k)
		}
	}
	// URL identity, not assuming net/url is idempotent: raw index keys are exactly url.String() of
	// what was written, and the reader's URL is url.Parse(raw key).
	res := refbundle.Lenient(file)
	if res.Verdict != refbundle.Extract {
		return "independent parser cannot extract the file: " + res.Reason
	}
	rawSeen := map[string]bool{}
	for _, ie := range res.P.Index {
		rawSeen[ie.RawURL] = true
		if _, ok := model[ie.RawURL]; !ok {
			return fmt.Sprintf("index key %q is not the String() of any written URL", ie.RawURL)
		}
	}
	for k := range model {
		if !rawSeen[k] {
			return fmt.Sprintf("written URL %q has no index entry", k)
		}
	}
	return ""
}

func TestPropRoundTrip(t *testing.T) { prop.Rapid(t, genPropRoundTrip) }

// TestConcRoundTrip: batches of cases evaluated at the same time on separate goroutines (vh.Prop.Concurrent).
func TestConcRoundTrip(t *testing.T) { prop.Concurrent(t, genPropRoundTrip, 8, 3) }

func genPropRoundTrip(t *rapid.T) Case {
	s := bundlekit.GenWide(t)
	if rapid.IntRange(0, 5).Draw(t, "align") == 0 {
		// a section or the whole file ending exactly at / next to a multiple of a typical piece size
		bundlekit.AlignTo(s, rapid.SampledFrom([]string{"responses", "index+responses", "file"}).Draw(t, "aligntarget"),
			rapid.SampledFrom([]int{512, 4096, 32768, 65536}).Draw(t, "alignmod"), rapid.SampledFrom([]int{0, 0, -1, 1}).Draw(t, "alignoff"))
	}
	return Case{Spec: *s, Cycles: rapid.IntRange(0, 3).Draw(t, "cycles"), ReadMode: gen.DrawSourceMode(t, "readmode")}
}

// TestLargeBodies: bodies of 2^k and 2^k + 1 octets for k = 16..24 (quick) / ..26 (thorough), the
// sizes where width-, chunk- or cap-dependent code paths of a reader or writer change over (the
// quantifier's "large"; 2^32 is out of reach of memory). Each one goes through the same oracle
// (write, read through a plain or Len-capable reader, compare, re-serialise to the fixpoint).
func TestLargeBodies(t *testing.T) {
	maxK := vh.Scale(24, 26)
	n := 0
	for k := 16; k <= maxK; k++ {
		for _, d := range []int{0, 1} {
			if d == 0 && k < 20 && k != 16 {
				continue
			}
			for vi, ver := range []string{"b1", "b2"} {
				if k >= 22 && (k+d+vi)%2 == 0 {
					continue // the largest ones: one version per size, alternating
				}
				s := bundlekit.Spec{Version: ver, Primary: "https://a.example/large",
					Exchanges: []bundlekit.ExSpec{
						{URL: "https://a.example/large", Status: 200, Headers: []gen.HeaderKV{{Name: "Content-Type", Values: []string{"application/octet-stream"}}}, BodyLen: 1<<uint(k) + d, BodyTag: uint64(k)},
						{URL: "https://a.example/after", Status: 200, Headers: []gen.HeaderKV{{Name: "Content-Type", Values: []string{"text/plain"}}}, BodyLen: 5, BodyTag: 9},
					}}
				n++
				if !prop.One(t, Case{Spec: s, Cycles: 1, ReadMode: []int{0, 4096, 1 << 20}[(k+d)%3]}) {
					return
				}
			}
		}
	}
	vh.Exhaustive("roundtrip", fmt.Sprintf("large bodies: 2^k and 2^k+1 octets for k=16..%d, versions b1/b2 (alternating above 2^22): %d bundles", maxK, n))
}


// ---- dense shape sweeps: one size or count at a time (see bundlekit.ShapeSpec) ----------------

type ShapeCase struct {
	Shape    string `json:"shape"`
	N        int    `json:"n"`
	ReadMode int    `json:"read_mode"`
}

var shapeProp = vh.Define("C03", "shape-sweep", func(c ShapeCase, r *vh.R) {
	s, ok := bundlekit.ShapeSpec(c.Shape, c.N)
	if !ok {
		r.Skip = true
		return
	}
	r.Class("shape:" + c.Shape)
	sub := &vh.R{}
	prop.Check(Case{Spec: *s, Cycles: 1, ReadMode: c.ReadMode}, sub)
	r.V = sub.V
	r.NT()
})

func TestShapeSweep(t *testing.T) {
	modes := []int{0, gen.SourceBuffer, 7, 4096, gen.SourceBufio, gen.SourceSeekAdvanced, gen.SourceFile, gen.SourcePipe}
	cnt := 0
	for _, sh := range []string{"exchanges", "headers", "body-octets", "url-octets", "value-octets"} {
		top, extra := 1100, []int{2047, 2048, 2049, 4095, 4096, 4097, 10000, 65535, 65536, 65537}
		if sh == "exchanges" || sh == "headers" {
			top, extra = 300, []int{500, 1000, 1100, 2000}
		}
		var ns []int
		for n := 0; n <= top; n++ {
			ns = append(ns, n)
		}
		for i, n := range append(ns, extra...) {
			cnt++
			if !shapeProp.One(t, ShapeCase{Shape: sh, N: n, ReadMode: modes[i%len(modes)]}) {
				return
			}
		}
	}
	vh.Exhaustive("shape-sweep", fmt.Sprintf("exchanges per bundle and header fields per response 0..300 (+500, 1000, 1100, 2000), body / URL / header-value octets 0..1100 (+ around 2048, 4096, 65536, 10000), versions alternating, eight kinds of source: %d write/read/write/read round trips", cnt))
}
