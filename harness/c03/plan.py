PLAN = dict(
    id="C03", pkg="c03", level="exploration",
    rule=("roundtrip: generated bundle specs (b1/b2 x 0..8 exchanges x URL shapes incl. ports, escapes, queries, relative and non-https forms x header maps "
          "in any letter case / multi-valued x status 100..999 x body lengths around 23/24, 255/256, 65535/65536 and lengths that push the header CBOR or the "
          "whole response item over a head boundary x primary URL / manifest / signatures section with fixture certificates, OCSP/SCT blobs and arbitrary "
          "vouched subsets x b1 variant groups: 1-3 axes x 1-3 values, full cross product in shuffled caller order, optionally one representation dropped "
          "(incomplete), duplicated (overlap) or two keys merged into a multi-key representation) followed by 1..4 write/read cycles; plus fixed bundles with one body of 2^k / 2^k+1 octets for k=16..24 (thorough: ..26). Oracle: model map "
          "URL -> ordered responses (row-major order of the axes) == read-back multiset; version/primary/manifest/signatures field by field; raw index keys "
          "(independent parser) == url.String() of the written URLs; invalid variant coverage, duplicate URLs and b2 manifests refused at write time; "
          "x1=W(R(x0)), x2=W(R(x1)),... byte-identical (skipped and counted for multi-key Variant-Key bundles). Non-trivial: >=2 exchanges with a body "
          "length on a CBOR head boundary, or a variant group, or a spec the writer must refuse."),
    assumptions=TRUSTED + ["header values are ASCII field-content (the reader rejects non-ASCII by design)", "URLs carry no fragment or userinfo (rejected by design)",
                           "b1 bundles always have a primary URL (writer precondition, enforced by gen-bundle)"],
    technique="rapid-generated bundles and write/read histories against a model map; fixpoint (idempotence) relation; independent index parse",
    level_text=("Model-based random exploration: the generator also produces the model of what must come back (including row-major ordering of variant "
                "representations and which specs the writer must refuse), histories of write/read cycles decide the fixpoint, and the raw index keys are "
                "cross-checked by an independent parser so that URL identity does not rest on net/url being idempotent."),
    level_note=NOTE_BASE,
    runs=[
        dict(name="conc", run="^(TestConcRoundTrip)$", checks=(15, 1000), shards=(2, 8), timeout=(400, 3600), race=True),
        dict(name="rt", run="^(TestPropRoundTrip|TestCorpus)$", checks=(1500, 200000), shards=(2, 16), timeout=(300, 3600)),
        dict(name="shapes", run="^TestShapeSweep$", timeout=(300, 1800)),
        dict(name="large", run="^TestLargeBodies$", timeout=(300, 1800), mem_gb=6),
    ],
    require=[("roundtrip", "variants"), ("roundtrip", "variants-multikey"), ("roundtrip", "write-must-fail"), ("roundtrip", "signatures"),
             ("roundtrip", "fixpoint-checked"), ("roundtrip", "body-head-w4"), ("roundtrip", "b1"), ("roundtrip", "b2"), ("roundtrip", "exchanges>=24"), ("roundtrip", "plain-reader")],
)
