PLAN = dict(
    id="C14",
    pkg="c14", level="exploration",
    rule=("One case = (draft, record size rs, payload, NewDecoder limit, destination-buffer size sequence, kind of source reader: bytes.Reader or a plain io.Reader handing out at most 1/2/7/8/9/512/4096.. octets per Read). Oracle: Encode must not fail; its output "
          "octets and the returned digest string equal those of refmice (the drafts' recursive proof definition: proof(last)=SHA-256(rec||0), "
          "proof(i)=SHA-256(rec_i||proof(i+1)||1), stream = 8-octet rs, rec_0, proof(1), rec_1, ..., last record; draft-02/03 empty-payload special "
          "cases; base64url-unpadded vs padded standard base64); NewDecoder on that output with the returned digest, read through the given "
          "buffer sizes, yields exactly the payload and then io.EOF. Non-trivial: the payload spans >= 2 records, or is empty, or is an exact "
          "multiple of rs; distinct by fingerprint of the case."),
    assumptions=TRUSTED + ["SHA-256 from the Go standard library is shared by the code under test and the reference",
                           "a Read may return (0, nil) for a non-empty buffer at most 4 times in a row; more is reported as no-progress"],
    runs=[
        dict(name="exh", run="^(TestExhaustive|TestDoors|TestCorpus)$", timeout=(300, 3600)),
        dict(name="rapid", run="^TestPropRoundTrip$", checks=(10000, 500000), shards=(2, 16), timeout=(300, 3600)),
        dict(name="conc", run="^TestConcRoundTrip$", checks=(150, 5000), shards=(1, 4), timeout=(300, 3600), race=True),
    ],
    technique="exhaustive enumeration of small record sizes x all payload lengths 0..3rs+2 + rapid-generated record sizes 1..16384 / lengths around multiples up to 256 KiB, differential against an independent recursive MICE implementation, then decode round trip",
    level_text=("Exhaustive over drafts x small record sizes x every payload length up to three records plus two octets (all residues, exact multiples, "
                "empty) x destination-buffer patterns, plus random record sizes up to the 16384 limit with lengths at k*rs-1, k*rs, k*rs+1 up to 256 KiB. "
                "The oracle is an independent implementation of the drafts' recursive definition checked against the drafts' own example vectors. "
                "Exploration level: payload contents beyond PRNG filler are irrelevant to a hash chain; the length/record-size lattice is what is explored."),
    level_note=NOTE_BASE,
    require=[("exh", "empty"), ("exh", "exact-multiple"), ("exh", "multi-record"), ("exh", "single-record"), ("exh", "rs=1"), ("exh", "payload-with-spare-capacity"), ("rapid", "payload-with-spare-capacity"), ("exh", "source:first-read-shorter-than-size-field"), ("rapid", "source:plain-reader"),
             ("rapid", "exact-multiple"), ("rapid", "multi-record"), ("rapid", "rs>=16383"), ("rapid", "draft02"), ("rapid", "draft03")],
)
