package c14

import (
	"bytes"
	"fmt"
	"io"
	"math/rand"
	"testing"

	"github.com/WICG/webpackage/go/verifh/ref/refmice"
	"github.com/WICG/webpackage/go/verifh/vh"
)

// The digest header can also be produced WITHOUT Encode, from a top-level proof the caller already
// has (Encoding.FormatDigestHeader; the bundle signer and the tools name the header field and the
// content coding through DigestHeaderName / ContentEncoding). These doors must spell the header the
// way Encode does and the way the drafts do, and NewDecoder must take their output.
type DoorCase struct {
	Draft int   `json:"draft"`
	Proof vh.B  `json:"proof"` // any octets; a proof is 32 of them
	RS    int   `json:"rs"`
	Len   int   `json:"len"`
	Seed  int64 `json:"seed"`
}

var doorProp = vh.Define("C14", "doors", func(c DoorCase, r *vh.R) {
	enc, ok := encodingOf(c.Draft)
	if !ok || c.RS < 1 || c.RS > 16384 || c.Len > 1<<20 {
		r.Skip = true
		return
	}
	r.Classf("draft%02d", c.Draft)
	if got, want := enc.DigestHeaderName(), refmice.HeaderName(c.Draft); got != want {
		r.Failf("door-disagrees", "DigestHeaderName() = %q, the draft in use names the field %q", got, want)
		return
	}
	if got, want := enc.ContentEncoding(), refmice.Algorithm(c.Draft); got != want {
		r.Failf("door-disagrees", "ContentEncoding() = %q, want %q", got, want)
		return
	}
	if got, want := enc.FormatDigestHeader(c.Proof), refmice.Header(c.Draft, c.Proof); got != want {
		r.Failf("door-disagrees", "FormatDigestHeader(%x) = %q, the draft's spelling is %q", []byte(c.Proof), got, want)
		return
	}
	r.Classf("proof-len-%d", len(c.Proof))
	// the header made from the reference's top-level proof opens the stream Encode wrote
	p := filler(c.Seed, c.Len)
	var buf bytes.Buffer
	h, err := enc.Encode(&buf, p, c.RS)
	if err != nil {
		r.Failf("encode-error", "Encode: %v", err)
		return
	}
	hd := enc.FormatDigestHeader(refmice.Proof0(c.Draft, p, c.RS))
	if hd != h {
		r.Failf("door-disagrees", "FormatDigestHeader(top-level proof) = %q, Encode returned %q", hd, h)
		return
	}
	d, err := enc.NewDecoder(bytes.NewReader(buf.Bytes()), hd, uint64(c.RS))
	if err != nil {
		r.Failf("decode-error", "NewDecoder refuses the header made by FormatDigestHeader: %v", err)
		return
	}
	got, err := io.ReadAll(d)
	if err != nil || !bytes.Equal(got, p) {
		r.Failf("roundtrip", "decoding under the header made by FormatDigestHeader: %d octets, err %v, want the %d-octet payload", len(got), err, len(p))
		return
	}
	if c.Len > c.RS || len(c.Proof) != 32 {
		r.NT()
	}
})

func TestDoors(t *testing.T) {
	rng := rand.New(rand.NewSource(vh.Seed()))
	n := 0
	for _, draft := range []int{2, 3} {
		// proofs whose base64 differs between the alphabets and in padding: every length 0..40 with
		// patterned and random content (0xfb / 0xff give '-' '_' versus '+' '/')
		for l := 0; l <= 40; l++ {
			for _, fill := range []int{0x00, 0xff, 0xfb, 0x3e, -1} {
				p := make([]byte, l)
				for i := range p {
					p[i] = byte(fill)
				}
				if fill < 0 {
					rng.Read(p)
				}
				n++
				if !doorProp.One(t, DoorCase{Draft: draft, Proof: p, RS: 1 + n%9, Len: n % 40, Seed: int64(n)}) {
					return
				}
			}
		}
		for i := 0; i < vh.Scale(300, 20000); i++ {
			p := make([]byte, 32)
			rng.Read(p)
			n++
			if !doorProp.One(t, DoorCase{Draft: draft, Proof: p, RS: 1 + rng.Intn(64), Len: rng.Intn(300), Seed: int64(n)}) {
				return
			}
		}
	}
	vh.Count("doors", "door-cases", int64(n))
	_ = fmt.Sprint
}
