// Package c14: Merkle Integrity Content Encoding round-trips and matches the drafts'
// recursive definition (stream layout, digest header, empty-payload special cases).
package c14

import (
	"bufio"
	"bytes"
	"fmt"
	"io"
	"math/rand"
	"testing"

	"github.com/WICG/webpackage/go/signedexchange/mice"
	"github.com/WICG/webpackage/go/verifh/gen"
	"github.com/WICG/webpackage/go/verifh/ref/refmice"
	"github.com/WICG/webpackage/go/verifh/vh"
	"pgregory.net/rapid"
)

func TestMain(m *testing.M)   { vh.Main(m) }
func TestReplay(t *testing.T) { vh.Replay(t) }
func TestCorpus(t *testing.T) { vh.Corpus(t) }

// Case describes one encode/decode round trip. The payload is Len octets: the explicit
// prefix Payload followed by filler from a PRNG seeded with Seed (Seed 0: zero octets).
type Case struct {
	Draft   int    `json:"draft"` // 2 or 3
	RS      int    `json:"rs"`
	Len     int    `json:"len"`
	Payload vh.B   `json:"payload"`
	Seed    int64  `json:"seed"`
	MaxRS   uint64 `json:"max_rs"` // limit handed to NewDecoder
	Reads   []int  `json:"reads"`  // destination buffer sizes, cycled
	// Drain: after DrainAfter calls of Read with the sizes above, the REST of the payload is taken
	// the way library code takes it: "copy" = io.Copy (which prefers a WriteTo method of the
	// source if it has one), "readall" = io.ReadAll, "bufio" = through a small bufio.Reader and
	// io.Copy, "readfull" = io.ReadFull of exactly the remaining octets. "" = Read loop only.
	Drain      string `json:"drain,omitempty"`
	DrainAfter int    `json:"drain_after,omitempty"`
	// Src: how the encoded stream reaches the decoder (gen.Source): 0 = bytes.Reader, k > 0 = a
	// plain io.Reader that hands out at most k octets per Read (odd k: io.EOF together with the
	// last octets) - pipes, sockets and HTTP bodies deliver short reads, bytes.Reader never does.
	Src int `json:"src,omitempty"`
	// Spare: the payload slice has 2*rs+64 octets of capacity behind its length (filled with 0xA5).
	Spare bool `json:"spare,omitempty"`
}

func filler(seed int64, n int) []byte {
	out := make([]byte, n)
	if seed != 0 && n > 0 {
		rand.New(rand.NewSource(seed)).Read(out)
	}
	return out
}

func (c Case) payload() []byte {
	n := c.Len
	if n < len(c.Payload) {
		n = len(c.Payload)
	}
	out := filler(c.Seed, n)
	copy(out, c.Payload)
	return out
}

func encodingOf(draft int) (mice.Encoding, bool) {
	switch draft {
	case 2:
		return mice.Draft02Encoding, true
	case 3:
		return mice.Draft03Encoding, true
	}
	return "", false
}

func trunc(b []byte) []byte {
	if len(b) > 64 {
		return b[:64]
	}
	return b
}

func firstDiff(a, b []byte) int {
	n := len(a)
	if len(b) < n {
		n = len(b)
	}
	for i := 0; i < n; i++ {
		if a[i] != b[i] {
			return i
		}
	}
	return n
}

func check(c Case, r *vh.R) {
	enc, ok := encodingOf(c.Draft)
	if !ok || c.RS < 1 || c.RS > 1<<20 || c.Len > 1<<22 {
		r.Skip = true
		return
	}
	p := c.payload()
	rs := c.RS

	r.Classf("draft%02d", c.Draft)
	nrec := (len(p) + rs - 1) / rs
	switch {
	case len(p) == 0:
		r.Class("empty")
	case len(p)%rs == 0:
		r.Class("exact-multiple")
	}
	switch {
	case nrec >= 2:
		r.Class("multi-record")
	case nrec == 1:
		r.Class("single-record")
	}
	if nrec >= 2 || len(p) == 0 || len(p)%rs == 0 {
		r.NT()
	}
	switch {
	case rs == 1:
		r.Class("rs=1")
	case rs >= 16383:
		r.Class("rs>=16383")
	}

	// --- encode, compare with the reference
	// The payload is handed over as a slice with spare capacity behind its length (a prefix of a
	// larger array, as data[:n], append-grown slices, bytes.Buffer.Bytes() and io.ReadAll results
	// are): the octets behind len(p) are not payload and must be neither read nor written.
	spare := 0
	if c.Spare {
		spare = 2*rs + 64
		r.Class("payload-with-spare-capacity")
	}
	backing := make([]byte, len(p)+spare)
	for i := range backing {
		backing[i] = 0xA5
	}
	copy(backing, p)
	arg := backing[:len(p)]
	var buf bytes.Buffer
	digest, err := enc.Encode(&buf, arg, rs)
	if !bytes.Equal(backing[:len(p)], p) {
		r.Failf("input-modified", "%s.Encode(payload of %d octets, rs=%d) changed the caller's payload", enc, len(p), rs)
		return
	}
	for _, x := range backing[len(p):] {
		if x != 0xA5 {
			r.Failf("input-slice-overrun", "%s.Encode(payload of %d octets, rs=%d) wrote into the spare capacity behind the caller's payload slice", enc, len(p), rs)
			return
		}
	}
	if err != nil {
		r.Failf("encode-error", "%s.Encode(payload of %d octets, rs=%d) failed: %v", enc, len(p), rs, err)
		return
	}
	wantStream, wantDigest := refmice.Encode(c.Draft, p, rs)
	got := buf.Bytes()
	if !bytes.Equal(got, wantStream) {
		i := firstDiff(got, wantStream)
		r.Failf("stream-mismatch", "%s.Encode(payload of %d octets, rs=%d): stream is %d octets, the draft's definition gives %d; first difference at offset %d\n got  %x...\n want %x...",
			enc, len(p), rs, len(got), len(wantStream), i, trunc(got[min(i, len(got)):]), trunc(wantStream[min(i, len(wantStream)):]))
		return
	}
	if digest != wantDigest {
		r.Failf("digest-mismatch", "%s.Encode(payload of %d octets, rs=%d) returned digest %q, the draft's definition gives %q", enc, len(p), rs, digest, wantDigest)
		return
	}

	// --- decode what Encode produced with the digest it returned
	if c.Src > 0 {
		r.Class("source:plain-reader")
		if c.Src < 8 && len(got) >= 8 {
			r.Class("source:first-read-shorter-than-size-field")
		}
	}
	dsrc := gen.Source(got, c.Src)
	defer gen.Recycle(dsrc)
	dec, err := enc.NewDecoder(dsrc, digest, c.MaxRS)
	if uint64(rs) > c.MaxRS && len(got) > 0 {
		// outside the round-trip property (record size above the caller's limit); C15 covers it
		r.Class("max-below-rs")
		return
	}
	if err != nil {
		r.Failf("decode-reject", "%s.NewDecoder(own output for %d octets, rs=%d, digest %q, max %d) failed: %v", enc, len(p), rs, digest, c.MaxRS, err)
		return
	}
	sizes := make([]int, 0, 6)
	positive := false
	for _, s := range c.Reads {
		if len(sizes) == 6 {
			break
		}
		if s < 0 {
			s = 0
		}
		if s > 1<<20 {
			s = 1 << 20
		}
		positive = positive || s > 0
		sizes = append(sizes, s)
	}
	if !positive {
		sizes = append(sizes, rs)
	}
	var out []byte
	stalls := 0
	limit := 8*len(p) + 64
	for it := 0; ; it++ {
		if it > limit {
			r.Failf("no-progress", "decoder for %d octets (rs=%d) has not finished after %d reads (%d octets delivered)", len(p), rs, it, len(out))
			return
		}
		if c.Drain != "" && it >= c.DrainAfter {
			var sink bytes.Buffer
			var derr error
			switch c.Drain {
			case "copy":
				_, derr = io.Copy(&sink, dec)
			case "readall":
				var rest []byte
				rest, derr = io.ReadAll(dec)
				sink.Write(rest)
			case "bufio":
				_, derr = io.Copy(&sink, bufio.NewReaderSize(dec, 16))
			case "readfull":
				rest := make([]byte, len(p)-len(out))
				_, derr = io.ReadFull(dec, rest)
				sink.Write(rest)
				if derr == nil {
					if n, e2 := dec.Read(make([]byte, 8)); n != 0 || e2 != io.EOF {
						derr = fmt.Errorf("after the whole payload Read returned (%d, %v), want (0, EOF)", n, e2)
					}
				}
			default:
				r.Skip = true
				return
			}
			r.Class("drain:" + c.Drain)
			out = append(out, sink.Bytes()...)
			if derr != nil {
				r.Failf("decode-error", "%s rs=%d payload of %d octets: after %d Read calls (%d octets), draining the rest with %s failed: %v", enc, rs, len(p), it, len(out)-sink.Len(), c.Drain, derr)
				return
			}
			if !bytes.Equal(out, p) {
				r.Failf("roundtrip-value", "%s rs=%d payload of %d octets: %d Read calls delivered %d octets, then %s delivered %d more: together %d octets that are not the payload (octets lost or repeated between the two ways of reading)", enc, rs, len(p), it, len(out)-sink.Len(), c.Drain, sink.Len(), len(out))
				return
			}
			return
		}
		dst := make([]byte, sizes[it%len(sizes)])
		n, err := dec.Read(dst)
		if n < 0 || n > len(dst) {
			r.Failf("bad-count", "Read(dst of %d) returned n=%d", len(dst), n)
			return
		}
		out = append(out, dst[:n]...)
		if len(out) > len(p) || !bytes.Equal(out[len(out)-n:], p[len(out)-n:len(out)]) {
			r.Failf("roundtrip-value", "%s rs=%d payload of %d octets: decoder output diverges from the payload within output octets %d..%d", enc, rs, len(p), len(out)-n, len(out))
			return
		}
		if err == io.EOF {
			break
		}
		if err != nil {
			r.Failf("decode-error", "%s rs=%d payload of %d octets: Read failed after %d octets: %v", enc, rs, len(p), len(out), err)
			return
		}
		if n == 0 && len(dst) > 0 {
			stalls++
			if stalls > 4 {
				r.Failf("no-progress", "Read returned (0, nil) %d times in a row for non-empty destination buffers", stalls)
				return
			}
		} else if n > 0 {
			stalls = 0
		}
	}
	if len(out) != len(p) {
		r.Failf("roundtrip-short", "%s rs=%d: decoder reported EOF after %d of %d payload octets", enc, rs, len(out), len(p))
		return
	}
}

var exhProp = vh.Define("C14", "exh", check)
var rapidProp = vh.Define("C14", "rapid", check)

func readPatterns(rs int) [][]int {
	base := []int{1, rs - 1, rs, rs + 33, 65536}
	var out [][]int
	for s := 0; s < len(base); s++ {
		rot := append(append([]int{}, base[s:]...), base[:s]...)
		out = append(out, rot)
	}
	for _, b := range base {
		if b > 0 {
			out = append(out, []int{b})
		}
	}
	return out
}

func TestExhaustive(t *testing.T) {
	sizes := []int{1, 2, 3, 4, 5, 6, 7, 8, 16}
	if vh.Thorough() {
		sizes = append(sizes, 9, 10, 11, 12, 13, 14, 15, 17, 31, 32, 33, 34, 64)
	}
	fills := vh.Scale(2, 4)
	rng := rand.New(rand.NewSource(vh.Seed()))
	n := 0
	for _, draft := range []int{2, 3} {
		for _, rs := range sizes {
			for l := 0; l <= 3*rs+2; l++ {
				for f := 0; f < fills; f++ {
					p := make([]byte, l)
					rng.Read(p)
					if f == 1 {
						for i := range p { // octets that look like the domain-separation flags
							p[i] = byte(i & 1)
						}
					}
					for _, max := range []uint64{16384, uint64(rs)} {
						for _, pat := range readPatterns(rs) {
							n++
							src := []int{0, 1, 2, 7, 8, 9, 512}[n%7]
							if !exhProp.One(t, Case{Draft: draft, RS: rs, Len: l, Payload: p, MaxRS: max, Reads: pat, Src: src, Spare: n%2 == 0}) {
								return
							}
						}
					}
					// the rest drained the way library code does it, after 0..2 Read calls with a small buffer
					if f == 0 {
						for _, drain := range []string{"copy", "readall", "bufio", "readfull"} {
							for after := 0; after <= 2; after++ {
								for _, first := range []int{1, rs - 1, rs + 5} {
									if first < 1 || (after == 0 && first != 1) {
										continue
									}
									n++
									if !exhProp.One(t, Case{Draft: draft, RS: rs, Len: l, Payload: p, MaxRS: 16384, Reads: []int{first}, Drain: drain, DrainAfter: after, Src: []int{0, 1, 3, 33}[n%4], Spare: n%3 == 0}) {
										return
									}
								}
							}
						}
					}
				}
			}
		}
	}
	// very many tiny records (a number of records around 2^16 and 2^17: counts, not sizes, may be
	// what an implementation caps or stores in a narrow type)
	for _, draft := range []int{2, 3} {
		for _, rs := range []int{1, 2, 3} {
			for _, k := range []int{65535, 65536, 65537, 131072, 131073} {
				if !vh.Thorough() && k > 65537 && rs > 1 {
					continue
				}
				for _, d := range []int{0, 1} {
					l := k*rs + d
					p := make([]byte, l)
					rng.Read(p)
					n++
					if !exhProp.One(t, Case{Draft: draft, RS: rs, Len: l, Payload: p[:64], Seed: int64(k + rs), MaxRS: 16384, Reads: []int{7}, Drain: "readall", DrainAfter: 1}) {
						return
					}
				}
			}
		}
	}
	vh.Exhaustive("exh", fmt.Sprintf("drafts {02,03} x record size %v x every payload length 0..3*rs+2 x %d payload filling(s) from PRNG(seed) x NewDecoder limit {16384, rs} x %d destination-buffer patterns (rotations of 1,rs-1,rs,rs+33,65536 and each size alone): %d round trips",
		sizes, fills, len(readPatterns(2)), n))
}

func TestPropRoundTrip(t *testing.T) { rapidProp.Rapid(t, genRoundTrip) }

// TestConcRoundTrip: batches of 8 cases evaluated at the same time (see vh.Prop.Concurrent):
// encoders and decoders working on their own payloads must not influence each other.
func TestConcRoundTrip(t *testing.T) { rapidProp.Concurrent(t, genRoundTrip, 8, 3) }

func genRoundTrip(t *rapid.T) Case {
	{
		c := Case{Draft: rapid.SampledFrom([]int{2, 3}).Draw(t, "draft")}
		switch rapid.IntRange(0, 3).Draw(t, "rs-mode") {
		case 0:
			c.RS = rapid.SampledFrom([]int{1, 2, 16383, 16384}).Draw(t, "rs-edge")
		case 1:
			c.RS = rapid.IntRange(1, 64).Draw(t, "rs-small")
		case 2:
			c.RS = rapid.IntRange(1, 16384).Draw(t, "rs")
		default:
			c.RS = rapid.SampledFrom([]int{3, 31, 32, 33, 255, 256, 4096, 8192}).Draw(t, "rs-pow")
		}
		const maxLen = 256 << 10
		maxK := 4
		if rapid.IntRange(0, 19).Draw(t, "big") == 0 {
			maxK = maxLen / c.RS
			if maxK > 3000 { // bound the number of records (and hashes) of a single case
				maxK = 3000
			}
			if maxK < 4 {
				maxK = 4
			}
		}
		k := rapid.IntRange(0, maxK).Draw(t, "k")
		switch rapid.IntRange(0, 4).Draw(t, "len-mode") {
		case 0:
			c.Len = k * c.RS
		case 1:
			c.Len = k*c.RS - 1
		case 2:
			c.Len = k*c.RS + 1
		case 3:
			c.Len = k*c.RS + rapid.IntRange(0, c.RS).Draw(t, "residue")
		default:
			c.Len = rapid.SampledFrom([]int{0, 1, 2}).Draw(t, "tiny")
		}
		if c.Len < 0 {
			c.Len = 0
		}
		if c.Len > maxLen {
			c.Len = maxLen
		}
		if c.Len <= 48 && rapid.Bool().Draw(t, "explicit") {
			c.Payload = rapid.SliceOfN(rapid.Byte(), c.Len, c.Len).Draw(t, "payload")
		} else if rapid.IntRange(0, 9).Draw(t, "zeros") != 0 {
			c.Seed = rapid.Int64Range(1, 1<<40).Draw(t, "seed")
		}
		c.MaxRS = 16384
		if rapid.IntRange(0, 2).Draw(t, "tight-max") == 0 {
			c.MaxRS = uint64(c.RS)
		}
		sz := rapid.SampledFrom([]int{1, c.RS - 1, c.RS, c.RS + 33, 65536, 0, 7, 2*c.RS + 1})
		c.Reads = rapid.SliceOfN(sz, 1, 6).Draw(t, "reads")
		c.Src = gen.DrawSourceMode(t, "src")
		c.Spare = rapid.Bool().Draw(t, "spare")
		if c.Len > 20000 && c.Src > 0 && c.Src < 8 {
			c.Src = 4097
		}
		if c.Len > 20000 {
			// 1-octet reads of a large payload only cost time; keep at most one tiny size
			tiny := 0
			for i, s := range c.Reads {
				if s < 8 {
					tiny++
					if tiny > 1 {
						c.Reads[i] = c.RS
					}
				}
			}
		}
		return c
	}
}
