// Package c12: the CBOR decoder accepts only complete well-formed items of the requested
// major type, returns the RFC 8949 value and consumes exactly the item's bytes.
package c12

import (
	"bufio"
	"bytes"
	"fmt"
	"io"
	"strings"
	"testing"
	"unicode/utf8"

	"github.com/WICG/webpackage/go/internal/cbor"
	"github.com/WICG/webpackage/go/verifh/gen"
	"github.com/WICG/webpackage/go/verifh/ref/refcbor"
	"github.com/WICG/webpackage/go/verifh/vh"
	"pgregory.net/rapid"
)

func TestMain(m *testing.M)   { vh.Main(m) }
func TestReplay(t *testing.T) { vh.Replay(t) }
func TestCorpus(t *testing.T) { vh.Corpus(t) }

// posReader counts how many bytes were handed out.
type posReader struct {
	b   []byte
	pos int
	// chunk > 0 limits each Read to that many bytes (exercises short reads)
	chunk int
	// eofWithData: the final bytes are returned TOGETHER with io.EOF, as io.Reader allows
	// (compress/flate, chunked HTTP bodies, iotest.DataErrReader do this)
	eofWithData bool
}

func (r *posReader) Read(p []byte) (int, error) {
	if r.pos >= len(r.b) {
		return 0, io.EOF
	}
	n := len(p)
	if r.chunk > 0 && n > r.chunk {
		n = r.chunk
	}
	n = copy(p[:n], r.b[r.pos:])
	r.pos += n
	if r.eofWithData && r.pos >= len(r.b) && n > 0 {
		return n, io.EOF
	}
	return n, nil
}

var methods = []string{"uint", "array", "map", "bytes", "text"}

func methodMajor(m string) int {
	switch m {
	case "uint":
		return 0
	case "bytes":
		return 2
	case "text":
		return 3
	case "array":
		return 4
	case "map":
		return 5
	}
	panic(m)
}

type outcome struct {
	ok  bool
	num uint64
	str []byte
}

func call(dec *cbor.Decoder, m string) outcome {
	switch m {
	case "uint":
		n, err := dec.DecodeUint()
		return outcome{ok: err == nil, num: n}
	case "array":
		n, err := dec.DecodeArrayHeader()
		return outcome{ok: err == nil, num: n}
	case "map":
		n, err := dec.DecodeMapHeader()
		return outcome{ok: err == nil, num: n}
	case "bytes":
		b, err := dec.DecodeByteString()
		return outcome{ok: err == nil, str: b}
	case "text":
		s, err := dec.DecodeTextString()
		return outcome{ok: err == nil, str: []byte(s)}
	}
	panic(m)
}

// expected computes, from the RFC text, what a decode call for method m must do on b[off:].
// ok=false means "must be an error"; otherwise value and the number of bytes to consume.
func expected(b []byte, off int, m string) (ok bool, num uint64, str []byte, consumed int, why string) {
	major, _, arg, he, err := refcbor.Head(b, off)
	if err != nil {
		return false, 0, nil, 0, "head: " + err.Error()
	}
	if major != methodMajor(m) {
		return false, 0, nil, 0, fmt.Sprintf("major type %d requested %d", major, methodMajor(m))
	}
	switch m {
	case "uint", "array", "map":
		return true, arg, nil, he - off, ""
	}
	if arg > uint64(len(b)-he) {
		return false, 0, nil, 0, "content shorter than declared"
	}
	c := b[he : he+int(arg)]
	if m == "text" && !utf8.Valid(c) {
		return false, 0, nil, 0, "invalid UTF-8"
	}
	return true, 0, c, he - off + int(arg), ""
}

// ----------------------------------------------------------------------------- single call

// chunkBuffer selects a *bytes.Buffer as the source (see runCall).
const chunkBuffer = -100

// chunkSeekAdvanced / chunkBufio: a seekable reader positioned behind a preamble / a small bufio.Reader.
const (
	chunkSeekAdvanced = -101
	chunkBufio        = -102
)

type CallCase struct {
	Input  vh.B   `json:"input"`
	Method string `json:"method"`
	Chunk  int    `json:"chunk"`
}

// restOf drains a source and says how many octets it still held (the position of readers that
// cannot be asked for it, e.g. a pipe).
func restOf(r io.Reader) int {
	n, _ := io.Copy(io.Discard, r)
	return int(n)
}

// run decodes once from the reader kind the case asks for and reports the position reached.
func runCall(c CallCase) (outcome, int) {
	if c.Chunk == -1 {
		// a bytes.Reader: implements Len, ReadByte, WriteTo, Seek (what in-memory callers pass)
		br := bytes.NewReader(c.Input)
		got := call(cbor.NewDecoder(br), c.Method)
		return got, len(c.Input) - br.Len()
	}
	if c.Chunk == chunkBuffer {
		// a *bytes.Buffer over the caller's own slice (what the bundle reader passes for section and
		// header parsing); afterwards the caller appends to the result and reuses its input slice:
		// a result is the caller's to keep, the input the caller's to recycle
		backing := append(make([]byte, 0, len(c.Input)+32), c.Input...)
		bb := bytes.NewBuffer(backing)
		got := call(cbor.NewDecoder(bb), c.Method)
		pos := len(c.Input) - bb.Len()
		keep := got.str
		_ = append(keep, 0xEE, 0xEE, 0xEE, 0xEE, 0xEE, 0xEE, 0xEE, 0xEE)
		for i := range backing[:cap(backing)][:len(c.Input)+32] {
			backing[:cap(backing)][i] ^= 0x5A
		}
		return got, pos
	}
	if c.Chunk == chunkSeekAdvanced {
		// a bytes.Reader that has already been read up to where this item begins
		pre := []byte("0123456789abcdefghijklmnopqrstuvwxyz-preamble")
		br := bytes.NewReader(append(append([]byte{}, pre...), c.Input...))
		br.Seek(int64(len(pre)), io.SeekStart)
		got := call(cbor.NewDecoder(br), c.Method)
		return got, len(c.Input) - br.Len()
	}
	if c.Chunk == gen.SourceFile || c.Chunk == gen.SourceFileAdvanced || c.Chunk == gen.SourcePipe {
		// an *os.File: regular file at offset 0 / behind a preamble, or the read end of a pipe
		src := gen.Source(c.Input, c.Chunk)
		defer gen.Recycle(src)
		got := call(cbor.NewDecoder(src), c.Method)
		return got, len(c.Input) - restOf(src)
	}
	if c.Chunk == chunkBufio {
		// a *bufio.Reader with the smallest buffer (16 octets): strings longer than the buffer
		br := bytes.NewReader(c.Input)
		bf := bufio.NewReaderSize(br, 16)
		got := call(cbor.NewDecoder(bf), c.Method)
		return got, len(c.Input) - br.Len() - bf.Buffered()
	}
	rd := &posReader{b: c.Input, chunk: c.Chunk}
	if c.Chunk == -2 || c.Chunk == -3 { // plain reader that hands out its last bytes together with io.EOF (whole / 1-byte reads)
		rd = &posReader{b: c.Input, chunk: -2 - c.Chunk, eofWithData: true}
	}
	got := call(cbor.NewDecoder(rd), c.Method)
	return got, rd.pos
}

var callProp = vh.Define("C12", "call", func(c CallCase, r *vh.R) {
	got, pos := runCall(c)
	rd := struct{ pos int }{pos}
	ok, num, str, consumed, why := expected(c.Input, 0, c.Method)
	if len(c.Input) > 0 {
		r.Classf("major%d", c.Input[0]>>5)
	}
	if ok {
		r.Class("expect-accept")
	} else {
		r.Class("expect-reject")
	}
	if _, _, _, _, herr := refcbor.Head(c.Input, 0); herr == nil {
		r.NT() // head parses: the call reaches the type / length / content logic
	}
	if got.ok != ok {
		if ok {
			r.Failf("rejected-wellformed", "Decode(%s) on %x failed but the item is well-formed", c.Method, trunc(c.Input))
		} else {
			r.Failf("accepted-malformed", "Decode(%s) on %x succeeded (num=%d str=%x) but must fail: %s", c.Method, trunc(c.Input), got.num, trunc(got.str), why)
		}
		return
	}
	if !ok {
		return
	}
	if got.num != num || !bytes.Equal(got.str, str) {
		r.Failf("wrong-value", "Decode(%s) on %x returned num=%d str=%x, want num=%d str=%x", c.Method, trunc(c.Input), got.num, trunc(got.str), num, trunc(str))
		return
	}
	if rd.pos != consumed {
		r.Failf("wrong-consumption", "Decode(%s) on %x consumed %d bytes, item is %d bytes", c.Method, trunc(c.Input), rd.pos, consumed)
	}
})

func trunc(b []byte) []byte {
	if len(b) > 48 {
		return b[:48]
	}
	return b
}

// followPatterns returns argument-byte patterns for a head of width w.
func followPatterns(w int) [][]byte {
	mk := func(v uint64) []byte {
		out := make([]byte, w)
		for i := w - 1; i >= 0; i-- {
			out[i] = byte(v)
			v >>= 8
		}
		return out
	}
	max := uint64(1)<<(uint(w)*8) - 1
	if w == 8 {
		max = ^uint64(0)
	}
	lower := map[int]uint64{1: 24, 2: 256, 4: 1 << 16, 8: 1 << 32}[w]
	vals := []uint64{0, 1, 3, 23, lower - 1, lower, lower + 1, max, max - 1, max/2 + 1, max / 2, max - 8}
	var out [][]byte
	seen := map[string]bool{}
	for _, v := range vals {
		p := mk(v & max)
		if !seen[string(p)] {
			seen[string(p)] = true
			out = append(out, p)
		}
	}
	return out
}

func TestExhaustiveHeads(t *testing.T) {
	fileTurn := 0
	n := 0
	contentKinds := []string{"ascii", "badutf8", "multibyte"}
	for ib := 0; ib < 256; ib++ {
		ai := ib & 0x1f
		major := ib >> 5
		var heads [][]byte
		switch {
		case ai < 24 || ai >= 28:
			heads = [][]byte{{byte(ib)}}
		default:
			w := 1 << uint(ai-24)
			for _, p := range followPatterns(w) {
				heads = append(heads, append([]byte{byte(ib)}, p...))
				// truncated argument bytes
			}
			for cut := 0; cut < w; cut++ {
				heads = append(heads, append([]byte{byte(ib)}, bytes.Repeat([]byte{1}, cut)...))
			}
		}
		for _, h := range heads {
			var inputs [][]byte
			_, _, arg, _, herr := refcbor.Head(h, 0)
			if herr == nil && (major == 2 || major == 3) {
				lens := []int64{0, 1, int64(arg) - 1, int64(arg), int64(arg) + 1, int64(arg) + 40}
				if arg > 70000 {
					lens = []int64{0, 1, 9, 300}
				}
				seen := map[int64]bool{}
				for _, l := range lens {
					if l < 0 || seen[l] {
						continue
					}
					seen[l] = true
					for _, ck := range contentKinds {
						content := make([]byte, l)
						for i := range content {
							content[i] = 'a' + byte(i%26)
						}
						switch ck {
						case "badutf8":
							if l == 0 {
								continue
							}
							content[l/2] = 0xff
							if int64(arg) >= 1 && int64(arg) <= l {
								content[arg-1] = 0xc3 // dangling lead byte exactly at the declared end
							}
						case "multibyte":
							if l < 2 {
								continue
							}
							copy(content, "\xc3\xa9")
						}
						inputs = append(inputs, append(append([]byte{}, h...), content...))
					}
				}
			} else {
				inputs = [][]byte{h, append(append([]byte{}, h...), 0x00, 0x01, 0x02)}
				// any number of bytes may follow a head (a reserved / indefinite head must stay an
				// error however much input follows it; a valid head must consume only itself)
				for _, extra := range []int{1, 2, 4, 8, 9, 15, 16, 17, 24, 32, 33, 64, 300} {
					for _, fill := range []byte{0x00, 0x01, 0x61, 0xff} {
						inputs = append(inputs, append(append([]byte{}, h...), bytes.Repeat([]byte{fill}, extra)...))
					}
				}
			}
			for _, in := range inputs {
				for _, m := range methods {
					for _, chunk := range []int{0, 1, -1, -2, -3, chunkBuffer, chunkSeekAdvanced, chunkBufio} {
						if (chunk == 1 || chunk == -3) && len(in) > 300 {
							continue
						}
						n++
						if !callProp.One(t, CallCase{Input: in, Method: m, Chunk: chunk}) {
							return
						}
					}
					if fileTurn++; fileTurn%41 == 0 { // a deterministic sample of the same inputs through *os.File sources
						for _, chunk := range []int{gen.SourceFile, gen.SourceFileAdvanced, gen.SourcePipe} {
							n++
							if !callProp.One(t, CallCase{Input: in, Method: m, Chunk: chunk}) {
								return
							}
						}
					}
				}
			}
		}
	}
	vh.Exhaustive("call", fmt.Sprintf("every initial byte 0..255 x argument-byte patterns (boundaries of each width, truncated arguments) x content shorter/equal/longer than declared x ascii/invalid-UTF-8/multibyte content x 5 Decode methods x plain reader (whole / 1-byte reads) and bytes.Reader: %d calls", n))
}

// ----------------------------------------------------------------------------- round trip

type Val struct {
	Kind  string `json:"kind"` // uint int bytes text array map
	U     uint64 `json:"u,omitempty"`
	I     int64  `json:"i,omitempty"`
	Bytes vh.B   `json:"bytes,omitempty"`
	Len   int    `json:"len,omitempty"` // byte/text strings are described by length + fill to keep cases small
}

type RoundTripCase struct {
	Kind string `json:"kind"`
	U    uint64 `json:"u"`
	Str  vh.B   `json:"str"`
}

var rtProp = vh.Define("C12", "roundtrip", func(c RoundTripCase, r *vh.R) {
	var buf bytes.Buffer
	enc := cbor.NewEncoder(&buf)
	var err error
	switch c.Kind {
	case "uint":
		err = enc.EncodeUint(c.U)
	case "array":
		err = enc.EncodeArrayHeader(int(c.U))
	case "bytes":
		err = enc.EncodeByteString(c.Str)
	case "text":
		err = enc.EncodeTextString(string(c.Str))
	}
	if err != nil {
		if c.Kind == "text" && !utf8.Valid(c.Str) {
			r.Class("encoder-refused-invalid-utf8")
			return
		}
		r.Failf("encode-error", "encoding %+v failed: %v", c.Kind, err)
		return
	}
	rd := &posReader{b: buf.Bytes(), eofWithData: len(buf.Bytes())%2 == 1}
	got := call(cbor.NewDecoder(rd), c.Kind)
	if !got.ok {
		r.Failf("roundtrip-reject", "decoder rejects encoder output %x", trunc(buf.Bytes()))
		return
	}
	switch c.Kind {
	case "uint", "array":
		if got.num != c.U {
			r.Failf("roundtrip-value", "encoded %d decoded %d", c.U, got.num)
		}
	default:
		if !bytes.Equal(got.str, c.Str) {
			r.Failf("roundtrip-value", "string of %d bytes decoded as %d bytes", len(c.Str), len(got.str))
		}
	}
	if rd.pos != buf.Len() {
		r.Failf("roundtrip-consumption", "consumed %d of %d", rd.pos, buf.Len())
	}
	r.NT()
	r.Classf("%s-w%d", c.Kind, len(buf.Bytes()))
})

func boundaryU64(t *rapid.T, label string) uint64 {
	edges := []uint64{0, 23, 24, 255, 256, 65535, 65536, 1<<32 - 1, 1 << 32, 1<<63 - 1, 1 << 63, ^uint64(0)}
	switch rapid.IntRange(0, 3).Draw(t, label+"-mode") {
	case 0:
		e := rapid.SampledFrom(edges).Draw(t, label+"-edge")
		d := rapid.Int64Range(-3, 3).Draw(t, label+"-delta")
		return e + uint64(d)
	case 1:
		return rapid.Uint64().Draw(t, label)
	case 2:
		return rapid.Uint64Range(0, 70000).Draw(t, label)
	}
	sh := rapid.IntRange(0, 63).Draw(t, label+"-shift")
	return rapid.Uint64().Draw(t, label) >> uint(sh)
}

func TestPropRoundTrip(t *testing.T) { rtProp.Rapid(t, genPropRoundTrip) }

// TestConcRoundTrip: batches of cases evaluated at the same time on separate goroutines (vh.Prop.Concurrent).
func TestConcRoundTrip(t *testing.T) { rtProp.Concurrent(t, genPropRoundTrip, 8, 3) }

func genPropRoundTrip(t *rapid.T) RoundTripCase {
	k := rapid.SampledFrom([]string{"uint", "array", "bytes", "text"}).Draw(t, "kind")
	c := RoundTripCase{Kind: k}
	switch k {
	case "uint":
		c.U = boundaryU64(t, "u")
	case "array":
		c.U = boundaryU64(t, "u") >> 1 // EncodeArrayHeader takes a non-negative int
	default:
		l := rapid.SampledFrom([]int{0, 1, 22, 23, 24, 25, 254, 255, 256, 257, 65534, 65535, 65536, 65537, 63, 64, 65, 127, 128, 129, 511, 512, 513, 4095, 4096, 4097}).Draw(t, "len")
		if rapid.Bool().Draw(t, "randlen") {
			l = rapid.IntRange(0, 300).Draw(t, "len2")
		}
		b := make([]byte, l)
		fill := rapid.SliceOfN(rapid.Byte(), 0, 8).Draw(t, "fill")
		for i := range b {
			b[i] = 'a' + byte(i%7)
		}
		if k == "bytes" || rapid.IntRange(0, 3).Draw(t, "rawtext") == 0 {
			copy(b, fill)
		} else if l >= 4 && rapid.Bool().Draw(t, "mb") {
			copy(b[l-4:], "\xf0\x9f\x8c\x90")
		}
		c.Str = b
	}
	return c
}

func TestExhaustiveRoundTripBoundaries(t *testing.T) {
	edges := []uint64{0, 24, 256, 65536, 1 << 32, 1 << 63}
	n := 0
	for _, e := range edges {
		for d := int64(-4); d <= 4; d++ {
			v := e + uint64(d)
			n++
			if !rtProp.One(t, RoundTripCase{Kind: "uint", U: v}) {
				return
			}
			if v < 1<<62 {
				rtProp.One(t, RoundTripCase{Kind: "array", U: v})
			}
		}
	}
	_ = n
}

// ----------------------------------------------------------------------------- streams

type StreamItem struct {
	Major int    `json:"major"`
	Arg   uint64 `json:"arg"`
	Width int    `json:"width"` // argument width used (may be non-shortest)
	Fill  byte   `json:"fill"`
}

type StreamCase struct {
	Items []StreamItem `json:"items"`
	Calls []string     `json:"calls"`
	Chunk int          `json:"chunk"`
	Cut   int          `json:"cut"` // bytes removed from the end
}

func (c StreamCase) bytes() []byte {
	var out []byte
	for _, it := range c.Items {
		out = append(out, refcbor.HeadW(it.Major, it.Arg, it.Width)...)
		if it.Major == 2 || it.Major == 3 {
			for i := uint64(0); i < it.Arg; i++ {
				out = append(out, it.Fill)
			}
		}
	}
	if c.Cut > len(out) {
		return nil
	}
	return out[:len(out)-c.Cut]
}

var streamProp = vh.Define("C12", "stream", func(c StreamCase, r *vh.R) {
	b := c.bytes()
	var src io.Reader
	pos := func() int { return 0 }
	recycle := func() {}
	pipeSrc := false // a pipe cannot be asked for its position; it is checked once, at the end
	if c.Chunk == chunkBuffer {
		backing := append(make([]byte, 0, len(b)+32), b...)
		bb := bytes.NewBuffer(backing)
		src, pos = bb, func() int { return len(b) - bb.Len() }
		recycle = func() {
			full := backing[:cap(backing)]
			for i := range full {
				full[i] ^= 0x5A
			}
		}
		r.Class("source:bytes.Buffer")
	} else if c.Chunk == chunkSeekAdvanced {
		pre := []byte("0123456789abcdefghijklmnopqrstuvwxyz-preamble")
		br := bytes.NewReader(append(append([]byte{}, pre...), b...))
		br.Seek(int64(len(pre)), io.SeekStart)
		src, pos = br, func() int { return len(b) - br.Len() }
		r.Class("source:seekable-advanced")
	} else if c.Chunk == gen.SourceFile || c.Chunk == gen.SourceFileAdvanced {
		f := gen.Source(b, c.Chunk)
		defer gen.Recycle(f)
		start := int64(0)
		if sk, ok := f.(io.Seeker); ok {
			start, _ = sk.Seek(0, io.SeekCurrent)
			pos = func() int { p, _ := sk.Seek(0, io.SeekCurrent); return int(p - start) }
		}
		src = f
		r.Class("source:os.File")
	} else if c.Chunk == gen.SourcePipe {
		f := gen.Source(b, c.Chunk)
		defer gen.Recycle(f)
		src, pipeSrc = f, true
		r.Class("source:pipe")
	} else if c.Chunk == chunkBufio {
		br := bytes.NewReader(b)
		bf := bufio.NewReaderSize(br, 16)
		src, pos = bf, func() int { return len(b) - br.Len() - bf.Buffered() }
		r.Class("source:bufio")
	} else if c.Chunk == -1 {
		br := bytes.NewReader(b)
		src, pos = br, func() int { return len(b) - br.Len() }
	} else {
		pr := &posReader{b: b, chunk: c.Chunk}
		if c.Chunk < -1 {
			pr = &posReader{b: b, chunk: -2 - c.Chunk, eofWithData: true}
		}
		src, pos = pr, func() int { return pr.pos }
	}
	dec := cbor.NewDecoder(src)
	off := 0
	okCalls := 0
	var heldGot, heldWant [][]byte
	// a second Decoder object over an unrelated stream is used between the calls: two live
	// decoders must not share anything
	var shadow *cbor.Decoder
	shadowAt := 0
	for i, m := range c.Calls {
		if i > 0 {
			if shadow == nil || shadowAt == len(shadowItems) {
				shadow, shadowAt = cbor.NewDecoder(bytes.NewReader(shadowStream)), 0
			}
			it := shadowItems[shadowAt]
			shadowAt++
			if sg := call(shadow, it.m); !sg.ok || sg.num != it.num || !bytes.Equal(sg.str, it.str) {
				r.Failf("second-decoder-disturbed", "a second Decoder, used alternately with the one under test, returned ok=%v num=%#x str=%x for its item %d, want num=%#x str=%x", sg.ok, sg.num, trunc(sg.str), shadowAt-1, it.num, trunc(it.str))
				return
			}
		}
		got := call(dec, m)
		ok, num, str, consumed, why := expected(b, off, m)
		if got.ok != ok {
			if ok {
				r.Failf("rejected-wellformed", "call %d Decode(%s) at offset %d of %x failed", i, m, off, trunc(b))
			} else {
				r.Failf("accepted-malformed", "call %d Decode(%s) at offset %d of %x succeeded, must fail: %s", i, m, off, trunc(b), why)
			}
			return
		}
		if !ok {
			r.Class("ended-in-reject")
			break
		}
		if got.num != num || !bytes.Equal(got.str, str) {
			r.Failf("wrong-value", "call %d Decode(%s) at offset %d: got num=%d str=%x want num=%d str=%x", i, m, off, got.num, trunc(got.str), num, trunc(str))
			return
		}
		off += consumed
		if !pipeSrc && pos() != off {
			r.Failf("wrong-consumption", "after call %d reader at %d, items end at %d", i, pos(), off)
			return
		}
		okCalls++
		heldGot = append(heldGot, got.str)
		heldWant = append(heldWant, append([]byte{}, str...))
		if c.Chunk == chunkBuffer && len(got.str) > 0 {
			// the caller extends the value it was given (it owns it): this must not reach the
			// octets of the items that are still to be decoded
			_ = append(got.str, 0xEE, 0xEE, 0xEE, 0xEE, 0xEE, 0xEE, 0xEE, 0xEE, 0xEE)
		}
	}
	if pipeSrc && !r.Failed() {
		if _, endedOK, _, _, _ := expected(b, off, "uint"); true {
			_ = endedOK
		}
		if rest := restOf(src); len(c.Calls) > 0 && okCalls == len(c.Calls) && len(b)-rest != off {
			r.Failf("wrong-consumption", "after %d successful calls the pipe had handed out %d octets, the items end at %d", okCalls, len(b)-rest, off)
			return
		}
	}
	recycle() // the caller reuses its input buffer: values already returned are the caller's own copies
	// values returned earlier must not change when later items are decoded with the same Decoder
	for i := range heldGot {
		if !bytes.Equal(heldGot[i], heldWant[i]) {
			r.Failf("value-changed-later", "the string returned by successful call %d changed while later items were decoded (aliasing of decoder state): now %x, was %x", i, trunc(heldGot[i]), trunc(heldWant[i]))
			return
		}
	}
	if okCalls >= 2 {
		r.NT()
	}
	for _, it := range c.Items {
		if it.Width != refcbor.MinWidth(it.Arg) {
			r.Class("has-nonshortest-head")
			break
		}
	}
})

type shadowItem struct {
	m   string
	num uint64
	str []byte
}

var shadowItems = []shadowItem{
	{m: "uint", num: 0x0102030405060708}, {m: "bytes", str: bytes.Repeat([]byte{'z'}, 300)}, {m: "array", num: 0xfffefdfc},
	{m: "text", str: bytes.Repeat([]byte{'q'}, 24)}, {m: "map", num: 0xa1b2}, {m: "uint", num: 0xff}, {m: "bytes", str: []byte{}}, {m: "uint", num: 23},
}

var shadowStream = func() []byte {
	var out []byte
	for _, it := range shadowItems {
		switch it.m {
		case "bytes", "text":
			out = append(out, refcbor.HeadW(methodMajor(it.m), uint64(len(it.str)), refcbor.MinWidth(uint64(len(it.str))))...)
			out = append(out, it.str...)
		default:
			out = append(out, refcbor.HeadW(methodMajor(it.m), it.num, refcbor.MinWidth(it.num))...)
		}
	}
	return out
}()

func TestPropStream(t *testing.T) { streamProp.Rapid(t, genPropStream) }

// TestConcStream: batches of cases evaluated at the same time on separate goroutines (vh.Prop.Concurrent).
func TestConcStream(t *testing.T) { streamProp.Concurrent(t, genPropStream, 8, 3) }

func genPropStream(t *rapid.T) StreamCase {
	n := rapid.IntRange(1, 6).Draw(t, "n")
	var c StreamCase
	for i := 0; i < n; i++ {
		major := rapid.SampledFrom([]int{0, 0, 2, 3, 4, 5, 1, 6, 7}).Draw(t, "major")
		var arg uint64
		if major == 2 || major == 3 {
			arg = uint64(rapid.SampledFrom([]int{0, 1, 5, 23, 24, 255, 256, 300, 64, 65, 128, 129, 512, 513, 4097}).Draw(t, "len"))
		} else {
			arg = boundaryU64(t, "arg")
		}
		min := refcbor.MinWidth(arg)
		ws := []int{}
		for _, w := range []int{0, 1, 2, 4, 8} {
			if w >= min {
				ws = append(ws, w)
			}
		}
		w := min
		if rapid.IntRange(0, 2).Draw(t, "nonshortest") == 0 {
			w = rapid.SampledFrom(ws).Draw(t, "w")
		}
		fill := byte('x')
		if major == 3 && rapid.IntRange(0, 5).Draw(t, "bad") == 0 {
			fill = 0xfe
		}
		c.Items = append(c.Items, StreamItem{Major: major, Arg: arg, Width: w, Fill: fill})
		m := map[int]string{0: "uint", 2: "bytes", 3: "text", 4: "array", 5: "map"}[major]
		if m == "" || rapid.IntRange(0, 7).Draw(t, "mismatch") == 0 {
			m = rapid.SampledFrom(methods).Draw(t, "method")
		}
		c.Calls = append(c.Calls, m)
	}
	if rapid.IntRange(0, 3).Draw(t, "extra") == 0 {
		c.Calls = append(c.Calls, rapid.SampledFrom(methods).Draw(t, "extracall"))
	}
	c.Chunk = rapid.SampledFrom([]int{0, 0, 1, 3, -1, -1, -2, -3, -5, chunkBuffer, chunkBuffer, chunkSeekAdvanced, chunkBufio, chunkBufio, gen.SourceFile, gen.SourceFileAdvanced, gen.SourcePipe}).Draw(t, "chunk")
	if rapid.IntRange(0, 3).Draw(t, "docut") == 0 {
		c.Cut = rapid.IntRange(1, 12).Draw(t, "cut")
	}
	return c
}

// ------------------------------------------------------------------- calls after a failed call
//
// One Decoder, a reader that fails ONCE in the middle of an item head (a transient error, or
// io.EOF on a source that receives more data later) and then carries on. The call that meets
// the fault must fail. Every later call is judged against the bytes that start at the reader's
// position when it begins: if it succeeds, the value must be the one RFC 8949 assigns to the
// item there and exactly that item must be consumed (no state may leak from the failed call).
// Whether a decoder accepts anything at all after an error is not demanded.

type faultReader struct {
	b       []byte
	pos     int
	chunk   int
	faultAt int
	err     error
	fired   bool
}

func (r *faultReader) Read(p []byte) (int, error) {
	if !r.fired && r.pos == r.faultAt {
		r.fired = true
		return 0, r.err
	}
	if r.pos >= len(r.b) {
		return 0, io.EOF
	}
	n := len(p)
	if r.chunk > 0 && n > r.chunk {
		n = r.chunk
	}
	if !r.fired && r.pos+n > r.faultAt {
		n = r.faultAt - r.pos
	}
	n = copy(p[:n], r.b[r.pos:])
	r.pos += n
	return n, nil
}

type ResumeCase struct {
	Pre      []StreamItem `json:"pre"`
	Partial  StreamItem   `json:"partial"` // head with a 1/2/4/8-byte argument
	Keep     int          `json:"keep"`    // argument bytes delivered before the fault (< width), or -1: fault inside string content
	PartCall string       `json:"part_call"`
	Post     []StreamItem `json:"post"`
	Calls    []string     `json:"calls"` // for the Post items
	EOF      bool         `json:"eof"`   // the fault is io.EOF instead of an error
	Chunk    int          `json:"chunk"`
}

func itemBytes(it StreamItem) []byte {
	out := refcbor.HeadW(it.Major, it.Arg, it.Width)
	if it.Major == 2 || it.Major == 3 {
		for i := uint64(0); i < it.Arg; i++ {
			out = append(out, it.Fill)
		}
	}
	return out
}

var errTransient = fmt.Errorf("transient read error injected by the harness")

var resumeProp = vh.Define("C12", "resume", func(c ResumeCase, r *vh.R) {
	if c.Partial.Width < 1 || c.Keep >= c.Partial.Width {
		r.Skip = true
		return
	}
	var b []byte
	for _, it := range c.Pre {
		b = append(b, itemBytes(it)...)
	}
	ph := refcbor.HeadW(c.Partial.Major, c.Partial.Arg, c.Partial.Width)
	if c.Keep >= 0 {
		b = append(b, ph[:1+c.Keep]...)
	} else { // whole head, half of the content
		b = append(b, ph...)
		for i := uint64(0); i < c.Partial.Arg/2; i++ {
			b = append(b, c.Partial.Fill)
		}
	}
	faultAt := len(b)
	for _, it := range c.Post {
		b = append(b, itemBytes(it)...)
	}
	fr := &faultReader{b: b, chunk: c.Chunk, faultAt: faultAt, err: errTransient}
	if c.EOF {
		fr.err = io.EOF
	}
	dec := cbor.NewDecoder(fr)
	off := 0
	for i, it := range c.Pre {
		m := map[int]string{0: "uint", 2: "bytes", 3: "text", 4: "array", 5: "map"}[it.Major]
		got := call(dec, m)
		ok, num, str, consumed, _ := expected(b[:faultAt], off, m)
		if !ok {
			r.Skip = true // generator only builds decodable Pre items
			return
		}
		if !got.ok || got.num != num || !bytes.Equal(got.str, str) {
			r.Failf("wrong-value", "pre call %d Decode(%s) at %d of %x: ok=%v num=%d str=%x", i, m, off, trunc(b), got.ok, got.num, trunc(got.str))
			return
		}
		off += consumed
	}
	got := call(dec, c.PartCall)
	if !fr.fired {
		r.Class("fault-not-reached") // e.g. wrong major type reported before the argument is read
	} else if got.ok {
		r.Failf("accepted-malformed", "Decode(%s) succeeded although the reader failed (%v) inside the item starting at %d of %x", c.PartCall, fr.err, off, trunc(b))
		return
	}
	later := 0
	for i, m := range c.Calls {
		start := fr.pos
		got := call(dec, m)
		if !got.ok {
			r.Class("rejects-after-error")
			continue
		}
		ok, num, str, consumed, why := expected(b, start, m)
		if !ok {
			r.Failf("accepted-malformed", "after a failed call, call %d Decode(%s) with the reader at %d of %x succeeded, must fail: %s", i, m, start, trunc(b), why)
			return
		}
		if got.num != num || !bytes.Equal(got.str, str) {
			r.Failf("wrong-value-after-error", "after a failed call (reader fault %v after %d argument bytes of head %x), call %d Decode(%s) with the reader at %d of %x returned num=%d (%#x) str=%x, the item there is num=%d (%#x) str=%x",
				fr.err, c.Keep, ph, i, m, start, trunc(b), got.num, got.num, trunc(got.str), num, num, trunc(str))
			return
		}
		if fr.pos != start+consumed {
			r.Failf("wrong-consumption", "after a failed call, call %d Decode(%s) started at %d, item ends at %d, reader at %d", i, m, start, start+consumed, fr.pos)
			return
		}
		later++
	}
	if fr.fired && len(c.Calls) >= 1 {
		// non-trivial by what the harness did (a call failed on a reader fault, further calls were
		// made); whether a decoder can be used again after a failure is its own business - one
		// that answers every later call with an error is judged by "rejects-after-error" alone
		r.NT()
		r.Class("called-after-reader-fault")
	}
	if fr.fired && later >= 1 {
		r.Class("decoded-after-error")
	}
	if c.EOF {
		r.Class("fault-eof")
	} else {
		r.Class("fault-error")
	}
})

func TestPropResume(t *testing.T) {
	item := func(t *rapid.T, label string) StreamItem {
		major := rapid.SampledFrom([]int{0, 0, 2, 3, 4, 5}).Draw(t, label+"-major")
		var arg uint64
		if major == 2 || major == 3 {
			arg = uint64(rapid.SampledFrom([]int{0, 1, 5, 23, 24, 25, 255, 256, 300}).Draw(t, label+"-len"))
		} else {
			arg = boundaryU64(t, label+"-arg")
		}
		w := refcbor.MinWidth(arg)
		if rapid.IntRange(0, 2).Draw(t, label+"-nonshortest") == 0 {
			for _, x := range []int{1, 2, 4, 8} {
				if x >= w && rapid.Bool().Draw(t, label+"-wider") {
					w = x
					break
				}
			}
		}
		return StreamItem{Major: major, Arg: arg, Width: w, Fill: 'x'}
	}
	resumeProp.Rapid(t, func(t *rapid.T) ResumeCase {
		var c ResumeCase
		for i, n := 0, rapid.IntRange(0, 2).Draw(t, "npre"); i < n; i++ {
			c.Pre = append(c.Pre, item(t, "pre"))
		}
		c.Partial = StreamItem{Major: rapid.SampledFrom([]int{0, 2, 3, 4, 5}).Draw(t, "pmajor"), Width: rapid.SampledFrom([]int{1, 2, 4, 8, 8}).Draw(t, "pwidth"), Fill: 'y'}
		// argument bytes all non-zero, so that whatever is left behind is visible
		c.Partial.Arg = rapid.SampledFrom([]uint64{0x0102030405060708, 0xfffefdfcfbfaf9f8, 0x7f7f7f7f7f7f7f7f}).Draw(t, "parg") >> (8 * uint(8-c.Partial.Width))
		c.Keep = rapid.IntRange(0, c.Partial.Width-1).Draw(t, "keep")
		if (c.Partial.Major == 2 || c.Partial.Major == 3) && rapid.IntRange(0, 4).Draw(t, "incontent") == 0 {
			c.Partial.Width, c.Partial.Arg, c.Keep = 1, 200, -1
		}
		c.PartCall = map[int]string{0: "uint", 2: "bytes", 3: "text", 4: "array", 5: "map"}[c.Partial.Major]
		for i, n := 0, rapid.IntRange(1, 4).Draw(t, "npost"); i < n; i++ {
			it := item(t, "post")
			c.Post = append(c.Post, it)
			c.Calls = append(c.Calls, map[int]string{0: "uint", 2: "bytes", 3: "text", 4: "array", 5: "map"}[it.Major])
		}
		c.EOF = rapid.Bool().Draw(t, "eof")
		c.Chunk = rapid.SampledFrom([]int{0, 0, 1, 3}).Draw(t, "chunk")
		return c
	})
}

// --------------------------------------------------------------------- every code point in a text
//
// "invalid UTF-8 text" is an error, every valid text returns its exact value: each of the
// 0x110000 code points (surrogates included, encoded the generalised way, which is invalid UTF-8)
// as the only / last character of a text string, decoded once. The expected verdict is Go's
// unicode/utf8, independent of the decoder under test. Evaluated in bulk; an offending input is
// re-evaluated through the "call" sub-check so that it is reported and replayable like any case.
func TestExhaustiveCodePoints(t *testing.T) {
	enc := func(cp rune) []byte {
		switch {
		case cp < 0x80:
			return []byte{byte(cp)}
		case cp < 0x800:
			return []byte{0xc0 | byte(cp>>6), 0x80 | byte(cp)&0x3f}
		case cp < 0x10000:
			return []byte{0xe0 | byte(cp>>12), 0x80 | byte(cp>>6)&0x3f, 0x80 | byte(cp)&0x3f}
		}
		return []byte{0xf0 | byte(cp>>18), 0x80 | byte(cp>>12)&0x3f, 0x80 | byte(cp>>6)&0x3f, 0x80 | byte(cp)&0x3f}
	}
	var evals, nt int64
	classes := map[string]int64{}
	step := rune(vh.Scale(1, 1))
	for cp := rune(0); cp < 0x110000; cp += step {
		for variant := 0; variant < 2; variant++ {
			content := enc(cp)
			if variant == 1 {
				content = append([]byte("ab"), content...)
			}
			in := append(refcbor.HeadW(3, uint64(len(content)), refcbor.MinWidth(uint64(len(content)))), content...)
			got := call(cbor.NewDecoder(bytes.NewReader(in)), "text")
			want := utf8.Valid(content)
			evals++
			nt++
			if want {
				classes["codepoint-valid"]++
			} else {
				classes["codepoint-surrogate"]++
			}
			if got.ok != want || (want && !bytes.Equal(got.str, content)) {
				callProp.One(t, CallCase{Input: in, Method: "text", Chunk: -1})
				t.Fatalf("c12: text with code point U+%04X: decoder ok=%v value %x, expected ok=%v", cp, got.ok, got.str, want)
			}
		}
	}
	vh.Bulk("call", evals, nt, classes, CallCase{Input: append([]byte{0x63}, enc(0xfffd)...), Method: "text", Chunk: -1})
	vh.Exhaustive("call", "text strings holding each of the 0x110000 code points (incl. the surrogate range, which is invalid UTF-8) alone and after an ASCII prefix: accepted exactly when the content is valid UTF-8, with the exact value")
}


// ----------------------------------------------------------------------------- dense shape sweeps
//
// One dimension at a time, EVERY value 0..1100 and a few larger ones: the number of items decoded
// with ONE Decoder (the n-th call on one object, for every n), the count announced by an array /
// map header followed by its items, the length of a byte / text string - complete, and with the
// last octet missing. Each through a bytes.Reader, a plain reader, a *bytes.Buffer, a small
// bufio.Reader, and (every 16th) an *os.File and a pipe. Judged by the stream check.

type ShapeCase struct {
	Shape string `json:"shape"`
	N     int    `json:"n"`
	Chunk int    `json:"chunk"`
	Cut   int    `json:"cut,omitempty"`
}

func (c ShapeCase) stream() (StreamCase, bool) {
	sc := StreamCase{Chunk: c.Chunk, Cut: c.Cut}
	n := c.N
	if n < 0 || n > 200000 {
		return sc, false
	}
	it := func(major int, arg uint64) StreamItem { return StreamItem{Major: major, Arg: arg, Width: refcbor.MinWidth(arg)} }
	switch c.Shape {
	case "items-on-one-decoder":
		for i := 0; i <= n; i++ {
			if i%3 == 2 {
				sc.Items, sc.Calls = append(sc.Items, StreamItem{Major: 3, Arg: 1, Width: 0, Fill: 's'}), append(sc.Calls, "text")
			} else {
				sc.Items, sc.Calls = append(sc.Items, it(0, uint64(i))), append(sc.Calls, "uint")
			}
		}
	case "array-count", "map-count":
		m, call, per := 4, "array", 1
		if c.Shape == "map-count" {
			m, call, per = 5, "map", 2
		}
		sc.Items, sc.Calls = append(sc.Items, it(m, uint64(n))), append(sc.Calls, call)
		for i := 0; i < n*per; i++ {
			sc.Items, sc.Calls = append(sc.Items, it(0, uint64(i%500))), append(sc.Calls, "uint")
		}
	case "bytes-length", "text-length":
		m, call := 2, "bytes"
		if c.Shape == "text-length" {
			m, call = 3, "text"
		}
		x := it(m, uint64(n))
		x.Fill = 'a' + byte(n%26)
		sc.Items, sc.Calls = []StreamItem{x, it(0, 9)}, []string{call, "uint"}
		if c.Cut > 0 { // the string is the last item and loses its last octet
			sc.Items, sc.Calls = sc.Items[:1], sc.Calls[:1]
		}
	default:
		return sc, false
	}
	return sc, true
}

var shapeProp = vh.Define("C12", "shape-sweep", func(c ShapeCase, r *vh.R) {
	sc, ok := c.stream()
	if !ok {
		r.Skip = true
		return
	}
	r.Class("shape:" + c.Shape)
	sub := &vh.R{}
	streamProp.Check(sc, sub)
	r.V, r.Classes = sub.V, append(r.Classes, sub.Classes...)
	r.NT()
})

func TestShapeSweep(t *testing.T) {
	var ns []int
	for n := 0; n <= 1100; n++ {
		ns = append(ns, n)
	}
	ns = append(ns, 1500, 2048, 4095, 4096, 4097, 10000, 65535, 65536, 65537, 100000)
	cnt := 0
	for _, sh := range []string{"items-on-one-decoder", "array-count", "map-count", "bytes-length", "text-length"} {
		for i, n := range ns {
			chunks := []int{-1, 0, chunkBuffer, chunkBufio}
			if i%16 == 5 {
				chunks = append(chunks, gen.SourceFile, gen.SourcePipe)
			}
			if n > 10000 {
				chunks = []int{-1, chunkBuffer}
			}
			for _, ch := range chunks {
				cuts := []int{0}
				if strings.HasSuffix(sh, "-length") && n > 0 {
					cuts = []int{0, 1}
				}
				for _, cut := range cuts {
					cnt++
					if !shapeProp.One(t, ShapeCase{Shape: sh, N: n, Chunk: ch, Cut: cut}) {
						return
					}
				}
			}
		}
	}
	vh.Exhaustive("shape-sweep", fmt.Sprintf("5 shapes (items on one Decoder, array / map count followed by its items, byte / text string length - complete and one octet short) x every n in 0..1100 and 10 larger values x 4..6 kinds of reader: %d streams", cnt))
}
