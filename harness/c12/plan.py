PLAN = dict(
    id="C12",
    pkg="c12", level="exploration",
    rule=("call: one Decode* call on an enumerated input (every initial byte x argument patterns x content length classes x method); "
          "roundtrip: encoder output decoded again; stream: concatenated items (any head width) decoded by a drawn call sequence with a "
          "position-tracking reader; resume: one Decoder on a reader that fails once (error or io.EOF) inside an item head or string and then carries on: the call meeting the fault must fail, every later call that succeeds must return the value of the item at the reader's position and consume exactly it. Oracle = RFC 8949 head/length semantics recomputed by refcbor: success iff well-formed item of the "
          "requested major type, exact value, exact consumption. Non-trivial: the head parses (call), the encoder accepted the value "
          "(roundtrip), at least two successful calls (stream); distinct by fingerprint of the case."),
    assumptions=TRUSTED + ["a value returned by a decode call belongs to the caller (it may append to it), and the caller may reuse its input buffer once the calls have returned: held values are compared after both", "On a failed call the reader position is unspecified and not compared"],
    runs=[
        dict(name="conc", run="^(TestConcRoundTrip|TestConcStream)$", checks=(400, 20000), shards=(2, 8), timeout=(400, 3600), race=True),
        dict(name="exh", run="^(TestExhaustiveHeads|TestExhaustiveRoundTripBoundaries|TestExhaustiveCodePoints|TestShapeSweep|TestCorpus)$"),
        dict(name="rt", run="^TestPropRoundTrip$", checks=(3000, 300000), shards=(1, 4)),
        dict(name="stream", run="^TestPropStream$", checks=(5000, 1000000), shards=(1, 16)),
        dict(name="resume", run="^TestPropResume$", checks=(5000, 500000), shards=(1, 8)),
    ],
    technique="exhaustive enumeration of CBOR heads x content classes + rapid round trips and call histories, differential against an independent RFC 8949 head parser",
    level_text=("Exhaustive over every initial byte x argument pattern class x content length class x Decode method (finite space, enumerated "
                "completely on every run) plus random round trips and concatenated-item call histories with a position-tracking reader; the oracle "
                "is an independent RFC 8949 head/length semantics. Exploration level: the enumerated classes are the ones where a head parser "
                "can go wrong (width classes, reserved/indefinite info, truncation, 2^63 lengths, UTF-8)."),
    level_note=NOTE_BASE,
    require=[("call", "expect-accept"), ("call", "expect-reject"), ("stream", "has-nonshortest-head"), ("stream", "source:bytes.Buffer"), ("stream", "source:bufio"), ("stream", "source:seekable-advanced"), ("resume", "called-after-reader-fault")],
)
