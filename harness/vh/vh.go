// Package vh is the small runtime shared by every property package of the
// verification harness: case/oracle plumbing, evidence counters, replay files.
//
// Conventions
//
//   - A property package defines one or more *sub-checks* with Define(id, sub, check).
//     check is a pure function of a JSON-serialisable Case; it reports through *R.
//   - Generated search: p.Rapid(t, gen). Enumerated search: p.One(c) in a loop.
//   - On the first failing invocation (and on every later one, so that the file finally
//     holds rapid's shrunk case) the Case is written to $VERIF_REPLAY_OUT/<id>-<sub>.json.
//   - TestMain must be `func TestMain(m *testing.M) { vh.Main(m) }`; it flushes the
//     evidence counters to $VERIF_STATS.
//   - TestReplay / TestCorpus (see replay.go) feed saved Cases to check without rapid.
package vh

import (
	"encoding/hex"
	"encoding/json"
	"fmt"
	"hash/fnv"
	"os"
	"path/filepath"
	"runtime/debug"
	"sort"
	"strconv"
	"strings"
	"sync"
	"testing"

	"pgregory.net/rapid"
)

// B is a byte slice that serialises as hex (readable samples and replay files).
type B []byte

func (b B) MarshalJSON() ([]byte, error) { return json.Marshal(hex.EncodeToString(b)) }
func (b *B) UnmarshalJSON(d []byte) error {
	var s string
	if err := json.Unmarshal(d, &s); err != nil {
		return err
	}
	x, err := hex.DecodeString(s)
	if err != nil {
		return err
	}
	*b = x
	return nil
}

// Violation describes one failed oracle clause.
type Violation struct {
	Kind string `json:"kind"` // short stable class ("accepted-tampered", "panic", ...)
	Msg  string `json:"msg"`
}

func (v *Violation) Error() string { return v.Kind + ": " + v.Msg }

// R is what a check reports for one case.
type R struct {
	NonTrivial bool
	Classes    []string
	V          *Violation
	Skip       bool // case outside the property's domain (counted, not evaluated)
	Known      string
}

func (r *R) NT()            { r.NonTrivial = true }
func (r *R) Class(s string) { r.Classes = append(r.Classes, s) }
func (r *R) Classf(f string, a ...any) {
	r.Classes = append(r.Classes, fmt.Sprintf(f, a...))
}
func (r *R) Failf(kind, f string, a ...any) {
	if r.V == nil {
		r.V = &Violation{Kind: kind, Msg: fmt.Sprintf(f, a...)}
	}
}
func (r *R) Failed() bool { return r.V != nil }

// ---------------------------------------------------------------------------------------
// Evidence collector

type subStats struct {
	Evaluations int64            `json:"evaluations"`
	Skipped     int64            `json:"skipped"`
	NonTrivial  int64            `json:"nontrivial_total"`
	Distinct    int64            `json:"distinct_counted"` // distinct by construction (enumerations)
	Exhaustive  bool             `json:"exhaustive"`
	Space       string           `json:"space,omitempty"`
	Classes     map[string]int64 `json:"classes"`
	Samples     []any            `json:"samples"`
	Violations  int64            `json:"violations"`
	Known       map[string]int64 `json:"known,omitempty"`
	fps         map[uint64]struct{}
	lateSamples []any
}

type collector struct {
	mu   sync.Mutex
	subs map[string]*subStats
}

var S = &collector{subs: map[string]*subStats{}}

const maxFingerprints = 4 << 20

func (c *collector) sub(name string) *subStats {
	s := c.subs[name]
	if s == nil {
		s = &subStats{Classes: map[string]int64{}, fps: map[uint64]struct{}{}, Known: map[string]int64{}}
		c.subs[name] = s
	}
	return s
}

func render(v any) any {
	b, err := json.Marshal(v)
	if err != nil {
		return fmt.Sprintf("%+v", v)
	}
	if len(b) > 1500 {
		return string(b[:1500]) + fmt.Sprintf("...(%d bytes of JSON truncated)", len(b)-1500)
	}
	return json.RawMessage(b)
}

// Fingerprint hashes the JSON form of a case.
func Fingerprint(v any) uint64 {
	b, err := json.Marshal(v)
	if err != nil {
		b = []byte(fmt.Sprintf("%+v", v))
	}
	h := fnv.New64a()
	h.Write(b)
	return h.Sum64()
}

func (c *collector) record(sub string, cs any, r *R) {
	c.mu.Lock()
	defer c.mu.Unlock()
	s := c.sub(sub)
	if r.Skip {
		s.Skipped++
		return
	}
	s.Evaluations++
	for _, k := range r.Classes {
		s.Classes[k]++
	}
	if r.Known != "" {
		s.Known[r.Known]++
	}
	if r.V != nil {
		s.Violations++
	}
	if r.NonTrivial {
		s.NonTrivial++
		if len(s.fps) < maxFingerprints {
			fp := Fingerprint(cs)
			if _, dup := s.fps[fp]; !dup {
				s.fps[fp] = struct{}{}
				n := len(s.fps)
				if len(s.Samples) < 3 {
					s.Samples = append(s.Samples, render(cs))
				} else if n&(n-1) == 0 && len(s.lateSamples) < 12 { // 4th,8th,16th,... distinct case
					s.lateSamples = append(s.lateSamples, render(cs))
				}
			}
		}
	}
}

// Bulk records an enumerated block of cases without per-case bookkeeping.
// distinctNontrivial must be a *counted* number of distinct non-trivial cases.
func Bulk(sub string, evaluations, distinctNontrivial int64, classes map[string]int64, sample any) {
	S.mu.Lock()
	defer S.mu.Unlock()
	s := S.sub(sub)
	s.Evaluations += evaluations
	s.NonTrivial += distinctNontrivial
	s.Distinct += distinctNontrivial
	for k, v := range classes {
		s.Classes[k] += v
	}
	if sample != nil && len(s.Samples) < 4 {
		s.Samples = append(s.Samples, render(sample))
	}
}

// Exhaustive marks a sub-check as having enumerated the described finite space completely.
func Exhaustive(sub, space string) {
	S.mu.Lock()
	defer S.mu.Unlock()
	s := S.sub(sub)
	s.Exhaustive = true
	s.Space = space
}

// Count bumps a free-form class counter.
func Count(sub, class string, n int64) {
	S.mu.Lock()
	defer S.mu.Unlock()
	S.sub(sub).Classes[class] += n
}

func (c *collector) flush() {
	path := os.Getenv("VERIF_STATS")
	if path == "" {
		return
	}
	c.mu.Lock()
	defer c.mu.Unlock()
	type out struct {
		*subStats
		Fingerprints []string `json:"fingerprints"`
	}
	res := map[string]out{}
	for name, s := range c.subs {
		// keep at most 3 early + 3 late samples
		late := s.lateSamples
		if len(late) > 3 {
			late = late[len(late)-3:]
		}
		s.Samples = append(s.Samples, late...)
		s.lateSamples = nil
		fps := make([]string, 0, len(s.fps))
		for fp := range s.fps {
			fps = append(fps, strconv.FormatUint(fp, 36))
		}
		sort.Strings(fps)
		res[name] = out{s, fps}
	}
	b, _ := json.Marshal(res)
	tmp := path + ".tmp"
	if err := os.WriteFile(tmp, b, 0o644); err == nil {
		os.Rename(tmp, path)
	}
}

// Main is the TestMain body.
func Main(m *testing.M) {
	code := m.Run()
	worker := false
	for _, a := range os.Args {
		if strings.HasPrefix(a, "-test.fuzzworker") {
			worker = true
		}
	}
	if !worker {
		S.flush()
	}
	os.Exit(code)
}

// ---------------------------------------------------------------------------------------
// Props

type replayFn func(raw json.RawMessage) (*R, error)

var (
	registryMu sync.Mutex
	registry   = map[string]replayFn{}
)

// Prop is one sub-check over cases of type C.
type Prop[C any] struct {
	ID, Sub string
	check   func(C, *R)
}

// Define registers a sub-check (also for replay).
func Define[C any](id, sub string, check func(C, *R)) *Prop[C] {
	p := &Prop[C]{ID: id, Sub: sub, check: check}
	registryMu.Lock()
	registry[sub] = func(raw json.RawMessage) (*R, error) {
		var c C
		if err := json.Unmarshal(raw, &c); err != nil {
			return nil, err
		}
		return p.Eval(c), nil
	}
	registryMu.Unlock()
	return p
}

// Check runs the bare check function on c (for sub-checks that build on another one's oracle).
func (p *Prop[C]) Check(c C, r *R) { p.check(c, r) }

// Eval runs the check on c, converting panics that escape the check into violations.
func (p *Prop[C]) Eval(c C) (r *R) { return p.eval(c, true) }

func (p *Prop[C]) eval(c C, post bool) (r *R) {
	r = &R{}
	defer func() {
		if e := recover(); e != nil {
			r.V = &Violation{Kind: "panic", Msg: fmt.Sprintf("%v\n%s", e, trimStack(debug.Stack()))}
		}
	}()
	p.check(c, r)
	if post && r.V == nil && !r.Skip {
		for _, f := range PostEval {
			if kind, msg := f(); kind != "" {
				r.V = &Violation{Kind: kind, Msg: msg}
				break
			}
		}
	}
	return r
}

// PostEval hooks run after every evaluated case (e.g. gen's guarded-input check); the first
// one that returns a non-empty kind turns the case into a violation.
var PostEval []func() (kind, msg string)

func trimStack(b []byte) string {
	s := string(b)
	lines := strings.Split(s, "\n")
	if len(lines) > 40 {
		lines = lines[:40]
	}
	return strings.Join(lines, "\n")
}

type replayFile struct {
	Property  string     `json:"property"`
	Sub       string     `json:"sub"`
	Violation *Violation `json:"violation,omitempty"`
	Case      any        `json:"case"`
}

func (p *Prop[C]) save(c C, v *Violation) string {
	dir := os.Getenv("VERIF_REPLAY_OUT")
	if dir == "" {
		return ""
	}
	path := filepath.Join(dir, p.ID+"-"+p.Sub+".json")
	b, err := json.MarshalIndent(replayFile{Property: p.ID, Sub: p.Sub, Violation: v, Case: c}, "", " ")
	if err != nil {
		return ""
	}
	tmp := path + ".tmp"
	if os.WriteFile(tmp, b, 0o644) == nil {
		os.Rename(tmp, path)
	}
	return path
}

// One evaluates a single (enumerated or replayed) case; returns false on violation.
func (p *Prop[C]) One(t testing.TB, c C) bool {
	r := p.Eval(c)
	S.record(p.Sub, c, r)
	if r.V != nil {
		path := p.save(c, r.V)
		t.Errorf("VERIF-VIOLATION property=%s sub=%s kind=%s replay=%s\n%s", p.ID, p.Sub, r.V.Kind, path, r.V.Msg)
		return false
	}
	return true
}

// Rapid drives the check with rapid-generated cases.
func (p *Prop[C]) Rapid(t *testing.T, gen func(*rapid.T) C) {
	rapid.Check(t, func(rt *rapid.T) {
		c := gen(rt)
		r := p.Eval(c)
		S.record(p.Sub, c, r)
		if r.V != nil {
			path := p.save(c, r.V)
			rt.Fatalf("VERIF-VIOLATION property=%s sub=%s kind=%s replay=%s\n%s", p.ID, p.Sub, r.V.Kind, path, r.V.Msg)
		}
	})
}

// Concurrent drives the check with BATCHES of rapid-generated cases that are evaluated at the same
// time, one goroutine per case, released together, each case reps times in a row (a batch is
// batch/2 distinct cases, each present twice). Every check is a pure
// function of its case and works on objects of its own, so logically the evaluations are
// independent: a case that holds on its own and fails here has met state shared between
// separate objects of the code under test (package-level scratch space, a pool whose buffers
// are returned too early, a lazily filled cache or table read without synchronisation).
// Each batch is first evaluated sequentially (an ordinary violation is reported the ordinary
// way, with shrinking). A violation under concurrency is schedule-dependent: it is reported at
// once through the outer testing.T with the failing case as replay file (which may pass when
// replayed alone - the message says so) and is not handed to rapid for shrinking. The results
// are recorded under the sub-check name "<sub>-concurrent".
func (p *Prop[C]) Concurrent(t *testing.T, gen func(*rapid.T) C, batch, reps int) {
	cp := Define(p.ID, p.Sub+"-concurrent", p.check)
	failed := false
	rapid.Check(t, func(rt *rapid.T) {
		if failed {
			return
		}
		// batch/2 distinct cases, each of them twice (a deep copy through JSON, so that the two
		// evaluations share nothing inside the harness): caches and memo tables keyed by the input
		// are hit by the twin while the other cases evict and refill them
		distinct := make([]C, (batch+1)/2)
		for i := range distinct {
			distinct[i] = gen(rt)
		}
		for _, c := range distinct {
			r := p.Eval(c)
			if r.V != nil {
				S.record(p.Sub, c, r)
				path := p.save(c, r.V)
				rt.Fatalf("VERIF-VIOLATION property=%s sub=%s kind=%s replay=%s\n%s", p.ID, p.Sub, r.V.Kind, path, r.V.Msg)
			}
		}
		cases := make([]C, 0, 2*len(distinct))
		for _, c := range distinct {
			cases = append(cases, c)
			var twin C
			if b, err := json.Marshal(c); err == nil && json.Unmarshal(b, &twin) == nil {
				cases = append(cases, twin)
			}
		}
		results := make([]*R, len(cases))
		start := make(chan struct{})
		var wg sync.WaitGroup
		for i := range cases {
			wg.Add(1)
			go func(i int) {
				defer wg.Done()
				<-start
				for rep := 0; rep < reps; rep++ { // no barrier between the repetitions: the overlaps drift
					results[i] = cp.eval(cases[i], false)
					if results[i].V != nil {
						return
					}
				}
			}(i)
		}
		close(start)
		wg.Wait()
		// hooks that look at state shared by all cases (guarded input slices) run once the
		// batch has come to rest
		for _, f := range PostEval {
			if kind, msg := f(); kind != "" && results[0].V == nil {
				results[0].V = &Violation{Kind: kind, Msg: msg + " (some case of the batch)"}
			}
		}
		for i, r := range results {
			if r.V != nil {
				r.V = &Violation{Kind: "concurrent:" + r.V.Kind, Msg: fmt.Sprintf("the case holds when evaluated on its own and failed while %d other cases (one of them a copy of this one) were evaluated at the same time on other goroutines (separate objects, so state is shared inside the code under test; schedule-dependent, may not reproduce from the saved case alone)\n%s", len(cases)-1, r.V.Msg)}
			}
			S.record(cp.Sub, cases[i], r)
			if r.V != nil && !failed {
				failed = true
				path := cp.save(cases[i], r.V)
				t.Errorf("VERIF-VIOLATION property=%s sub=%s kind=%s replay=%s\n%s", cp.ID, cp.Sub, r.V.Kind, path, r.V.Msg)
			}
		}
	})
}

// ---------------------------------------------------------------------------------------
// Environment

func Tier() string {
	if os.Getenv("VERIF_TIER") == "thorough" {
		return "thorough"
	}
	return "quick"
}

func Thorough() bool { return Tier() == "thorough" }

// Seed returns the run's seed (never 0).
func Seed() int64 {
	n, err := strconv.ParseInt(os.Getenv("VERIF_SEED"), 10, 64)
	if err != nil || n == 0 {
		return 20260928
	}
	return n
}

// Shard returns (index, count) for enumerations split across processes.
func Shard() (int, int) {
	i, _ := strconv.Atoi(os.Getenv("VERIF_SHARD"))
	n, _ := strconv.Atoi(os.Getenv("VERIF_SHARDS"))
	if n <= 0 {
		return 0, 1
	}
	return i, n
}

// Scale picks a count by tier.
func Scale(quick, thorough int) int {
	if Thorough() {
		return thorough
	}
	return quick
}
