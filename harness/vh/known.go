package vh

import (
	"encoding/json"
	"fmt"
	"os"
	"sync"
)

// Finding is one entry of /verif/known_findings.json.
type Finding struct {
	Property string `json:"property"`
	Key      string `json:"key"`
	Status   string `json:"status"` // "open" or "fixed"
	Commit   string `json:"commit,omitempty"`
	What     string `json:"what"`
	Matcher  string `json:"matcher,omitempty"`
}

var (
	knownOnce sync.Once
	known     []Finding
)

func loadKnown() {
	path := os.Getenv("VERIF_KNOWN")
	if path == "" {
		return
	}
	b, err := os.ReadFile(path)
	if err != nil {
		return
	}
	var f struct {
		Findings []Finding `json:"findings"`
	}
	if json.Unmarshal(b, &f) == nil {
		known = f.Findings
	}
}

// KnownOpen reports whether (property,key) is listed as an OPEN known finding.
// Fixed entries suppress nothing.
func KnownOpen(property, key string) (Finding, bool) {
	knownOnce.Do(loadKnown)
	for _, f := range known {
		if f.Property == property && f.Key == key && f.Status == "open" {
			return f, true
		}
	}
	return Finding{}, false
}

// ReportKnown prints the marker line the driver turns into "KNOWN-FINDING: ...".
func ReportKnown(f Finding, detail string) {
	fmt.Printf("VERIF-KNOWN-FINDING property=%s key=%s :: %s :: %s\n", f.Property, f.Key, f.What, detail)
}
