package vh

import (
	"encoding/json"
	"os"
	"path/filepath"
	"sort"
	"strings"
	"testing"
)

type savedCase struct {
	Property string          `json:"property"`
	Sub      string          `json:"sub"`
	Case     json.RawMessage `json:"case"`
}

func replayPath(t testing.TB, path string, count bool) {
	b, err := os.ReadFile(path)
	if err != nil {
		t.Fatalf("replay: %v", err)
	}
	var sc savedCase
	if err := json.Unmarshal(b, &sc); err != nil {
		t.Fatalf("replay %s: %v", path, err)
	}
	registryMu.Lock()
	fn := registry[sc.Sub]
	if fn == nil {
		// "<sub>-concurrent" cases (see Prop.Concurrent) are ordinary cases of <sub>
		fn = registry[strings.TrimSuffix(sc.Sub, "-concurrent")]
	}
	registryMu.Unlock()
	if fn == nil {
		t.Fatalf("replay %s: unknown sub-check %q", path, sc.Sub)
	}
	r, err := fn(sc.Case)
	if err != nil {
		t.Fatalf("replay %s: cannot decode case: %v", path, err)
	}
	if count {
		S.mu.Lock()
		s := S.sub(sc.Sub)
		s.Evaluations++
		s.Classes["corpus-replay"]++
		S.mu.Unlock()
	}
	if r.V != nil {
		S.mu.Lock()
		S.sub(sc.Sub).Violations++
		S.mu.Unlock()
		out := ""
		if dir := os.Getenv("VERIF_REPLAY_OUT"); dir != "" && count {
			out = filepath.Join(dir, sc.Property+"-"+sc.Sub+"-corpus-"+filepath.Base(path))
			os.WriteFile(out, b, 0o644)
		}
		t.Errorf("VERIF-VIOLATION property=%s sub=%s kind=%s replay=%s\n%s", sc.Property, sc.Sub, r.V.Kind, path, r.V.Msg)
		_ = out
	} else {
		t.Logf("replay %s: property held (classes %v)", path, r.Classes)
	}
}

// Replay re-runs the case named by $VERIF_REPLAY_IN. Property packages expose it as TestReplay.
func Replay(t *testing.T) {
	path := os.Getenv("VERIF_REPLAY_IN")
	if path == "" {
		t.Skip("VERIF_REPLAY_IN not set")
	}
	replayPath(t, path, false)
}

// Corpus re-runs every saved case under $VERIF_CORPUS (regression tier).
func Corpus(t *testing.T) {
	dir := os.Getenv("VERIF_CORPUS")
	if dir == "" {
		t.Skip("VERIF_CORPUS not set")
	}
	ents, err := os.ReadDir(dir)
	if err != nil {
		t.Skip("no corpus directory")
	}
	var names []string
	for _, e := range ents {
		if !e.IsDir() && strings.HasSuffix(e.Name(), ".json") {
			names = append(names, e.Name())
		}
	}
	sort.Strings(names)
	for _, n := range names {
		replayPath(t, filepath.Join(dir, n), true)
	}
}
