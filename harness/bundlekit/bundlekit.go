// Package bundlekit describes Web Bundles as JSON-serialisable specs, builds the repository's
// bundle.Bundle from them and computes the model of what must come back after a round trip.
package bundlekit

import (
	"bytes"
	"fmt"
	"net/url"
	"strings"

	"github.com/WICG/webpackage/go/bundle"
	"github.com/WICG/webpackage/go/bundle/version"
	"github.com/WICG/webpackage/go/signedexchange/certurl"
	"github.com/WICG/webpackage/go/verifh/gen"
	"github.com/WICG/webpackage/go/verifh/ref/refbundle"
	"pgregory.net/rapid"
)

type ExSpec struct {
	URL     string         `json:"url"`
	Status  int            `json:"status"`
	Headers []gen.HeaderKV `json:"headers,omitempty"`
	BodyLen int            `json:"body_len"`
	BodyTag uint64         `json:"body_tag"`
	// variants bookkeeping (model side); empty for plain exchanges
	Group int        `json:"group,omitempty"` // 1-based variant group id, 0 = none
	Keys  [][]string `json:"keys,omitempty"`  // the Variant-Key list of this representation
	// SplitKeys: the Variant-Key header is supplied as one field value per key (repeated header)
	SplitKeys bool `json:"split_keys,omitempty"`
	// SelfSimilar: see Body
	SelfSimilar bool `json:"self_similar,omitempty"`
	// Collide: the header map also holds ONE field under two map keys that differ only in letter
	// case ("X-Collide" / "x-collide", as a map filled by direct assignment can): 1 = with the
	// same value, 2 = with different values. Both fold to one CBOR key, so the writer may refuse
	// (WriteMayFail); what it must not do is report success for a malformed file.
	Collide int `json:"collide,omitempty"`
}

// Body is BodyLen octets of filler; with SelfSimilar the body BEGINS with a complete small web
// bundle (a body is opaque, whatever it looks like: magic bytes, section tables and trailing
// lengths inside a payload must not confuse a reader or a writer).
func (e *ExSpec) Body() []byte {
	b := gen.Filler(e.BodyLen, e.BodyTag)
	if e.SelfSimilar {
		copy(b, miniBundle())
		gen.Reseal(b)
	}
	return b
}

var miniBundleOnce []byte

func miniBundle() []byte {
	if miniBundleOnce == nil {
		a := refbundle.Asm{Version: "b2", Resps: []refbundle.AsmResp{{Fields: []refbundle.HeaderField{{Name: ":status", Value: "200"}}, BodyLen: 3, BodyTag: 1}},
			Index:    []refbundle.AsmIndex{{URL: "https://a.example/inner", Resps: []int{0}}},
			Sections: []refbundle.AsmSection{{Name: "index", Kind: "index", Decoy: -1}, {Name: "responses", Kind: "responses", Decoy: -1}}}
		miniBundleOnce, _ = refbundle.Assemble(&a)
	}
	return miniBundleOnce
}

type AuthSpec struct {
	Fixture int `json:"fixture"`  // -1 = the CA certificate
	OCSPLen int `json:"ocsp_len"` // -1 = absent
	SCTLen  int `json:"sct_len"`  // -1 = absent
}

type VouchedSpec struct {
	Authority uint64 `json:"authority"`
	SigLen    int    `json:"sig_len"`
	SignedLen int    `json:"signed_len"`
}

type SigSpec struct {
	Authorities []AuthSpec    `json:"authorities"`
	Vouched     []VouchedSpec `json:"vouched"`
}

type VariantGroup struct {
	ID   int        `json:"id"`
	URL  string     `json:"url"`
	Axes [][]string `json:"axes"` // each: header-name, value1, value2, ...
	// Defect: "", "incomplete", "overlap" (model: writer must refuse)
	Defect string `json:"defect,omitempty"`
	// SplitAxes: the Variants header is supplied as one field value per axis (repeated header)
	SplitAxes bool `json:"split_axes,omitempty"`
}

type Spec struct {
	Version   string         `json:"version"` // b1 b2
	Primary   string         `json:"primary,omitempty"`
	Manifest  string         `json:"manifest,omitempty"`
	Exchanges []ExSpec       `json:"exchanges"`
	Groups    []VariantGroup `json:"groups,omitempty"`
	Sigs      *SigSpec       `json:"sigs,omitempty"`
}

func mustURL(s string) *url.URL {
	u, err := url.Parse(s)
	if err != nil {
		panic(fmt.Sprintf("bundlekit: generator produced an unparsable URL %q: %v", s, err))
	}
	return u
}

// VariantsValues returns the field values of the Variants header as the caller adds them.
func (g *VariantGroup) VariantsValues() []string {
	var parts []string
	for _, ax := range g.Axes {
		parts = append(parts, strings.Join(ax, ";"))
	}
	if g.SplitAxes {
		return parts
	}
	return []string{strings.Join(parts, ", ")}
}

// VariantsHeader is the combined (comma-joined) value.
func (g *VariantGroup) VariantsHeader() string { return strings.Join(g.VariantsValues(), ",") }

func variantKeyValues(keys [][]string, split bool) []string {
	var parts []string
	for _, k := range keys {
		parts = append(parts, strings.Join(k, ";"))
	}
	if split {
		return parts
	}
	return []string{strings.Join(parts, ", ")}
}

// Build creates the repository's Bundle value (fresh objects on every call).
func Build(s *Spec) *bundle.Bundle {
	ver, ok := version.Parse(s.Version)
	if !ok {
		panic("bundlekit: version " + s.Version)
	}
	b := &bundle.Bundle{Version: ver}
	if s.Primary != "" {
		b.PrimaryURL = mustURL(s.Primary)
	}
	if s.Manifest != "" {
		b.ManifestURL = mustURL(s.Manifest)
	}
	for i := range s.Exchanges {
		e := &s.Exchanges[i]
		h := gen.BuildHeader(e.Headers)
		if e.Group > 0 {
			g := s.Groups[e.Group-1]
			for _, v := range g.VariantsValues() {
				h.Add("Variants", v)
			}
			for _, v := range variantKeyValues(e.Keys, e.SplitKeys) {
				h.Add("Variant-Key", v)
			}
		}
		if e.Collide > 0 {
			h["X-Collide"] = []string{"same"}
			h["x-collide"] = []string{map[int]string{1: "same", 2: "other"}[e.Collide]}
		}
		b.Exchanges = append(b.Exchanges, &bundle.Exchange{
			Request:  bundle.Request{URL: mustURL(e.URL)},
			Response: bundle.Response{Status: e.Status, Header: h, Body: e.Body()},
		})
	}
	if s.Sigs != nil {
		sg := &bundle.Signatures{}
		for i, a := range s.Sigs.Authorities {
			ac := &certurl.AugmentedCertificate{}
			if a.Fixture < 0 {
				ac.Cert = gen.CA()
			} else {
				ac.Cert = gen.Fixtures()[a.Fixture].Leaf
			}
			if a.OCSPLen >= 0 {
				ac.OCSPResponse = gen.Filler(a.OCSPLen, uint64(100+i))
			}
			if a.SCTLen >= 0 {
				ac.SCTList = gen.Filler(a.SCTLen, uint64(200+i))
			}
			sg.Authorities = append(sg.Authorities, ac)
		}
		for i, v := range s.Sigs.Vouched {
			sg.VouchedSubsets = append(sg.VouchedSubsets, &bundle.VouchedSubset{Authority: v.Authority, Sig: gen.Filler(v.SigLen, uint64(300+i)), Signed: gen.Filler(v.SignedLen, uint64(400+i))})
		}
		b.Signatures = sg
	}
	return b
}

// ModelResp is what must be read back for one representation.
type ModelResp struct {
	Status  int
	Headers map[string]string
	Body    []byte
}

// WriteMustFail tells whether the writer has to refuse the spec, with the reason.
func (s *Spec) WriteMustFail() (bool, string) {
	if s.Version == "b2" && s.Manifest != "" {
		return true, "b2 does not support a manifest section"
	}
	count := map[string]int{}
	for i := range s.Exchanges {
		count[mustURL(s.Exchanges[i].URL).String()]++
	}
	if s.Version == "b2" {
		for u, n := range count {
			if n > 1 {
				return true, "b2 cannot hold several responses for " + u
			}
		}
	}
	plain := map[string]int{}
	for i := range s.Exchanges {
		if s.Exchanges[i].Group == 0 {
			u := mustURL(s.Exchanges[i].URL).String()
			plain[u]++
			if plain[u] > 1 {
				return true, "several responses without a Variants header for " + u
			}
		}
	}
	for _, g := range s.Groups {
		if g.Defect != "" {
			n := 0
			for i := range s.Exchanges {
				if s.Exchanges[i].Group == g.ID {
					n++
				}
			}
			if n > 1 {
				return true, "variant group " + g.Defect
			}
		}
	}
	return false, ""
}

// Model returns, per URL string (as the writer keys it: url.String()), the ordered list of
// responses that must be read back: plain URLs one response; variant groups one response per
// possible key in row-major order of the axes (a multi-key representation repeats).
func (s *Spec) Model() map[string][]ModelResp {
	out := map[string][]ModelResp{}
	mk := func(e *ExSpec) ModelResp {
		kvs := append([]gen.HeaderKV{}, e.Headers...)
		if e.Group > 0 {
			g := s.Groups[e.Group-1]
			kvs = append(kvs, gen.HeaderKV{Name: "variants", Values: g.VariantsValues()}, gen.HeaderKV{Name: "variant-key", Values: variantKeyValues(e.Keys, e.SplitKeys)})
		}
		return ModelResp{Status: e.Status, Headers: gen.NormalizeKVs(kvs), Body: e.Body()}
	}
	byGroup := map[int][]*ExSpec{}
	for i := range s.Exchanges {
		e := &s.Exchanges[i]
		if e.Group == 0 {
			u := mustURL(e.URL).String()
			out[u] = append(out[u], mk(e))
		} else {
			byGroup[e.Group] = append(byGroup[e.Group], e)
		}
	}
	for _, g := range s.Groups {
		es := byGroup[g.ID]
		if len(es) == 0 {
			continue
		}
		u := mustURL(g.URL).String()
		if len(es) == 1 {
			out[u] = append(out[u], mk(es[0]))
			continue
		}
		// row-major enumeration of the axes
		idx := make([]int, len(g.Axes))
		for {
			key := make([]string, len(g.Axes))
			for a := range g.Axes {
				key[a] = g.Axes[a][1+idx[a]]
			}
			for _, e := range es {
				for _, k := range e.Keys {
					if strings.Join(k, "\x00") == strings.Join(key, "\x00") {
						out[u] = append(out[u], mk(e))
					}
				}
			}
			a := len(idx) - 1
			for a >= 0 {
				idx[a]++
				if idx[a] < len(g.Axes[a])-1 {
					break
				}
				idx[a] = 0
				a--
			}
			if a < 0 {
				break
			}
		}
	}
	return out
}

// HasMultiKey reports whether some representation carries more than one Variant-Key.
func (s *Spec) HasMultiKey() bool {
	for i := range s.Exchanges {
		if len(s.Exchanges[i].Keys) > 1 {
			return true
		}
	}
	return false
}

// ---------------------------------------------------------------------------------------
// Generator

var boundaryLens = []int{0, 1, 22, 23, 24, 25, 254, 255, 256, 257, 65534, 65535, 65536, 65537}

func bodyLen(t *rapid.T, label string) int {
	switch rapid.IntRange(0, 6).Draw(t, label+"-kind") {
	case 6:
		return gen.ImplLen(t, label+"-impl", 4097)
	case 0, 1:
		return rapid.SampledFrom(boundaryLens).Draw(t, label)
	case 2:
		return rapid.IntRange(0, 300).Draw(t, label)
	case 3:
		// lengths that push the WHOLE response item (array head + header bstr + body bstr) over a boundary
		return rapid.SampledFrom([]int{200, 230, 240, 65400, 65480, 65500}).Draw(t, label) + rapid.IntRange(0, 40).Draw(t, label+"-d")
	}
	return rapid.IntRange(0, 40).Draw(t, label)
}

// WriteMayFail: inputs the writer is free to refuse (the property is then vacuous) but, if it
// writes them, the file must read back unchanged: header names or values with octets >= 0x80
// (the reader insists on ASCII header fields).
// AllowCollide lets the generators give one exchange of a bundle colliding header keys
// (ExSpec.Collide). Off by default: only the checks that know how to judge a refused or
// folded write (C03, C04) switch it on.
var AllowCollide bool

// HasCollide: some exchange's header map holds one field under two spellings (ExSpec.Collide).
func (s *Spec) HasCollide() bool {
	for i := range s.Exchanges {
		if s.Exchanges[i].Collide > 0 {
			return true
		}
	}
	return false
}

func (s *Spec) WriteMayFail() (bool, string) {
	for i := range s.Exchanges {
		if s.Exchanges[i].Collide > 0 {
			return true, fmt.Sprintf("the header map of %s holds one field under two spellings", s.Exchanges[i].URL)
		}
		for _, kv := range s.Exchanges[i].Headers {
			for _, v := range append([]string{kv.Name}, kv.Values...) {
				for j := 0; j < len(v); j++ {
					if v[j] >= 0x80 {
						return true, fmt.Sprintf("header %q of %s has a non-ASCII octet", kv.Name, s.Exchanges[i].URL)
					}
				}
			}
		}
	}
	return false, ""
}

// oddHeader: a header field whose value (rarely: name) holds octets outside visible ASCII: control
// characters, DEL, NUL, UTF-8, a lone 0xff. The writer accepts any octets; what it wrote must
// read back.
func oddHeader(t *rapid.T) gen.HeaderKV {
	name := rapid.SampledFrom([]string{"X-Odd", "X-Odd", "X-Odd", "x-odd-2", "X-Od\xc3\xa9"}).Draw(t, "oddname")
	val := rapid.SampledFrom([]string{"a\x7fb", "\x7f", "a\x00b", "tab\there", "x\x01\x1f", "line\nfeed", "caf\xc3\xa9", "\u00ff", "\u0080", "ok"}).Draw(t, "oddval")
	return gen.HeaderKV{Name: name, Values: []string{val}}
}

func exchange(t *rapid.T, u string) ExSpec {
	e := ExSpec{URL: u, Status: 200, BodyLen: bodyLen(t, "body"), BodyTag: rapid.Uint64().Draw(t, "bodytag"), SelfSimilar: rapid.IntRange(0, 9).Draw(t, "selfsimilar") == 0}
	if rapid.IntRange(0, 2).Draw(t, "oddstatus") == 0 {
		e.Status = rapid.SampledFrom([]int{100, 101, 204, 301, 404, 500, 599, 600, 999}).Draw(t, "status")
	}
	e.Headers = gen.Headers(t, "hdr", 4)
	if rapid.IntRange(0, 3).Draw(t, "ct") > 0 {
		e.Headers = append(e.Headers, gen.HeaderKV{Name: "Content-Type", Values: []string{"text/plain"}})
	}
	if rapid.IntRange(0, 9).Draw(t, "bighdr") == 0 {
		// header CBOR around a head boundary
		n := rapid.SampledFrom([]int{180, 200, 220, 65300, 65450}).Draw(t, "bighdrlen") + rapid.IntRange(0, 60).Draw(t, "bighdrd")
		e.Headers = append(e.Headers, gen.HeaderKV{Name: "X-Big", Values: []string{strings.Repeat("b", n)}})
	}
	return e
}

func bundleURL(t *rapid.T, label string) string {
	switch rapid.IntRange(0, 9).Draw(t, label+"-kind") {
	case 0:
		// relative and other non-https forms are legal index keys
		return rapid.SampledFrom([]string{"/rel/path", "rel.html", "../up", "?only=query", "//authority.example/p", "http://plain.example/", "urn:uuid:1234", "x-scheme:opaque"}).Draw(t, label)
	}
	host := rapid.SampledFrom(gen.Hosts).Draw(t, label+"-host")
	return gen.HTTPSURL(t, label, host)
}

// Gen draws a bundle spec. Roughly 15% of the specs must be refused by the writer.
func Gen(t *rapid.T) *Spec { return genSpec(t, false) }

// GenWide is Gen plus, now and then, bundles with 23..257 exchanges.
func GenWide(t *rapid.T) *Spec { return genSpec(t, true) }

func genSpec(t *rapid.T, wide bool) *Spec {
	s := &Spec{Version: rapid.SampledFrom([]string{"b1", "b2"}).Draw(t, "version")}
	n := rapid.IntRange(0, 8).Draw(t, "nex")
	many := wide && rapid.IntRange(0, 14).Draw(t, "many") == 0
	if many {
		// enough exchanges to push the responses array / index map head into the next length class
		n = rapid.SampledFrom([]int{23, 24, 25, 30, 255, 256, 257}).Draw(t, "nmany")
	}
	seen := map[string]bool{}
	// URLs that differ LATE: every URL of the bundle shares a prefix of 40 .. 1000 octets and differs
	// in its last octet; the prefix itself and the prefix plus two octets are there as well (an index
	// that compares, hashes or copies only the beginning of a key, or its length, merges them)
	family := ""
	if !many && n >= 2 && rapid.IntRange(0, 7).Draw(t, "latefamily") == 0 {
		family = "https://a.example/" + strings.Repeat("p", rapid.SampledFrom([]int{22, 44, 45, 46, 47, 100, 237, 238, 300, 1000}).Draw(t, "latefamilylen"))
	}
	for i := 0; i < n; i++ {
		u := bundleURL(t, "url")
		if family != "" {
			u = family + string(rune('a'+i%26))
			switch i {
			case 2:
				u = family
			case 3:
				u = family + "ab"
			}
		}
		key := mustURL(u).String()
		if seen[key] {
			u += fmt.Sprintf("%sdedup=%d", map[bool]string{true: "&", false: "?"}[strings.Contains(u, "?")], i)
			key = mustURL(u).String()
			if seen[key] {
				continue
			}
		}
		seen[key] = true
		if many {
			s.Exchanges = append(s.Exchanges, ExSpec{URL: fmt.Sprintf("https://a.example/many/%d", i), Status: 200, BodyLen: i % 30, BodyTag: uint64(i),
				Headers: []gen.HeaderKV{{Name: "Content-Type", Values: []string{"text/plain"}}}})
			continue
		}
		s.Exchanges = append(s.Exchanges, exchange(t, u))
		{
			e := &s.Exchanges[len(s.Exchanges)-1]
			if rapid.IntRange(0, 11).Draw(t, "strayvariants") == 0 {
				// one captured representation of a negotiated resource: Variants / Variant-Key fields on the
				// ONLY response for its URL (no variant set is formed; the fields are ordinary header fields)
				e.Headers = append(e.Headers, gen.HeaderKV{Name: "Variants", Values: []string{rapid.SampledFrom([]string{"Accept-Language;en;ja", "Accept-Encoding;gzip;br;identity", "Accept-Language;en", "Accept-Language;en;ja, Accept-Encoding;gzip;br"}).Draw(t, "strayv")}})
				if rapid.Bool().Draw(t, "strayvk") {
					e.Headers = append(e.Headers, gen.HeaderKV{Name: "Variant-Key", Values: []string{"en"}})
				}
			}
		}
		if wide && rapid.IntRange(0, 7).Draw(t, "odd") == 0 {
			e := &s.Exchanges[len(s.Exchanges)-1]
			e.Headers = append(e.Headers, oddHeader(t))
		}
	}
	// duplicate URL without variants (must fail in b2; in b1 "no Variants header")
	if len(s.Exchanges) > 0 && rapid.IntRange(0, 19).Draw(t, "dupurl") == 0 {
		d := exchange(t, s.Exchanges[0].URL)
		s.Exchanges = append(s.Exchanges, d)
		// both stay plain (no Variants header): WriteMustFail reports it
		return finish(t, s, true)
	}
	if s.Version == "b1" && rapid.IntRange(0, 2).Draw(t, "variants") == 0 {
		ng := rapid.IntRange(1, 2).Draw(t, "ngroups")
		for g := 1; g <= ng; g++ {
			addVariantGroup(t, s, g, seen)
		}
	}
	return finish(t, s, false)
}

func finish(t *rapid.T, s *Spec, dupNoVariants bool) *Spec {
	// shuffle caller order
	if len(s.Exchanges) > 1 {
		s.Exchanges = rapid.Permutation(s.Exchanges).Draw(t, "order")
	}
	if AllowCollide && len(s.Exchanges) > 0 && rapid.IntRange(0, 39).Draw(t, "collide") == 17 {
		// one exchange of the bundle gets one header field under two spellings (see ExSpec.Collide)
		s.Exchanges[rapid.IntRange(0, len(s.Exchanges)-1).Draw(t, "collide-at")].Collide = rapid.IntRange(1, 2).Draw(t, "collide-kind")
	}
	if s.Version == "b1" {
		s.Primary = "https://a.example/primary"
		if len(s.Exchanges) > 0 && rapid.Bool().Draw(t, "primaryfromex") {
			s.Primary = s.Exchanges[0].URL
		}
		if rapid.IntRange(0, 2).Draw(t, "manifest") == 0 {
			s.Manifest = rapid.SampledFrom([]string{"https://a.example/manifest.json", "https://b.example/m?x=1",
				// spellings that a URL "clean-up" would change: dot segments, empty path, default port, upper-case host, escapes, empty query
				// (fragments, credentials and relative forms are refused by the reader for these two URLs, as the format demands, and are not generated)
				"https://a.example/app/../manifest.webmanifest", "https://a.example/./m.json", "https://a.example/a/./b/../c", "https://a.example", "https://a.example:443/m",
				"https://A.EXAMPLE/m", "https://a.example/%7Em%2Fx", "https://a.example/m?"}).Draw(t, "manifesturl")
		}
	} else {
		if rapid.Bool().Draw(t, "primary") {
			s.Primary = rapid.SampledFrom([]string{"https://a.example/", "https://a.example/index.html?q=1", "https://c.example:8443/x%20y",
				"https://a.example/app/../index.html", "https://a.example/./", "https://a.example", "https://a.example:443/", "https://A.EXAMPLE/p", "https://a.example/p?"}).Draw(t, "primaryurl")
		}
		if rapid.IntRange(0, 24).Draw(t, "badmanifest") == 0 {
			s.Manifest = "https://a.example/manifest.json"
		}
	}
	if rapid.IntRange(0, 3).Draw(t, "sigs") == 0 {
		sg := &SigSpec{}
		na := rapid.IntRange(0, 3).Draw(t, "nauth")
		for i := 0; i < na; i++ {
			a := AuthSpec{Fixture: rapid.SampledFrom([]int{0, 1, 2, 5, -1}).Draw(t, "authfix"), OCSPLen: -1, SCTLen: -1}
			if rapid.Bool().Draw(t, "ocsp") {
				a.OCSPLen = rapid.SampledFrom([]int{1, 23, 24, 255, 256, 1000}).Draw(t, "ocsplen")
			}
			if rapid.Bool().Draw(t, "sct") {
				a.SCTLen = rapid.SampledFrom([]int{1, 23, 24, 255, 256}).Draw(t, "sctlen")
			}
			sg.Authorities = append(sg.Authorities, a)
		}
		nv := rapid.IntRange(0, 3).Draw(t, "nvouched")
		for i := 0; i < nv; i++ {
			sg.Vouched = append(sg.Vouched, VouchedSpec{Authority: rapid.SampledFrom([]uint64{0, 1, 2, 23, 24, 255, 256, 1 << 32, 1<<64 - 1}).Draw(t, "vauth"),
				SigLen: rapid.SampledFrom([]int{0, 1, 70, 72, 104, 256}).Draw(t, "siglen"), SignedLen: rapid.SampledFrom([]int{0, 1, 23, 24, 255, 256, 70000}).Draw(t, "signedlen")})
		}
		s.Sigs = sg
	}
	return s
}

var axisPool = [][]string{
	{"Accept-Language", "en", "fr", "ja"},
	{"Accept-Encoding", "gzip", "br", "identity"},
	{"Accept", "text/html", "image/webp"},
}

func addVariantGroup(t *rapid.T, s *Spec, id int, seen map[string]bool) {
	u := fmt.Sprintf("https://a.example/variant%d", id)
	if seen[u] {
		return
	}
	seen[u] = true
	g := VariantGroup{ID: id, URL: u}
	nax := rapid.IntRange(1, 3).Draw(t, "naxes")
	perm := rapid.Permutation([]int{0, 1, 2}).Draw(t, "axisperm")
	for a := 0; a < nax; a++ {
		src := axisPool[perm[a]]
		nv := rapid.IntRange(1, len(src)-1).Draw(t, "nvals")
		g.Axes = append(g.Axes, append([]string{}, src[:1+nv]...))
	}
	// all possible keys
	var keys [][]string
	var rec func(a int, cur []string)
	rec = func(a int, cur []string) {
		if a == len(g.Axes) {
			keys = append(keys, append([]string{}, cur...))
			return
		}
		for _, v := range g.Axes[a][1:] {
			rec(a+1, append(cur, v))
		}
	}
	rec(0, nil)
	type rep struct{ keys [][]string }
	var reps []rep
	for _, k := range keys {
		reps = append(reps, rep{[][]string{k}})
	}
	switch rapid.IntRange(0, 6).Draw(t, "groupmode") {
	case 6:
		if len(reps) >= 2 {
			// overlap THROUGH a multi-key representation: rep i also claims the key of rep j, which stays.
			// Every key is still covered and there are no more representations than keys, so neither a
			// count nor a "some key is left uncovered" test sees it: only a per-key claim check does.
			i := rapid.IntRange(0, len(reps)-1).Draw(t, "ovi")
			j := rapid.IntRange(0, len(reps)-2).Draw(t, "ovj")
			if j >= i {
				j++
			}
			reps[i].keys = append(append([][]string{}, reps[i].keys...), reps[j].keys...)
			if rapid.Bool().Draw(t, "ovfirst") { // the multi-key one before or after the one it overlaps
				reps[i], reps[j] = reps[j], reps[i]
			}
			g.Defect = "overlap"
		}
	case 0:
		if len(reps) >= 2 {
			// merge two keys into one multi-key representation
			i := rapid.IntRange(0, len(reps)-2).Draw(t, "mergei")
			j := rapid.IntRange(i+1, len(reps)-1).Draw(t, "mergej")
			reps[i].keys = append(reps[i].keys, reps[j].keys...)
			reps = append(reps[:j], reps[j+1:]...)
		}
	case 1:
		if len(reps) >= 3 {
			i := rapid.IntRange(0, len(reps)-1).Draw(t, "dropi")
			reps = append(reps[:i], reps[i+1:]...)
			g.Defect = "incomplete"
		}
	case 2:
		if len(reps) >= 2 {
			i := rapid.IntRange(0, len(reps)-1).Draw(t, "dupi")
			reps = append(reps, rep{reps[i].keys})
			g.Defect = "overlap"
		}
	}
	g.SplitAxes = len(g.Axes) > 1 && rapid.IntRange(0, 2).Draw(t, "splitaxes") == 0
	s.Groups = append(s.Groups, g)
	for _, rp := range reps {
		e := exchange(t, u)
		e.Group = id
		e.Keys = rp.keys
		e.SplitKeys = len(rp.keys) > 1 && rapid.Bool().Draw(t, "splitkeys")
		s.Exchanges = append(s.Exchanges, e)
	}
}

// AlignTo pads the body of one exchange so that a chosen length of the WRITTEN file (the
// responses section, the index + responses sections, or the whole file) lands exactly on, one
// below or one above a multiple of mod. The file is written and measured with the independent
// parser to calibrate (a few rounds: a longer body can widen a CBOR head); the resulting spec is
// an ordinary spec and is what the case stores. Implementations copy sections in pieces of
// 4 KiB, 32 KiB, 64 KiB: "ends exactly at a piece boundary" is where such loops go wrong.
func AlignTo(s *Spec, target string, mod, off int) bool {
	if must, _ := s.WriteMustFail(); must || len(s.Exchanges) == 0 {
		return false
	}
	measure := func() (int, bool) {
		var buf bytes.Buffer
		if _, err := Build(s).WriteTo(&buf); err != nil {
			return 0, false
		}
		p, err := refbundle.Strict(buf.Bytes())
		if err != nil {
			return 0, false
		}
		n := 0
		for _, sec := range p.Sections {
			if target == "file" || sec.Name == "responses" || (target == "index+responses" && sec.Name == "index") {
				n += int(sec.Length)
			}
		}
		if target == "file" {
			n = buf.Len()
		}
		return n, true
	}
	e := &s.Exchanges[len(s.Exchanges)-1]
	for round := 0; round < 5; round++ {
		n, ok := measure()
		if !ok {
			return false
		}
		k := (n - off + mod - 1) / mod
		if k < 1 {
			k = 1
		}
		want := k*mod + off
		if want == n {
			return true
		}
		e.BodyLen += want - n
	}
	return false
}

// ShapeSpec builds the bundle of a dense one-dimensional sweep: everything small except ONE
// size or count, which is n. Shapes: "exchanges" (n exchanges with one-octet bodies), "headers"
// (one response with n header fields), "body-octets", "url-octets" (n octets appended to the
// path), "value-octets" (one header value of n octets), "signatures" (n vouched subsets). The
// version alternates with n.
func ShapeSpec(shape string, n int) (*Spec, bool) {
	if n < 0 || n > 1<<20 {
		return nil, false
	}
	s := &Spec{Version: []string{"b2", "b1"}[n%2], Primary: "https://a.example/e0"}
	one := func(u string) ExSpec {
		return ExSpec{URL: u, Status: 200, Headers: []gen.HeaderKV{{Name: "Content-Type", Values: []string{"text/plain"}}}, BodyLen: 1, BodyTag: uint64(n)}
	}
	switch shape {
	case "exchanges":
		for i := 0; i < n; i++ {
			s.Exchanges = append(s.Exchanges, one(fmt.Sprintf("https://a.example/e%d", i)))
		}
		if n == 0 && s.Version == "b1" {
			s.Exchanges = append(s.Exchanges, one("https://a.example/e0"))
		}
	case "headers":
		e := one("https://a.example/e0")
		e.Headers = nil
		for i := 0; i < n; i++ {
			e.Headers = append(e.Headers, gen.HeaderKV{Name: fmt.Sprintf("X-H%04d", i), Values: []string{"v"}})
		}
		s.Exchanges = []ExSpec{e}
	case "body-octets":
		e := one("https://a.example/e0")
		e.BodyLen = n
		s.Exchanges = []ExSpec{e, one("https://a.example/e1")}
	case "url-octets":
		u := "https://a.example/e0" + strings.Repeat("u", n)
		s.Primary = u
		s.Exchanges = []ExSpec{one(u), one("https://a.example/a")}
	case "value-octets":
		e := one("https://a.example/e0")
		e.Headers = append(e.Headers, gen.HeaderKV{Name: "X-Long", Values: []string{strings.Repeat("w", n)}})
		s.Exchanges = []ExSpec{e}
	default:
		return nil, false
	}
	return s, true
}
