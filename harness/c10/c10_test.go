// Package c10: every parser of external data terminates on every input with a value or an
// error — no panic, no unbounded loop, memory bounded by a constant plus a small multiple of
// the input size; declared lengths and counts are never trusted for allocation or iteration.
package c10

import (
	"bytes"
	"crypto/ecdsa"
	"crypto/rand"
	"crypto/sha256"
	"crypto/sha512"
	"encoding/base64"
	"encoding/binary"
	"encoding/json"
	"fmt"
	"io"
	"log"
	"net/url"
	"os"
	"path/filepath"
	"runtime"
	"runtime/debug"
	"strings"
	"testing"
	"time"

	"github.com/WICG/webpackage/go/bundle"
	"github.com/WICG/webpackage/go/bundle/signature"
	bversion "github.com/WICG/webpackage/go/bundle/version"
	"github.com/WICG/webpackage/go/integrityblock"
	"github.com/WICG/webpackage/go/internal/cbor"
	"github.com/WICG/webpackage/go/signedexchange"
	"github.com/WICG/webpackage/go/signedexchange/certurl"
	"github.com/WICG/webpackage/go/signedexchange/mice"
	"github.com/WICG/webpackage/go/signedexchange/structuredheader"
	"github.com/WICG/webpackage/go/verifh/gen"
	"github.com/WICG/webpackage/go/verifh/ref/refbundle"
	"github.com/WICG/webpackage/go/verifh/ref/refcbor"
	"github.com/WICG/webpackage/go/verifh/sxgkit"
	"github.com/WICG/webpackage/go/verifh/vh"
	"pgregory.net/rapid"
)

func TestMain(m *testing.M)   { vh.Main(m) }
func TestReplay(t *testing.T) { vh.Replay(t) }
func TestCorpus(t *testing.T) { vh.Corpus(t) }

// ---------------------------------------------------------------------------------------
// Targets

type Case struct {
	Target string `json:"target"`
	Input  vh.B   `json:"input"`
	Aux    vh.B   `json:"aux,omitempty"` // second input (certificate bytes)
	Str    string `json:"str,omitempty"` // digest header / header string
	Calls  string `json:"calls,omitempty"`
	// Family: further inputs that differ from Input ONLY in one declared length/count that
	// exceeds the content actually present (declared-value independence).
	Family []vh.B `json:"family,omitempty"`
	Origin string `json:"origin,omitempty"` // how the input was made (histogram only)
	// Plain: hand the input over through a reader that implements nothing but Read (like a file,
	// pipe or socket: no Len, no ReadByte, no WriteTo), optionally in small chunks.
	Plain int `json:"plain,omitempty"` // 0: bytes.Reader; n>0: plain reader returning at most n bytes per Read
	// Sigs: an in-memory signatures section handed to the bundle-signature verifier (directly
	// and after Bundle.WriteTo + bundle.Read), with attacker-chosen authority indices.
	Sigs *SigsCase `json:"sigs,omitempty"`
}

type SubsetCase struct {
	Authority uint64 `json:"authority"`
	Signed    vh.B   `json:"signed"`
	SigValid  bool   `json:"sig_valid"` // signature really made by fixture 0 over Signed
	Sig       vh.B   `json:"sig,omitempty"`
}

type SigsCase struct {
	AuthFixtures []int        `json:"auth_fixtures"`
	Subsets      []SubsetCase `json:"subsets"`
	ViaFile      bool         `json:"via_file"`
}

func runSigs(sc *SigsCase) bool {
	sigs := &bundle.Signatures{}
	for _, fx := range sc.AuthFixtures {
		sigs.Authorities = append(sigs.Authorities, &certurl.AugmentedCertificate{Cert: gen.Fixtures()[fx%len(gen.Fixtures())].Leaf, OCSPResponse: []byte("o")})
	}
	f := gen.Fixtures()[0]
	for _, ss := range sc.Subsets {
		sig := []byte(ss.Sig)
		if ss.SigValid {
			msg := append(append([]byte(strings.Repeat(" ", 64)), []byte("Web Package 1 b2\x00")...), ss.Signed...)
			h := sha256.Sum256(msg)
			var err error
			sig, err = ecdsa.SignASN1(rand.Reader, f.Key, h[:])
			if err != nil {
				panic(err)
			}
		}
		sigs.VouchedSubsets = append(sigs.VouchedSubsets, &bundle.VouchedSubset{Authority: ss.Authority, Sig: sig, Signed: ss.Signed})
	}
	b := &bundle.Bundle{Version: bversion.VersionB2, Signatures: sigs, Exchanges: []*bundle.Exchange{{Request: bundle.Request{URL: mustURL("https://a.example/0")},
		Response: bundle.Response{Status: 200, Header: map[string][]string{"Content-Type": {"text/plain"}}, Body: []byte("x")}}}}
	if sc.ViaFile {
		var buf bytes.Buffer
		if _, err := b.WriteTo(&buf); err != nil {
			return false
		}
		rb, err := bundle.Read(&buf)
		if err != nil {
			return false
		}
		b = rb
	}
	if b.Signatures == nil {
		return false
	}
	v, err := signature.NewVerifier(b.Signatures, time.Unix(1_700_000_000, 0), b.Version)
	if err != nil {
		return false
	}
	for _, e := range b.Exchanges {
		v.VerifyExchange(e)
	}
	return true
}

var discard = log.New(io.Discard, "", 0)

// run executes the target once. ok reports whether the parser accepted the input.
var currentSigs *SigsCase
var currentPlain int

type plainReader struct {
	b     []byte
	chunk int
}

func (p *plainReader) Read(dst []byte) (int, error) {
	if len(p.b) == 0 {
		return 0, io.EOF
	}
	n := len(dst)
	if n > p.chunk {
		n = p.chunk
	}
	n = copy(dst[:n], p.b)
	p.b = p.b[n:]
	return n, nil
}

// src wraps the input the way the case asks for.
func src(in []byte) io.Reader {
	if currentPlain > 0 {
		return &plainReader{b: in, chunk: currentPlain}
	}
	return bytes.NewReader(in)
}

func run(target string, in, aux []byte, str, calls string) (ok bool) {
	switch target {
	case "signature.verify-struct":
		return runSigs(currentSigs)
	case "bundle.Read":
		_, err := bundle.Read(src(in))
		return err == nil
	case "bundle.Read+verify":
		b, err := bundle.Read(src(in))
		if err != nil || b.Signatures == nil {
			return false
		}
		v, err := signature.NewVerifier(b.Signatures, time.Unix(1_700_000_000, 0), b.Version)
		if err != nil {
			return false
		}
		for _, e := range b.Exchanges {
			v.VerifyExchange(e)
		}
		return true
	case "signature.NewVerifier":
		// in = a signed-subset CBOR item; it is wrapped in a vouched subset signed with a fixture key
		f := gen.Fixtures()[0]
		msg := append(append([]byte(strings.Repeat(" ", 64)), []byte("Web Package 1 b2\x00")...), in...)
		h := sha256.Sum256(msg)
		sig, err := ecdsa.SignASN1(rand.Reader, f.Key, h[:])
		if err != nil {
			panic(err)
		}
		sigs := &bundle.Signatures{Authorities: []*certurl.AugmentedCertificate{{Cert: f.Leaf}}, VouchedSubsets: []*bundle.VouchedSubset{{Authority: 0, Sig: sig, Signed: in}}}
		_, err = signature.NewVerifier(sigs, time.Unix(1_700_000_000, 0), bversion.VersionB2)
		return err == nil
	case "signedexchange.ReadExchange":
		_, err := signedexchange.ReadExchange(src(in))
		return err == nil
	case "signedexchange.ReadExchangePrologue":
		_, err := signedexchange.ReadExchangePrologue(src(in))
		return err == nil
	case "signedexchange.Verify":
		e, err := signedexchange.ReadExchange(src(in))
		if err != nil {
			return false
		}
		_, ok := e.Verify(time.Unix(1_700_000_000, 0), func(string) ([]byte, error) { return aux, nil }, discard)
		return ok
	case "certurl.ReadCertChain":
		_, err := certurl.ReadCertChain(src(in))
		return err == nil
	case "structuredheader.ParseParameterisedList":
		_, err := structuredheader.ParseParameterisedList(str)
		return err == nil
	case "structuredheader.ParseListOfLists":
		_, err := structuredheader.ParseListOfLists(str)
		return err == nil
	case "mice.Decode02", "mice.Decode03":
		enc := mice.Draft03Encoding
		if target == "mice.Decode02" {
			enc = mice.Draft02Encoding
		}
		d, err := enc.NewDecoder(src(in), str, 16384)
		if err != nil {
			return false
		}
		_, err = io.ReadAll(d)
		return err == nil
	case "cbor.Decoder":
		d := cbor.NewDecoder(src(in))
		for _, c := range calls {
			var err error
			switch c {
			case 'u':
				_, err = d.DecodeUint()
			case 'a':
				_, err = d.DecodeArrayHeader()
			case 'm':
				_, err = d.DecodeMapHeader()
			case 'b':
				_, err = d.DecodeByteString()
			case 't':
				_, err = d.DecodeTextString()
			}
			if err != nil {
				return false
			}
		}
		return true
	case "integrityblock.WebBundleHasIntegrityBlock":
		_, err := integrityblock.WebBundleHasIntegrityBlock(bytes.NewReader(in))
		return err == nil
	case "integrityblock.ObtainIntegrityBlock":
		dir := os.Getenv("VERIF_TMP")
		if dir == "" {
			dir = os.TempDir()
		}
		f, err := os.CreateTemp(dir, "c10-ib-*")
		if err != nil {
			panic(err)
		}
		defer os.Remove(f.Name())
		defer f.Close()
		f.Write(in)
		_, _, err = integrityblock.ObtainIntegrityBlock(f)
		if err == nil {
			f.Seek(0, io.SeekStart)
			integrityblock.ComputeWebBundleSha512(f, 0)
		}
		return err == nil
	}
	panic("unknown target " + target)
}

type outcome struct {
	ok       bool
	panicMsg string
	timedOut bool
	alloc    uint64
}

var watchdog = 20 * time.Second
var confirmedHang bool

func measure(target string, in, aux []byte, str, calls string) outcome {
	var o outcome
	done := make(chan struct{})
	var m0, m1 runtime.MemStats
	runtime.GC()
	runtime.ReadMemStats(&m0)
	go func() {
		defer close(done)
		defer func() {
			if e := recover(); e != nil {
				o.panicMsg = fmt.Sprintf("%v\n%s", e, firstLines(string(debug.Stack()), 25))
			}
		}()
		o.ok = run(target, in, aux, str, calls)
	}()
	if confirmedHang {
		// a hang was already confirmed in this process: later cases (shrinking) use a short budget
		select {
		case <-done:
		case <-time.After(3 * time.Second):
			o.timedOut = true
		}
	} else {
		select {
		case <-done:
		case <-time.After(watchdog):
			// confirm with a longer budget before calling it non-termination
			select {
			case <-done:
			case <-time.After(3 * watchdog):
				o.timedOut = true
				confirmedHang = true
			}
		}
	}
	runtime.ReadMemStats(&m1)
	o.alloc = m1.TotalAlloc - m0.TotalAlloc
	return o
}

func firstLines(s string, n int) string {
	ls := strings.Split(s, "\n")
	if len(ls) > n {
		ls = ls[:n]
	}
	return strings.Join(ls, "\n")
}

// constant part of the allocation bound per target
func allocConst(target string) uint64 {
	switch target {
	case "signedexchange.ReadExchange", "signedexchange.ReadExchangePrologue", "signedexchange.Verify":
		// two 3-byte length fields (2 x 16 MiB) + one 2-byte field are explicitly "a constant"
		return 34 << 20
	}
	return 1 << 20
}

const allocFactor = 1024

// inflight: the case being executed is on disk so that a process killed by a wild allocation
// (fatal "out of memory", not recoverable) still leaves its input behind for the driver.
func inflight(c *Case, sub string) func() {
	dir := os.Getenv("VERIF_REPLAY_OUT")
	if dir == "" {
		return func() {}
	}
	path := filepath.Join(dir, "C10-"+sub+".inflight")
	b, _ := json.Marshal(map[string]any{"property": "C10", "sub": sub, "violation": map[string]string{"kind": "process-died", "msg": "the test process died (fatal error such as out of memory, or killed) while a parser was working on this input"}, "case": c})
	os.WriteFile(path, b, 0o644)
	return func() { os.Remove(path) }
}

// overlappingEntries detects the shape of known finding F12 with the independent parser:
// two or more index locations whose response ranges overlap.
func overlappingEntries(in []byte) bool {
	res := refbundle.Lenient(in)
	if res.P == nil {
		// Lenient returns no parse for rejects; try a cheap scan: not needed, the reader then
		// rejects too or the shape is Unspecified (not the F12 shape)
		return false
	}
	type sp struct{ a, b int }
	var spans []sp
	for _, ex := range res.P.Exchanges {
		spans = append(spans, sp{ex.Resp.Start, ex.Resp.End})
	}
	for i := range spans {
		for j := i + 1; j < len(spans); j++ {
			if spans[i].a < spans[j].b && spans[j].a < spans[i].b {
				return true
			}
		}
	}
	return false
}

func checkCase(c Case, r *vh.R, sub string) {
	clear := inflight(&c, sub)
	defer clear()
	r.Class("target:" + c.Target)
	if c.Origin != "" {
		r.Class("origin:" + c.Origin)
	}
	currentSigs = c.Sigs
	currentPlain = c.Plain
	if c.Plain > 0 {
		r.Class("plain-reader")
	}
	inputs := append([]vh.B{c.Input}, c.Family...)
	allocs := make([]uint64, len(inputs))
	size := len(c.Input) + len(c.Aux) + len(c.Str)
	if c.Sigs != nil {
		for _, ss := range c.Sigs.Subsets {
			size += len(ss.Signed) + len(ss.Sig)
		}
		size += 700 * len(c.Sigs.AuthFixtures)
	}
	_, f12Open := vh.KnownOpen("C10", "F12-overlapping-index-entries")
	for i, in := range inputs {
		o := measure(c.Target, in, c.Aux, c.Str, c.Calls)
		if o.panicMsg != "" {
			r.Failf("panic", "%s panicked on a %d-byte input: %s", c.Target, len(in), o.panicMsg)
			return
		}
		if o.timedOut {
			r.Failf("non-termination", "%s did not return within %v on a %d-byte input (confirmed in isolation)", c.Target, 4*watchdog, len(in))
			return
		}
		allocs[i] = o.alloc
		if o.ok {
			r.Class("accepted")
			r.NT()
		} else {
			r.Class("rejected")
		}
		bound := allocConst(c.Target) + allocFactor*uint64(size)
		if o.alloc > bound {
			if f12Open && strings.HasPrefix(c.Target, "bundle.Read") && overlappingEntries(in) {
				r.Known = "F12-overlapping-index-entries"
				r.Class("excluded-known-f12")
				continue
			}
			r.Failf("allocation", "%s allocated %d bytes for a %d-byte input (bound: %d + %d x input size = %d)", c.Target, o.alloc, size, allocConst(c.Target), allocFactor, bound)
			return
		}
	}
	if len(inputs) > 1 {
		r.Class("family")
		r.NT()
		lo, hi := allocs[0], allocs[0]
		for _, a := range allocs {
			if a < lo {
				lo = a
			}
			if a > hi {
				hi = a
			}
		}
		// Tolerance: staging buffers of a chunked reader (a few pieces of 32 or 64 KiB, possibly taken
		// from a pool by one family member and found there by the next) are a constant, not trust in
		// the declared value; 64 KiB proved too tight for a legitimate pooled 2 x 32 KiB reader.
		tol := uint64(256<<10) + uint64(size)
		if strings.HasPrefix(c.Target, "signedexchange.") {
			tol += 34 << 20
		}
		if hi-lo > tol {
			r.Failf("allocation-depends-on-declared-value", "%s: allocation varies between %d and %d bytes across inputs that differ only in a declared length/count exceeding the content present (tolerance %d): a declared value is trusted for allocation or iteration", c.Target, lo, hi, tol)
			return
		}
	}
	if len(c.Input) >= 8 {
		r.NT()
	}
}

var prop = vh.Define("C10", "parsers", func(c Case, r *vh.R) { checkCase(c, r, "parsers") })

// ---------------------------------------------------------------------------------------
// Valid artifacts and structure-aware mutation

var hostile = []uint64{0, 1, 23, 24, 255, 256, 65535, 65536, 1 << 20, 1 << 24, 1<<31 - 1, 1 << 31, 1 << 32, 1 << 40, 1<<62 - 1, 1 << 62, 1<<63 - 1, 1 << 63, ^uint64(0) - 8, ^uint64(0)}
var overlong = []uint64{1 << 16, 1 << 24, 1 << 31, 1 << 40, 1<<63 - 1, ^uint64(0)}

// cborMutate rewrites the head of one item inside a CBOR blob (descending into nested items).
func cborMutate(t *rapid.T, b []byte, label string) []byte {
	it, err := refcbor.Decode(b, 0)
	if err != nil {
		return b
	}
	items := refcbor.Walk(it)
	if rapid.IntRange(0, 2).Draw(t, label+"-keybyte") == 0 {
		// one byte of a text string (map keys such as "cert", "ocsp", "sig", "authority" are text)
		// altered in place: the entry is still well-formed but is no longer the key the parser
		// looks for, so mandatory fields go missing / unknown keys appear
		var texts []*refcbor.Item
		for _, x := range items {
			if x.Major == 3 && len(x.Content) > 0 && len(x.Content) <= 32 {
				texts = append(texts, x)
			}
		}
		if len(texts) > 0 {
			x := rapid.SampledFrom(texts).Draw(t, label+"-text")
			out := append([]byte{}, b...)
			pos := x.HeadEnd + rapid.SampledFrom([]int{0, len(x.Content) - 1, len(x.Content) / 2}).Draw(t, label+"-pos")
			out[pos] ^= rapid.SampledFrom([]byte{0x20, 0x01, 0x80}).Draw(t, label+"-xor")
			return out
		}
	}
	x := rapid.SampledFrom(items).Draw(t, label+"-item")
	v := rapid.SampledFrom(hostile).Draw(t, label+"-val")
	w := rapid.SampledFrom([]int{-1, 8}).Draw(t, label+"-width")
	return refcbor.RewriteHead(b, x, v, w)
}

// cborFamily returns variants of b in which one length/count head is replaced by over-long values.
func cborFamily(t *rapid.T, b []byte, label string) [][]byte {
	it, err := refcbor.Decode(b, 0)
	if err != nil {
		return nil
	}
	var cands []*refcbor.Item
	for _, x := range refcbor.Walk(it) {
		if x.Major >= 2 && x.Major <= 5 {
			cands = append(cands, x)
		}
	}
	if len(cands) == 0 {
		return nil
	}
	x := rapid.SampledFrom(cands).Draw(t, label+"-item")
	var out [][]byte
	for _, v := range overlong {
		out = append(out, refcbor.RewriteHead(b, x, v, 8))
	}
	return out
}

func smallBundleAsm(t *rapid.T) refbundle.Asm {
	ver := rapid.SampledFrom([]string{"b1", "b2"}).Draw(t, "bver")
	a := refbundle.Asm{Version: ver, Wide: true}
	if ver == "b1" {
		a.HeaderURL = "https://a.example/"
	}
	n := rapid.IntRange(1, 4).Draw(t, "bn")
	for i := 0; i < n; i++ {
		status := rapid.SampledFrom([]string{"200", "200", "200", "404", "200x", "200 ", "200 OK", "2000", "20", "", "abc", "9223372036854775808", "99999999999999999999", "+20", "-20", "2 0", "200\n", "\u0662\u0660\u0660", "1e2"}).Draw(t, "bstatus")
		hname := rapid.SampledFrom([]string{"content-type", "content-type", "x-a", "X-Upper", ":path", "", "x a", "content-type\x00", "\xc3\xa9"}).Draw(t, "bhname")
		hval := rapid.SampledFrom([]string{"text/plain", "text/plain", "", "\xff", "a\x00b", "\xc3\xa9", strings.Repeat("v", 300)}).Draw(t, "bhval")
		a.Resps = append(a.Resps, refbundle.AsmResp{Fields: []refbundle.HeaderField{{Name: ":status", Value: status}, {Name: hname, Value: hval}},
			BodyLen: rapid.SampledFrom([]int{0, 5, 100, 300}).Draw(t, "bbody"), BodyTag: uint64(i)})
		a.Index = append(a.Index, refbundle.AsmIndex{URL: fmt.Sprintf("https://a.example/%d", i), Resps: []int{i}})
	}
	a.Sections = []refbundle.AsmSection{{Name: "index", Kind: "index", Decoy: -1}, {Name: "signatures", Kind: "signatures", Decoy: -1}, {Name: "responses", Kind: "responses", Decoy: -1}}
	if ver == "b2" {
		a.Sections = append(a.Sections[:1:1], append([]refbundle.AsmSection{{Name: "primary", Kind: "primary", Text: "https://a.example/0", Decoy: -1}}, a.Sections[1:]...)...)
	}
	return a
}

// signedBundle builds a really signed bundle through the library (so that the signature
// verifier target reaches its decoding logic) and returns its bytes.
func signedBundle(n int) []byte {
	f := gen.Fixtures()[0]
	b := &bundle.Bundle{Version: bversion.VersionB2}
	cc, _ := certurl.NewCertChain(f.Chain, []byte("ocsp"), nil)
	u0 := mustURL("https://a.example/validity")
	sg, err := signature.NewSigner(b.Version, cc, f.Key, u0, time.Unix(1_700_000_000-10, 0), time.Hour)
	if err != nil {
		panic(err)
	}
	for i := 0; i < n; i++ {
		e := &bundle.Exchange{Request: bundle.Request{URL: mustURL(fmt.Sprintf("https://a.example/s%d", i))},
			Response: bundle.Response{Status: 200, Header: map[string][]string{"Content-Type": {"text/plain"}}, Body: gen.Filler(40, uint64(i))}}
		id, err := e.AddPayloadIntegrity(b.Version, 16)
		if err != nil {
			panic(err)
		}
		if err := sg.AddExchange(e, id); err != nil {
			panic(err)
		}
		b.Exchanges = append(b.Exchanges, e)
	}
	b.Signatures, err = sg.UpdateSignatures(nil)
	if err != nil {
		panic(err)
	}
	var buf bytes.Buffer
	if _, err := b.WriteTo(&buf); err != nil {
		panic(err)
	}
	return buf.Bytes()
}

func signedSubset(n int) []byte {
	var hashes []refcbor.KV
	for i := 0; i < n; i++ {
		hashes = append(hashes, refcbor.KV{K: refcbor.Tstr(fmt.Sprintf("https://a.example/%d", i)),
			V: refcbor.Arr(refcbor.Bstr(nil), refcbor.Bstr(bytes.Repeat([]byte{byte(i)}, 32)), refcbor.Tstr("digest/mi-sha256-03"))})
	}
	return refcbor.MapBytewise([]refcbor.KV{
		{K: refcbor.Tstr("validity-url"), V: refcbor.Tstr("https://a.example/v")},
		{K: refcbor.Tstr("auth-sha256"), V: refcbor.Bstr(gen.CertSha256(gen.Fixtures()[0].Leaf))},
		{K: refcbor.Tstr("date"), V: refcbor.Uint(1_700_000_000 - 10)},
		{K: refcbor.Tstr("expires"), V: refcbor.Uint(1_700_000_000 + 3600)},
		{K: refcbor.Tstr("subset-hashes"), V: refcbor.MapBytewise(hashes)},
	})
}

func sxgFile(t *rapid.T) ([]byte, []byte) {
	s := sxgkit.GenSpec(t)
	if s.PayloadLen > 2000 {
		s.PayloadLen %= 2000
	}
	s.Date, s.Expires = 1_700_000_000-100, 1_700_000_000+3600
	if rapid.IntRange(0, 2).Draw(t, "anystatus") == 0 {
		// any status, with and without explicit freshness: the verifier's policy code is a parser too
		s.Status = rapid.SampledFrom([]int{100, 199, 200, 204, 226, 299, 300, 308, 399, 400, 418, 451, 499, 500, 501, 502, 503, 504, 505, 508, 510, 511, 512, 599, 600, 999, 0, 1000, -1}).Draw(t, "status")
	}
	e, _, err := sxgkit.Build(s)
	if err != nil {
		panic(err)
	}
	var buf bytes.Buffer
	if err := e.Write(&buf); err != nil {
		panic(err)
	}
	return buf.Bytes(), sxgkit.ChainCBOR(s.Fixture)
}

func miStream(t *rapid.T) (string, []byte, string) {
	target := rapid.SampledFrom([]string{"mice.Decode02", "mice.Decode03"}).Draw(t, "mitarget")
	enc := mice.Draft03Encoding
	if target == "mice.Decode02" {
		enc = mice.Draft02Encoding
	}
	rs := rapid.SampledFrom([]int{1, 2, 16, 100, 16384}).Draw(t, "mirs")
	n := rapid.SampledFrom([]int{0, 1, 16, 17, 300, 40000}).Draw(t, "milen")
	var buf bytes.Buffer
	dg, err := enc.Encode(&buf, gen.Filler(n, 9), rs)
	if err != nil {
		panic(err)
	}
	return target, buf.Bytes(), dg
}

func shString(t *rapid.T) string {
	base := rapid.SampledFrom([]string{
		`label;sig=*AAAA*;integrity="digest/mi-sha256-03";cert-url="https://a/";cert-sha256=*AAAA*;validity-url="https://a/v";date=1;expires=2`,
		`a;b;c, d;e=1, f`, `"str\"x";tok;*YQ==*;12`, `en;gzip, fr;br`,
	}).Draw(t, "shbase")
	switch rapid.IntRange(0, 4).Draw(t, "shmode") {
	case 0:
		return base
	case 1:
		n := rapid.IntRange(1, 6).Draw(t, "shedits")
		b := []byte(base)
		for i := 0; i < n && len(b) > 0; i++ {
			b[rapid.IntRange(0, len(b)-1).Draw(t, "shoff")] = rapid.SampledFrom([]byte("\"\\*;,= -a1\x00\x7f\xff")).Draw(t, "shch")
		}
		return string(b)
	case 2:
		return strings.Repeat(rapid.SampledFrom([]string{"a;", "a,", `"`, `\`, "*", "1", "-", " ", "a;b=", `"\"`}).Draw(t, "shrep"), rapid.SampledFrom([]int{1, 100, 5000}).Draw(t, "shn"))
	case 3:
		return rapid.StringN(0, 60, -1).Draw(t, "shrand")
	}
	return base + strings.Repeat(", a;b=*"+base64.StdEncoding.EncodeToString(gen.Filler(300, 1))+"*", rapid.IntRange(1, 50).Draw(t, "shitems"))
}

func mustURL(s string) *url.URL {
	u, err := url.Parse(s)
	if err != nil {
		panic(err)
	}
	return u
}

func genCase(t *rapid.T) Case {
	kind := rapid.SampledFrom([]string{"sigs-struct", "sigs-struct", "bundle", "bundle", "bundle-family", "bundle-verify", "subset", "subset-family", "sxg", "sxg", "sxg-family", "sxg-verify",
		"certchain", "certchain-family", "sh", "sh", "mi", "mi-family", "cbor", "cbor-family", "ib", "random"}).Draw(t, "kind")
	switch kind {
	case "sigs-struct":
		sc := &SigsCase{ViaFile: rapid.Bool().Draw(t, "sviafile")}
		for i := rapid.IntRange(0, 3).Draw(t, "snauth"); i > 0; i-- {
			sc.AuthFixtures = append(sc.AuthFixtures, rapid.SampledFrom([]int{0, 0, 1, 3}).Draw(t, "sauthfix"))
		}
		for i := rapid.IntRange(1, 3).Draw(t, "snsub"); i > 0; i-- {
			ss := SubsetCase{Authority: rapid.SampledFrom(append([]uint64{0, 0, 1, 2, 3}, hostile...)).Draw(t, "sauthority"), SigValid: rapid.Bool().Draw(t, "ssigvalid")}
			ss.Signed = signedSubset(rapid.IntRange(0, 2).Draw(t, "snurls"))
			if rapid.IntRange(0, 2).Draw(t, "smut") == 0 {
				ss.Signed = cborMutate(t, ss.Signed, "ssm")
			}
			if !ss.SigValid {
				ss.Sig = rapid.SliceOfN(rapid.Byte(), 0, 80).Draw(t, "ssig")
			}
			sc.Subsets = append(sc.Subsets, ss)
		}
		return Case{Target: "signature.verify-struct", Sigs: sc, Origin: "signatures-struct"}
	case "bundle":
		a := smallBundleAsm(t)
		file, slots := refbundle.Assemble(&a)
		np := rapid.IntRange(1, 2).Draw(t, "np")
		if rapid.IntRange(0, 4).Draw(t, "transfer") == 0 && len(slots) >= 2 {
			// two fields edited together, sum unchanged modulo 2^64 (x moved from one to the other)
			i := rapid.IntRange(0, len(slots)-2).Draw(t, "ta")
			j := rapid.IntRange(i+1, len(slots)-1).Draw(t, "tb")
			x := rapid.SampledFrom([]uint64{^uint64(0) - slots[i].Value, 1 << 63, 1 << 32, 1, -slots[i].Value, 1<<63 - slots[i].Value}).Draw(t, "tx")
			file = refbundle.Patch(file, slots[i], slots[i].Value+x)
			file = refbundle.Patch(file, slots[j], slots[j].Value-x)
			np = 0
		}
		for i := 0; i < np; i++ {
			s := rapid.SampledFrom(slots).Draw(t, "slot")
			file = refbundle.Patch(file, s, rapid.SampledFrom(hostile).Draw(t, "sv"))
		}
		if rapid.IntRange(0, 4).Draw(t, "trunc") == 0 {
			file = file[:rapid.IntRange(0, len(file)).Draw(t, "tl")]
		}
		if rapid.IntRange(0, 2).Draw(t, "bytes") == 0 && len(file) > 0 {
			// content bytes (URLs, header names and values, bodies) set to hostile byte values
			for k := rapid.IntRange(1, 4).Draw(t, "nbytes"); k > 0; k-- {
				file[rapid.IntRange(0, len(file)-1).Draw(t, "boff")] = rapid.SampledFrom([]byte{0x00, 0xff, 0x80, 0x7f, ':', 'A', '#', '@', '%', ' '}).Draw(t, "bval")
			}
		}
		if rapid.Bool().Draw(t, "strbyte") {
			// first / last / middle content byte of one string field set to a hostile byte
			var strs []refbundle.Slot
			for _, s := range slots {
				if (s.Major == 2 || s.Major == 3) && s.Value > 0 && s.Value < 1<<20 {
					strs = append(strs, s)
				}
			}
			if len(strs) > 0 {
				s := rapid.SampledFrom(strs).Draw(t, "strslot")
				start := s.Off + 1 + s.Width
				pos := start + rapid.SampledFrom([]int{0, int(s.Value) - 1, int(s.Value) / 2}).Draw(t, "strpos")
				if pos < len(file) {
					file[pos] = rapid.SampledFrom([]byte{0x00, 0xff, 0x80}).Draw(t, "strval")
				}
			}
		}
		return Case{Target: "bundle.Read", Input: file, Origin: "assembled+patched"}
	case "bundle-family":
		a := smallBundleAsm(t)
		file, slots := refbundle.Assemble(&a)
		var cands []refbundle.Slot
		for _, s := range slots {
			if s.Width == 8 && s.Major >= 2 {
				cands = append(cands, s)
			}
		}
		s := rapid.SampledFrom(cands).Draw(t, "fslot")
		c := Case{Target: "bundle.Read", Origin: "family:" + stripIdx(s.Name)}
		for i, v := range overlong {
			p := refbundle.Patch(file, s, v)
			if i == 0 {
				c.Input = p
			} else {
				c.Family = append(c.Family, p)
			}
		}
		return c
	case "bundle-verify":
		b := signedBundle(rapid.IntRange(1, 3).Draw(t, "nsigned"))
		b = cborMutate(t, b, "bv")
		return Case{Target: "bundle.Read+verify", Input: b, Origin: "signed-bundle+cbor-mutation"}
	case "subset":
		b := signedSubset(rapid.IntRange(0, 4).Draw(t, "nsub"))
		return Case{Target: "signature.NewVerifier", Input: cborMutate(t, b, "ss"), Origin: "signed-subset+cbor-mutation"}
	case "subset-family":
		b := signedSubset(rapid.IntRange(1, 3).Draw(t, "nsub"))
		fam := cborFamily(t, b, "ssf")
		if len(fam) == 0 {
			return Case{Target: "signature.NewVerifier", Input: b}
		}
		return Case{Target: "signature.NewVerifier", Input: fam[0], Family: toB(fam[1:]), Origin: "family"}
	case "sxg", "sxg-verify":
		file, certs := sxgFile(t)
		target := "signedexchange.ReadExchange"
		if kind == "sxg-verify" {
			target = "signedexchange.Verify"
			if rapid.Bool().Draw(t, "mutcert") {
				certs = cborMutate(t, certs, "sxgcert")
			}
		} else if rapid.Bool().Draw(t, "prologue") {
			target = "signedexchange.ReadExchangePrologue"
		}
		switch rapid.IntRange(0, 5).Draw(t, "sxgmut") {
		case 5:
			// several signatures in one Signature header (the verifier tries them in turn): the same
			// member repeated under other labels (same cert-url, same everything), optionally with one
			// parameter of a copy damaged; together with a certificate chain that may not parse
			pos := 8
			if file[6] != '1' {
				pos = 10 + int(binary.BigEndian.Uint16(file[8:10]))
			}
			if len(file) >= pos+6 {
				sl := int(file[pos])<<16 | int(file[pos+1])<<8 | int(file[pos+2])
				if len(file) >= pos+6+sl {
					sig := string(file[pos+6 : pos+6+sl])
					members := []string{sig}
					for k := rapid.IntRange(1, 3).Draw(t, "msigs"); k > 0; k-- {
						m := strings.Replace(sig, "label;", fmt.Sprintf("label%d;", k), 1)
						switch rapid.IntRange(0, 3).Draw(t, "msigmut") {
						case 0:
							m = strings.Replace(m, "cert-url=\"", "cert-url=\"https://other.example/x?", 1)
						case 1:
							m = strings.Replace(m, "date=", "date=1", 1)
						}
						if rapid.Bool().Draw(t, "msigfront") {
							members = append([]string{m}, members...)
						} else {
							members = append(members, m)
						}
					}
					ns := strings.Join(members, ", ")
					nf := append([]byte{}, file[:pos]...)
					nf = append(nf, byte(len(ns)>>16), byte(len(ns)>>8), byte(len(ns)))
					nf = append(nf, file[pos+3:pos+6]...)
					nf = append(nf, ns...)
					file = append(nf, file[pos+6+sl:]...)
				}
			}
			if kind == "sxg-verify" {
				certs = rapid.SampledFrom([][]byte{certs, certs, []byte("not a certificate chain"), {}, {0x80}, certs[:len(certs)/2]}).Draw(t, "msigcerts")
			}
		case 4: // untouched: the code behind a VALID signature (acceptance policy) is parser code too
		case 0: // length fields of the prologue
			off := 8
			if file[6] != '1' { // not 1b1: fallback URL first
				ul := int(binary.BigEndian.Uint16(file[8:10]))
				if rapid.Bool().Draw(t, "urllen") {
					binary.BigEndian.PutUint16(file[8:10], rapid.SampledFrom([]uint16{0, 1, 0xffff, 0x8000}).Draw(t, "ul"))
					break
				}
				off = 10 + ul
			}
			v := rapid.SampledFrom([]uint32{0, 1, 16384, 16385, 524288, 524289, 0xffffff, 0x800000}).Draw(t, "lv")
			which := rapid.IntRange(0, 1).Draw(t, "whichlen") * 3
			file[off+which], file[off+which+1], file[off+which+2] = byte(v>>16), byte(v>>8), byte(v)
		case 1: // header CBOR
			if pf, err := parseLayout(file); err == nil {
				mut := cborMutate(t, pf.headers, "sxghdr")
				if len(mut) == len(pf.headers) {
					copy(file[pf.hdrOff:], mut)
				} else {
					file = append(append(append([]byte{}, file[:pf.hdrOff]...), mut...), file[pf.hdrOff+len(pf.headers):]...)
				}
			}
		case 2:
			file = file[:rapid.IntRange(0, len(file)).Draw(t, "sxgtrunc")]
		case 3: // MI record size field of the payload
			if pf, err := parseLayout(file); err == nil && len(file)-pf.payOff >= 8 {
				binary.BigEndian.PutUint64(file[pf.payOff:], rapid.SampledFrom(hostile).Draw(t, "rsv"))
			}
		}
		return Case{Target: target, Input: file, Aux: certs, Origin: "sxg-mutated"}
	case "sxg-family":
		file, _ := sxgFile(t)
		pf, err := parseLayout(file)
		if err != nil {
			return Case{Target: "signedexchange.ReadExchange", Input: file}
		}
		fam := cborFamily(t, pf.headers, "sxgf")
		c := Case{Target: "signedexchange.ReadExchange", Origin: "family"}
		for i, h := range fam {
			f2 := append(append(append([]byte{}, file[:pf.hdrOff]...), h...), file[pf.hdrOff+len(pf.headers):]...)
			// keep the declared header length equal to the new header block length
			hl := len(h)
			f2[pf.hdrLenOff], f2[pf.hdrLenOff+1], f2[pf.hdrLenOff+2] = byte(hl>>16), byte(hl>>8), byte(hl)
			if i == 0 {
				c.Input = f2
			} else {
				c.Family = append(c.Family, f2)
			}
		}
		if c.Input == nil {
			c.Input = file
		}
		return c
	case "certchain":
		return Case{Target: "certurl.ReadCertChain", Input: cborMutate(t, sxgkit.ChainCBOR(rapid.SampledFrom([]int{0, 1, 5}).Draw(t, "ccfix")), "cc"), Origin: "chain+cbor-mutation"}
	case "certchain-family":
		fam := cborFamily(t, sxgkit.ChainCBOR(0), "ccf")
		return Case{Target: "certurl.ReadCertChain", Input: fam[0], Family: toB(fam[1:]), Origin: "family"}
	case "sh":
		return Case{Target: rapid.SampledFrom([]string{"structuredheader.ParseParameterisedList", "structuredheader.ParseListOfLists"}).Draw(t, "shtarget"), Str: shString(t), Origin: "header-string"}
	case "mi":
		target, stream, dg := miStream(t)
		switch rapid.IntRange(0, 4).Draw(t, "mimut") {
		case 4:
			// The attacker controls the digest header too: a hostile record-size field together with a
			// digest that makes the decoder's FIRST integrity check succeed, whatever number k of
			// octets it takes for the first chunk (0..40 octets: sizes that wrap around 2^64 when the
			// 32-octet proof length is added; or the honest chunk), as a final (0x00) or inner (0x01)
			// record. Only then is the code behind the check reached.
			rsv := rapid.SampledFrom([]uint64{^uint64(0), ^uint64(0) - 1, ^uint64(0) - 8, ^uint64(0) - 30, ^uint64(0) - 31, ^uint64(0) - 32, ^uint64(0) - 33, 1 << 63, 1<<63 - 32, 16384, 16385, 1, 0}).Draw(t, "mirsw")
			body := gen.Filler(rapid.SampledFrom([]int{0, 1, 8, 31, 32, 33, 40, 64, 100}).Draw(t, "mibody"), 11)
			k := rapid.SampledFrom([]int{0, 1, 7, 8, 30, 31, 32, 33, 40}).Draw(t, "mik")
			if w := int(rsv + 32); rsv+32 < 64 && rapid.Bool().Draw(t, "mikwrap") {
				k = w // exactly the wrapped chunk size
			}
			if k > len(body) {
				k = len(body)
			}
			h := sha256.New()
			h.Write(body[:k])
			h.Write([]byte{byte(rapid.IntRange(0, 1).Draw(t, "mimarker"))})
			name, b64 := "mi-sha256-03=", base64.StdEncoding
			if target == "mice.Decode02" {
				name, b64 = "mi-sha256-draft2=", base64.RawURLEncoding
			}
			stream = append(binary.BigEndian.AppendUint64(nil, rsv), body...)
			return Case{Target: target, Input: stream, Str: name + b64.EncodeToString(h.Sum(nil)), Origin: "mi-crafted-digest"}
		case 0:
			if len(stream) >= 8 {
				binary.BigEndian.PutUint64(stream, rapid.SampledFrom(hostile).Draw(t, "mirsv"))
			}
		case 1:
			stream = stream[:rapid.IntRange(0, len(stream)).Draw(t, "mitrunc")]
		case 2:
			if len(stream) > 0 {
				stream[rapid.IntRange(0, len(stream)-1).Draw(t, "mioff")] ^= 0x40
			}
		case 3:
			dg = rapid.SampledFrom([]string{"", "mi-sha256-03=", "mi-sha256-03=AAAA", "x=y", dg + "=", strings.Repeat("=", 100)}).Draw(t, "midg")
		}
		return Case{Target: target, Input: stream, Str: dg, Origin: "mi-mutated"}
	case "mi-family":
		target, stream, dg := miStream(t)
		c := Case{Target: target, Str: dg, Origin: "family"}
		if len(stream) < 8 {
			c.Input = stream
			return c
		}
		// record sizes above the decoder's limit must all be refused the same way
		for i, v := range []uint64{16385, 1 << 20, 1 << 31, 1 << 40, 1<<63 - 1, ^uint64(0)} {
			s2 := append([]byte{}, stream...)
			binary.BigEndian.PutUint64(s2, v)
			if i == 0 {
				c.Input = s2
			} else {
				c.Family = append(c.Family, s2)
			}
		}
		return c
	case "cbor":
		n := rapid.IntRange(1, 5).Draw(t, "cn")
		var b []byte
		calls := ""
		for i := 0; i < n; i++ {
			m := rapid.SampledFrom([]int{0, 2, 3, 4, 5}).Draw(t, "cm")
			v := rapid.SampledFrom(hostile).Draw(t, "cv")
			b = append(b, refcbor.HeadW(m, v, rapid.SampledFrom([]int{8, refcbor.MinWidth(v)}).Draw(t, "cw"))...)
			b = append(b, gen.Filler(rapid.IntRange(0, 40).Draw(t, "cfill"), uint64(i))...)
			calls += string("utbam"[rapid.IntRange(0, 4).Draw(t, "cc")])
		}
		return Case{Target: "cbor.Decoder", Input: b, Calls: calls, Origin: "cbor-heads"}
	case "cbor-family":
		m := rapid.SampledFrom([]int{2, 3}).Draw(t, "cfm")
		content := gen.Filler(rapid.IntRange(0, 500).Draw(t, "cfn"), 3)
		c := Case{Target: "cbor.Decoder", Calls: map[int]string{2: "b", 3: "t"}[m], Origin: "family"}
		for i, v := range overlong {
			b := append(refcbor.HeadW(m, v, 8), content...)
			if i == 0 {
				c.Input = b
			} else {
				c.Family = append(c.Family, b)
			}
		}
		return c
	case "ib":
		n := rapid.SampledFrom([]int{0, 1, 7, 8, 9, 10, 11, 100}).Draw(t, "ibn")
		b := gen.Filler(n, 5)
		if n >= 10 && rapid.Bool().Draw(t, "ibmagic") {
			copy(b[2:], integrityblock.IntegrityBlockMagic)
		}
		if n >= 8 {
			binary.BigEndian.PutUint64(b[n-8:], rapid.SampledFrom([]uint64{0, uint64(n), uint64(n) + 1, 1 << 62, 1 << 63, ^uint64(0)}).Draw(t, "iblen"))
		}
		return Case{Target: rapid.SampledFrom([]string{"integrityblock.WebBundleHasIntegrityBlock", "integrityblock.ObtainIntegrityBlock"}).Draw(t, "ibtarget"), Input: b, Origin: "trailing-length"}
	}
	// random bytes against a random target
	target := rapid.SampledFrom([]string{"bundle.Read", "signedexchange.ReadExchange", "certurl.ReadCertChain", "cbor.Decoder", "mice.Decode03", "integrityblock.WebBundleHasIntegrityBlock"}).Draw(t, "rtarget")
	c := Case{Target: target, Input: rapid.SliceOfN(rapid.Byte(), 0, 120).Draw(t, "rbytes"), Origin: "random-bytes"}
	if target == "cbor.Decoder" {
		c.Calls = "btuam"
	}
	if target == "mice.Decode03" {
		c.Str = "mi-sha256-03=" + base64.StdEncoding.EncodeToString(make([]byte, 32))
	}
	return c
}

func toB(x [][]byte) []vh.B {
	out := make([]vh.B, len(x))
	for i := range x {
		out[i] = x[i]
	}
	return out
}

func stripIdx(s string) string {
	var b strings.Builder
	skip := false
	for _, ch := range s {
		if ch == '[' {
			skip = true
			b.WriteString("[]")
			continue
		}
		if ch == ']' {
			skip = false
			continue
		}
		if !skip {
			b.WriteRune(ch)
		}
	}
	return b.String()
}

type layout struct {
	hdrLenOff, hdrOff, payOff int
	headers                   []byte
}

// parseLayout locates the header block of a signed-exchange file (harness-side, layout only).
func parseLayout(b []byte) (*layout, error) {
	if len(b) < 14 {
		return nil, fmt.Errorf("short")
	}
	pos := 8
	if b[6] != '1' {
		if len(b) < 10 {
			return nil, fmt.Errorf("short")
		}
		pos = 10 + int(binary.BigEndian.Uint16(b[8:10]))
	}
	if len(b) < pos+6 {
		return nil, fmt.Errorf("short")
	}
	sl := int(b[pos])<<16 | int(b[pos+1])<<8 | int(b[pos+2])
	hl := int(b[pos+3])<<16 | int(b[pos+4])<<8 | int(b[pos+5])
	l := &layout{hdrLenOff: pos + 3, hdrOff: pos + 6 + sl}
	if len(b) < l.hdrOff+hl {
		return nil, fmt.Errorf("short")
	}
	l.headers = b[l.hdrOff : l.hdrOff+hl]
	l.payOff = l.hdrOff + hl
	return l, nil
}

func TestPropParsers(t *testing.T) {
	prop.Rapid(t, func(t *rapid.T) Case {
		c := genCase(t)
		if rapid.IntRange(0, 2).Draw(t, "plainreader") == 0 {
			c.Plain = rapid.SampledFrom([]int{1, 7, 512, 1 << 20}).Draw(t, "plainchunk")
		}
		return c
	})
}

// TestSlotSweep: small fixed bundles (b1 / b2, narrow and 8-byte heads, with an unknown section),
// EVERY length / count / offset field x every hostile value, and every truncation length, through
// bundle.Read: totality must not depend on which fields the random generator happens to pick.
func TestSlotSweep(t *testing.T) {
	mk := func(ver string, wide, raw bool) refbundle.Asm {
		a := refbundle.Asm{Version: ver, Wide: wide}
		if ver == "b1" {
			a.HeaderURL = "https://a.example/"
		}
		a.Resps = []refbundle.AsmResp{
			{Fields: []refbundle.HeaderField{{Name: ":status", Value: "200"}, {Name: "content-type", Value: "text/plain"}}, BodyLen: 5, BodyTag: 1},
			{Fields: []refbundle.HeaderField{{Name: "x-a", Value: "1"}, {Name: ":status", Value: "404"}}, BodyLen: 30, BodyTag: 2},
		}
		a.Index = []refbundle.AsmIndex{{URL: "https://a.example/a", Resps: []int{0}}, {URL: "https://a.example/b?x", Resps: []int{1}}}
		a.Sections = []refbundle.AsmSection{{Name: "index", Kind: "index", Decoy: -1}}
		if ver == "b2" {
			a.Sections = append(a.Sections, refbundle.AsmSection{Name: "primary", Kind: "primary", Text: "https://a.example/a", Decoy: -1})
		} else {
			a.Sections = append(a.Sections, refbundle.AsmSection{Name: "manifest", Kind: "manifest", Text: "https://a.example/m", Decoy: -1})
		}
		if raw {
			a.Sections = append([]refbundle.AsmSection{{Name: "future", Kind: "raw", RawLen: 7, Decoy: -1}}, a.Sections...)
		}
		a.Sections = append(a.Sections, refbundle.AsmSection{Name: "signatures", Kind: "signatures", Decoy: -1}, refbundle.AsmSection{Name: "responses", Kind: "responses", Decoy: -1})
		return a
	}
	asms := []refbundle.Asm{mk("b2", true, false), mk("b1", true, true)}
	if vh.Thorough() {
		asms = append(asms, mk("b2", false, true), mk("b1", false, false))
	}
	// every section name in EITHER version (files come from anywhere: a "manifest" in a b2 file, a
	// "primary" in a b1 file), and one section in turn made LARGE compared with everything else: a
	// reader that loses its place over a section is off by that section's length, and only a large
	// miss leaves the spare capacity behind the data it has read (where it goes unnoticed).
	mkAll := func(ver, big string) refbundle.Asm {
		a := mk(ver, true, false)
		long := strings.Repeat("m", 2600)
		secs := []refbundle.AsmSection{{Name: "index", Kind: "index", Decoy: -1}}
		add := func(name, kind, text string, rawLen int) {
			sec := refbundle.AsmSection{Name: name, Kind: kind, Text: text, RawLen: rawLen, Decoy: -1}
			if big == name {
				if kind == "raw" {
					sec.RawLen = 2600
				} else if text != "" {
					sec.Text = text + long
				}
			}
			secs = append(secs, sec)
		}
		add("future", "raw", "", 7)
		add("manifest", "manifest", "https://a.example/m", 0)
		add("primary", "primary", "https://a.example/a", 0)
		add("signatures", "signatures", "", 0)
		// the large section directly in front of the responses: what is read after a lost place is
		// then the responses section and the index entries that point into it, not another section
		for i := range secs {
			if secs[i].Name == big {
				sec := secs[i]
				secs = append(append(secs[:i:i], secs[i+1:]...), sec)
				break
			}
		}
		a.Sections = append(secs, refbundle.AsmSection{Name: "responses", Kind: "responses", Decoy: -1})
		return a
	}
	nBase := len(asms)
	for _, ver := range []string{"b1", "b2"} {
		for _, big := range []string{"", "future", "manifest", "primary"} {
			if !vh.Thorough() && !(ver == "b2" && big != "primary") && !(ver == "b1" && big == "primary") {
				continue
			}
			asms = append(asms, mkAll(ver, big))
		}
	}
	n := 0
	for ai, a := range asms {
		file, slots := refbundle.Assemble(&a)
		for _, sl := range slots {
			for _, v := range hostile {
				n++
				if !prop.One(t, Case{Target: "bundle.Read", Input: refbundle.Patch(file, sl, v), Origin: "slot-sweep"}) {
					return
				}
			}
			for _, d := range []uint64{1, ^uint64(0)} { // +1 / -1
				n++
				if !prop.One(t, Case{Target: "bundle.Read", Input: refbundle.Patch(file, sl, sl.Value+d), Origin: "slot-sweep"}) {
					return
				}
			}
		}
		for k := 0; k <= len(file); k++ {
			n++
			if !prop.One(t, Case{Target: "bundle.Read", Input: file[:k], Origin: "slot-sweep"}) {
				return
			}
		}
		// two fields moved TOGETHER by the same amount (a section length and an index entry that
		// stay consistent with each other while both leave the file): a small step, one that still
		// fits the spare capacity of a freshly read buffer, and one beyond it
		if ai >= nBase {
			for i := range slots {
				for j := i + 1; j < len(slots); j++ {
					for _, d := range []uint64{1, 40, 700, 2650} {
						n++
						in := refbundle.Patch(refbundle.Patch(file, slots[i], slots[i].Value+d), slots[j], slots[j].Value+d)
						if !prop.One(t, Case{Target: "bundle.Read", Input: in, Origin: "slot-sweep-pair"}) {
							return
						}
					}
				}
			}
		}
	}
	vh.Exhaustive("parsers", fmt.Sprintf("slot sweep: %d small bundles, every length/count/offset field x %d hostile values and +-1, every truncation length: %d inputs to bundle.Read", len(asms), len(hostile), n))
}

// variantsShape builds a variants-value with the given number of values per axis.
func variantsShape(axes []int) string {
	var sb strings.Builder
	for i, n := range axes {
		if i > 0 {
			sb.WriteString(", ")
		}
		fmt.Fprintf(&sb, "h%d", i)
		for j := 0; j < n; j++ {
			fmt.Fprintf(&sb, ";v%d", j)
		}
	}
	return sb.String()
}

func repeatInt(v, n int) []int {
	out := make([]int, n)
	for i := range out {
		out[i] = v
	}
	return out
}

// TestVariantsSweep: b1 index entries whose variants-value has so many axes that the NUMBER OF
// POSSIBLE KEYS - a product of legal per-axis counts - passes 10000, 2^31, 2^32, 2^63 or 2^64,
// each with every hostile value in the entry's array-count field, and with the counts that are
// CONSISTENT with the product under wrapped 64-bit arithmetic (2*n+1, n the wrapped product):
// a derived quantity that overflows can become small, zero or negative and then agree with a
// small declared count.
func TestVariantsSweep(t *testing.T) {
	shapes := [][]int{{2}, {3, 3, 3}, repeatInt(2, 13), repeatInt(2, 14), {10001}, {100, 100}, {101, 100}, repeatInt(2, 31), repeatInt(2, 32), repeatInt(2, 33),
		repeatInt(2, 62), repeatInt(2, 63), repeatInt(2, 64), repeatInt(2, 65), repeatInt(4, 16), repeatInt(4, 32), repeatInt(8, 21), repeatInt(16, 16), repeatInt(3, 40), repeatInt(3, 41),
		repeatInt(5, 28), repeatInt(7, 23), append(repeatInt(2, 63), 3), append(repeatInt(2, 62), 3), {65536, 65536, 65536, 32768}, {65536, 65536, 65536, 65536}, {1, 1, 1}, {0}, {}}
	n := 0
	for _, shape := range shapes {
		prod := int64(1) // wrapped, as a careless implementation computes it
		for _, k := range shape {
			prod *= int64(k)
		}
		vv := variantsShape(shape)
		if len(vv) > 1<<21 {
			continue
		}
		for _, wide := range []bool{false, true} {
			a := refbundle.Asm{Version: "b1", Wide: wide, HeaderURL: "https://a.example/"}
			a.Resps = []refbundle.AsmResp{
				{Fields: []refbundle.HeaderField{{Name: ":status", Value: "200"}, {Name: "variants", Value: vv}, {Name: "variant-key", Value: "v0"}}, BodyLen: 5, BodyTag: 1},
				{Fields: []refbundle.HeaderField{{Name: ":status", Value: "200"}}, BodyLen: 3, BodyTag: 2},
			}
			a.Index = []refbundle.AsmIndex{{URL: "https://a.example/a", Resps: []int{1}}, {URL: "https://a.example/neg", Variants: vv, Resps: []int{0, 1}}}
			a.Sections = []refbundle.AsmSection{{Name: "index", Kind: "index", Decoy: -1}, {Name: "manifest", Kind: "manifest", Text: "https://a.example/m", Decoy: -1},
				{Name: "responses", Kind: "responses", Decoy: -1}}
			file, slots := refbundle.Assemble(&a)
			for _, sl := range slots {
				if sl.Name != "index[1].arr" {
					continue
				}
				vals := append([]uint64{}, hostile...)
				for d := uint64(0); d <= 9; d++ {
					vals = append(vals, d)
				}
				w := uint64(prod)
				vals = append(vals, 2*w+1, 2*w, 2*w+2, 2*w+3, w, w+1, 2*(w&0xffffffff)+1, 2*uint64(int64(int32(w)))+1)
				for _, v := range vals {
					if sl.Width == 0 && v >= 24 {
						continue
					}
					n++
					if !prop.One(t, Case{Target: "bundle.Read", Input: refbundle.Patch(file, sl, v), Origin: "variants-sweep"}) {
						return
					}
				}
			}
			n++
			if !prop.One(t, Case{Target: "bundle.Read", Input: file, Origin: "variants-sweep"}) {
				return
			}
		}
	}
	vh.Exhaustive("parsers", fmt.Sprintf("variants sweep: %d variants-values whose number of possible keys passes 10000 / 2^31 / 2^32 / 2^63 / 2^64, narrow and 8-byte heads, entry array count = every hostile value, 0..9 and the counts consistent with the wrapped product: %d inputs to bundle.Read", len(shapes), n))
}

// TestStatusSweep: validly signed exchanges with EVERY status code -1..1100 (and a few larger
// ones), with no explicit freshness, with Expires, with max-age: Verify must return (never
// panic), whatever it decides. The statuses are what an attacker-chosen but correctly signed
// file can carry; table lookups keyed by the status live behind the signature check.
func TestStatusSweep(t *testing.T) {
	statuses := []int{1 << 15, 1 << 16, 1<<31 - 1, -1, -200}
	for st := 0; st <= 1100; st++ {
		statuses = append(statuses, st)
	}
	n := 0
	for _, st := range statuses {
		for fi, fresh := range [][]gen.HeaderKV{nil, {{Name: "Expires", Values: []string{"Thu, 01 Dec 2033 16:00:00 GMT"}}}, {{Name: "Cache-Control", Values: []string{"max-age=3600"}}}} {
			if fi > 0 && st%7 != 0 {
				continue
			}
			for _, ver := range []string{"1b3", "1b2"} {
				if ver == "1b2" && st%50 != 0 {
					continue
				}
				s := sxgkit.Spec{Version: ver, URL: "https://a.example/", Method: "GET", Status: st, PayloadLen: 10, RecordSize: 16, Fixture: 0, Date: 1_700_000_000 - 10, Expires: 1_700_000_000 + 100,
					ValidityURL: "https://a.example/v", CertURL: "https://a.example/c", ResHeaders: append([]gen.HeaderKV{{Name: "Content-Type", Values: []string{"text/html"}}}, fresh...)}
				e, _, err := sxgkit.Build(&s)
				if err != nil {
					continue
				}
				var buf bytes.Buffer
				if err := e.Write(&buf); err != nil {
					continue
				}
				n++
				if !prop.One(t, Case{Target: "signedexchange.Verify", Input: buf.Bytes(), Aux: sxgkit.ChainCBOR(0), Origin: "status-sweep"}) {
					return
				}
			}
		}
	}
	// the header fields that the acceptance policy PARSES (Cache-Control directives, Expires, Content-Type),
	// with hostile values, behind a valid signature
	hostileValues := []string{"", ",", ",,", "=", "==", "\"", "\"\"", "max-age", "max-age=", "max-age=\"", "max-age=\"600", "max-age=600\"", "max-age=\"600\"", "max-age=-1", "max-age=99999999999999999999",
		"no-cache=\",set-cookie\"", "no-cache=\"set-cookie,\"", "private=\", x\"", "private=\"", "a=\"b", "a=b=c", "=x", " ", "\t", ";", "public;", "s-maxage=1,", ",public", "public,,private", "no-store\x00",
		"MAX-AGE=1", "max-age = 1", "max-age=1 , public", strings.Repeat("a,", 2000), strings.Repeat("\"", 1001), strings.Repeat("x=", 500), "\\", "a=\"\\\"\"", "\xff\xfe", "public\r\n"}
	for _, name := range []string{"Cache-Control", "Expires", "Content-Type", "Pragma", "Vary", "Age"} {
		for _, v := range hostileValues {
			for _, two := range []bool{false, true} {
				vals := []string{v}
				if two {
					vals = []string{"public", v}
				}
				hs := []gen.HeaderKV{{Name: name, Values: vals}}
				if name != "Content-Type" {
					hs = append(hs, gen.HeaderKV{Name: "Content-Type", Values: []string{"text/html"}})
				}
				s := sxgkit.Spec{Version: "1b3", URL: "https://a.example/", Method: "GET", Status: 200, PayloadLen: 10, RecordSize: 16, Fixture: 0, Date: 1_700_000_000 - 10, Expires: 1_700_000_000 + 100,
					ValidityURL: "https://a.example/v", CertURL: "https://a.example/c", ResHeaders: hs}
				e, _, err := sxgkit.Build(&s)
				if err != nil {
					continue
				}
				var buf bytes.Buffer
				if err := e.Write(&buf); err != nil {
					continue
				}
				n++
				if !prop.One(t, Case{Target: "signedexchange.Verify", Input: buf.Bytes(), Aux: sxgkit.ChainCBOR(0), Origin: "policy-header-sweep"}) {
					return
				}
			}
		}
	}
	vh.Exhaustive("parsers", fmt.Sprintf("status sweep: validly signed 1b3 (and some 1b2) exchanges with every status -1..1100 and a few larger, with / without explicit freshness, through ReadExchange + Verify: %d files", n))
}

// ---------------------------------------------------------------------------------------
// Scaling families: the same shape at growing sizes must stay within the linear bound.

var scaleProp = vh.Define("C10", "scaling", func(c Case, r *vh.R) { checkCase(c, r, "scaling") })

func tinyEntryBundle(n int, alias bool, bodyLen int) []byte {
	a := refbundle.Asm{Version: "b2"}
	if alias {
		a.Resps = []refbundle.AsmResp{{Fields: []refbundle.HeaderField{{Name: ":status", Value: "200"}}, BodyLen: bodyLen, BodyTag: 1}}
	}
	for i := 0; i < n; i++ {
		ri := 0
		if !alias {
			a.Resps = append(a.Resps, refbundle.AsmResp{Fields: []refbundle.HeaderField{{Name: ":status", Value: "200"}}, BodyLen: bodyLen, BodyTag: uint64(i)})
			ri = i
		}
		a.Index = append(a.Index, refbundle.AsmIndex{URL: fmt.Sprintf("https://a.example/%d", i), Resps: []int{ri}})
	}
	a.Sections = []refbundle.AsmSection{{Name: "index", Kind: "index", Decoy: -1}, {Name: "responses", Kind: "responses", Decoy: -1}}
	b, _ := refbundle.Assemble(&a)
	return b
}

func TestScaling(t *testing.T) {
	sizes := []int{64}
	if vh.Thorough() {
		sizes = []int{16, 64, 256}
	}
	for _, kib := range sizes {
		target := kib << 10
		var cases []Case
		// honest bundles made only of tiny entries (~45 bytes each)
		cases = append(cases, Case{Target: "bundle.Read", Input: tinyEntryBundle(target/45, false, 0), Origin: "scale:tiny-entries"})
		// few large bodies
		cases = append(cases, Case{Target: "bundle.Read", Input: tinyEntryBundle(4, false, target/4), Origin: "scale:large-bodies"})
		// structured header with many items
		cases = append(cases, Case{Target: "structuredheader.ParseParameterisedList", Str: strings.TrimSuffix(strings.Repeat("a;b=1;c=\"x\", ", target/14), ", "), Origin: "scale:header-items"})
		cases = append(cases, Case{Target: "structuredheader.ParseListOfLists", Str: strings.TrimSuffix(strings.Repeat("a;b, ", target/5), ", "), Origin: "scale:header-items"})
		// MI stream with record size 1
		for _, enc := range []mice.Encoding{mice.Draft02Encoding, mice.Draft03Encoding} {
			var buf bytes.Buffer
			dg, _ := enc.Encode(&buf, gen.Filler(target/33, 1), 1)
			tg := "mice.Decode03"
			if enc == mice.Draft02Encoding {
				tg = "mice.Decode02"
			}
			cases = append(cases, Case{Target: tg, Input: buf.Bytes(), Str: dg, Origin: "scale:mi-rs1"})
		}
		// cert chain with many (repeated) certificates
		{
			f := gen.Fixtures()[0]
			items := [][]byte{refcbor.Tstr("\U0001F4DC⛓")}
			for i := 0; len(items)*len(f.Leaf.Raw) < target; i++ {
				kv := []refcbor.KV{{K: refcbor.Tstr("cert"), V: refcbor.Bstr(f.Leaf.Raw)}}
				if i == 0 {
					kv = append(kv, refcbor.KV{K: refcbor.Tstr("ocsp"), V: refcbor.Bstr([]byte("o"))})
				}
				items = append(items, refcbor.MapBytewise(kv))
			}
			cases = append(cases, Case{Target: "certurl.ReadCertChain", Input: refcbor.Arr(items...), Origin: "scale:cert-chain"})
		}
		// signed subset with many URLs
		cases = append(cases, Case{Target: "signature.NewVerifier", Input: signedSubset(target / 80), Origin: "scale:subset-hashes"})
		// signed exchange with many headers
		{
			s := sxgkit.Spec{Version: "1b3", URL: "https://a.example/", Method: "GET", Status: 200, PayloadLen: 10, RecordSize: 16, Fixture: 0, Date: 1_700_000_000 - 10, Expires: 1_700_000_000 + 100,
				ValidityURL: "https://a.example/v", CertURL: "https://c.example/c", ResHeaders: []gen.HeaderKV{{Name: "Content-Type", Values: []string{"text/html"}}}}
			for i := 0; i*20 < target && i*20 < 500000; i++ {
				s.ResHeaders = append(s.ResHeaders, gen.HeaderKV{Name: fmt.Sprintf("x-h%06d", i), Values: []string{"v"}})
			}
			e, _, err := sxgkit.Build(&s)
			if err == nil {
				var buf bytes.Buffer
				if e.Write(&buf) == nil {
					cases = append(cases, Case{Target: "signedexchange.Verify", Input: buf.Bytes(), Aux: sxgkit.ChainCBOR(0), Origin: "scale:sxg-headers"})
				}
			}
		}
		for _, c := range cases {
			if !scaleProp.One(t, c) {
				return
			}
		}
	}
}

// ---------------------------------------------------------------------------------------
// Known finding F12: index entries that all point at (or nest inside) one large response make
// bundle.Read copy it once per entry. Pinned reproduction; reported as KNOWN-FINDING while open.

func TestKnownF12(t *testing.T) {
	in := tinyEntryBundle(3000, true, 50000)
	o := measure("bundle.Read", in, nil, "", "")
	bound := allocConst("bundle.Read") + allocFactor*uint64(len(in))
	vh.Count("parsers", "known-f12-pinned-reproduction-runs", 1)
	f, open := vh.KnownOpen("C10", "F12-overlapping-index-entries")
	if o.panicMsg != "" || o.timedOut {
		scaleProp.One(t, Case{Target: "bundle.Read", Input: in, Origin: "f12-pinned"})
		return
	}
	if o.alloc > bound {
		if open {
			vh.ReportKnown(f, fmt.Sprintf("pinned reproduction: %d-byte bundle with 3000 index entries aliasing one 50000-byte response -> bundle.Read allocates %d bytes (bound %d)", len(in), o.alloc, bound))
			return
		}
		scaleProp.One(t, Case{Target: "bundle.Read", Input: in, Origin: "f12-pinned"})
		return
	}
	if open {
		fmt.Printf("NOTE: known finding F12 no longer reproduces (alloc %d <= bound %d); consider marking it fixed\n", o.alloc, bound)
	}
}

// ---------------------------------------------------------------------------------------
// Native fuzzing (thorough): no panic / allocation bound inside the targets.

func fuzzTarget(f *testing.F, target string, seeds [][]byte, str, calls string) {
	for _, s := range seeds {
		f.Add(s)
	}
	for _, hx := range [][]byte{{0x1b, 0xff, 0xff, 0xff, 0xff, 0xff, 0xff, 0xff, 0xff}, {0x5b, 0x7f, 0xff, 0xff, 0xff, 0xff, 0xff, 0xff, 0xff}, {0x9b, 0xff, 0xff, 0xff, 0xff, 0xff, 0xff, 0xff, 0xff}, {0x00, 0xff, 0xff}} {
		f.Add(hx)
	}
	f.Fuzz(func(t *testing.T, in []byte) {
		if len(in) > 1<<16 {
			return
		}
		// cheap path: panic check only (allocation measurement is too slow per exec and is covered by rapid)
		defer func() {
			if e := recover(); e != nil {
				c := Case{Target: target, Input: in, Str: str, Calls: calls, Origin: "native-fuzz"}
				prop.One(t, c)
			}
		}()
		run(target, in, nil, str, calls)
	})
}

func FuzzBundleRead(f *testing.F) {
	a := refbundle.Asm{Version: "b2", Wide: true, Resps: []refbundle.AsmResp{{Fields: []refbundle.HeaderField{{Name: ":status", Value: "200"}}, BodyLen: 3}},
		Index: []refbundle.AsmIndex{{URL: "https://a.example/", Resps: []int{0}}}, Sections: []refbundle.AsmSection{{Name: "index", Kind: "index", Decoy: -1}, {Name: "responses", Kind: "responses", Decoy: -1}}}
	b, slots := refbundle.Assemble(&a)
	seeds := [][]byte{b, signedBundle(1)}
	for _, s := range slots {
		seeds = append(seeds, refbundle.Patch(b, s, ^uint64(0)), refbundle.Patch(b, s, 1<<63))
	}
	fuzzTarget(f, "bundle.Read+verify", seeds, "", "")
}

func FuzzReadExchange(f *testing.F) {
	var seeds [][]byte
	for _, v := range []string{"1b1", "1b2", "1b3"} {
		s := sxgkit.Spec{Version: v, URL: "https://a.example/", Method: "GET", Status: 200, PayloadLen: 20, RecordSize: 16, Fixture: 0, Date: 1_700_000_000 - 10, Expires: 1_700_000_000 + 100,
			ValidityURL: "https://a.example/v", CertURL: "https://c.example/c", ResHeaders: []gen.HeaderKV{{Name: "Content-Type", Values: []string{"text/html"}}}}
		e, _, err := sxgkit.Build(&s)
		if err != nil {
			f.Fatal(err)
		}
		var buf bytes.Buffer
		e.Write(&buf)
		seeds = append(seeds, buf.Bytes())
	}
	// Verify with a fixed valid chain as the fetched certificate
	chain := sxgkit.ChainCBOR(0)
	for _, s := range seeds {
		f.Add(s)
	}
	f.Fuzz(func(t *testing.T, in []byte) {
		if len(in) > 1<<16 {
			return
		}
		defer func() {
			if e := recover(); e != nil {
				prop.One(t, Case{Target: "signedexchange.Verify", Input: in, Aux: chain, Origin: "native-fuzz"})
			}
		}()
		run("signedexchange.Verify", in, chain, "", "")
	})
}

func FuzzReadCertChain(f *testing.F) {
	fuzzTarget(f, "certurl.ReadCertChain", [][]byte{sxgkit.ChainCBOR(0), sxgkit.ChainCBOR(1)}, "", "")
}

func FuzzMiceDecode(f *testing.F) {
	var buf bytes.Buffer
	dg, _ := mice.Draft03Encoding.Encode(&buf, gen.Filler(100, 1), 16)
	fuzzTarget(f, "mice.Decode03", [][]byte{buf.Bytes()}, dg, "")
}

func FuzzStructuredHeader(f *testing.F) {
	f.Add(`label;sig=*AAAA*;integrity="digest/mi-sha256-03";date=1`)
	f.Add(`a;b, c;d="x\"y"`)
	f.Fuzz(func(t *testing.T, s string) {
		if len(s) > 1<<14 {
			return
		}
		for _, tg := range []string{"structuredheader.ParseParameterisedList", "structuredheader.ParseListOfLists"} {
			func() {
				defer func() {
					if e := recover(); e != nil {
						prop.One(t, Case{Target: tg, Str: s, Origin: "native-fuzz"})
					}
				}()
				run(tg, nil, nil, s, "")
			}()
		}
	})
}

var _ = sha512.New
