PLAN = dict(
    id="C10", pkg="c10", level="exploration",
    rule=("parsers: one call of a parser entry point (bundle.Read; bundle.Read + signature.NewVerifier + VerifyExchange; signature.NewVerifier on a crafted signed subset "
          "re-signed with a fixture key; signedexchange.ReadExchange / ReadExchangePrologue / Exchange.Verify with generated certificate bytes; certurl.ReadCertChain; "
          "structuredheader.ParseParameterisedList / ParseListOfLists; MI NewDecoder+ReadAll for both drafts; cbor.Decoder call sequences; WebBundleHasIntegrityBlock / "
          "ObtainIntegrityBlock on temp files) on a structure-aware mutant of a valid artifact (one or two length/count/offset fields rewritten to hostile values "
          "0..2^64-1 via the bundle assembler or a generic CBOR head rewriter, prologue length fields, MI record-size field, truncation, header-string edits and "
          "repetitions) or on random bytes. Oracle per call: no panic; returns within a watchdog (20 s, confirmed in isolation with 60 s more); TotalAlloc delta <= "
          "C + 1024 x input size (C = 1 MiB; 34 MiB for the signed-exchange prologue whose 3-byte fields are a stated constant). family: several inputs that differ "
          "ONLY in one declared length/count exceeding the content present (2^16 .. 2^64-1) must allocate the same amount within 256 KiB + input size. scaling: the same "
          "shape at 16/64/256 KiB (quick: 64 KiB) must stay within the linear bound. thorough: native coverage-guided fuzzing of five targets for panics. "
          "The slot sweep also builds files with every section name in either version, one section made large (2.6 kB) in turn and placed in front of the responses, and moves every PAIR of fields together by 1 / 40 / 700 / 2650. "
          "Non-trivial: accepted inputs, family cases, inputs of >= 8 bytes."),
    assumptions=TRUSTED + ["allocation is measured as the runtime.MemStats.TotalAlloc delta around the call with nothing else running in the process (repeatable to ~16 KiB)",
                           "open known finding F12 (index entries with overlapping response ranges) is excluded from the allocation bound by construction and its pinned reproduction is reported as KNOWN-FINDING"],
    technique="structure-aware mutation + random bytes + native fuzzing against a totality oracle (panic / watchdog / allocation bound) and a metamorphic declared-value-independence relation",
    level_text=("Falsification-oriented exploration: generators rewrite exactly the declared lengths and counts an attacker controls; the allocation oracle has an absolute "
                "linear bound (generous on purpose) and a sensitive metamorphic part that catches any make(..., declared) or loop pre-sizing without having to exhaust memory. "
                "Termination is a watchdog, memory a bound: both are falsifiers, not proofs."),
    level_note=NOTE_BASE,
    runs=[
        dict(name="scaling", run="^(TestScaling|TestKnownF12|TestStatusSweep|TestCorpus)$", timeout=(400, 1800), mem_gb=12),
        dict(name="sweep", run="^(TestSlotSweep|TestVariantsSweep)$", timeout=(400, 1800), mem_gb=12),
        dict(name="parsers", run="^TestPropParsers$", checks=(2500, 50000), shards=(4, 16), timeout=(400, 2400), mem_gb=12, gomaxprocs=2),
        dict(name="fuzz-bundle", fuzz="FuzzBundleRead", fuzztime=120, timeout=(0, 300)),
        dict(name="fuzz-sxg", fuzz="FuzzReadExchange", fuzztime=90, timeout=(0, 300)),
        dict(name="fuzz-certchain", fuzz="FuzzReadCertChain", fuzztime=60, timeout=(0, 300)),
        dict(name="fuzz-mice", fuzz="FuzzMiceDecode", fuzztime=60, timeout=(0, 300)),
        dict(name="fuzz-sh", fuzz="FuzzStructuredHeader", fuzztime=60, timeout=(0, 300)),
    ],
    require=[("parsers", "family"), ("parsers", "plain-reader"), ("parsers", "accepted"), ("parsers", "rejected"), ("parsers", "target:bundle.Read"), ("parsers", "target:signedexchange.Verify"),
             ("parsers", "target:certurl.ReadCertChain"), ("parsers", "target:signature.NewVerifier"), ("parsers", "target:signature.verify-struct"), ("parsers", "target:mice.Decode03"),
             ("parsers", "target:cbor.Decoder"), ("parsers", "target:integrityblock.ObtainIntegrityBlock"), ("scaling", "origin:scale:tiny-entries")],
)
