package sxgkit

import (
	"github.com/WICG/webpackage/go/verifh/gen"
	"pgregory.net/rapid"
)

// CacheableStatuses are "cacheable by default" (RFC 7231 section 6.1), all known to net/http.
var CacheableStatuses = []int{200, 203, 204, 206, 300, 301, 404, 405, 410, 414, 501}

// SigningFixtures are the fixture indices used as signers in generated specs.
var SigningFixtures = []int{0, 1, 4, 5}

func stringsRepeat(x string, n int) string {
	out := make([]byte, 0, n*len(x))
	for i := 0; i < n; i++ {
		out = append(out, x...)
	}
	return string(out)
}

// GenSpec draws a policy-conforming exchange spec: it must sign, write, read and verify.
func GenSpec(t *rapid.T) *Spec {
	s := &Spec{}
	s.Version = rapid.SampledFrom([]string{"1b1", "1b2", "1b3"}).Draw(t, "version")
	s.Fixture = rapid.SampledFrom(SigningFixtures).Draw(t, "fixture")
	host := rapid.SampledFrom(gen.Hosts).Draw(t, "host")
	port := ""
	if rapid.IntRange(0, 5).Draw(t, "hasport") == 0 {
		port = rapid.SampledFrom([]string{":443", ":8443", ":1"}).Draw(t, "port")
	}
	origin := "https://" + host + port
	s.URL = origin + gen.PathQuery(t, "url")
	s.ValidityURL = origin + rapid.SampledFrom([]string{"/validity", "/v/resource.validity.msg", "/", "/a%20b?x=1", ""}).Draw(t, "validity")
	if rapid.IntRange(0, 7).Draw(t, "longvalidity") == 0 {
		// long validity URLs (around the 255/256 byte boundary of one-byte length encodings)
		n := rapid.SampledFrom([]int{200, 254, 255, 256, 257, 300, 1000}).Draw(t, "validitylen")
		s.ValidityURL = origin + "/" + stringsRepeat("v", n)
	}
	s.CertURL = rapid.SampledFrom([]string{"https://cert.example/cert.cbor", "https://a.example/c?x=1", "data:application/cert-chain+cbor;base64,AAAA"}).Draw(t, "certurl")
	s.Method = "GET"
	if s.Version != "1b3" {
		s.Method = rapid.SampledFrom([]string{"GET", "GET", "HEAD"}).Draw(t, "method")
		s.ReqHeaders = gen.Headers(t, "req", 3)
	}
	s.Status = 200
	if rapid.IntRange(0, 3).Draw(t, "otherstatus") == 0 {
		s.Status = rapid.SampledFrom(CacheableStatuses).Draw(t, "status")
	}
	ct := rapid.SampledFrom([]string{"Content-Type", "content-type", "CONTENT-TYPE"}).Draw(t, "ctname")
	s.ResHeaders = append([]gen.HeaderKV{{Name: ct, Values: []string{rapid.SampledFrom([]string{"text/html", "text/html; charset=utf-8", "application/octet-stream"}).Draw(t, "ct")}}}, gen.Headers(t, "res", 5)...)
	s.RecordSize = gen.RecordSize(t, "rs")
	s.PayloadLen = gen.LenNear(t, "plen", s.RecordSize, 70000)
	s.PayloadTag = rapid.Uint64().Draw(t, "ptag")
	s.Date = rapid.Int64Range(1_000_000_000, 3_000_000_000).Draw(t, "date")
	life := int64(604800)
	switch rapid.IntRange(0, 4).Draw(t, "lifekind") {
	case 0:
		life = 604800
	case 1:
		life = rapid.Int64Range(0, 2).Draw(t, "lifesmall")
	default:
		life = rapid.Int64Range(1, 604800).Draw(t, "life")
	}
	s.Expires = s.Date + life
	return s
}
