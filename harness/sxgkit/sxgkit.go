// Package sxgkit builds, signs, serialises and verifies signed exchanges through the
// repository's public API from a JSON-serialisable Spec. Shared by C01, C02, C08, C09, C18, C19.
package sxgkit

import (
	"bytes"
	"fmt"
	"io"
	"log"
	"net/url"
	"sync"

	"github.com/WICG/webpackage/go/internal/signingalgorithm"
	"github.com/WICG/webpackage/go/signedexchange"
	"github.com/WICG/webpackage/go/signedexchange/certurl"
	"github.com/WICG/webpackage/go/signedexchange/version"
	"github.com/WICG/webpackage/go/verifh/gen"
	"github.com/WICG/webpackage/go/verifh/ref/refsxg"
)

// Spec describes one exchange and how it is signed.
type Spec struct {
	Version     string         `json:"version"` // 1b1 1b2 1b3
	URL         string         `json:"url"`
	Method      string         `json:"method"`
	ReqHeaders  []gen.HeaderKV `json:"req_headers,omitempty"`
	Status      int            `json:"status"`
	ResHeaders  []gen.HeaderKV `json:"res_headers"`
	PayloadLen  int            `json:"payload_len"`
	PayloadTag  uint64         `json:"payload_tag"`
	RecordSize  int            `json:"record_size"`
	Fixture     int            `json:"fixture"`
	Date        int64          `json:"date"`
	Expires     int64          `json:"expires"`
	ValidityURL string         `json:"validity_url"`
	CertURL     string         `json:"cert_url"`
	Mock        bool           `json:"mock,omitempty"` // MockSigningAlgorithm (deterministic bytes)
}

func (s *Spec) Payload() []byte { return gen.Filler(s.PayloadLen, s.PayloadTag) }

func Ver(v string) version.Version {
	ver, ok := version.Parse(v)
	if !ok {
		panic("bad version " + v)
	}
	return ver
}

// New creates the unsigned exchange (headers inserted with Header.Add).
func New(s *Spec) *signedexchange.Exchange {
	return signedexchange.NewExchange(Ver(s.Version), s.URL, s.Method, gen.BuildHeader(s.ReqHeaders), s.Status, gen.BuildHeader(s.ResHeaders), s.Payload())
}

// Signer builds the repository's Signer for the spec.
func Signer(s *Spec) (*signedexchange.Signer, error) {
	f := gen.Fixtures()[s.Fixture]
	cu, err := url.Parse(s.CertURL)
	if err != nil {
		return nil, err
	}
	vu, err := url.Parse(s.ValidityURL)
	if err != nil {
		return nil, err
	}
	sg := &signedexchange.Signer{
		Date:        gen.Instant(s.Date, 0),
		Expires:     gen.Instant(s.Expires, 0),
		Certs:       f.Chain,
		CertUrl:     cu,
		ValidityUrl: vu,
		PrivKey:     f.Key,
	}
	if s.Mock {
		sg.Algorithm = &signingalgorithm.MockSigningAlgorithm{}
	}
	return sg, nil
}

// Build = New + MiEncodePayload + AddSignatureHeader.
func Build(s *Spec) (*signedexchange.Exchange, *signedexchange.Signer, error) {
	e := New(s)
	if err := e.MiEncodePayload(s.RecordSize); err != nil {
		return nil, nil, fmt.Errorf("MiEncodePayload: %w", err)
	}
	sg, err := Signer(s)
	if err != nil {
		return nil, nil, err
	}
	if err := e.AddSignatureHeader(sg); err != nil {
		return nil, nil, fmt.Errorf("AddSignatureHeader: %w", err)
	}
	return e, sg, nil
}

// BuildWithUsedSigner is Build, but the Signer object has ALREADY signed another exchange (of
// format version prior, for another URL, validity URL, certificate URL and dates) before it is
// pointed at s and signs the exchange under test: nothing the first use left in the object may
// show in the second signature.
func BuildWithUsedSigner(s *Spec, prior string) (*signedexchange.Exchange, *signedexchange.Signer, error) {
	first := &Spec{Version: prior, URL: "https://a.example/used-signer", Method: "GET", Status: 200,
		ResHeaders: []gen.HeaderKV{{Name: "Content-Type", Values: []string{"text/plain"}}}, PayloadLen: 33, PayloadTag: 0x05ED, RecordSize: 16,
		Fixture: s.Fixture, Date: 1_500_000_000, Expires: 1_500_000_300, ValidityURL: "https://a.example/used-validity", CertURL: "https://cdn.example/used-cert"}
	_, sg, err := Build(first)
	if err != nil {
		return nil, nil, fmt.Errorf("first use of the signer: %w", err)
	}
	cu, err := url.Parse(s.CertURL)
	if err != nil {
		return nil, nil, err
	}
	vu, err := url.Parse(s.ValidityURL)
	if err != nil {
		return nil, nil, err
	}
	sg.Date, sg.Expires, sg.CertUrl, sg.ValidityUrl = gen.Instant(s.Date, 0), gen.Instant(s.Expires, 0), cu, vu
	if s.Mock {
		sg.Algorithm = &signingalgorithm.MockSigningAlgorithm{}
	}
	e := New(s)
	if err := e.MiEncodePayload(s.RecordSize); err != nil {
		return nil, nil, fmt.Errorf("MiEncodePayload: %w", err)
	}
	if err := e.AddSignatureHeader(sg); err != nil {
		return nil, nil, fmt.Errorf("AddSignatureHeader: %w", err)
	}
	return e, sg, nil
}

// ChainCBOR serialises a fixture's chain as application/cert-chain+cbor.
func ChainCBOR(fixture int) []byte {
	f := gen.Fixtures()[fixture]
	cc, err := certurl.NewCertChain(f.Chain, []byte("ocsp-dummy"), nil)
	if err != nil {
		panic(err)
	}
	var buf bytes.Buffer
	if err := cc.Write(&buf); err != nil {
		panic(err)
	}
	return buf.Bytes()
}

// Fetcher serves the chain of the given fixture for every URL.
func Fetcher(fixture int) signedexchange.CertFetcher {
	b := ChainCBOR(fixture)
	return func(string) ([]byte, error) { return b, nil }
}

var discard = log.New(io.Discard, "", 0)

// Verify runs Exchange.Verify at unix time t (plus nanoseconds).
func Verify(e *signedexchange.Exchange, t int64, nsec int64, fetch signedexchange.CertFetcher) ([]byte, bool) {
	return e.Verify(gen.Instant(t, nsec), fetch, discard)
}

// VerifyLog is Verify but returns the log text (diagnostics in violation messages).
func VerifyLog(e *signedexchange.Exchange, t int64, fetch signedexchange.CertFetcher) ([]byte, bool, string) {
	var buf bytes.Buffer
	p, ok := e.Verify(gen.Instant(t, 0), fetch, log.New(&buf, "", 0))
	return p, ok, buf.String()
}

// VerifyLogAt is VerifyLog at a sub-second instant.
func VerifyLogAt(e *signedexchange.Exchange, t, nsec int64, fetch signedexchange.CertFetcher) ([]byte, bool, string) {
	var buf bytes.Buffer
	p, ok := e.Verify(gen.Instant(t, nsec), fetch, log.New(&buf, "", 0))
	return p, ok, buf.String()
}

// Canon is the logical content of an exchange as the property states it.
type Canon struct {
	Version string
	URL     string
	Method  string
	Req     map[string]string
	Status  int
	Res     map[string]string
}

// CanonOf extracts the canonical view of a repository Exchange.
func CanonOf(e *signedexchange.Exchange) Canon {
	c := Canon{Version: string(e.Version), URL: e.RequestURI, Status: e.ResponseStatus, Res: gen.Normalize(e.ResponseHeaders)}
	if e.Version != version.Version1b3 {
		c.Method = e.RequestMethod
		c.Req = gen.Normalize(e.RequestHeaders)
	}
	return c
}

func (a Canon) Equal(b Canon) bool {
	if a.Version != b.Version || a.URL != b.URL || a.Method != b.Method || a.Status != b.Status {
		return false
	}
	if !gen.MapsEqual(a.Res, b.Res) {
		return false
	}
	if a.Version != "1b3" && !gen.MapsEqual(a.Req, b.Req) {
		return false
	}
	return true
}

func (a Canon) String() string {
	return fmt.Sprintf("{v=%s url=%q method=%q req=%v status=%d res=%v}", a.Version, a.URL, a.Method, a.Req, a.Status, a.Res)
}

// RefExchange converts a Canon into the reference implementation's Exchange.
func (a Canon) RefExchange() *refsxg.Exchange {
	return &refsxg.Exchange{Version: a.Version, URL: a.URL, Method: a.Method, ReqHeaders: a.Req, Status: a.Status, ResHeaders: a.Res}
}


var (
	disturbOnce sync.Once
	disturbEx   []*signedexchange.Exchange
)

// Disturb verifies a few unrelated, validly signed exchanges with other payloads. Checks call
// it between obtaining a result and judging it: a result that aliases state which later calls
// reuse (pooled buffers, scratch slices) changes under the caller's feet.
func Disturb() {
	disturbOnce.Do(func() {
		for i, n := range []int{1, 33, 700, 5000, 70000} {
			s := &Spec{Version: []string{"1b1", "1b2", "1b3"}[i%3], URL: "https://a.example/disturb", Method: "GET", Status: 200,
				ResHeaders: []gen.HeaderKV{{Name: "Content-Type", Values: []string{"text/plain"}}}, PayloadLen: n, PayloadTag: uint64(0xD15700 + i), RecordSize: 4096,
				Fixture: 0, Date: 1_600_000_000, Expires: 1_600_000_600, ValidityURL: "https://a.example/v", CertURL: "https://a.example/c"}
			e, _, err := Build(s)
			if err != nil {
				panic(err)
			}
			disturbEx = append(disturbEx, e)
		}
	})
	for _, e := range disturbEx {
		Verify(e, 1_600_000_100, 0, Fetcher(0))
	}
}
