// Package c15: the Merkle Integrity Content Encoding decoder hands out only data that is
// authenticated by the digest it was given.
package c15

import (
	"bytes"
	"encoding/binary"
	"fmt"
	"io"
	"math/rand"
	"testing"

	"github.com/WICG/webpackage/go/signedexchange/mice"
	"github.com/WICG/webpackage/go/verifh/gen"
	"github.com/WICG/webpackage/go/verifh/ref/refmice"
	"github.com/WICG/webpackage/go/verifh/vh"
	"pgregory.net/rapid"
)

func TestMain(m *testing.M)   { vh.Main(m) }
func TestReplay(t *testing.T) { vh.Replay(t) }
func TestCorpus(t *testing.T) { vh.Corpus(t) }

// Mut is ONE mutation applied to the honest stream of the case's payload.
//
//	none                       the honest stream
//	flip     A = bit index     (bit A%8 of octet A/8, most significant first)
//	trunc    A = new length
//	append   A = suffix length, filler from Seed (0: zero octets)
//	swap     A,B = record indices: the record octets are exchanged, proofs stay in place
//	swapunit A,B = unit indices: whole "record || next proof" units are exchanged
//	dup      A = unit index: the unit is sent twice
//	drop     A = unit index: the unit is left out
//	recsize  U = new value of the 8-octet record-size field
//	reframe  U = new value of the record-size field AND the stream cut to A octets: the attacker
//	         re-frames the same octets, e.g. presents "record_0 || proof(1)" as one final record
//	         (the second-preimage attempt the 0/1 flag exists to stop)
//	setproof A = proof index (1..records-1) replaced by filler from Seed
//	splice   first A octets of the honest stream, rest from the honest stream of the payload with bit B flipped
//	replace  the whole stream is replaced by Bytes (arbitrary stream)
type Mut struct {
	Kind  string `json:"kind"`
	A     int    `json:"a,omitempty"`
	B     int    `json:"b,omitempty"`
	U     uint64 `json:"u,omitempty"`
	Seed  int64  `json:"seed,omitempty"`
	Bytes vh.B   `json:"bytes,omitempty"`
}

// Case: honest stream of (Draft, RS, payload) -> Mut -> decoder with the honest digest (or,
// when Digest is set, with that arbitrary 32-octet digest). The payload is Len octets: the
// explicit prefix Payload followed by filler from a PRNG seeded with Seed (0: zero octets).
type Case struct {
	Draft       int    `json:"draft"`
	RS          int    `json:"rs"`
	Len         int    `json:"len"`
	Payload     vh.B   `json:"payload"`
	Seed        int64  `json:"seed"`
	Mut         Mut    `json:"mut"`
	Digest      vh.B   `json:"digest,omitempty"`
	MaxRS       uint64 `json:"max_rs"`
	Reads       []int  `json:"reads"`         // destination buffer sizes, cycled
	Chunk       int    `json:"chunk"`         // source hands out at most Chunk octets per Read (0: no limit)
	EOFWithData bool   `json:"eof_with_data"` // source reports io.EOF together with the final octets
	// EmptyFinal: the honest stream is the OTHER legal draft-02 encoding of a payload that is a
	// non-zero multiple of rs: full records followed by an explicit empty final record (its proof
	// SHA-256(0x00) is the last thing in the stream). The repository's encoder never emits it,
	// its decoder accepts it; the digest is that of this cut. Delivery is not demanded.
	EmptyFinal bool `json:"empty_final,omitempty"`
}

// records returns the records the honest stream of the case is cut into.
func records(draft int, p []byte, rs int, emptyFinal bool) [][]byte {
	if emptyFinal {
		return refmice.RecordsEmptyFinal(p, rs)
	}
	return refmice.Records(draft, p, rs)
}

func filler(seed int64, n int) []byte {
	out := make([]byte, n)
	if seed != 0 && n > 0 {
		rand.New(rand.NewSource(seed)).Read(out)
	}
	return out
}

func (c Case) payload() []byte {
	n := c.Len
	if n < len(c.Payload) {
		n = len(c.Payload)
	}
	out := filler(c.Seed, n)
	copy(out, c.Payload)
	return out
}

func encodingOf(draft int) (mice.Encoding, bool) {
	switch draft {
	case 2:
		return mice.Draft02Encoding, true
	case 3:
		return mice.Draft03Encoding, true
	}
	return "", false
}

// countingReader is the untrusted transport: it counts what the decoder pulled out of it.
type countingReader struct {
	b           []byte
	pos         int
	chunk       int
	eofWithData bool
}

func (r *countingReader) Read(p []byte) (int, error) {
	if r.pos >= len(r.b) {
		return 0, io.EOF
	}
	n := len(p)
	if r.chunk > 0 && n > r.chunk {
		n = r.chunk
	}
	n = copy(p[:n], r.b[r.pos:])
	r.pos += n
	if r.eofWithData && r.pos >= len(r.b) && n > 0 {
		return n, io.EOF
	}
	return n, nil
}

func be64(v uint64) []byte {
	var b [8]byte
	binary.BigEndian.PutUint64(b[:], v)
	return b[:]
}

func cat(parts ...[]byte) []byte {
	var out []byte
	for _, p := range parts {
		out = append(out, p...)
	}
	return out
}

// units cuts the honest stream into its "record || proof of next record" units.
func units(draft int, p []byte, rs int, ef bool) [][]byte {
	recs := records(draft, p, rs, ef)
	proofs := refmice.ProofsOf(recs)
	var us [][]byte
	for i, rec := range recs {
		u := append([]byte{}, rec...)
		if i+1 < len(recs) {
			u = append(u, proofs[i+1]...)
		}
		us = append(us, u)
	}
	return us
}

// apply returns the mutated stream; ok=false when the mutation's parameters do not fit the stream.
func (m Mut) apply(draft int, p []byte, rs int, honest []byte, ef bool) (out []byte, ok bool) {
	clone := func() []byte { return append([]byte{}, honest...) }
	switch m.Kind {
	case "none":
		return clone(), true
	case "flip":
		if m.A < 0 || m.A >= 8*len(honest) {
			return nil, false
		}
		out = clone()
		out[m.A/8] ^= 0x80 >> uint(m.A%8)
		return out, true
	case "trunc":
		if m.A < 0 || m.A > len(honest) {
			return nil, false
		}
		return clone()[:m.A], true
	case "append":
		if m.A < 0 || m.A > 1<<20 {
			return nil, false
		}
		return append(clone(), filler(m.Seed, m.A)...), true
	case "recsize":
		if len(honest) < 8 {
			return nil, false
		}
		out = clone()
		copy(out, be64(m.U))
		return out, true
	case "reframe":
		if len(honest) < 8 || m.A < 8 || m.A > len(honest) {
			return nil, false
		}
		out = clone()[:m.A]
		copy(out, be64(m.U))
		return out, true
	case "replace":
		return append([]byte{}, m.Bytes...), true
	case "splice":
		if len(p) == 0 || m.B < 0 || m.B >= 8*len(p) || m.A < 0 {
			return nil, false
		}
		q := append([]byte{}, p...)
		q[m.B/8] ^= 0x80 >> uint(m.B%8)
		other, _ := refmice.EncodeRecords(draft, records(draft, q, rs, ef), rs)
		if m.A > len(honest) || m.A > len(other) {
			return nil, false
		}
		return cat(honest[:m.A], other[m.A:]), true
	}
	if len(honest) < 8 {
		return nil, false
	}
	us := units(draft, p, rs, ef)
	n := len(us)
	switch m.Kind {
	case "swap":
		if m.A < 0 || m.B <= m.A || m.B >= n {
			return nil, false
		}
		recs := records(draft, p, rs, ef)
		proofs := refmice.ProofsOf(recs)
		recs[m.A], recs[m.B] = recs[m.B], recs[m.A]
		out = append(out, honest[:8]...)
		for i, rec := range recs {
			out = append(out, rec...)
			if i+1 < n {
				out = append(out, proofs[i+1]...)
			}
		}
		return out, true
	case "swapunit":
		if m.A < 0 || m.B <= m.A || m.B >= n {
			return nil, false
		}
		us[m.A], us[m.B] = us[m.B], us[m.A]
	case "dup":
		if m.A < 0 || m.A >= n {
			return nil, false
		}
		us = append(us[:m.A+1], us[m.A:]...)
	case "drop":
		if m.A < 0 || m.A >= n {
			return nil, false
		}
		us = append(us[:m.A:m.A], us[m.A+1:]...)
	case "setproof":
		if m.A < 1 || m.A >= n {
			return nil, false
		}
		u := us[m.A-1]
		copy(u[len(u)-refmice.ProofLen:], filler(m.Seed, refmice.ProofLen))
	default:
		return nil, false
	}
	return cat(honest[:8], cat(us...)), true
}

func trunc(b []byte) []byte {
	if len(b) > 48 {
		return b[:48]
	}
	return b
}

func contains(xs []int, v int) bool {
	for _, x := range xs {
		if x == v {
			return true
		}
	}
	return false
}

func check(c Case, r *vh.R) {
	enc, ok := encodingOf(c.Draft)
	if !ok || c.RS < 1 || c.RS > 1<<20 || c.Len > 1<<22 || (len(c.Digest) != 0 && len(c.Digest) != 32) {
		r.Skip = true
		return
	}
	p := c.payload()
	rs := c.RS
	if c.EmptyFinal && (c.Draft != 2 || len(p) == 0 || len(p)%rs != 0) {
		r.Skip = true
		return
	}
	recs := records(c.Draft, p, rs, c.EmptyFinal)
	honest, honestHeader := refmice.EncodeRecords(c.Draft, recs, rs)
	proof0 := refmice.ProofsOf(recs)[0]
	stream, ok := c.Mut.apply(c.Draft, p, rs, honest, c.EmptyFinal)
	if !ok {
		r.Skip = true
		return
	}

	// Which payload does the digest commit to? With the honest digest: p. With an arbitrary
	// digest: some unknown payload nobody can exhibit, so no octet at all may be released and
	// the end of the payload can never be reached.
	header := honestHeader
	committed := true
	if len(c.Digest) == 32 && !bytes.Equal(c.Digest, proof0) {
		header = refmice.Header(c.Draft, c.Digest)
		committed = false
	}
	same := bytes.Equal(stream, honest)
	nrec := (len(p) + rs - 1) / rs
	geomLen := len(p) // payload length whose ordinary cut has the unit boundaries of this stream
	if c.EmptyFinal {
		r.Class("honest-form:explicit-empty-final-record")
		nrec++
		geomLen++
	}

	// ------------------------------------------------------------------ classes / non-triviality
	r.Classf("draft%02d", c.Draft)
	r.Class("mut:" + c.Mut.Kind)
	if committed {
		r.Class("digest:honest")
		if !same && nrec >= 2 {
			r.NT()
		}
	} else {
		r.Class("digest:arbitrary")
		if len(stream) > 8 {
			if f := binary.BigEndian.Uint64(stream); f >= 1 && f <= c.MaxRS {
				r.NT() // the decoder gets as far as checking a record against the digest
			}
		}
	}
	if same {
		r.Class("identical-to-honest")
	}
	if committed && !same && len(stream) < len(honest) && bytes.Equal(stream, honest[:len(stream)]) {
		r.Class("truncation")
		unitEnds, recordEnds := refmice.UnitEnds(c.Draft, geomLen, rs)
		switch {
		case contains(unitEnds, len(stream)):
			r.Class("truncate-at-record-boundary")
			r.Class("truncate-at-unit-end")
			if len(p)%rs == 0 && !c.EmptyFinal && len(stream) == unitEnds[len(unitEnds)-1] {
				r.Class("truncate-before-full-size-last-record")
			}
		case contains(recordEnds, len(stream)):
			r.Class("truncate-at-record-boundary")
			r.Class("truncate-after-record-octets")
		}
	}
	if c.Mut.Kind == "reframe" && nrec >= 2 && c.Mut.A == 8+rs+refmice.ProofLen && c.Mut.U >= uint64(rs+refmice.ProofLen) && c.Mut.U <= c.MaxRS {
		r.Class("reframe-first-unit-as-final-record")
	}
	if c.Mut.Kind == "flip" {
		off := c.Mut.A / 8
		switch {
		case off < 8:
			r.Class("flip-in-size-field")
		case (off-8)%(rs+refmice.ProofLen) < rs:
			r.Class("flip-in-record")
		default:
			r.Class("flip-in-proof")
		}
	}

	// ------------------------------------------------------------------ run the decoder
	src := &countingReader{b: stream, chunk: c.Chunk, eofWithData: c.EOFWithData}
	dec, err := enc.NewDecoder(src, header, c.MaxRS)

	badSize := false
	if len(stream) >= 8 {
		f := binary.BigEndian.Uint64(stream)
		badSize = f == 0 || f > c.MaxRS
	}
	if badSize {
		r.Class("record-size-out-of-bounds")
		if err == nil {
			r.Failf("accepted-bad-record-size", "%s.NewDecoder accepted a stream whose record-size field is %d (limit %d)", enc, binary.BigEndian.Uint64(stream), c.MaxRS)
			return
		}
		if src.pos > 8 {
			r.Failf("read-before-refusal", "%s.NewDecoder refused record size %d (limit %d) only after pulling %d octets from the stream", enc, binary.BigEndian.Uint64(stream), c.MaxRS, src.pos)
			return
		}
	}
	mustDeliver := committed && same && !badSize && !c.EmptyFinal
	if err != nil {
		r.Class("rejected-at-newdecoder")
		if mustDeliver {
			r.Failf("honest-rejected", "%s.NewDecoder rejected the honest stream (payload %d octets, rs=%d, limit %d): %v", enc, len(p), rs, c.MaxRS, err)
		}
		return
	}
	if dec == nil {
		r.Failf("nil-decoder", "NewDecoder returned (nil, nil)")
		return
	}

	sizes := make([]int, 0, 6)
	positive := false
	for _, s := range c.Reads {
		if len(sizes) == 6 {
			break
		}
		if s < 0 {
			s = 0
		}
		if s > 1<<20 {
			s = 1 << 20
		}
		positive = positive || s > 0
		sizes = append(sizes, s)
	}
	if !positive {
		sizes = append(sizes, rs)
	}

	what := func() string {
		return fmt.Sprintf("%s payload=%d octets rs=%d mutation=%s(a=%d b=%d u=%d) stream=%d octets (honest %d)", enc, len(p), rs, c.Mut.Kind, c.Mut.A, c.Mut.B, c.Mut.U, len(stream), len(honest))
	}
	var out []byte
	stalls := 0
	limit := 8*len(p) + 64
	var final error
	for it := 0; ; it++ {
		if it > limit {
			r.Failf("no-progress", "%s: neither an error nor EOF after %d reads (%d octets delivered)", what(), it, len(out))
			return
		}
		dst := make([]byte, sizes[it%len(sizes)])
		n, err := dec.Read(dst)
		if n < 0 || n > len(dst) {
			r.Failf("bad-count", "Read(dst of %d) returned n=%d", len(dst), n)
			return
		}
		if n > 0 {
			if !committed {
				r.Failf("unauthenticated-output", "%s: decoder released %d octets (%x) although the digest %x is arbitrary", what(), n, trunc(dst[:n]), []byte(c.Digest))
				return
			}
			at := len(out)
			out = append(out, dst[:n]...)
			if len(out) > len(p) || !bytes.Equal(out[at:], p[at:len(out)]) {
				r.Failf("unauthenticated-output", "%s: output octets %d..%d = %x are not the committed payload's (%x)", what(), at, len(out), trunc(out[at:]), trunc(p[minInt(at, len(p)):minInt(len(out), len(p))]))
				return
			}
		}
		if err != nil {
			final = err
			break
		}
		if n == 0 && len(dst) > 0 {
			stalls++
			if stalls > 4 {
				r.Failf("no-progress", "%s: Read returned (0, nil) %d times in a row for non-empty destination buffers", what(), stalls)
				return
			}
		} else if n > 0 {
			stalls = 0
		}
	}

	// A consumer that retries after an error (or reads through bufio) must not be handed
	// anything either: every octet EVER output has to be authenticated payload.
	for extra := 0; extra < 4; extra++ {
		dst := make([]byte, sizes[extra%len(sizes)]+1)
		n, rerr := dec.Read(dst)
		if final != io.EOF && rerr == io.EOF && (!committed || len(out)+n < len(p)) {
			// "reports clean end-of-stream only after delivering that payload completely": a consumer
			// that reads on after the error (bufio.Reader, io.MultiReader, a retry loop) must not be
			// told that the stream ended cleanly
			r.Failf("clean-eof-after-error", "%s: after reporting %v (with %d of %d payload octets delivered) a further Read reports a clean io.EOF", what(), final, len(out), len(p))
			return
		}
		if n < 0 || n > len(dst) {
			r.Failf("bad-count", "Read(dst of %d) after the final error returned n=%d", len(dst), n)
			return
		}
		if n > 0 {
			r.Class("output-after-error-or-eof")
			at := len(out)
			out = append(out, dst[:n]...)
			if !committed || len(out) > len(p) || !bytes.Equal(out[at:], p[at:len(out)]) {
				r.Failf("unauthenticated-output-after-error", "%s: after reporting %v the decoder released %d more octets (%x) that are not authenticated payload", what(), final, n, trunc(dst[:n]))
				return
			}
		}
	}
	if final == io.EOF {
		if !committed {
			r.Failf("clean-eof-unauthenticated", "%s: clean EOF although the digest %x is arbitrary (it does not commit to the empty payload)", what(), []byte(c.Digest))
			return
		}
		if len(out) != len(p) {
			r.Failf("clean-eof-short", "%s: clean EOF after only %d of the %d committed payload octets", what(), len(out), len(p))
			return
		}
		if c.Mut.Kind == "append" && c.Mut.A >= 1 && len(stream) > len(honest) {
			// "... extension ... is detected": octets appended to the honest stream can never be part of
			// a stream the digest commits to, so the decoder must not end with a clean EOF
			r.Failf("extension-undetected", "%s: %d octets were appended to the honest stream, yet the decoder reported clean end-of-stream", what(), c.Mut.A)
			return
		}
		if len(stream) < len(honest) && bytes.Equal(stream, honest[:len(stream)]) {
			// "... truncation at any point ... is detected": a proper prefix of the honest stream lacks
			// payload octets, a proof, or (for the empty payload of draft 02, whose stream is nothing but
			// the record-size field) part of that field; it is never a stream of its own
			r.Failf("truncation-undetected", "%s: the stream is the honest one cut to %d of its %d octets, yet the decoder reported clean end-of-stream", what(), len(stream), len(honest))
			return
		}
		r.Class("clean-eof-full")
		if c.EmptyFinal {
			r.Class("explicit-empty-final-record:clean-eof-full")
		}
		return
	}
	r.Class("error-after-prefix")
	switch {
	case len(out) == 0:
		r.Class("error-before-any-output")
	case len(out) == len(p):
		r.Class("error-after-whole-payload")
	default:
		r.Class("error-after-proper-prefix")
	}
	if mustDeliver {
		r.Failf("honest-rejected", "%s: the honest stream failed after %d octets: %v", what(), len(out), final)
	}
}

func minInt(a, b int) int {
	if a < b {
		return a
	}
	return b
}

var exhProp = vh.Define("C15", "exh", check)
var rapidProp = vh.Define("C15", "rapid", check)
var arbProp = vh.Define("C15", "arb", check)
var hostProp = vh.Define("C15", "hostile-digest", check)

// ----------------------------------------------------------------------------- exhaustive

func readPattern(rs, i int) []int {
	base := []int{1, rs - 1, rs, rs + 33, 65536}
	switch i % 8 {
	case 5:
		return []int{1}
	case 6:
		return []int{65536}
	case 7:
		return []int{rs}
	}
	s := i % 8
	return append(append([]int{}, base[s:]...), base[:s]...)
}

func honestLen(draft, plen, rs int) int {
	if plen == 0 {
		if draft == 3 {
			return 0
		}
		return 8
	}
	n := (plen + rs - 1) / rs
	return 8 + plen + refmice.ProofLen*(n-1)
}

func dedupInts(xs []int) []int {
	seen := map[int]bool{}
	var out []int
	for _, x := range xs {
		if x >= 0 && !seen[x] {
			seen[x] = true
			out = append(out, x)
		}
	}
	return out
}

func TestExhaustiveMutations(t *testing.T) {
	sizes := []int{1, 2, 3, 5, 16}
	if vh.Thorough() {
		sizes = []int{1, 2, 3, 4, 5, 7, 8, 16, 31, 32, 33, 64}
	}
	fills := vh.Scale(2, 3)
	shard, shards := vh.Shard()
	rng := rand.New(rand.NewSource(vh.Seed()))
	nStreams, nCases := 0, 0
	cfg := 0
	for _, draft := range []int{2, 3} {
		for _, rs := range sizes {
			lens := []int{0, 1, rs - 1, rs, rs + 1, 2 * rs, 2*rs + 1, 3 * rs}
			if vh.Thorough() {
				lens = append(lens, 2*rs-1, 3*rs-1, 3*rs+1, 4*rs, 5*rs)
			}
			for _, l := range dedupInts(lens) {
				for f := 0; f < fills; f++ {
					p := make([]byte, l)
					rng.Read(p) // drawn for every configuration so that all shards see the same payloads
					if f == 1 {
						for i := range p { // all records identical, octets look like the 0/1 flags
							p[i] = byte(i % rs & 1)
						}
					}
					cfg++
					if cfg%shards != shard {
						continue
					}
					forms := []bool{false}
					if draft == 2 && l > 0 && l%rs == 0 {
						forms = append(forms, true) // the same payload cut with an explicit empty final record
					}
					for _, ef := range forms {
						nStreams++
						hl := honestLen(draft, l, rs)
						nrec := (l + rs - 1) / rs
						if l == 0 && draft == 2 {
							nrec = 1
						}
						geomLen := l
						if ef {
							hl += refmice.ProofLen
							nrec++
							geomLen++
						}
						base := Case{Draft: draft, RS: rs, Len: l, Payload: p, MaxRS: 16384, EmptyFinal: ef}
						i := 0
						run := func(m Mut, max uint64) bool {
							c := base
							c.Mut = m
							c.MaxRS = max
							c.Reads = readPattern(rs, i)
							c.Chunk = []int{0, 1, 7, 0}[i/8%4]
							c.EOFWithData = i/32%2 == 1
							i++
							nCases++
							return exhProp.One(t, c)
						}
						limits := []uint64{16384, uint64(rs) - 1, uint64(rs), uint64(rs) + 1}
						for _, max := range limits {
							if !run(Mut{Kind: "none"}, max) {
								return
							}
						}
						for b := 0; b < 8*hl; b++ {
							if !run(Mut{Kind: "flip", A: b}, 16384) {
								return
							}
							if b < 64 { // flips inside the record-size field also against tight limits
								for _, max := range limits[1:] {
									if !run(Mut{Kind: "flip", A: b}, max) {
										return
									}
								}
							}
						}
						for n := 0; n < hl; n++ {
							if !run(Mut{Kind: "trunc", A: n}, 16384) {
								return
							}
						}
						for _, n := range dedupInts([]int{1, 2, 7, 8, 9, 31, 32, 33, rs, rs + 32}) {
							for _, seed := range []int64{0, int64(1000*cfg + n)} {
								if !run(Mut{Kind: "append", A: n, Seed: seed}, 16384) {
									return
								}
							}
						}
						if hl >= 8 {
							for _, u := range []uint64{0, 1, uint64(rs) - 1, uint64(rs) + 1, 16384, 16385, 1 << 63, ^uint64(0)} {
								for _, max := range limits {
									if !run(Mut{Kind: "recsize", U: u}, max) {
										return
									}
								}
							}
							unitEnds, recordEnds := refmice.UnitEnds(draft, geomLen, rs)
							for _, u := range dedupInts([]int{rs + 31, rs + 32, rs + 33, 2*rs + 64, hl - 8, hl, 16384}) {
								for _, cut := range dedupInts(append(append([]int{hl}, unitEnds...), recordEnds...)) {
									if u == 0 {
										continue
									}
									if !run(Mut{Kind: "reframe", U: uint64(u), A: cut}, 16384) {
										return
									}
								}
							}
							for a := 0; a < nrec; a++ {
								for b := a + 1; b < nrec; b++ {
									if !run(Mut{Kind: "swap", A: a, B: b}, 16384) || !run(Mut{Kind: "swapunit", A: a, B: b}, 16384) {
										return
									}
								}
								if !run(Mut{Kind: "dup", A: a}, 16384) || !run(Mut{Kind: "drop", A: a}, 16384) {
									return
								}
								if a >= 1 && !run(Mut{Kind: "setproof", A: a, Seed: int64(cfg)}, 16384) {
									return
								}
							}
						}
					}
				}
			}
		}
	}
	// short streams under LARGE record sizes: a payload of 0 / 1 / 5 octets is one short final
	// record whatever the record size, so the stream is 8..13 octets long while the record-size
	// field holds 255 .. 2^20 (its low octets zero, its value spread over two or three octets).
	// Every truncation - inside the field, between field and record, inside the record - and every
	// single-bit flip, under the limit 2^20 and under the record size itself as the limit.
	if shard == 0 {
		for _, draft := range []int{2, 3} {
			for _, rs := range []int{255, 256, 257, 511, 512, 513, 4095, 4096, 4097, 16383, 16384, 16385, 65535, 65536, 65537, 1 << 20} {
				for _, l := range []int{0, 1, 5} {
					p := make([]byte, l)
					rng.Read(p)
					hl := honestLen(draft, l, rs)
					nStreams++
					i := 0
					for _, max := range []uint64{1 << 20, uint64(rs)} {
						muts := []Mut{{Kind: "none"}}
						for n := 0; n < hl; n++ {
							muts = append(muts, Mut{Kind: "trunc", A: n})
						}
						for b := 0; b < 8*hl; b++ {
							muts = append(muts, Mut{Kind: "flip", A: b})
						}
						for _, m := range muts {
							c := Case{Draft: draft, RS: rs, Len: l, Payload: p, MaxRS: max, Mut: m, Reads: readPattern(7, i), Chunk: []int{0, 1, 7, 3}[i%4], EOFWithData: i/4%2 == 1}
							i++
							nCases++
							if !exhProp.One(t, c) {
								return
							}
						}
					}
				}
			}
		}
	}
	vh.Exhaustive("exh", fmt.Sprintf("short streams (payloads of 0 / 1 / 5 octets) under record sizes 255 .. 2^20: every truncation and bit flip; drafts {02,03} x record size %v x payload lengths {0,1,rs-1,rs,rs+1,2rs,2rs+1,3rs%s} x %d payload filling(s); for each honest stream: EVERY single-bit flip, EVERY truncation length, appended suffixes of {1,31,32,33,rs,rs+32} octets (zero and random), every record swap / unit swap / unit duplication / unit removal / proof replacement, re-framing (record-size field set to {rs+31,rs+32,rs+33,2rs+64,len-8,len,16384} and the stream cut at every unit end / record end / not at all), record-size field set to {0,1,rs-1,rs+1,16384,16385,2^63,2^64-1} and the honest stream under limits {16384,rs-1,rs,rs+1}: %d streams, %d decodes in this process (shard %d of %d)",
		sizes, map[bool]string{false: "", true: ",2rs-1,3rs-1,3rs+1,4rs,5rs"}[vh.Thorough()], fills, nStreams, nCases, shard, shards))
}

// ----------------------------------------------------------------------------- generated

func drawGeometry(t *rapid.T, maxLen int) (draft, rs, plen int) {
	draft = rapid.SampledFrom([]int{2, 3}).Draw(t, "draft")
	switch rapid.IntRange(0, 3).Draw(t, "rs-mode") {
	case 0:
		rs = rapid.SampledFrom([]int{1, 2, 16383, 16384}).Draw(t, "rs-edge")
	case 1:
		rs = rapid.IntRange(1, 64).Draw(t, "rs-small")
	case 2:
		rs = rapid.IntRange(1, 16384).Draw(t, "rs")
	default:
		rs = rapid.SampledFrom([]int{3, 31, 32, 33, 255, 256, 4096}).Draw(t, "rs-pow")
	}
	maxK := 5
	if rapid.IntRange(0, 24).Draw(t, "big") == 0 {
		maxK = minInt(maxLen/rs, 600)
		if maxK < 5 {
			maxK = 5
		}
	}
	k := rapid.IntRange(0, maxK).Draw(t, "k")
	switch rapid.IntRange(0, 4).Draw(t, "len-mode") {
	case 0:
		plen = k * rs
	case 1:
		plen = k*rs - 1
	case 2:
		plen = k*rs + 1
	default:
		plen = k*rs + rapid.IntRange(0, rs).Draw(t, "residue")
	}
	if plen < 0 {
		plen = 0
	}
	if plen > maxLen {
		plen = maxLen
	}
	return
}

func drawReads(t *rapid.T, rs int) []int {
	sz := rapid.SampledFrom([]int{1, rs - 1, rs, rs + 33, 65536, 0, 7, 2*rs + 1})
	return rapid.SliceOfN(sz, 1, 6).Draw(t, "reads")
}

func drawLimit(t *rapid.T, rs int) uint64 {
	if rapid.IntRange(0, 3).Draw(t, "tight-limit") == 0 {
		return uint64(rs + rapid.IntRange(-1, 1).Draw(t, "limit-delta"))
	}
	return 16384
}

func TestPropMutation(t *testing.T) { rapidProp.Rapid(t, genPropMutation) }

// TestConcMutation: batches of cases evaluated at the same time on separate goroutines (vh.Prop.Concurrent).
func TestConcMutation(t *testing.T) { rapidProp.Concurrent(t, genPropMutation, 8, 3) }

func genPropMutation(t *rapid.T) Case {
	c := Case{}
	c.Draft, c.RS, c.Len = drawGeometry(t, 128<<10)
	if rapid.IntRange(0, 9).Draw(t, "zeros") != 0 {
		c.Seed = rapid.Int64Range(1, 1<<40).Draw(t, "seed")
	}
	rs := c.RS
	hl := honestLen(c.Draft, c.Len, rs)
	nrec := (c.Len + rs - 1) / rs
	if c.Draft == 2 && c.Len > 0 && c.Len%rs == 0 && rapid.IntRange(0, 2).Draw(t, "empty-final") == 0 {
		c.EmptyFinal = true
		hl += refmice.ProofLen
		nrec++
	}
	unit := rs + refmice.ProofLen
	kind := rapid.SampledFrom([]string{"flip", "flip", "flip", "trunc", "trunc", "trunc", "append", "swap", "swapunit", "dup", "drop", "recsize", "reframe", "reframe", "setproof", "splice", "none"}).Draw(t, "mutation")
	m := Mut{Kind: kind}
	idx := func(label string) int {
		if nrec <= 1 {
			return 0
		}
		return rapid.IntRange(0, nrec-1).Draw(t, label)
	}
	switch kind {
	case "flip":
		if hl == 0 {
			m.Kind = "none"
			break
		}
		var off int
		switch rapid.IntRange(0, 4).Draw(t, "flip-where") {
		case 0:
			off = rapid.IntRange(0, minInt(7, hl-1)).Draw(t, "size-octet")
		case 1:
			off = hl - 1 - rapid.IntRange(0, minInt(40, hl-1)).Draw(t, "from-end")
		case 2: // inside a proof
			off = 8 + idx("unit")*unit + rs + rapid.IntRange(0, 31).Draw(t, "proof-octet")
		case 3: // inside a record
			off = 8 + idx("unit")*unit + rapid.IntRange(0, rs-1).Draw(t, "record-octet")
		default:
			off = rapid.IntRange(0, hl-1).Draw(t, "octet")
		}
		if off >= hl {
			off = hl - 1
		}
		m.A = off*8 + rapid.IntRange(0, 7).Draw(t, "bit")
	case "trunc":
		switch rapid.IntRange(0, 3).Draw(t, "trunc-where") {
		case 0: // end of a unit
			m.A = 8 + (idx("unit")+1)*unit
		case 1: // right after the octets of a record
			m.A = 8 + idx("unit")*unit + rs
		case 2:
			m.A = 8 + idx("unit")*unit + rapid.SampledFrom([]int{0, 1, rs - 1, rs + 1, rs + 31, unit - 1, unit + 1}).Draw(t, "near")
		default:
			m.A = rapid.IntRange(0, hl).Draw(t, "length")
		}
		if m.A >= hl {
			m.A = hl - 1
		}
		if m.A < 0 {
			m.Kind = "none"
			m.A = 0
		}
	case "append":
		m.A = rapid.SampledFrom([]int{1, 2, 7, 8, 9, 31, 32, 33, rs, rs + 32, unit + 1, 2 * unit}).Draw(t, "suffix")
		if rapid.Bool().Draw(t, "random-suffix") {
			m.Seed = rapid.Int64Range(1, 1<<40).Draw(t, "suffix-seed")
		}
	case "swap", "swapunit":
		if nrec < 2 {
			m.Kind = "none"
			break
		}
		m.A = rapid.IntRange(0, nrec-2).Draw(t, "i")
		m.B = rapid.IntRange(m.A+1, nrec-1).Draw(t, "j")
	case "dup", "drop":
		if hl < 8 {
			m.Kind = "none"
			break
		}
		m.A = idx("unit")
	case "setproof":
		if nrec < 2 {
			m.Kind = "none"
			break
		}
		m.A = rapid.IntRange(1, nrec-1).Draw(t, "proof")
		m.Seed = rapid.Int64Range(0, 1<<40).Draw(t, "proof-seed")
	case "recsize":
		if hl < 8 {
			m.Kind = "none"
			break
		}
		cands := []uint64{0, 1, uint64(rs) - 1, uint64(rs) + 1, 16384, 16385, 1 << 63, ^uint64(0), uint64(rs) + 32, uint64(c.Len), uint64(c.Len) + 1, uint64(rs) << 8, uint64(rs) << 56}
		m.U = rapid.SampledFrom(cands).Draw(t, "size")
		if rapid.IntRange(0, 3).Draw(t, "any-size") == 0 {
			m.U = rapid.Uint64().Draw(t, "size-any") >> uint(rapid.IntRange(0, 63).Draw(t, "size-shift"))
		}
	case "reframe":
		if hl < 9 {
			m.Kind = "none"
			break
		}
		m.U = uint64(rapid.SampledFrom([]int{unit, unit + 1, unit - 1, 2 * unit, hl - 8, 16384}).Draw(t, "frame"))
		if rapid.IntRange(0, 3).Draw(t, "any-frame") == 0 {
			m.U = uint64(rapid.IntRange(1, 16384).Draw(t, "frame-any"))
		}
		switch rapid.IntRange(0, 2).Draw(t, "cut") {
		case 0:
			m.A = 8 + unit
		case 1:
			m.A = 8 + (idx("unit")+1)*unit
		default:
			m.A = hl
		}
		if m.A > hl {
			m.A = hl
		}
	case "splice":
		if c.Len == 0 {
			m.Kind = "none"
			break
		}
		m.B = rapid.IntRange(0, 8*c.Len-1).Draw(t, "payload-bit")
		m.A = rapid.IntRange(0, hl).Draw(t, "cut")
		if rapid.Bool().Draw(t, "cut-at-unit") {
			m.A = minInt(hl, 8+idx("unit")*unit)
		}
	}
	c.Mut = m
	c.MaxRS = drawLimit(t, rs)
	c.Reads = drawReads(t, rs)
	c.Chunk = rapid.SampledFrom([]int{0, 0, 1, 7, 4096}).Draw(t, "chunk")
	c.EOFWithData = rapid.Bool().Draw(t, "eof-with-data")
	return c
}

// hostileDigests: 32-octet values that are the digest of no payload anybody can exhibit, but
// that an implementation might give a meaning of its own (a zero value standing for "no proof
// expected", a sentinel, an uninitialised array).
func hostileDigests() [][]byte {
	rep := func(b byte) []byte { return bytes.Repeat([]byte{b}, 32) }
	asc := make([]byte, 32)
	for i := range asc {
		asc[i] = byte(i)
	}
	one := make([]byte, 32)
	one[31] = 1
	first := make([]byte, 32)
	first[0] = 1
	return [][]byte{rep(0), rep(0xff), rep(0x20), rep(0x01), rep(0x80), asc, one, first}
}

// TestHostileDigests enumerates patterned digests x draft x record size x small streams
// (nothing, the size field alone, size field + zero octets, honest streams of small payloads,
// a lone proof) x limits: nothing may be released and no clean EOF reported.
func TestHostileDigests(t *testing.T) {
	n := 0
	for _, d := range hostileDigests() {
		for _, draft := range []int{2, 3} {
			for _, rs := range []int{1, 2, 16, 32, 33, 4096} {
				streams := [][]byte{nil, be64(uint64(rs)), cat(be64(uint64(rs)), make([]byte, 1)), cat(be64(uint64(rs)), make([]byte, rs)),
					cat(be64(uint64(rs)), make([]byte, rs+32)), cat(be64(uint64(rs)), d), cat(be64(uint64(rs)), make([]byte, rs), d), cat(be64(uint64(rs)), d, d)}
				for _, l := range []int{0, 1, rs, rs + 1, 2 * rs} {
					h, _ := refmice.Encode(draft, filler(7, l), rs)
					streams = append(streams, h)
				}
				for _, s := range streams {
					for _, reads := range [][]int{{1}, {rs + 40}} {
						c := Case{Draft: draft, RS: rs, Len: 0, Digest: d, Mut: Mut{Kind: "replace", Bytes: s}, MaxRS: 1 << 20, Reads: reads}
						n++
						if !hostProp.One(t, c) {
							return
						}
					}
				}
			}
		}
	}
	vh.Exhaustive("hostile-digest", fmt.Sprintf("hostile digests: %d patterned digests x 2 drafts x 6 record sizes x 13 small streams x 2 read patterns = %d cases", len(hostileDigests()), n))
}

// TestPropArbitrary: arbitrary streams against the honest digest of some payload, and any
// stream (honest ones included) against an arbitrary digest.
func TestPropArbitrary(t *testing.T) { arbProp.Rapid(t, genPropArbitrary) }

// TestConcArbitrary: batches of cases evaluated at the same time on separate goroutines (vh.Prop.Concurrent).
func TestConcArbitrary(t *testing.T) { arbProp.Concurrent(t, genPropArbitrary, 8, 3) }

func genPropArbitrary(t *rapid.T) Case {
	c := Case{Draft: rapid.SampledFrom([]int{2, 3}).Draw(t, "draft")}
	c.RS = rapid.SampledFrom([]int{1, 2, 3, 4, 8, 16, 31, 32, 33, 64}).Draw(t, "rs")
	rs := c.RS
	c.Len = rapid.SampledFrom([]int{0, 0, 1, rs - 1, rs, rs + 1, 2 * rs, 2*rs + 1, 3 * rs, 4*rs - 1}).Draw(t, "len")
	c.Seed = rapid.Int64Range(0, 1<<40).Draw(t, "seed")
	arbitraryDigest := rapid.Bool().Draw(t, "arbitrary-digest")
	if arbitraryDigest {
		c.Digest = rapid.SliceOfN(rapid.Byte(), 32, 32).Draw(t, "digest")
		if rapid.IntRange(0, 2).Draw(t, "patterned-digest") == 0 {
			c.Digest = rapid.SampledFrom(hostileDigests()).Draw(t, "digest-pattern")
		}
	}
	kinds := []string{"random", "size+random", "other-payload", "other-rs", "other-draft", "proofs-only", "honest-prefix+random"}
	if arbitraryDigest {
		kinds = append(kinds, "honest", "honest", "honest-truncated")
	}
	var s []byte
	switch rapid.SampledFrom(kinds).Draw(t, "stream") {
	case "random":
		s = rapid.SliceOfN(rapid.Byte(), 0, 120).Draw(t, "bytes")
	case "size+random":
		f := uint64(rapid.SampledFrom([]int{rs, 1, 2, rs + 1, 20, 32, 64}).Draw(t, "field"))
		s = cat(be64(f), rapid.SliceOfN(rapid.Byte(), 0, 150).Draw(t, "bytes"))
	case "other-payload":
		q := filler(rapid.Int64Range(1, 1<<40).Draw(t, "other-seed"), rapid.SampledFrom([]int{0, 1, rs, 2 * rs, 2*rs + 1, 3 * rs}).Draw(t, "other-len"))
		s, _ = refmice.Encode(c.Draft, q, rs)
	case "other-rs":
		s, _ = refmice.Encode(c.Draft, c.payload(), rapid.SampledFrom([]int{1, rs + 1, rs + 32, 2 * rs, 3 * rs, 16384}).Draw(t, "other-rs"))
	case "other-draft":
		s, _ = refmice.Encode(5-c.Draft, c.payload(), rs)
	case "proofs-only": // the proofs of the honest stream presented as if they were records
		for _, pr := range refmice.Proofs(c.Draft, c.payload(), rs) {
			s = append(s, pr...)
		}
		s = cat(be64(uint64(rapid.SampledFrom([]int{32, rs, 1}).Draw(t, "field"))), s)
	case "honest":
		s, _ = refmice.Encode(c.Draft, c.payload(), rs)
	case "honest-prefix+random": // some honest units, then garbage
		s, _ = refmice.Encode(c.Draft, c.payload(), rs)
		keep := minInt(len(s), 8+rapid.IntRange(0, 3).Draw(t, "units")*(rs+refmice.ProofLen))
		s = cat(s[:keep], rapid.SliceOfN(rapid.Byte(), 0, 100).Draw(t, "bytes"))
	case "honest-truncated":
		s, _ = refmice.Encode(c.Draft, c.payload(), rs)
		s = s[:rapid.IntRange(0, len(s)).Draw(t, "keep")]
	}
	c.Mut = Mut{Kind: "replace", Bytes: s}
	c.MaxRS = drawLimit(t, rs)
	c.Reads = drawReads(t, rs)
	c.Chunk = rapid.SampledFrom([]int{0, 0, 1, 7}).Draw(t, "chunk")
	c.EOFWithData = rapid.Bool().Draw(t, "eof-with-data")
	return c
}

// ------------------------------------------------------------------------ several live decoders
//
// A server verifies several streams at once. 2-4 decoders, each with the digest of ITS payload
// and an honest stream (optionally truncated or with one bit flipped), are created at drawn
// points of a schedule and read alternately with small destination buffers, in one goroutine.
// Each decoder on its own must obey the property: whatever it hands out is a prefix of its own
// payload, and clean EOF comes only after the whole payload (so buffers shared between decoder
// objects, or recycled while still in use, show up as foreign or stale bytes).

type LiveStream struct {
	Draft int   `json:"draft"`
	RS    int   `json:"rs"`
	Len   int   `json:"len"`
	Seed  int64 `json:"seed"`
	Cut   int   `json:"cut,omitempty"`  // octets removed from the end of the stream
	Flip  int   `json:"flip,omitempty"` // 1 + bit index to flip (0: none)
	Dst   int   `json:"dst"`            // destination buffer size for every Read
}

type LiveCase struct {
	Streams  []LiveStream `json:"streams"`
	Schedule []int        `json:"schedule"` // which decoder reads next (index mod live count); a decoder is created on first use
}

var liveProp = vh.Define("C15", "interleaved", func(c LiveCase, r *vh.R) {
	type live struct {
		dec     io.Reader
		payload []byte
		got     []byte
		done    bool
		honest  bool
	}
	ls := make([]*live, len(c.Streams))
	var all [][]byte
	for i, st := range c.Streams {
		if _, ok := encodingOf(st.Draft); !ok || st.RS < 1 || st.RS > 1<<16 || st.Len > 1<<18 || st.Dst < 1 {
			r.Skip = true
			return
		}
		all = append(all, Case{Len: st.Len, Seed: st.Seed}.payload())
		_ = i
	}
	open := func(i int) *live {
		st := c.Streams[i]
		enc, _ := encodingOf(st.Draft)
		p := all[i]
		stream, header := refmice.Encode(st.Draft, p, st.RS)
		stream = append([]byte{}, stream...)
		honest := true
		if st.Cut > 0 && st.Cut <= len(stream) {
			stream = stream[:len(stream)-st.Cut]
			honest = false
		}
		if st.Flip > 0 && (st.Flip-1)/8 < len(stream) {
			stream[(st.Flip-1)/8] ^= 1 << uint((st.Flip-1)%8)
			honest = false
		}
		dec, err := enc.NewDecoder(&countingReader{b: stream, chunk: 1 + i*7}, header, 1<<16)
		if err != nil {
			if honest {
				r.Failf("honest-refused", "NewDecoder refused the honest stream %d (%+v): %v", i, st, err)
			}
			return &live{done: true, payload: p}
		}
		return &live{dec: dec, payload: p, honest: honest}
	}
	overlap := false
	for step, pick := range c.Schedule {
		i := pick % len(c.Streams)
		if ls[i] == nil {
			ls[i] = open(i)
			if r.Failed() {
				return
			}
		}
		l := ls[i]
		if l.done {
			continue
		}
		for j, o := range ls {
			if j != i && o != nil && !o.done && len(o.got) > 0 {
				overlap = true
			}
		}
		dst := make([]byte, c.Streams[i].Dst)
		n, err := l.dec.Read(dst)
		l.got = append(l.got, dst[:n]...)
		if len(l.got) > len(l.payload) || !bytes.Equal(l.got, l.payload[:len(l.got)]) {
			d := 0
			for d < len(l.got) && d < len(l.payload) && l.got[d] == l.payload[d] {
				d++
			}
			r.Failf("released-unauthenticated", "step %d: decoder %d (%+v), read alternately with %d other decoders, handed out %d octets that are not a prefix of its payload (first difference at octet %d: %x, payload has %x)",
				step, i, c.Streams[i], len(c.Streams)-1, len(l.got), d, trunc(l.got[d:]), trunc(l.payload[minInt(d, len(l.payload)):]))
			return
		}
		if err == io.EOF {
			l.done = true
			if len(l.got) != len(l.payload) {
				r.Failf("clean-eof-early", "step %d: decoder %d (%+v) reported clean EOF after %d of %d payload octets", step, i, c.Streams[i], len(l.got), len(l.payload))
				return
			}
		} else if err != nil {
			l.done = true
			if l.honest {
				r.Failf("honest-rejected", "step %d: decoder %d (%+v), read alternately with other decoders, failed on its honest stream after %d of %d octets: %v", step, i, c.Streams[i], len(l.got), len(l.payload), err)
				return
			}
		}
	}
	if overlap {
		r.NT()
		r.Class("lifetimes-overlap")
	}
})

func TestPropInterleaved(t *testing.T) {
	liveProp.Rapid(t, func(t *rapid.T) LiveCase {
		var c LiveCase
		n := rapid.IntRange(2, 4).Draw(t, "decoders")
		for i := 0; i < n; i++ {
			rs := rapid.SampledFrom([]int{1, 2, 7, 16, 16, 64, 100, 4096}).Draw(t, "rs")
			st := LiveStream{Draft: rapid.SampledFrom([]int{2, 3}).Draw(t, "draft"), RS: rs, Seed: rapid.Int64Range(1, 1<<30).Draw(t, "seed")}
			st.Len = gen.LenNear(t, "len", rs, 3*rs+2)
			st.Dst = rapid.SampledFrom([]int{1, 3, rs / 2, rs, rs + 1, 2 * rs, 5}).Draw(t, "dst")
			if st.Dst < 1 {
				st.Dst = 1
			}
			switch rapid.IntRange(0, 5).Draw(t, "tamper") {
			case 0:
				st.Cut = rapid.IntRange(1, 40).Draw(t, "cut")
			case 1:
				st.Flip = 1 + rapid.IntRange(64, 64+8*(st.Len+40)).Draw(t, "flip")
			}
			c.Streams = append(c.Streams, st)
		}
		c.Schedule = rapid.SliceOfN(rapid.IntRange(0, 11), 6, 80).Draw(t, "schedule")
		// then drain every decoder in turn
		for k := 0; k < 400; k++ {
			c.Schedule = append(c.Schedule, k%n)
		}
		return c
	})
}
