PLAN = dict(
    id="C15",
    pkg="c15", level="exploration",
    rule=("interleaved: 2-4 decoders (own digest each; honest, truncated or bit-flipped stream) created at drawn points and read alternately with small destination buffers in one goroutine; each must hand out only a prefix of its OWN payload and report clean EOF only after all of it (honest streams must decode). Other sub-checks: one case = honest stream of (draft, rs, payload) built by refmice (for draft 02 and a payload that is a non-zero multiple of rs also the other legal cut, full records plus an explicit empty final record, which the repository's decoder accepts and its encoder never emits; delivery of that form is not demanded), ONE mutation (bit flip, truncation, appended suffix, record swap, unit swap / "
          "duplication / removal, proof replacement, record-size field edit, re-framing (record-size field edit combined with a cut), splice with the stream of a neighbouring payload, or replacement by an "
          "arbitrary stream), decoded with the honest digest (or an arbitrary 32-octet digest) through a counting source reader and a cycled sequence of "
          "destination-buffer sizes. Oracle: the concatenated output of successive Reads is at every moment a prefix of the committed payload; a clean "
          "io.EOF only after the whole payload; with an arbitrary digest no octet and no clean EOF; a record-size field of 0 or above the caller's limit "
          "makes NewDecoder fail having pulled at most the 8 octets of that field; the unmutated stream must be delivered completely (two-sided). "
          "Rejection is never demanded of a mutant (e.g. a larger record-size field on a single-record stream still authenticates). "
          "Short streams (payloads of 0 / 1 / 5 octets) under record sizes 255 .. 2^20 get every truncation and bit flip; a clean end on a proper prefix of the honest stream is a violation whatever was delivered. "
          "Non-trivial: the mutant differs from the honest stream and the payload spans >= 2 records (arbitrary digest: the stream carries a record-size "
          "field within the limit and at least one further octet, so a record is checked against the digest); distinct by fingerprint of the case."),
    assumptions=TRUSTED + ["SHA-256 collision/preimage resistance: a stream that authenticates under a digest carries the committed payload",
                           "after Read has returned an error, four further Reads are made: they must not hand out unauthenticated octets and must not report a clean io.EOF for a payload that was not delivered completely; which error they report is not examined",
                           "a Read may return (0, nil) for a non-empty buffer at most 4 times in a row; more is reported as no-progress"],
    runs=[
        dict(name="conc", run="^(TestConcMutation|TestConcArbitrary)$", checks=(400, 20000), shards=(2, 8), timeout=(400, 3600), race=True),
        dict(name="exh", run="^(TestExhaustiveMutations|TestHostileDigests|TestCorpus)$", shards=(1, 16), timeout=(300, 3600)),
        dict(name="rapid", run="^TestPropMutation$", checks=(15000, 500000), shards=(2, 16), timeout=(300, 3600)),
        dict(name="arb", run="^TestPropArbitrary$", checks=(20000, 500000), shards=(1, 4), timeout=(300, 3600)),
        dict(name="live", run="^TestPropInterleaved$", checks=(3000, 200000), shards=(1, 8), timeout=(300, 3600)),
    ],
    technique="exhaustive single-mutation enumeration (every bit flip, every truncation length, structural edits) over small honest streams + rapid-generated mutations of larger streams + arbitrary streams against honest and arbitrary digests; prefix/complete-EOF oracle with a counting source reader",
    level_text=("Every single-bit flip and every truncation length of every honest stream in a lattice of small (draft, record size, payload length) "
                "configurations is enumerated completely on every run, together with suffix extensions, record/unit permutations, duplications, removals and "
                "record-size edits under tight and loose limits; larger streams (record sizes up to 16384) get drawn mutations biased to unit boundaries, "
                "proof octets and the size field; arbitrary streams are decoded against honest and random digests. Exploration level: multi-mutation "
                "adversaries are explored only through splices and arbitrary streams."),
    level_note=NOTE_BASE,
    require=[("interleaved", "lifetimes-overlap"), ("exh", "truncate-at-record-boundary"), ("exh", "truncate-at-unit-end"), ("exh", "truncate-after-record-octets"),
             ("exh", "truncate-before-full-size-last-record"), ("exh", "honest-form:explicit-empty-final-record"), ("rapid", "honest-form:explicit-empty-final-record"),
             ("exh", "reframe-first-unit-as-final-record"), ("rapid", "reframe-first-unit-as-final-record"),
             ("exh", "rejected-at-newdecoder"), ("exh", "error-after-prefix"), ("exh", "error-after-proper-prefix"), ("exh", "clean-eof-full"),
             ("exh", "flip-in-proof"), ("exh", "flip-in-record"), ("exh", "flip-in-size-field"), ("exh", "record-size-out-of-bounds"),
             ("rapid", "truncate-at-record-boundary"), ("rapid", "error-after-proper-prefix"), ("rapid", "clean-eof-full"),
             ("arb", "digest:arbitrary"), ("arb", "digest:honest"), ("arb", "error-after-prefix"), ("arb", "rejected-at-newdecoder")],
)
