// Package c11: the CBOR encoder emits canonical CBOR that an independent decoder maps back
// to exactly the encoded values: shortest heads, valid UTF-8 only, map entries sorted by the
// bytewise order of their encoded keys whatever order the caller used, duplicate keys refused.
package c11

import (
	"bytes"
	"errors"
	"fmt"
	"math"
	"sort"
	"strings"
	"testing"
	"unicode/utf8"

	"github.com/WICG/webpackage/go/internal/cbor"
	"github.com/WICG/webpackage/go/verifh/ref/refcbor"
	"github.com/WICG/webpackage/go/verifh/vh"
	"pgregory.net/rapid"
)

func TestMain(m *testing.M)   { vh.Main(m) }
func TestReplay(t *testing.T) { vh.Replay(t) }
func TestCorpus(t *testing.T) { vh.Corpus(t) }

// ------------------------------------------------------------------------------- value trees

// Node is one value handed to the encoder.
type Node struct {
	Kind    string  `json:"kind"` // uint int bytes text bool array map
	U       uint64  `json:"u,omitempty"`
	I       int64   `json:"i,omitempty"`
	S       vh.B    `json:"s,omitempty"` // content of bytes / text (text may be invalid UTF-8)
	T       bool    `json:"t,omitempty"`
	Kids    []*Node `json:"kids,omitempty"`
	Entries []Entry `json:"entries,omitempty"`
	// Caller orders of the entries (permutations of 0..len(Entries)-1). Variant 0 of the run
	// supplies the entries in Perm1 order, variant 1 in Perm2 order, variant 2 already sorted.
	Perm1 []int `json:"perm1,omitempty"`
	Perm2 []int `json:"perm2,omitempty"`
}

type Entry struct {
	K *Node `json:"k"`
	V *Node `json:"v"`
}

type TreeCase struct {
	Items []*Node `json:"items"`
}

func isPerm(p []int, n int) bool {
	if len(p) != n {
		return false
	}
	seen := make([]bool, n)
	for _, x := range p {
		if x < 0 || x >= n || seen[x] {
			return false
		}
		seen[x] = true
	}
	return true
}

func wellFormedCase(n *Node) bool {
	if n == nil {
		return false
	}
	switch n.Kind {
	case "uint", "int", "bytes", "text", "bool":
		return true
	case "array":
		for _, k := range n.Kids {
			if !wellFormedCase(k) {
				return false
			}
		}
		return true
	case "map":
		if !isPerm(n.Perm1, len(n.Entries)) || !isPerm(n.Perm2, len(n.Entries)) {
			return false
		}
		for _, e := range n.Entries {
			if !wellFormedCase(e.K) || !wellFormedCase(e.V) {
				return false
			}
		}
		return true
	}
	return false
}

// negArg is the major-type-1 argument of the negative integer i (-1-i without overflow).
func negArg(i int64) uint64 { return uint64(-(i + 1)) }

// refBytes is the reference (RFC 8949 section 4.2.1) encoding of a node, used for map keys:
// duplicate detection, the "already sorted" caller order and the class statistics.
func refBytes(n *Node) []byte {
	switch n.Kind {
	case "uint":
		return refcbor.Uint(n.U)
	case "int":
		if n.I >= 0 {
			return refcbor.Uint(uint64(n.I))
		}
		return refcbor.NegInt(negArg(n.I))
	case "bytes":
		return refcbor.Bstr(n.S)
	case "text":
		return refcbor.Tstr(string(n.S))
	case "bool":
		return refcbor.Bool(n.T)
	case "array":
		var items [][]byte
		for _, k := range n.Kids {
			items = append(items, refBytes(k))
		}
		return refcbor.Arr(items...)
	case "map":
		var kvs []refcbor.KV
		for _, e := range n.Entries {
			kvs = append(kvs, refcbor.KV{K: refBytes(e.K), V: refBytes(e.V)})
		}
		return refcbor.MapBytewise(kvs)
	}
	panic("bad kind " + n.Kind)
}

func (n *Node) hasDupKeys() bool {
	seen := map[string]bool{}
	for _, e := range n.Entries {
		k := string(refBytes(e.K))
		if seen[k] {
			return true
		}
		seen[k] = true
	}
	return false
}

// order returns the caller order of the entries for a run variant.
func (n *Node) order(variant int) []int {
	switch variant {
	case 0:
		return n.Perm1
	case 1:
		return n.Perm2
	}
	idx := make([]int, len(n.Entries))
	keys := make([][]byte, len(n.Entries))
	for i := range idx {
		idx[i] = i
		keys[i] = refBytes(n.Entries[i].K)
	}
	sort.SliceStable(idx, func(a, b int) bool { return bytes.Compare(keys[idx[a]], keys[idx[b]]) < 0 })
	return idx
}

// ------------------------------------------------------------------------------- encoder driver

// driver turns a tree into the corresponding sequence of encoder calls and checks the result
// of every single call against what that call must do.
type driver struct {
	r       *vh.R
	variant int
	stop    string // an expected refusal happened ("invalid-utf8", "dup-key"): the caller gives up
	refused *Node
}

func (d *driver) unexpected(call string, err error) bool {
	d.r.Failf("unexpected-error", "variant %d: %s returned %v for a value it must encode", d.variant, call, err)
	return false
}

// enc encodes n through e. w is the buffer behind e when the harness owns it (then "nothing
// was written" is observable), nil for the key/value encoders of a map entry.
func (d *driver) enc(e *cbor.Encoder, n *Node, w *bytes.Buffer) bool {
	switch n.Kind {
	case "uint":
		if err := e.EncodeUint(n.U); err != nil {
			return d.unexpected(fmt.Sprintf("EncodeUint(%d)", n.U), err)
		}
	case "int":
		if err := e.EncodeInt(n.I); err != nil {
			return d.unexpected(fmt.Sprintf("EncodeInt(%d)", n.I), err)
		}
	case "bytes":
		if err := e.EncodeByteString(n.S); err != nil {
			return d.unexpected(fmt.Sprintf("EncodeByteString(%d bytes)", len(n.S)), err)
		}
	case "bool":
		if err := e.EncodeBool(n.T); err != nil {
			return d.unexpected("EncodeBool", err)
		}
	case "text":
		before := 0
		if w != nil {
			before = w.Len()
		}
		err := e.EncodeTextString(string(n.S))
		if utf8.Valid(n.S) {
			if err != nil {
				return d.unexpected(fmt.Sprintf("EncodeTextString(%q)", trunc(n.S)), err)
			}
			return true
		}
		if !errors.Is(err, cbor.ErrInvalidUTF8) {
			d.r.Failf("invalid-utf8-not-refused", "variant %d: EncodeTextString(%q) (invalid UTF-8) returned %v, want ErrInvalidUTF8", d.variant, trunc(n.S), err)
			return false
		}
		if w != nil && w.Len() != before {
			d.r.Failf("invalid-utf8-wrote", "variant %d: EncodeTextString(%q) returned ErrInvalidUTF8 but wrote %x", d.variant, trunc(n.S), trunc(w.Bytes()[before:]))
			return false
		}
		d.stop, d.refused = "invalid-utf8", n
		return false
	case "array":
		if err := e.EncodeArrayHeader(len(n.Kids)); err != nil {
			return d.unexpected(fmt.Sprintf("EncodeArrayHeader(%d)", len(n.Kids)), err)
		}
		for _, k := range n.Kids {
			if !d.enc(e, k, w) {
				return false
			}
		}
	case "map":
		order := n.order(d.variant)
		entries := make([]*cbor.MapEntryEncoder, 0, len(order))
		for _, idx := range order {
			ent := n.Entries[idx]
			// The entry API hands out two independent encoders; a caller may fill them in either order
			// (a third of the entries, depending on the variant, get their value first).
			valueFirst := (d.variant+idx)%3 == 1
			me := cbor.GenerateMapEntry(func(keyE, valueE *cbor.Encoder) {
				if valueFirst {
					if d.enc(valueE, ent.V, nil) {
						d.enc(keyE, ent.K, nil)
					}
					return
				}
				if d.enc(keyE, ent.K, nil) {
					d.enc(valueE, ent.V, nil)
				}
			})
			if d.r.Failed() {
				return false
			}
			if d.stop != "" {
				d.checkNothingBuffered(me, ent)
				return false
			}
			entries = append(entries, me)
		}
		err := e.EncodeMap(entries)
		if n.hasDupKeys() {
			if !errors.Is(err, cbor.ErrDuplicatedKey) {
				d.r.Failf("dup-key-not-refused", "variant %d: EncodeMap with two equal keys returned %v, want ErrDuplicatedKey (keys in caller order: %s)", d.variant, err, d.keyList(n, order))
				return false
			}
			d.stop = "dup-key"
			return false
		}
		if err != nil {
			return d.unexpected(fmt.Sprintf("EncodeMap(keys in caller order: %s)", d.keyList(n, order)), err)
		}
	default:
		panic("bad kind " + n.Kind)
	}
	return true
}

// checkNothingBuffered: an invalid text string that was the key or the value of a map entry
// must not have left bytes in the entry's buffers. The key buffer is visible through
// KeyBytes; the value buffer only through EncodeMap of that single entry.
func (d *driver) checkNothingBuffered(me *cbor.MapEntryEncoder, ent Entry) {
	if d.stop != "invalid-utf8" {
		return
	}
	switch d.refused {
	case ent.K:
		if len(me.KeyBytes()) != 0 {
			d.r.Failf("invalid-utf8-wrote", "variant %d: EncodeTextString(%q) on a key encoder returned ErrInvalidUTF8 but buffered %x", d.variant, trunc(ent.K.S), trunc(me.KeyBytes()))
		}
	case ent.V:
		var sb bytes.Buffer
		want := append([]byte{0xa1}, me.KeyBytes()...) // copied: EncodeMap drains the entry's buffers
		if err := cbor.NewEncoder(&sb).EncodeMap([]*cbor.MapEntryEncoder{me}); err != nil {
			return
		}
		if !bytes.Equal(sb.Bytes(), want) {
			d.r.Failf("invalid-utf8-wrote", "variant %d: EncodeTextString(%q) on a value encoder returned ErrInvalidUTF8 but the entry then encodes as %x (key alone is %x)", d.variant, trunc(ent.V.S), trunc(sb.Bytes()), trunc(want))
		}
	}
}

func (d *driver) keyList(n *Node, order []int) string {
	s := ""
	for i, idx := range order {
		if i > 0 {
			s += " "
		}
		if i >= 12 {
			return s + "..."
		}
		s += fmt.Sprintf("%x", trunc(refBytes(n.Entries[idx].K)))
	}
	return s
}

func trunc(b []byte) []byte {
	if len(b) > 40 {
		return b[:40]
	}
	return b
}

// ------------------------------------------------------------------------------- tree comparer

// same reports how the decoded item differs from the value that was encoded.
func same(it *refcbor.Item, n *Node) error {
	want := func(major int, arg uint64) error {
		if it.Major != major || it.Arg != arg {
			return fmt.Errorf("at offset %d: decoded major %d argument %d, encoded value is %s (major %d argument %d)", it.Start, it.Major, it.Arg, describe(n), major, arg)
		}
		return nil
	}
	switch n.Kind {
	case "uint":
		return want(0, n.U)
	case "int":
		if n.I >= 0 {
			return want(0, uint64(n.I))
		}
		return want(1, negArg(n.I))
	case "bytes", "text":
		major := 2
		if n.Kind == "text" {
			major = 3
		}
		if err := want(major, uint64(len(n.S))); err != nil {
			return err
		}
		if !bytes.Equal(it.Content, n.S) {
			return fmt.Errorf("at offset %d: string content %x differs from the encoded %x", it.Start, trunc(it.Content), trunc(n.S))
		}
		return nil
	case "bool":
		ai := uint64(20)
		if n.T {
			ai = 21
		}
		if it.Major != 7 || it.AI != int(ai) {
			return fmt.Errorf("at offset %d: decoded major %d ai %d, encoded value is %v", it.Start, it.Major, it.AI, n.T)
		}
		return nil
	case "array":
		if err := want(4, uint64(len(n.Kids))); err != nil {
			return err
		}
		for i, k := range n.Kids {
			if err := same(it.Kids[i], k); err != nil {
				return err
			}
		}
		return nil
	case "map":
		if err := want(5, uint64(len(n.Entries))); err != nil {
			return err
		}
		// entries as a set: every encoded entry corresponds to exactly one decoded pair
		used := make([]bool, len(n.Entries))
		for _, e := range n.Entries {
			found := false
			var lastErr error
			for j := 0; j < len(n.Entries); j++ {
				if used[j] || same(it.Kids[2*j], e.K) != nil {
					continue
				}
				if err := same(it.Kids[2*j+1], e.V); err != nil {
					lastErr = err
					continue
				}
				used[j], found = true, true
				break
			}
			if !found {
				if lastErr != nil {
					return fmt.Errorf("map at offset %d: key %s decodes with a different value: %v", it.Start, describe(e.K), lastErr)
				}
				return fmt.Errorf("map at offset %d: no decoded pair has the key %s", it.Start, describe(e.K))
			}
		}
		return nil
	}
	return fmt.Errorf("bad kind %q", n.Kind)
}

func describe(n *Node) string {
	switch n.Kind {
	case "uint":
		return fmt.Sprintf("uint %d", n.U)
	case "int":
		return fmt.Sprintf("int %d", n.I)
	case "bytes":
		return fmt.Sprintf("h'%x'", trunc(n.S))
	case "text":
		return fmt.Sprintf("%q", trunc(n.S))
	case "bool":
		return fmt.Sprint(n.T)
	}
	return n.Kind
}

// ------------------------------------------------------------------------------- classification

var uintEdges = []uint64{0, 24, 1 << 8, 1 << 16, 1 << 32, 1 << 63, math.MaxUint64}

func boundaryUint(u uint64) bool {
	for _, e := range uintEdges {
		if d := int64(u - e); d >= -3 && d <= 3 {
			return true
		}
	}
	return false
}

func boundaryInt(i int64) bool {
	if i >= 0 {
		return boundaryUint(uint64(i)) || i >= math.MaxInt64-3
	}
	return boundaryUint(negArg(i)+1) || boundaryUint(negArg(i)) || i <= math.MinInt64+3
}

type treeInfo struct {
	ntMap, boundary               bool
	mixedTypes, nestedMap         bool
	dup, invalid, multibyte       bool
	callerNotBytewise, lenFirstNe bool
	depth, maps                   int
	bigMap                        bool
}

func (ti *treeInfo) walk(n *Node, depth int, underMap bool) {
	if depth > ti.depth {
		ti.depth = depth
	}
	switch n.Kind {
	case "uint":
		ti.boundary = ti.boundary || boundaryUint(n.U)
	case "int":
		ti.boundary = ti.boundary || boundaryInt(n.I)
	case "text":
		if !utf8.Valid(n.S) {
			ti.invalid = true
		} else if len(n.S) != utf8.RuneCount(n.S) {
			ti.multibyte = true
		}
	case "array":
		for _, k := range n.Kids {
			ti.walk(k, depth+1, underMap)
		}
	case "map":
		ti.maps++
		if underMap {
			ti.nestedMap = true
		}
		if len(n.Entries) >= 24 {
			ti.bigMap = true
		}
		if n.hasDupKeys() {
			ti.dup = true
		}
		lens, majors := map[int]bool{}, map[byte]bool{}
		var kvs []refcbor.KV
		for _, e := range n.Entries {
			kb := refBytes(e.K)
			lens[len(kb)] = true
			majors[kb[0]>>5] = true
			kvs = append(kvs, refcbor.KV{K: kb})
		}
		if len(lens) >= 2 {
			ti.ntMap = true
		}
		if len(majors) >= 2 {
			ti.mixedTypes = true
		}
		if !bytes.Equal(refcbor.MapBytewise(kvs), refcbor.MapLengthFirst(kvs)) {
			ti.lenFirstNe = true
		}
		sorted := n.order(2)
		for i := range sorted {
			if sorted[i] != n.Perm1[i] || sorted[i] != n.Perm2[i] {
				ti.callerNotBytewise = true
			}
		}
		for _, e := range n.Entries {
			ti.walk(e.K, depth+1, true)
			ti.walk(e.V, depth+1, true)
		}
	}
}

// ------------------------------------------------------------------------------- sub-check "tree"

var treeProp = vh.Define("C11", "tree", func(c TreeCase, r *vh.R) {
	if len(c.Items) == 0 {
		r.Skip = true
		return
	}
	for _, it := range c.Items {
		if !wellFormedCase(it) {
			r.Skip = true
			return
		}
	}
	var ti treeInfo
	for _, it := range c.Items {
		ti.walk(it, 1, false)
	}
	if ti.ntMap || ti.boundary {
		r.NT()
	}
	for name, on := range map[string]bool{
		"map-keys-of-different-encoded-length": ti.ntMap, "boundary-integer": ti.boundary,
		"map-mixed-key-types": ti.mixedTypes, "nested-map": ti.nestedMap, "dup-key": ti.dup,
		"invalid-utf8": ti.invalid, "multibyte-utf8": ti.multibyte,
		"map-caller-order-not-bytewise":  ti.callerNotBytewise,
		"map-length-first-order-differs": ti.lenFirstNe,
		"map-24-or-more-entries":         ti.bigMap,
		"has-map":                        ti.maps > 0,
	} {
		if on {
			r.Class(name)
		}
	}
	r.Classf("depth-%d", ti.depth)

	var outs [3][]byte
	var stops [3]string
	for v := 0; v < 3; v++ {
		var buf bytes.Buffer
		enc := cbor.NewEncoder(&buf)
		d := &driver{r: r, variant: v}
		for _, it := range c.Items {
			if !d.enc(enc, it, &buf) {
				break
			}
		}
		if r.Failed() {
			return
		}
		outs[v], stops[v] = buf.Bytes(), d.stop
	}
	refusal := ti.dup || ti.invalid
	for v := 0; v < 3; v++ {
		if (stops[v] != "") != refusal {
			// cannot happen: the driver checks every call; kept as a harness self-check
			r.Failf("harness-inconsistent", "variant %d stop=%q but tree has dup=%v invalid=%v", v, stops[v], ti.dup, ti.invalid)
			return
		}
	}
	if refusal {
		r.Class("refused-" + stops[0])
		return
	}
	r.Class("encoded")

	// (a) an independent decoder maps the bytes back to exactly the encoded values
	out := outs[0]
	items, err := refcbor.DecodeAll(out)
	if err != nil {
		r.Failf("not-well-formed", "encoder output %x is not a sequence of well-formed items: %v", trunc(out), err)
		return
	}
	if len(items) != len(c.Items) {
		r.Failf("wrong-item-count", "encoder output %x decodes to %d items, %d were encoded", trunc(out), len(items), len(c.Items))
		return
	}
	for i, it := range items {
		if err := same(it, c.Items[i]); err != nil {
			r.Failf("wrong-value", "item %d of output %x: %v", i, trunc(out), err)
			return
		}
	}
	// (b) shortest heads everywhere, map keys strictly ascending bytewise
	if err := refcbor.CheckDeterministic(out, refcbor.Profile{AllowNegInt: true, AllowSimple: true}); err != nil {
		r.Failf("not-canonical", "encoder output %x is not deterministic CBOR: %v", trunc(out), err)
		return
	}
	// (c) the caller's entry order does not matter
	if !bytes.Equal(outs[0], outs[1]) {
		r.Failf("order-dependent", "two caller orders of the same map entries give different bytes:\n%x\n%x", trunc(outs[0]), trunc(outs[1]))
		return
	}
	if !bytes.Equal(outs[0], outs[2]) {
		r.Failf("order-dependent", "caller order vs. already sorted entries give different bytes:\n%x\n%x", trunc(outs[0]), trunc(outs[2]))
	}
})

// ------------------------------------------------------------------------------- generators

type genCtx struct {
	allowInvalid, allowDup bool
	maxDepth               int
}

func genUint(t *rapid.T) uint64 {
	switch rapid.IntRange(0, 4).Draw(t, "umode") {
	case 0:
		e := rapid.SampledFrom(uintEdges).Draw(t, "uedge")
		return e + uint64(rapid.Int64Range(-3, 3).Draw(t, "udelta"))
	case 1:
		return rapid.Uint64().Draw(t, "u")
	case 2:
		return rapid.Uint64().Draw(t, "u") >> uint(rapid.IntRange(0, 63).Draw(t, "ushift"))
	}
	return rapid.Uint64Range(0, 300).Draw(t, "usmall")
}

func genInt(t *rapid.T) int64 {
	switch rapid.IntRange(0, 4).Draw(t, "imode") {
	case 0:
		edges := []int64{0, 24, -24, 1 << 8, -(1 << 8), 1 << 16, -(1 << 16), 1 << 32, -(1 << 32)}
		return rapid.SampledFrom(edges).Draw(t, "iedge") + rapid.Int64Range(-3, 3).Draw(t, "idelta")
	case 1:
		if rapid.Bool().Draw(t, "imin") {
			return math.MinInt64 + rapid.Int64Range(0, 3).Draw(t, "idelta")
		}
		return math.MaxInt64 - rapid.Int64Range(0, 3).Draw(t, "idelta")
	case 2:
		return rapid.Int64().Draw(t, "i")
	case 3:
		return rapid.Int64().Draw(t, "i") >> uint(rapid.IntRange(0, 63).Draw(t, "ishift"))
	}
	return rapid.Int64Range(-300, 300).Draw(t, "ismall")
}

var invalidUTF8 = []string{"\xff", "a\xc3", "\xc0\xaf", "\xed\xa0\x80", "ab\x80cd", "\xf8\x88\x80\x80\x80", "\xf4\x90\x80\x80", "\xe2\x82"}

// runes: every UTF-8 length class and the code points at its edges, the replacement character
// U+FFFD (valid text, but what decoders substitute for errors), non-characters, NUL, BOM
var runes = []rune{'a', 'b', 'z', '0', ' ', 'é', 'ß', '€', '語', '😀', 0x10ffff, 0x7f, 0x80, 0x00, 0x7ff, 0x800, 0xd7ff, 0xe000, 0xfffd, 0xfffd, 0xfffe, 0xffff, 0x10000, 0xfeff, 0x85, 0x2028}

func genBytes(t *rapid.T, text bool, ctx *genCtx, chance int) []byte {
	if text && ctx.allowInvalid && rapid.IntRange(0, chance).Draw(t, "bad") == 0 {
		pre := rapid.SampledFrom([]string{"", "a", "é", "valid prefix of more than 24 bytes é"}).Draw(t, "badpre")
		return []byte(pre + rapid.SampledFrom(invalidUTF8).Draw(t, "badutf8"))
	}
	var l int
	switch rapid.IntRange(0, 5).Draw(t, "lmode") {
	case 0:
		l = rapid.SampledFrom([]int{0, 1, 22, 23, 24, 25, 254, 255, 256, 257}).Draw(t, "lclass")
	case 1:
		// around powers of two (inline-buffer / chunk sizes of an implementation, not of the format)
		l = rapid.SampledFrom([]int{15, 16, 17, 31, 32, 33, 62, 63, 64, 65, 66, 127, 128, 129, 511, 512, 513, 1023, 1024, 1025, 4095, 4096, 4097}).Draw(t, "lpow2")
	case 2:
		l = rapid.IntRange(0, 300).Draw(t, "lany")
	default:
		l = rapid.IntRange(0, 6).Draw(t, "lsmall")
	}
	if text {
		var b []byte
		for len(b) < l {
			r := rapid.SampledFrom(runes).Draw(t, "rune")
			if len(b)+utf8.RuneLen(r) > l {
				r = 'x'
			}
			b = utf8.AppendRune(b, r)
			if len(b) >= 8 { // fill the rest cheaply
				for len(b) < l {
					b = append(b, 'a'+byte(len(b)%26))
				}
			}
		}
		return b
	}
	b := make([]byte, l)
	head := rapid.SliceOfN(rapid.SampledFrom([]byte{0x00, 0x01, 0x17, 0x18, 0x40, 0x61, 0x80, 0xff}), 0, 6).Draw(t, "bhead")
	for i := range b {
		b[i] = byte(i * 7)
	}
	copy(b, head)
	return b
}

// genKey draws a map key: uint, negative int, bstr, tstr (mixed types and lengths so that the
// bytewise order of the encoded keys differs from caller order and from length-first order),
// occasionally a bool or a short array as in the repository's own TestMapEncoder.
func genKey(t *rapid.T, ctx *genCtx) *Node {
	if rapid.IntRange(0, 4).Draw(t, "kfamily") == 0 {
		// keys of one FAMILY: their encodings agree in the first 8..20 octets and differ only after
		// that (or only in length), so that a comparator that looks at a prefix, a hash or a length
		// first has ties to break: "version1" / "version2" / "version", 2^63 / 2^63+1, ...
		switch rapid.IntRange(0, 3).Draw(t, "kfam") {
		case 0:
			return &Node{Kind: "text", S: []byte("version" + rapid.SampledFrom([]string{"", "1", "2", "10", "1a", "1b", "_longer_suffix_a", "_longer_suffix_b"}).Draw(t, "kfamt"))}
		case 1:
			return &Node{Kind: "uint", U: 1<<63 + uint64(rapid.IntRange(0, 3).Draw(t, "kfamu"))}
		case 2:
			return &Node{Kind: "bytes", S: append(bytes.Repeat([]byte{0x61}, rapid.SampledFrom([]int{7, 8, 9, 16}).Draw(t, "kfambl")), byte(rapid.IntRange(0, 2).Draw(t, "kfambt")))}
		}
		return &Node{Kind: "int", I: -(1 << 62) - int64(rapid.IntRange(0, 3).Draw(t, "kfami"))}
	}
	switch rapid.SampledFrom([]string{"uint", "uint", "neg", "bytes", "bytes", "text", "text", "bool", "array"}).Draw(t, "kkind") {
	case "uint":
		if rapid.Bool().Draw(t, "kusmall") {
			return &Node{Kind: "uint", U: rapid.Uint64Range(0, 30).Draw(t, "ku")}
		}
		return &Node{Kind: "uint", U: rapid.SampledFrom([]uint64{0, 1, 23, 24, 25, 100, 255, 256, 257, 1000, 65535, 65536, 1<<32 - 1, 1 << 32, 1 << 63, math.MaxUint64}).Draw(t, "ku")}
	case "neg":
		if rapid.Bool().Draw(t, "kismall") {
			return &Node{Kind: "int", I: rapid.Int64Range(-30, -1).Draw(t, "ki")}
		}
		return &Node{Kind: "int", I: rapid.SampledFrom([]int64{-1, -24, -25, -26, -100, -256, -257, -65536, -65537, -(1 << 32), -(1 << 32) - 1, math.MinInt64}).Draw(t, "ki")}
	case "bytes":
		var b []byte
		if rapid.IntRange(0, 7).Draw(t, "kblong") == 0 {
			b = genBytes(t, false, ctx, 0)
		} else {
			b = rapid.SliceOfN(rapid.SampledFrom([]byte{0x00, 0x01, 0x17, 0x18, 0x40, 0x61, 0xff}), 0, 3).Draw(t, "kb")
		}
		return &Node{Kind: "bytes", S: b}
	case "text":
		if rapid.IntRange(0, 7).Draw(t, "ktlong") == 0 {
			return &Node{Kind: "text", S: genBytes(t, true, ctx, 5)}
		}
		rs := rapid.SliceOfN(rapid.SampledFrom([]rune{'a', 'b', 'z', '0', 'é', '€', '😀'}), 0, 3).Draw(t, "kt")
		return &Node{Kind: "text", S: []byte(string(rs))}
	case "bool":
		return &Node{Kind: "bool", T: rapid.Bool().Draw(t, "kbool")}
	}
	n := rapid.IntRange(0, 2).Draw(t, "kalen")
	arr := &Node{Kind: "array"}
	for i := 0; i < n; i++ {
		arr.Kids = append(arr.Kids, &Node{Kind: "int", I: rapid.Int64Range(-30, 300).Draw(t, "kai")})
	}
	return arr
}

func genNode(t *rapid.T, ctx *genCtx, depth int) *Node {
	kinds := []string{"map", "map", "array", "uint", "uint", "int", "int", "bytes", "text", "text", "bool"}
	if depth == 1 {
		kinds = []string{"map", "map", "map", "map", "array", "uint", "int", "bytes", "text", "bool"}
	}
	if depth >= ctx.maxDepth {
		kinds = []string{"uint", "int", "bytes", "text", "bool"}
	}
	switch rapid.SampledFrom(kinds).Draw(t, "kind") {
	case "uint":
		return &Node{Kind: "uint", U: genUint(t)}
	case "int":
		return &Node{Kind: "int", I: genInt(t)}
	case "bytes":
		return &Node{Kind: "bytes", S: genBytes(t, false, ctx, 0)}
	case "text":
		return &Node{Kind: "text", S: genBytes(t, true, ctx, 3)}
	case "bool":
		return &Node{Kind: "bool", T: rapid.Bool().Draw(t, "bool")}
	case "array":
		n := rapid.IntRange(0, 4).Draw(t, "alen")
		if rapid.IntRange(0, 15).Draw(t, "abig") == 0 {
			n = rapid.IntRange(22, 26).Draw(t, "alen24")
		}
		arr := &Node{Kind: "array"}
		for i := 0; i < n; i++ {
			d := depth + 1
			if n > 4 {
				d = ctx.maxDepth // many elements: scalars only
			}
			arr.Kids = append(arr.Kids, genNode(t, ctx, d))
		}
		return arr
	}
	m := &Node{Kind: "map"}
	n := rapid.IntRange(0, 6).Draw(t, "mlen")
	big := rapid.IntRange(0, 19).Draw(t, "mbig") == 0
	if big {
		n = rapid.IntRange(22, 27).Draw(t, "mlen24")
	}
	seen := map[string]bool{}
	for i := 0; i < n; i++ {
		k := genKey(t, ctx)
		kb := string(refBytes(k))
		if seen[kb] {
			if !big {
				continue
			}
			k = &Node{Kind: "uint", U: uint64(1000 + i)}
			kb = string(refBytes(k))
		}
		seen[kb] = true
		d := depth + 1
		if big {
			d = ctx.maxDepth
		}
		m.Entries = append(m.Entries, Entry{K: k, V: genNode(t, ctx, d)})
	}
	if ctx.allowDup && len(m.Entries) > 0 && rapid.Bool().Draw(t, "dup") {
		src := m.Entries[rapid.IntRange(0, len(m.Entries)-1).Draw(t, "dupsrc")].K
		cp := *src
		m.Entries = append(m.Entries, Entry{K: &cp, V: genNode(t, ctx, ctx.maxDepth)})
	}
	idx := make([]int, len(m.Entries))
	for i := range idx {
		idx[i] = i
	}
	m.Perm1 = rapid.Permutation(idx).Draw(t, "perm1")
	m.Perm2 = rapid.Permutation(idx).Draw(t, "perm2")
	return m
}

func TestPropTree(t *testing.T) { treeProp.Rapid(t, genPropTree) }

// TestConcTree: batches of cases evaluated at the same time on separate goroutines (vh.Prop.Concurrent).
func TestConcTree(t *testing.T) { treeProp.Concurrent(t, genPropTree, 8, 3) }

func genPropTree(t *rapid.T) TreeCase {
	ctx := &genCtx{
		allowInvalid: rapid.IntRange(0, 11).Draw(t, "allowInvalid") == 0,
		allowDup:     rapid.IntRange(0, 9).Draw(t, "allowDup") == 0,
		maxDepth:     rapid.IntRange(2, 5).Draw(t, "maxDepth"),
	}
	n := rapid.SampledFrom([]int{1, 1, 1, 2, 3}).Draw(t, "nitems")
	var c TreeCase
	for i := 0; i < n; i++ {
		c.Items = append(c.Items, genNode(t, ctx, 1))
	}
	return c
}

// ------------------------------------------------------------------------------- sub-check "ints"

// HeadCase is one encoder call whose exact output is known: shortest head + content.
type HeadCase struct {
	Op  string `json:"op"` // uint int array bytes text
	U   uint64 `json:"u,omitempty"`
	I   int64  `json:"i,omitempty"`
	Len int    `json:"len,omitempty"`
}

func filler(l int, text bool) []byte {
	b := make([]byte, l)
	for i := range b {
		if text {
			b[i] = 'a' + byte(i%26)
		} else {
			b[i] = byte(i*7 + 3)
		}
	}
	if text && l >= 3 {
		copy(b[l-3:], "€")
	}
	return b
}

var headProp = vh.Define("C11", "ints", func(c HeadCase, r *vh.R) {
	var buf bytes.Buffer
	enc := cbor.NewEncoder(&buf)
	var err error
	var major int
	var arg uint64
	var content []byte
	switch c.Op {
	case "uint":
		major, arg = 0, c.U
		err = enc.EncodeUint(c.U)
	case "int":
		if c.I >= 0 {
			major, arg = 0, uint64(c.I)
		} else {
			major, arg = 1, negArg(c.I)
		}
		err = enc.EncodeInt(c.I)
	case "array":
		if c.U > math.MaxInt64 {
			r.Skip = true
			return
		}
		major, arg = 4, c.U
		err = enc.EncodeArrayHeader(int(c.U))
	case "bytes", "text":
		if c.Len < 0 || c.Len > 1<<20 {
			r.Skip = true
			return
		}
		content = filler(c.Len, c.Op == "text")
		arg = uint64(c.Len)
		if c.Op == "bytes" {
			major = 2
			err = enc.EncodeByteString(content)
		} else {
			major = 3
			err = enc.EncodeTextString(string(content))
		}
	default:
		r.Skip = true
		return
	}
	r.NT() // every case of this sub-check sits on a head-size boundary
	r.Classf("%s-width%d", c.Op, refcbor.MinWidth(arg))
	if err != nil {
		r.Failf("unexpected-error", "%+v: encoder returned %v", c, err)
		return
	}
	out := buf.Bytes()
	want := append(refcbor.HeadS(major, arg), content...)
	if !bytes.Equal(out, want) {
		r.Failf("wrong-head", "%+v: encoder wrote %x, the shortest encoding is %x", c, trunc(out), trunc(want))
		return
	}
	// value round trip through the independent decoder
	var items []*refcbor.Item
	var derr error
	if major == 4 {
		// a bare array header is not a complete item; decode the head only
		m, ai, a, he, herr := refcbor.Head(out, 0)
		derr = herr
		items = []*refcbor.Item{{Major: m, AI: ai, Arg: a, HeadEnd: he, End: he}}
	} else {
		items, derr = refcbor.DecodeAll(out)
	}
	if derr != nil || len(items) != 1 {
		r.Failf("not-well-formed", "%+v: output %x does not decode to one item: %v", c, trunc(out), derr)
		return
	}
	it := items[0]
	if it.Major != major || it.Arg != arg || it.End != len(out) || !bytes.Equal(it.Content, content) {
		r.Failf("wrong-value", "%+v: output %x decodes to major %d argument %d (%d content bytes, %d of %d bytes consumed)", c, trunc(out), it.Major, it.Arg, len(it.Content), it.End, len(out))
	}
})

func TestExhaustiveInts(t *testing.T) {
	n := 0
	one := func(c HeadCase) bool {
		n++
		return headProp.One(t, c)
	}
	seenU := map[uint64]bool{}
	for _, e := range uintEdges {
		for d := int64(-3); d <= 3; d++ {
			u := e + uint64(d)
			if seenU[u] {
				continue
			}
			seenU[u] = true
			if !one(HeadCase{Op: "uint", U: u}) {
				return
			}
			if u <= math.MaxInt64 {
				if !one(HeadCase{Op: "array", U: u}) {
					return
				}
			}
		}
	}
	seenI := map[int64]bool{}
	for _, e := range []int64{0, 24, -24, 1 << 8, -(1 << 8), 1 << 16, -(1 << 16), 1 << 32, -(1 << 32), math.MinInt64, math.MaxInt64} {
		for d := int64(-3); d <= 3; d++ {
			i := e + d
			if (d < 0 && i > e) || (d > 0 && i < e) { // wrapped past MinInt64 / MaxInt64
				continue
			}
			if seenI[i] {
				continue
			}
			seenI[i] = true
			if !one(HeadCase{Op: "int", I: i}) {
				return
			}
		}
	}
	for _, l := range []int{0, 1, 22, 23, 24, 25, 254, 255, 256, 257, 65534, 65535, 65536, 65537} {
		if !one(HeadCase{Op: "bytes", Len: l}) || !one(HeadCase{Op: "text", Len: l}) {
			return
		}
	}
	vh.Exhaustive("ints", fmt.Sprintf("every uint64 within +-3 of 0, 24, 2^8, 2^16, 2^32, 2^63, 2^64-1 (EncodeUint; EncodeArrayHeader for those <= MaxInt64), every int64 within +-3 of 0, +-24, +-2^8, +-2^16, +-2^32, MinInt64, MaxInt64 (EncodeInt), byte and text strings of length 0,1,22..25,254..257,65534..65537: %d calls, exact output bytes compared", n))
}

// TextCase: one text string given to EncodeTextString (content in hex).
type TextCase struct {
	Content vh.B `json:"content"`
}

var textProp = vh.Define("C11", "text", textPropEval)

func textPropEval(c TextCase, r *vh.R) {
	var buf bytes.Buffer
	err := cbor.NewEncoder(&buf).EncodeTextString(string(c.Content))
	valid := utf8.Valid(c.Content)
	r.NT()
	if !valid {
		if err == nil {
			r.Failf("invalid-utf8-accepted", "EncodeTextString(%x) succeeded for invalid UTF-8 and wrote %x", trunc(c.Content), trunc(buf.Bytes()))
		} else if buf.Len() != 0 {
			r.Failf("invalid-utf8-wrote", "EncodeTextString(%x) refused the string but wrote %x", trunc(c.Content), trunc(buf.Bytes()))
		}
		return
	}
	want := append(refcbor.HeadW(3, uint64(len(c.Content)), refcbor.MinWidth(uint64(len(c.Content)))), c.Content...)
	if err != nil || !bytes.Equal(buf.Bytes(), want) {
		r.Failf("wrong-bytes", "EncodeTextString(%x) (valid UTF-8): err=%v output %x, want %x", trunc(c.Content), err, trunc(buf.Bytes()), trunc(want))
	}
}

// TestExhaustiveCodePoints: every code point U+0000..U+10FFFF (surrogates encoded the generalised
// way = invalid UTF-8) alone and after an ASCII prefix through EncodeTextString: refused exactly
// when the content is not valid UTF-8 (Go's unicode/utf8 as the judge), else the exact item.
func TestExhaustiveCodePoints(t *testing.T) {
	enc := func(cp rune) []byte {
		switch {
		case cp < 0x80:
			return []byte{byte(cp)}
		case cp < 0x800:
			return []byte{0xc0 | byte(cp>>6), 0x80 | byte(cp)&0x3f}
		case cp < 0x10000:
			return []byte{0xe0 | byte(cp>>12), 0x80 | byte(cp>>6)&0x3f, 0x80 | byte(cp)&0x3f}
		}
		return []byte{0xf0 | byte(cp>>18), 0x80 | byte(cp>>12)&0x3f, 0x80 | byte(cp>>6)&0x3f, 0x80 | byte(cp)&0x3f}
	}
	var evals int64
	classes := map[string]int64{}
	for cp := rune(0); cp < 0x110000; cp++ {
		for variant := 0; variant < 2; variant++ {
			content := enc(cp)
			if variant == 1 {
				content = append([]byte("ab"), content...)
			}
			c := TextCase{Content: content}
			r := &vh.R{}
			textPropEval(c, r)
			evals++
			if utf8.Valid(content) {
				classes["codepoint-valid"]++
			} else {
				classes["codepoint-surrogate"]++
			}
			if r.V != nil {
				textProp.One(t, c)
				t.Fatalf("c11: U+%04X: %s", cp, r.V.Msg)
			}
		}
	}
	vh.Bulk("text", evals, evals, classes, TextCase{Content: enc(0xfffd)})
	vh.Exhaustive("text", "EncodeTextString of each of the 0x110000 code points (surrogate range = invalid UTF-8) alone and after an ASCII prefix: refused iff invalid, else exact bytes")
}

// ------------------------------------------------------------------------------- dense shape sweeps
//
// One dimension at a time, EVERY value 0..1100 and a few larger ones (the format has no limit
// below 2^64 on any of them): items of an array, entries of a map (integer and text keys, supplied
// in reversed and rotated caller order), top-level items encoded with ONE Encoder, octets of a
// byte / text string, nesting depth. A fast path, batch size or inline buffer that an
// implementation switches at SOME count or length is crossed whatever that number is, and the
// n-th call on one Encoder object is made for every n. Judged by the tree check above.

func shapeCase(shape string, n, p int) (TreeCase, bool) {
	u := func(x int) *Node { return &Node{Kind: "uint", U: uint64(x)} }
	perms := func(n int) ([]int, []int) {
		a, b := make([]int, n), make([]int, n)
		for i := 0; i < n; i++ {
			a[i] = n - 1 - i
			b[i] = (i + n/3) % n
		}
		return a, b
	}
	switch shape {
	case "array-items":
		nd := &Node{Kind: "array"}
		for i := 0; i < n; i++ {
			nd.Kids = append(nd.Kids, u(i))
		}
		return TreeCase{Items: []*Node{nd, u(7)}}, true
	case "map-uint-keys", "map-text-keys":
		nd := &Node{Kind: "map"}
		for i := 0; i < n; i++ {
			k := u(i * 3)
			if shape == "map-text-keys" {
				k = &Node{Kind: "text", S: vh.B(fmt.Sprintf("k%d", i))}
			}
			nd.Entries = append(nd.Entries, Entry{K: k, V: u(i % 24)})
		}
		nd.Perm1, nd.Perm2 = perms(n)
		return TreeCase{Items: []*Node{nd, u(7)}}, true
	case "top-level-items":
		c := TreeCase{}
		for i := 0; i < n+1; i++ {
			if i%3 == 2 {
				c.Items = append(c.Items, &Node{Kind: "text", S: vh.B("s")})
			} else {
				c.Items = append(c.Items, u(i))
			}
		}
		return c, true
	case "bytes-octets", "text-octets":
		k := "bytes"
		if shape == "text-octets" {
			k = "text"
		}
		return TreeCase{Items: []*Node{{Kind: k, S: vh.B(bytes.Repeat([]byte{'a' + byte(n%26)}, n))}, u(7)}}, true
	case "keys-text-differ-at", "keys-bytes-differ-at":
		// keys of n octets that are equal EXCEPT at position p, together with the key cut one octet
		// short and the key one octet longer: all distinct, whatever an implementation compares,
		// hashes or copies of a key (a fixed-size prefix, a digest, the length) must tell them apart
		if n < 1 || p < 0 || p >= n {
			return TreeCase{}, false
		}
		kind := "text"
		if shape == "keys-bytes-differ-at" {
			kind = "bytes"
		}
		base := bytes.Repeat([]byte{'k'}, n)
		for i := range base {
			base[i] = 'a' + byte(i%23)
		}
		nd := &Node{Kind: "map"}
		add := func(k []byte) {
			nd.Entries = append(nd.Entries, Entry{K: &Node{Kind: kind, S: vh.B(append([]byte{}, k...))}, V: u(len(nd.Entries))})
		}
		for _, c := range []byte{'0', '1', '~'} {
			k := append([]byte{}, base...)
			k[p] = c
			add(k)
		}
		add(base[:n-1])
		add(append(append([]byte{}, base...), 'z'))
		nd.Perm1, nd.Perm2 = perms(len(nd.Entries))
		return TreeCase{Items: []*Node{nd, u(7)}}, true
	case "nesting-depth":
		nd := u(1)
		for i := 0; i < n; i++ {
			if i%2 == 0 {
				nd = &Node{Kind: "array", Kids: []*Node{nd}}
			} else {
				nd = &Node{Kind: "map", Entries: []Entry{{K: u(0), V: nd}}, Perm1: []int{0}, Perm2: []int{0}}
			}
		}
		return TreeCase{Items: []*Node{nd}}, true
	}
	return TreeCase{}, false
}

type ShapeCase struct {
	Shape string `json:"shape"`
	N     int    `json:"n"`
	P     int    `json:"p,omitempty"`
}

var shapeProp = vh.Define("C11", "shape-sweep", func(c ShapeCase, r *vh.R) {
	tc, ok := shapeCase(c.Shape, c.N, c.P)
	if !ok || c.N < 0 || c.N > 200000 {
		r.Skip = true
		return
	}
	r.Class("shape:" + c.Shape)
	sub := &vh.R{}
	treeProp.Check(tc, sub)
	r.V = sub.V
	r.NT()
})

func TestShapeSweep(t *testing.T) {
	var ns []int
	for n := 0; n <= 1100; n++ {
		ns = append(ns, n)
	}
	big := []int{1500, 2048, 4095, 4096, 4097, 10000, 65535, 65536, 65537, 100000}
	cnt := 0
	for _, sh := range []string{"array-items", "map-uint-keys", "map-text-keys", "top-level-items", "bytes-octets", "text-octets", "nesting-depth"} {
		for _, n := range append(append([]int{}, ns...), big...) {
			if n > 10000 && (strings.HasPrefix(sh, "map-") || sh == "nesting-depth") {
				continue
			}
			cnt++
			if !shapeProp.One(t, ShapeCase{Shape: sh, N: n}) {
				return
			}
		}
	}
	// pairs (triples) of long keys that differ in ONE octet, at every position of keys up to 130
	// octets and at the first / middle / last positions (and around 64, 128, 256) of longer ones
	for _, sh := range []string{"keys-text-differ-at", "keys-bytes-differ-at"} {
		for n := 1; n <= 400; n++ {
			var ps []int
			if n <= 130 {
				for p := 0; p < n; p++ {
					ps = append(ps, p)
				}
			} else {
				ps = []int{0, 1, 31, 32, 61, 62, 63, 64, 65, 127, 128, 129, n / 2, n - 2, n - 1}
			}
			for _, p := range ps {
				if p >= n {
					continue
				}
				cnt++
				if !shapeProp.One(t, ShapeCase{Shape: sh, N: n, P: p}) {
					return
				}
			}
		}
	}
	vh.Exhaustive("shape-sweep", fmt.Sprintf("key sets differing in one octet (text / byte-string keys of 1..400 octets x the position of the difference, plus the key cut short and extended) and 7 shapes (array items, map entries with integer / text keys in two caller orders, top-level items on one Encoder, byte / text string octets, nesting depth) x every n in 0..1100 and up to 10 larger values: %d cases", cnt))
}
