PLAN = dict(
    id="C11",
    pkg="c11", level="exploration",
    rule=("tree: a generated value tree (uint, int, bstr, tstr incl. multi-byte and invalid UTF-8, bool, array, map with keys of mixed "
          "major types and lengths, entries supplied in two drawn permutations and in sorted order, optionally one duplicated key) is turned "
          "into the corresponding Encoder call sequence; the output must decode (independent RFC 8949 decoder) to exactly the tree, be in "
          "deterministic form (shortest heads, keys strictly ascending bytewise), be identical for all caller orders; invalid UTF-8 -> "
          "ErrInvalidUTF8 with nothing written, equal keys -> ErrDuplicatedKey, no error otherwise. ints: one encoder call per boundary value, "
          "The shape sweep includes key sets (text / byte strings of 1..400 octets) that differ in one octet at every position, plus the key cut short and extended. "
          "exact expected bytes. Non-trivial: the tree contains a map with >= 2 keys of different encoded lengths or an integer within +-3 of "
          "a head-size boundary; distinct by fingerprint of the case."),
    assumptions=TRUSTED + ["What the writer holds after a refused call sequence (ErrInvalidUTF8 / ErrDuplicatedKey) is unspecified and not compared, "
                           "except that the refused EncodeTextString call itself must not have written anything"],
    runs=[
        dict(name="conc", run="^(TestConcTree)$", checks=(400, 20000), shards=(2, 8), timeout=(400, 3600), race=True),
        dict(name="exh", run="^(TestExhaustiveInts|TestExhaustiveCodePoints|TestShapeSweep|TestCorpus)$"),
        dict(name="tree", run="^TestPropTree$", checks=(20000, 125000), shards=(1, 16)),
    ],
    technique="rapid-generated value trees driven through the encoder API in permuted caller orders, differential against an independent RFC 8949 decoder and deterministic-encoding judge; exhaustive head-size boundaries with exact expected bytes",
    level_text=("Random value trees (depth <= 5, maps with mixed-type keys in permuted caller orders, duplicate keys, invalid UTF-8) checked "
                "against an independent decoder and the RFC 8949 section 4.2.1 rules, plus an exhaustive enumeration of every integer, count and "
                "string length within +-3 of each head-size boundary with exact expected output. Exploration level: trees are sampled, "
                "only the boundary sub-space is enumerated completely."),
    level_note=NOTE_BASE,
    require=[("tree", "map-mixed-key-types"), ("tree", "dup-key"), ("tree", "invalid-utf8"), ("tree", "nested-map"),
             ("tree", "map-caller-order-not-bytewise"), ("tree", "map-length-first-order-differs"), ("ints", "uint-width8")],
)
