"""Per-property run plans for check.py: each harness/cNN/plan.py defines PLAN = dict(id="CNN", pkg="cNN", ...).

Plan keys: level, rule (evidence text), assumptions, technique, level_text, level_note, runs, require, cli.
Each run spec: name, run (go test -run regexp), checks=(quick, thorough) rapid case counts,
shards=(quick, thorough) processes (each with its own derived seed / enumeration shard),
timeout=(quick, thorough) seconds. Optional: race, fuzz/fuzztime, mem_gb, serial, tier_only.
"""
import glob, os

TRUSTED = ["Go standard library (crypto, net/url, net/http, encoding/*)", "pgregory.net/rapid v1.3.0",
           "the independent reference implementations under /verif/harness/ref (written from the spec texts)"]

NOTE_BASE = ("Trusted base: Go standard library, rapid, and the harness's reference implementations (adjudicated against the cited spec text). "
             "Held-on-everything-explored, not absence of defects; the explored space is described in the evidence file.")

PROPS = {}
NOT_APPLICABLE = {}

_here = os.path.dirname(os.path.abspath(__file__))
for _p in sorted(glob.glob(os.path.join(_here, "harness", "c[0-9][0-9]", "plan.py"))):
    _g = dict(TRUSTED=TRUSTED, NOTE_BASE=NOTE_BASE)
    exec(compile(open(_p).read(), _p, "exec"), _g)
    _plan = _g["PLAN"]
    PROPS[_plan["id"]] = _plan
